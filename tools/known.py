"""known_findings.json handling: a listed finding (matched by its signature against the replay)
is reported as KNOWN-FINDING and does not fail the check; nothing is ever added at run time."""
import json, os
from lib import ROOT


def load():
    p = os.path.join(ROOT, "known_findings.json")
    if not os.path.exists(p):
        return {"findings": [], "fixed": []}
    return json.load(open(p))


def apply(run):
    kf = [f for f in load().get("findings", []) if f.get("property") == run.prop]
    if not kf:
        return
    keep = []
    for path, found in run.violations:
        try:
            rep = json.load(open(path))
        except Exception:
            keep.append((path, found)); continue
        sig = rep.get("signature")
        hit = next((f for f in kf if sig is not None and f.get("signature") == sig), None)
        if hit:
            msg = hit.get("what", sig)
            if msg not in run.known:
                run.known.append(msg)
        else:
            keep.append((path, found))
    run.violations = keep
