"""C17 -- feeding a program in pieces gives the same computation as feeding it whole."""
from lib import *
import audit, generic, qasmcheck, qasmprops
import qasmast as qa
from opsmain import tier_seed
PROP = "C17"
if __name__ == "__main__":
    tier, seed = tier_seed()
    run = Run(PROP, tier, seed)
    binary = build_harness()
    au = audit.audit(PROP)
    cs = qasmprops.c17_cases(run.rng, tier)
    n, dis, obs = qasmprops.c17_run(run, binary, cs, PROP)
    n2 = qasmprops.c17_rerun(run, binary, run.rng, tier)
    gcs = [generic.Case("%s %d chunks: %s" % (c["api"], len(c["chunks"]), qa.p_program(c["whole"])[:200]), None, None, None,
                        kind="%s/%d" % (c["api"], len(c["chunks"]))) for c in cs]
    generic.finish(run, PROP, au, gcs, n + n2, dis,
                   "grammar programs (measure / if / reset / gate definitions) x 3 random partitions into 1..6 chunks x the three incremental "
                   "paths (add_ast; ast_changes + append_int; prepend_int), same seed for incremental and whole: final amplitudes, classical "
                   "register, outcomes, record length, layout -- incremental vs whole on the implementation and incremental vs model; "
                   "reset+finish twice and init with the same / another interpreter must reproduce the run",
                   assumptions=["both runs draw from the same seeded generator (hook)"])
