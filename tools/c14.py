"""C14 -- register construction, tensor product and resizing are exact and size-consistent."""
import math
import numpy as np
from lib import *
import audit, regcheck, generic, gen
from generic import Case
from coqio import cN
from opsmain import tier_seed
from c05 import rand_small_state

PROP = "C14"


def histories(rng, tier):
    hs = []
    # construction: all sizes x indices incl. >= 2^n and usize::MAX
    for n in range(0, 7):
        for st in list(range(0, (1 << (n + 1)) + 1)) + [(1 << 64) - 1, 1 << 63]:
            if n >= 5 and st > 8 and rng.random() < 0.8:
                continue
            hs.append((0, [("with", n, st), ("dump",), ("probs",), ("sample", 0), ("polar",), ("vreglen",)]))
            if st in (0, 1, (1 << n) - 1 if n else 0):
                # the same observables of a multi-threaded register ("any threading model")
                hs.append((0, [("with", n, st), ("threads", 2), ("dump",), ("probs",), ("sample", 3), ("polar",), ("vreglen",)]))
    hs.append((0, [("new", 0), ("dump",), ("probs",), ("polar",), ("vreglen",)]))
    # tensor chains
    for _ in range(60 if tier == "quick" else 2500):
        n = rng.randint(0, 3)
        acts = [("raw", n, rand_small_state(rng, n)), ("dump",)]
        if rng.random() < 0.4:
            acts.insert(1, ("threads", rng.choice(regcheck.thread_counts())))      # "... and threading models"
        tot = n
        for _ in range(rng.randint(1, 3)):
            n2 = rng.randint(0, min(rng.choice([3, 3, 5]), 7 - tot))
            how = rng.choice(["tensorr", "tensorl", "mulassign"])
            if rng.random() < 0.3:
                # both factors threaded, with their own worker counts
                acts.append((how + "t", n2, rand_small_state(rng, n2), rng.choice(regcheck.thread_counts())))
            else:
                acts.append((how, n2, rand_small_state(rng, n2)))
            tot += n2
            acts += [("dump",), ("probs",)]
        hs.append((0, acts))
    # copies made into an existing register of another size (Clone::clone_from): the copy has the source's sizes
    for _ in range(24 if tier == "quick" else 600):
        n = rng.randint(0, 5); k = rng.randint(0, 6)
        acts = [("raw", n, rand_small_state(rng, n))] if rng.random() < 0.5 else [("with", n, rng.randrange(1 << n))]
        if rng.random() < 0.3:
            acts.append(("threads", 2))
        acts += [("clonefrom", k), ("dump",), ("probs",), ("polar",), ("vreglen",), ("sample", 3)]
        if rng.random() < 0.5:
            n2 = rng.randint(0, 2)
            acts += [("tensorr", n2, rand_small_state(rng, n2)), ("dump",), ("vreglen",)]
        else:
            k2 = rng.randint(0, 6)
            acts += [("setnum", k2), ("dump",), ("vreglen",)]
        hs.append((0, acts))
    # grow / shrink sequences
    for _ in range(40 if tier == "quick" else 2000):
        n = rng.randint(0, 4)
        acts = [("raw", n, rand_small_state(rng, n)), ("dump",)]
        for _ in range(rng.randint(1, 8)):
            k = rng.randint(0, 6)
            acts += [("setnum", k), ("dump",), ("probs",), ("polar",), ("vreglen",)]
        hs.append((0, acts))
    return hs


def oracle(acts, recs):
    fails = []
    # replay the history with numpy: expected logical state after every dump
    state = None
    n = 0
    ri = 0
    recs = list(recs)

    def expect(v, want, what):
        if len(v) != max(1 << n, 8):
            fails.append("%s: buffer has %d cells for %d qubits" % (what, len(v), n)); return
        if not vec_close(v[:1 << n], list(want), 1e-9) or any(z != 0 for z in v[1 << n:]):
            fails.append("%s: state differs from the expected one" % what)
    for a in acts:
        k = a[0]
        if k == "with":
            n = a[1]; state = np.zeros(1 << n, dtype=complex); state[a[2] % (1 << n)] = 1
        elif k == "new":
            n = a[1]; state = np.zeros(1 << n, dtype=complex); state[0] = 1
        elif k == "raw":
            n = a[1]; state = np.array(a[2][:1 << n], dtype=complex)
        elif k in ("tensorr", "mulassign", "tensorrt", "mulassignt"):
            other = np.array(a[2][:1 << a[1]], dtype=complex)
            state = np.kron(other, state); n += a[1]       # left factor in the low-order bits
        elif k in ("tensorl", "tensorlt"):
            other = np.array(a[2][:1 << a[1]], dtype=complex)
            state = np.kron(state, other); n += a[1]
        elif k == "setnum":
            if a[1] >= n:
                z = np.zeros(1 << (a[1] - n), dtype=complex); z[0] = 1
                state = np.kron(z, state)
            else:
                state = np.zeros(1 << a[1], dtype=complex); state[0] = 1
            n = a[1]
        elif k == "threads":
            if ri < len(recs) and recs[ri][0] == "t":
                ri += 1
        elif k in ("dump", "probs", "sample", "polar", "vreglen"):
            if ri >= len(recs):
                fails.append("missing record for %s" % k); break
            r = recs[ri]; ri += 1
            if r[0] in ("x", "died"):
                fails.append("panic/abort: %s" % (r,)); break
            if k == "dump":
                if r[1] != n:
                    fails.append("num() = %d, expected %d" % (r[1], n))
                expect(r[2], state, "after %s" % (acts[acts.index(a) - 1][0],))
            elif k == "probs":
                if len(r[1]) != (1 << n):
                    fails.append("probabilities have %d entries for %d qubits" % (len(r[1]), n))
            elif k == "sample":
                if len(r[1]) != (1 << n):
                    fails.append("histogram has %d cells for %d qubits" % (len(r[1]), n))
            elif k == "polar":
                if len(r[1]) != (1 << n):
                    fails.append("amplitudes have %d entries for %d qubits" % (len(r[1]), n))
            elif k == "vreglen":
                if r[1] != (1 << n) - 1 or r[2] != n:
                    fails.append("vreg covers mask %d for %d qubits" % (r[1], n))
    return fails


def creg_cases(rng, tier):
    from coqio import cN, clist
    from generic import Case
    cs = []
    for n in (0, 1, 2, 3, 31, 32, 63):
        for st in sorted({0, 1, 2, (1 << n) - 1 if n else 0, 1 << n, (1 << n) + 1, (1 << 63) | 1, (1 << 64) - 1, rng.getrandbits(64)}):
            val = st & ((1 << n) - 1)

            def pi(payload):
                t = payload.split()
                return ("ok", int(t[1]), int(t[2]), t[3].strip("()")) if t[0] == "OK" else ("bad", payload)

            def pm(v):
                g, num, dbg = v
                return ("fuel",) if dbg == "None" else ("ok", g, num, "".join("1" if b == "true" else "0" for b in dbg[1][0]))
            want = ("ok", val, n, format(val, "0%db" % n) if n else "")
            cs.append(Case("creg %d %d " % (n, st), "run_creg %s %s %s" % (cN(n), cN(st), clist([])), pi, pm,
                           oracle=lambda o, want=want: o == want, kind="creg"))
    for n1, n2 in [(0, 0), (0, 1), (1, 0), (0, 5), (5, 0), (2, 3), (3, 2), (0, 63), (63, 0), (31, 32), (1, 62)]:
        for _ in range(2):
            s1 = rng.getrandbits(min(n1 + 2, 64)); s2 = rng.getrandbits(min(n2 + 2, 64))

            def pi(payload):
                t = payload.split()
                return ("ok", int(t[1]), int(t[2])) if t[0] == "OK" else ("bad", payload)

            def pm(v):
                if v == "None":
                    return ("panic",)
                a, b = v[1][0]
                return ("ok", a, b)
            want = ("ok", n1 + n2, (s1 & ((1 << n1) - 1)) | ((s2 & ((1 << n2) - 1)) << n1))
            cs.append(Case("cmul %d %d %d %d" % (n1, s1, n2, s2), "run_cmul %s %s %s %s" % (cN(n1), cN(s1), cN(n2), cN(s2)),
                           pi, pm, oracle=lambda o, want=want: o == want, kind="cmul"))
    return cs


if __name__ == "__main__":
    tier, seed = tier_seed()
    run = Run(PROP, tier, seed)
    binary = build_harness()
    au = audit.audit(PROP)
    hs = histories(run.rng, tier)
    n, dis, recs = regcheck.run_histories(run, binary, hs, PROP, oracle,
                                          "C14 construction / tensor / set_num raw buffers and sizes", "C14_basis, C14_tensor, C14_sizes, C14_resize")
    cs = [generic.Case(regcheck.hist_harness(s, a)[:400], None, None, None, kind=a[0][0] + "+" + (a[2][0] if len(a) > 2 else "")) for s, a in hs]
    # classical registers alike: the basis value reduced modulo 2^n for every size incl. 0, 1, 2 and 63; products with the
    # empty register on either side and with the left factor in the low bits
    ccs = creg_cases(run.rng, tier)
    n3, dis3, _ = generic.run_generic(run, binary, "bits", ccs, ["RunBits"], PROP + "creg",
                                      "C14 classical registers: construction and products", "C14_basis, C14_tensor", deadline=3.0)
    n += n3; dis = dis + dis3; cs = cs + ccs
    generic.finish(run, PROP, au, cs, n, dis,
                   "with_state for every size 0..6 x every index up to 2^(n+1) plus usize::MAX; tensor chains of up to 4 factors in random "
                   "states (both sides and *=); grow/shrink sequences of up to 8 set_num calls; observables' sizes after every step; "
                   "classical registers: with_state for sizes 0 1 2 3 31 32 63 x indices around 2^n and the word size, printed form, "
                   "products with the empty register on either side",
                   assumptions=[])
