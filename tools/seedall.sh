#!/bin/bash
# run every seeded change against its property's quick check; prints one line per change
cd /verif
for d in seeded/*/; do
  sid=$(basename $d)
  [ -f seeded/$sid/meta.json ] || continue
  prop=$(python3 -c "import json;print(json.load(open('seeded/$sid/meta.json'))['property'])")
  tools/seedrun.sh $sid $prop
done
