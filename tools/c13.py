"""C13 -- ill-formed programs are rejected with the matching error, never executed."""
from lib import *
import audit, generic, qasmcheck, qasmprops
import qasmast as qa
from opsmain import tier_seed
PROP = "C13"
if __name__ == "__main__":
    tier, seed = tier_seed()
    run = Run(PROP, tier, seed)
    binary = build_harness()
    au = audit.audit(PROP)
    cs = qasmprops.c13_cases(run.rng, tier)
    n, dis, obs = qasmcheck.run_programs(run, binary, cs, PROP, qasmprops.c13_oracle,
                                         "C13 error variant and payload of programs with one planted violation", "C13_reject, C13_accept")
    gcs = [generic.Case(qa.p_program(c["chunks"][-1])[:300], None, None, None, kind=c["rule"]) for c in cs]
    generic.finish(run, PROP, au, gcs, n, dis,
                   "for each well-formed grammar program every static rule of the property gets one planted violation at a random "
                   "statement position (about 35 mutants per program, a quarter of them also arriving in a later chunk through add_ast / "
                   "ast_changes); error variant and payload against the model; the expected variant is known by construction; the "
                   "unmutated program must be accepted",
                   assumptions=["the lazily validated gate body (unknown gate name inside a never-called definition) is recorded as finding K2"])
