"""C07 -- measurement outcomes follow the Born rule (partial: logic proved, randomness tested)."""
import math, struct
from scipy import stats
from lib import *
import audit, regcheck, generic, gen
from generic import Case
from coqio import fhex, clist
from opsmain import tier_seed
from c05 import rand_small_state
from c06 import prep

PROP = "C07"
ALPHA = 1e-6


def histories(rng, tier):
    hs = []
    shots = 4000 if tier == "quick" else 25000
    for n in range(1, 5):
        for rep in range(3 if tier == "quick" else 6):
            base = prep(rng, n) if rng.random() < 0.6 else [("raw", n, rand_small_state(rng, n))]
            full = (1 << n) - 1
            m1 = rng.randrange(1, 1 << n); m2 = rng.randrange(1, 1 << n)
            acts = list(base)
            if rep % 3 == 2:
                acts.append(("threads", 4))
            acts += [("dump",), ("probs",), ("freq", shots, full), ("freq", shots, m1),
                     ("seqfreq", shots, m1, m2), ("seqfreq", shots, m2, m1),
                     ("samplestats", 100000, 60 if tier == "quick" else 400)]
            hs.append((rng.randrange(1 << 30), acts))
    # masks with gaps (measured qubits on both sides of an unmeasured one), in both orders, every run: the joint
    # distribution of two successive measurements and the probabilities reported in between
    for n, pairs in ((3, [(0b101, 0b010), (0b010, 0b101)]), (4, [(0b1001, 0b0110), (0b1010, 0b0101), (0b1011, 0b0100), (0b0101, 0b1000)])):
        for m1, m2 in pairs:
            acts = [("raw", n, gen.random_state(rng, n)), ("dump",), ("probs",), ("seqfreq", shots, m1, m2), ("seqfreq", shots, m2, m1),
                    ("measure", m1), ("dump",), ("probs",), ("freq", shots // 2, m2)]
            hs.append((rng.randrange(1 << 30), acts))
    # "independent of ... the threading model": every admissible worker count (those that do not divide the
    # buffer included) on 4-5 qubit registers with weight on the highest basis states
    for k in regcheck.thread_counts():
        for n in (4, 5):
            hi = 1 << (n - 1)
            acts = [("raw", n, gen.random_state(rng, n)), ("threads", k), ("dump",), ("probs",),
                    ("freq", shots // 4, (1 << n) - 1), ("seqfreq", shots // 4, hi | 1, 6), ("seqfreq", shots // 4, 6, hi | 1),
                    ("samplestats", 20000, 30 if tier == "quick" else 200)]
            hs.append((rng.randrange(1 << 30), acts))
    # many more cells than parallel work pieces: 7-8 qubits under 2 and 3 workers, marginal spreads
    for k, n in ((2, 8), (3, 7), (2, 7)):
        if k in regcheck.thread_counts():
            st = gen.random_state(rng, n) if k == 3 else [complex((1 << n) ** -0.5, 0)] * (1 << n)
            hs.append((rng.randrange(1 << 30), [("raw", n, st), ("threads", k), ("dump",), ("probs",),
                                                ("samplestats", 1 << 20, 60 if tier == "quick" else 300)]))
    # registers with a past (grown, shrunk, regrown, multiplied from smaller ones, measured before): reported
    # probabilities, measurement frequencies and the histogram's expectation
    hs += regcheck.lifecycle_histories(rng, tier, lambda r, n: [("dump",), ("probs",), ("freq", shots // 2, (1 << n) - 1),
                                                                 ("samplestats", 20000, 30 if tier == "quick" else 200)],
                                       sizes=(1, 2, 3, 4))
    return hs


def chi2_fail(obs, probs, shots):
    """True when the observed counts are incompatible with probs at level ALPHA"""
    keys = sorted(set(obs) | set(k for k, p in probs.items() if p > 0))
    for k in obs:
        if probs.get(k, 0.0) <= 1e-15 and obs[k] > 0:
            return "outcome %d observed %d times but has probability 0" % (k, obs[k])
    exp = [(k, probs.get(k, 0.0) * shots) for k in keys if probs.get(k, 0.0) > 1e-15]
    # merge small expectations
    big = [(k, e) for k, e in exp if e >= 5]
    small_e = sum(e for k, e in exp if e < 5); small_o = sum(obs.get(k, 0) for k, e in exp if e < 5)
    o = [obs.get(k, 0) for k, e in big]; e = [x for _, x in big]
    if small_e > 0:
        o.append(small_o); e.append(small_e)
    if len(e) < 2:
        return None
    stat = sum((a - b) ** 2 / b for a, b in zip(o, e))
    pval = stats.chi2.sf(stat, len(e) - 1)
    if pval < ALPHA:
        return "chi-square %.1f on %d cells, p = %.2e" % (stat, len(e), pval)
    return None


def oracle(acts, recs):
    fails = []
    n = None; v = None
    fr = [a for a in acts if a[0] in ("freq", "seqfreq", "samplestats")]
    fi = 0
    for r in recs:
        if r[0] == "d":
            n, v = r[1], r[2]
            # Born rule over the register's own 2^n states (a padding cell is not a basis state)
            tot = sum(abs(z) ** 2 for z in v[:1 << n])
            p = [abs(z) ** 2 / tot for z in v[:1 << n]]
        elif r[0] == "p":
            if not vec_close(r[1], p, 1e-9):
                fails.append("reported probabilities differ from |psi|^2 / sum")
        elif r[0] == "f":
            a = fr[fi]; fi += 1
            shots = a[1]
            mask = a[2] if a[0] == "freq" else (a[2] | a[3])
            want = {}
            for i, pi in enumerate(p):
                want[i & mask] = want.get(i & mask, 0.0) + pi
            msg = chi2_fail(r[1], want, shots)
            if msg:
                fails.append("%s %s: %s" % (a[0], a[2:], msg))
        elif r[0] == "s":
            a = fr[fi]; fi += 1
            count, reps = a[1], a[2]
            for i, pi in enumerate(p):
                if count * pi < 50:
                    if pi == 0 and r[1][i] != 0:
                        fails.append("cell %d has shots at probability 0" % i)
                    continue
                mean = r[1][i] / reps
                var = max(r[2][i] / reps - mean * mean, 0.0)
                tvar = count * pi * (1 - pi) + 1 / 12
                z = (mean - count * pi) / math.sqrt(tvar / reps)
                if abs(z) > 5.5:
                    fails.append("cell %d: mean %.2f vs %.2f expected (z = %.1f)" % (i, mean, count * pi, z))
                # sample variance over `reps` histograms: chi-square band at 1e-7 per cell (0.28 .. 2.3 at 60 repetitions),
                # widened by a tenth for the rounding / clamping of the counts
                lo = stats.chi2.ppf(1e-7, reps - 1) / (reps - 1) * 0.9
                hi = stats.chi2.ppf(1 - 1e-7, reps - 1) / (reps - 1) * 1.1
                if tvar > 20 and not (lo < var / tvar < hi):
                    fails.append("cell %d: spread %.1f vs %.1f expected" % (i, var, tvar))
        elif r[0] == "g":
            # the cells' joint behaviour: the number of shots with qubit k = 1 has mean count * P(k = 1) and the
            # binomial spread count * P (1 - P) (C07_histogram_moments: the covariance identity of the centred draws)
            a = fr[fi - 1]
            count, reps = a[1], a[2]
            for k in range(len(r[1])):
                pk = sum(pi for i, pi in enumerate(p) if (i >> k) & 1)
                tvar = count * pk * (1 - pk)
                if tvar < 50:
                    continue
                mean = r[1][k] / reps
                var = max(r[2][k] / reps - mean * mean, 0.0)
                z = (mean - count * pk) / math.sqrt(tvar / reps)
                if abs(z) > 5.5:
                    fails.append("shots with qubit %d set: mean %.2f vs %.2f expected (z = %.1f)" % (k, mean, count * pk, z))
                lo = stats.chi2.ppf(1e-7, reps - 1) / (reps - 1) * 0.9
                hi = stats.chi2.ppf(1 - 1e-7, reps - 1) / (reps - 1) * 1.1
                if not (lo < var / tvar < hi):
                    fails.append("shots with qubit %d set: spread %.1f vs %.1f expected (the cells do not vary independently "
                                 "as the Born rule demands)" % (k, var, tvar))
        elif r[0] in ("x", "died"):
            fails.append("panic/abort %s" % (r,))
    return fails


def oracle_collapse(acts, recs):
    """registers too large for a dump: after measure_mask(m) = v the reported probabilities lie on the states that agree
    with v on m, the same mask read again gives v again, and the total stays 1"""
    fails = []
    ms = [a[1] for a in acts if a[0] == "measure"]
    mi = 0; last = None
    for r in recs:
        if r[0] == "m":
            m = ms[mi]; mi += 1
            if last is not None and last[0] == m and last[1] != r[1]:
                fails.append("mask %#x read %#x and then %#x" % (m, last[1], r[1]))
            if r[1] & ~m:
                fails.append("outcome %#x outside the mask %#x" % (r[1], m))
            last = (m, r[1])
        elif r[0] == "p" and last is not None:
            m, v = last
            on = sum(x for i, x in enumerate(r[1]) if i & m == v)
            if abs(on - 1) > 1e-9 or abs(sum(r[1]) - 1) > 1e-9:
                fails.append("measured %#x under mask %#x, but the register reports %.6g of its probability on the states "
                             "consistent with that value (total %.6g)" % (v, m, on, sum(r[1])))
        elif r[0] in ("x", "died"):
            fails.append("panic/abort %s" % (r,))
    return fails


def sampler_cases(rng, tier):
    cs = []
    for _ in range(300 if tier == "quick" else 3000):
        k = rng.randint(1, 9)
        w = [rng.random() if rng.random() < 0.8 else 0.0 for _ in range(k)]
        kind = "valid"
        r = rng.random()
        if r < 0.05:
            w = [0.0] * k; kind = "allzero"
        elif r < 0.08:
            w[rng.randrange(k)] = -0.5; kind = "negative"
        elif r < 0.10:
            w[rng.randrange(k)] = float("nan"); kind = "nan"
        elif all(x == 0 for x in w):
            kind = "allzero"
        x = rng.getrandbits(64)
        total = 0.0
        for y in w:
            total += y
        v12 = 1.0 + (x >> 12) / 2.0 ** 52
        chosen = v12 * total - total if kind == "valid" else 0.0
        # boundary-robust cases only: keep the draw away from every cumulative weight
        cum = 0.0; near = False
        for y in w:
            cum += y
            if abs(chosen - cum) <= 1e-9 * max(total, 1e-300):
                near = True
        if near:
            continue
        h = "wsample %016x %d %s" % (x, k, " ".join(hexf(y) for y in w))
        c = "run_wsample %s %s" % (clist([fhex(y) for y in w]), fhex(chosen))

        def pi(payload):
            t = payload.split()
            return ("ok", int(t[1])) if t[0] == "OK" else ("err",)

        def pm(v):
            return ("err",) if v == "None" else ("ok", v[1][0])
        cs.append(Case(h, c, pi, pm, kind="sampler:" + kind))
    return cs


if __name__ == "__main__":
    tier, seed = tier_seed()
    run = Run(PROP, tier, seed)
    binary = build_harness()
    au = audit.audit(PROP)
    hs = histories(run.rng, tier)
    n, dis, recs = regcheck.run_histories(run, binary, hs, PROP, oracle,
                                          "C07 reported probabilities (model) / outcome frequencies (Born sums)",
                                          "C07_probabilities, C07_sampler_interval", deadline=240.0)
    # registers of 15-16 qubits, serial and threaded (implementation only): a mask with the highest qubits read twice
    wide = regcheck.wide_histories(run.rng, tier, lambda r, n_, hi: [("measure", (1 << hi[1]) | (1 << hi[2]) | 2), ("probs",),
                                                                      ("measure", (1 << hi[1]) | (1 << hi[2]) | 2), ("probs",),
                                                                      ("measure", 1 << hi[0]), ("probs",)])
    n += regcheck.run_unmodelled(run, binary, wide, oracle_collapse)
    scs = sampler_cases(run.rng, tier)
    n2, dis2, _ = generic.run_generic(run, binary, "sampler", scs, ["RunReg"], PROP + "s",
                                      "Sampler.v vs rand::WeightedIndex under a scripted generator", "C07_sampler_interval")
    cs = [generic.Case(regcheck.hist_harness(s, a)[:300], None, None, None, kind="stat n=%d" % a[0][1]) for s, a in hs] + scs
    generic.finish(run, PROP, au, cs, n + n2, dis + dis2,
                   "states prepared by circuits on 1..4 qubits (single- and 4-thread registers): reported probabilities vs model, "
                   "measure_mask frequencies over %d fresh clones (full mask, partial mask, two masks in both orders) by chi-square at "
                   "1e-6, sample_all(100000) means and spreads over repeated draws; Sampler.v against rand::WeightedIndex on scripted "
                   "draws (valid weights away from boundaries, all-zero / negative / NaN weights); registers of 15-16 qubits, serial and "
                   "threaded, a mask with the highest qubits read twice (implementation only: reported probabilities lie on the states "
                   "consistent with the outcome)" % (4000 if tier == "quick" else 25000),
                   assumptions=["statistical verdicts are reproducible for a given VERIF_SEED (seedable RNG hook); they support but do "
                                "not prove the distributional claim: uniformity of thread_rng and normality of StandardNormal are trusted"])
