"""C19 -- concurrent use of registers neither deadlocks nor changes results (partial)."""
import os
from lib import *
import audit, generic, coqio
from coqio import cN, clist
from opsmain import tier_seed

PROP = "C19"
CORES = os.cpu_count() or 4


def scenarios(rng, tier):
    sc = []
    reps = 1 if tier == "quick" else 20
    for _ in range(reps):
        # OS threads, equal and different thread counts
        for threads in (2, 4, 8, 16):
            for ks in ([2], [2, 3], [2, 3, 4, 5], [1, 2, CORES], [rng.randint(1, CORES) for _ in range(4)]):
                sc.append("os %d %d %d %s" % (threads, rng.randint(1, 3), rng.randint(3, 8), ",".join(map(str, ks))))
        # workers of the caller's own pool (nested parallel iterator)
        for outer in (2, 3, 4, 8):
            for ks in ([2], [2, 3], list(range(1, outer + 1)), [outer, 2], [rng.randint(1, outer) for _ in range(5)]):
                ks = [k for k in ks if k <= outer] or [1]
                sc.append("nested %d %d %d %s" % (outer, rng.choice([8, 16, 64]), rng.randint(3, 7), ",".join(map(str, ks))))
        # first-use race on the lazily created pool (fresh process each)
        for threads in (2, 4, 8):
            sc.append("first %d %d %s" % (threads, rng.randint(3, 6), ",".join(str(rng.randint(2, 4)) for _ in range(threads))))
            sc.append("first %d %d %s" % (threads, rng.randint(3, 6), "3"))
    return sc


if __name__ == "__main__":
    tier, seed = tier_seed()
    run = Run(PROP, tier, seed)
    binary = build_harness()
    au = audit.audit(PROP)
    sc = scenarios(run.rng, tier)
    traces = []
    hangs = 0
    for i, s in enumerate(sc):
        if hangs >= 2:
            traces.append(None)      # two hanging scenarios are enough of a verdict; do not wait for more deadlines
            continue
        # one fresh process per scenario (the pool is process-wide and lazily created), under a deadline
        out = run_harness(binary, "conc", [("0", s)], deadline=25.0)["0"]
        if out.startswith("TIMEOUT") or out.startswith("ABORT") or out.startswith("PANIC"):
            hangs += 1
            if hangs <= 3:
                run.violation({"what": "concurrent use of registers did not return (deadlock) or crashed: %s" % out[:200],
                               "scenario": s, "harness": "conc " + s})
            traces.append(None)
            continue
        parts = out.split(" | ")
        dig = parts[0].split()[2:]
        solo = parts[1].split()[1:]
        if dig != solo:
            run.violation({"what": "a register driven concurrently computed something else than the same calls made alone",
                           "scenario": s, "harness": "conc " + s, "concurrent": dig, "alone": solo})
        tr = parts[2].split()[2:]
        traces.append([tuple(int(x) for x in e.split(":")) for e in tr])
    # trace conformance: every recorded event sequence must be a run of the protocol machine
    idx = [i for i, t in enumerate(traces) if t is not None]
    terms = ["run_pool_trace %s" % clist(["(%s, %s, %s)" % (cN(a), cN(b), cN(c)) for (a, b, c) in traces[i]]) for i in idx]
    vals = coqio.run_terms(terms, ["RunPool"], PROP, shard_size=8)
    refused = 0
    total_events = 0
    for i, v in zip(idx, vals):
        okb, at, unfinished = v
        total_events += len(traces[i])
        if okb != "true" or unfinished != 0:
            refused += 1
            if refused <= 3:
                ev = traces[i][at] if at < len(traces[i]) else None
                names = ["ReadAcq", "ReadRel", "WriteAcq", "WriteRel", "JobBegin", "JobEnd"]
                run.violation({"relation": "C19 trace conformance with Model/Pool.v", "theorem": "C19_progress",
                               "what": "the recorded lock / job events are not a run of the protocol machine (event %d: %s) -- the lock "
                                       "discipline the progress theorem is about no longer holds; no hanging run was observed" % (
                                           at, (ev[0], ev[1], names[ev[2]]) if ev else "unfinished calls at the end"),
                               "scenario": sc[i], "harness": "conc " + sc[i],
                               "events_around": [(a, b, names[c]) for (a, b, c) in traces[i][max(0, at - 6):at + 3]]},
                              found_input=False)
    cs = [generic.Case(s, None, None, None, kind=s.split()[0]) for s in sc]
    generic.finish(run, PROP, au, cs, len(sc), [],
                   "stress under a supervising process with a 25 s deadline, one fresh process per scenario: 2..16 OS threads and nested "
                   "parallel-iterator workers of a caller pool of 2..8, per-register thread counts equal and different, first-use race at a "
                   "barrier; each register's final buffer hashed and compared with the same calls made alone; every recorded sequence of "
                   "lock acquisitions / releases and job begin / end events (traced-lock hook) replayed through the protocol machine in Coq",
                   assumptions=["the real RwLock, rayon's install and cross-pool waiting, OS scheduling and fairness are outside the model; "
                                "the theorem covers every schedule of the protocol machine, the runs sample the real one",
                                "machine offers %d threads" % CORES],
                   extra_cov={"traces_validated_against_impl": len(idx), "trace_events": total_events, "hangs": hangs})
