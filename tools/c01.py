"""C01 -- every built-in gate acts as its documented unitary on exactly the masked qubits."""
import sys, itertools
from lib import *
import audit, opscheck, gen
from opexpr import popcount

PROP = "C01"


def cases(rng, tier):
    cs = []
    nmax = 3 if tier == "quick" else 4
    # (a) matrix(n) for every constructor x every mask of an n-qubit register (valid or not)
    for n in range(0, nmax + 1):
        for kind in gen.ALL_KINDS:
            if kind == "id":
                cs.append({"kind": "matrix", "n": n, "e": ("id",)}); continue
            for m in range(1 << n):
                reps = 1 if kind in gen.NOPARAM1 + gen.NOPARAM2 else (2 if tier == "quick" else 4)
                for _ in range(reps):
                    cs.append({"kind": "matrix", "n": n, "e": gen.gate(kind, m, rng)})
    # angle sweep on one mask
    for kind in gen.PARAM1 + gen.PARAM2 + ["u2", "u3"]:
        m = 0b10 if kind in gen.PARAM1 + ["u2", "u3"] else 0b101
        for a in gen.ANGLES:
            e = {"u2": ("u2", a, 0.4, m), "u3": ("u3", a, -1.1, 2.2, m)}.get(kind, (kind, a, m))
            cs.append({"kind": "matrix", "n": 3, "e": e})
            if kind == "u3":
                cs.append({"kind": "matrix", "n": 3, "e": ("u3", 0.9, a, 0.3, m)})
                cs.append({"kind": "matrix", "n": 3, "e": ("u3", 0.9, 0.3, a, m)})
    # (b) register path on dense states, n = 0..5 (padding for n < 3)
    for n in range(0, 6):
        reps = 12 if tier == "quick" else 300
        for _ in range(reps):
            g = gen.random_gate(rng, n)
            cs.append({"kind": "applyraw", "n": n, "raw": gen.random_state(rng, n), "e": g})
    # (c) every mask of 4 (5) qubits for the multi-bit gates, on basis states
    nn = 4 if tier == "quick" else 5
    for kind in gen.NOPARAM1:
        for m in range(1 << nn):
            cs.append({"kind": "applybasis", "n": nn, "j": rng.randrange(1 << nn), "e": (kind, m)})
    for kind in gen.NOPARAM2 + gen.PARAM2:
        for m in gen.valid_masks(kind, nn):
            cs.append({"kind": "applybasis", "n": nn, "j": rng.randrange(1 << nn), "e": gen.gate(kind, m, rng)})
    # (c') the several-bit gates on masks of 7-10 bits (counts beyond one period of i and of e^{i pi/4}), basis states
    # with all / most of the selected qubits set
    for n in ((9,) if tier == "quick" else (8, 9, 10)):
        for kind in gen.NOPARAM1:
            for m in ((1 << n) - 1, (1 << n) - 2, rng.getrandbits(n) | 0b1111111):
                for j in ((1 << n) - 1, m, rng.randrange(1 << n)):
                    cs.append({"kind": "applybasis", "n": n, "j": j, "e": (kind, m)})
    # (d) high bit positions through sparse probes
    top = 12 if tier == "quick" else 20
    for _ in range(60 if tier == "quick" else 1500):
        kind = rng.choice(gen.ALL_KINDS[:-1])
        need = 2 if kind in gen.PARAM2 + gen.NOPARAM2 else (1 if kind in gen.PARAM1 + ["u2", "u3"] else rng.choice([1, 2, 3]))
        bits = rng.sample(range(top + 1), need)
        if rng.random() < 0.5 and top not in bits:
            bits[0] = top
        m = sum(1 << b for b in bits)
        n = top + 1
        j = rng.randrange(1 << n)
        idxs = sorted({j, j ^ m} | {j ^ (1 << b) for b in bits} | {rng.randrange(1 << n)})
        cs.append({"kind": "probe", "n": n, "j": j, "idxs": idxs, "e": gen.gate(kind, m, rng)})
    # (d') registers of 14-17 qubits, serial and threaded, every bit of the gate on the highest qubits (beyond any block of
    # cells a kernel might work in): every several-bit kind systematically, the rest at random
    for kind in gen.NOPARAM1:
        for th in (1, 2, 3, 4):
            for nb in (2, 3):
                cs.append(gen.high_probe(rng, kind, nbits=nb, nctrl=0, threads=th, lo=rng.choice([10, 12, 14])))
    for _ in range(60 if tier == "quick" else 1500):
        cs.append(gen.high_probe(rng, rng.choice(gen.ALL_KINDS[:-1]), nctrl=rng.choice([0, 0, 0, 1])))
    # (e) structure of h on wide masks (no simulation): len / act_on of every element
    for _ in range(40):
        m = rng.getrandbits(rng.choice([8, 16, 32, 48, 62]))
        cs.append({"kind": "struct", "e": ("h", m)})
    # (f) refusal on wide masks
    for kind in gen.PARAM1 + gen.PARAM2 + gen.NOPARAM2 + ["u2", "u3"]:
        for _ in range(4):
            m = rng.getrandbits(rng.choice([3, 8, 40, 62]))
            cs.append({"kind": "struct", "e": gen.gate(kind, m, rng)})
    return cs


def main():
    tier = os.environ.get("VERIF_TIER", "quick")
    if "--tier" in sys.argv:
        tier = sys.argv[sys.argv.index("--tier") + 1]
    seed = int(os.environ.get("VERIF_SEED", "1"))
    run = Run(PROP, tier, seed)
    binary = build_harness()
    au = audit.audit(PROP)
    cs = cases(run.rng, tier)
    n, dis = opscheck.run_cases(run, binary, cs, PROP, relation="C01 gate application / matrix(n) / refusal",
                                theorem_hint="C01_single_bit, C01_rot1, C01_two_bit, C01_refuse")
    if au["problems"] and not run.violations:
        # proof layer broken: the full oracle sweep found nothing
        run.violation({"what": "proof obligations of C01 no longer check", "problems": au["problems"]},
                      found_input=False)
    kinds = {}
    for c in cs:
        key = c["kind"] + ":" + c["e"][0]
        kinds[key] = kinds.get(key, 0) + 1
    distinct = len({opscheck.harness_text(c) for c in cs})
    run.coverage = {
        "obligations": au["obligations"], "discharged": au["discharged"],
        "checker_cmd": au["checker_cmd"],
        "trusted_base": ["Coq 8.16.1 kernel (coqc), vm_compute for the correspondence runs",
                         "axioms: " + ", ".join(sorted(audit.ALLOWED_AXIOMS)),
                         "hand-written model coq/theories/Model/{Bits,Scalar,Vec,Atomic,Op,Expr}.v tied to /repo by the "
                         "correspondence check (harness/ + tools/opscheck.py); float/real gap (tolerance 1e-9)"],
        "theorems": au["theorems"],
        "evaluations": n, "distinct_nontrivial": distinct,
        "rule": "every constructor x every mask of registers up to %d qubits (matrix), dense random states on the register "
                "path n=0..5, every mask of %d qubits on basis states, sparse probes at bit positions up to %d, structure "
                "and refusal on wide masks; sparse probes on registers of 14-17 qubits, serial and under 2-7 workers, every bit of the "
                "gate on qubits 10-16; distinct = distinct harness case lines" % (3 if tier == "quick" else 4,
                                                                                     4 if tier == "quick" else 5,
                                                                                     12 if tier == "quick" else 20),
        "disagreements_checked": len(dis),
        "input_distribution": kinds,
        "samples": [opscheck.harness_text(c)[:300] for c in run.rng.sample(cs, 5)],
        "exhaustive": False,
    }
    run.assumptions = ["IEEE rounding is not modelled: theorems are over R, correspondence compares at 1e-9",
                       "bit positions above %d are tied only through the theorems' uniformity in the bit position" % (12 if tier == "quick" else 20)]
    sys.exit(run.finish())


if __name__ == "__main__":
    main()
