"""C02 -- controlled operators act only where all control qubits are 1."""
from lib import *
import gen, opsmain
from opexpr import popcount, act_on, ASSEMBLY

PROP = "C02"


def rand_product(rng, n, k):
    e = gen.random_gate(rng, n)
    for _ in range(k - 1):
        e = (rng.choice(["mul", "mul", "mulassign", "append", "pushsingles", "pushfront", "mulsingles", "mulrefmut", "pushback", "wrapped"]), e, gen.random_gate(rng, n))
    return e


def cases(rng, tier):
    cs = []
    nmax = 3 if tier == "quick" else 4
    # every gate kind x every mask x every control mask (disjoint or overlapping), matrix(n)
    for n in range(1, nmax + 1):
        for kind in gen.ALL_KINDS:
            for m in gen.valid_masks(kind, n):
                for c in range(1 << n):
                    if tier == "quick" and n == 3 and rng.random() < 0.5:
                        continue
                    g = gen.gate(kind, m, rng)
                    if rng.random() < 0.3:
                        g = ("dgr", g)
                    cs.append({"kind": "matrix", "n": n, "e": ("c", c, g)})
    # nested controls, controls on products / qft / h-products / already controlled operators
    n = 4
    for _ in range(150 if tier == "quick" else 4000):
        base = rng.choice([lambda: rand_product(rng, n, rng.randint(2, 6)),
                           lambda: ("qft", rng.randrange(1, 1 << n)),
                           lambda: ("h", rng.randrange(1 << n)),
                           lambda: gen.random_gate(rng, n)])()
        a = rng.randrange(1 << n); b = rng.randrange(1 << n)
        e = ("c", b, ("c", a, base)) if rng.random() < 0.6 else ("c", a | b, base)
        if rng.random() < 0.3:
            e = ("dgr", e)
        cs.append({"kind": "matrix", "n": n, "e": e})
    # every way of assembling a product x a control that is accepted: the factors sit on the low qubits, the controls
    # on the high ones (one mask, nested, before and after a dagger), so that the request is never refused
    for _ in range(120 if tier == "quick" else 3000):
        n = rng.choice([4, 5]); lo = rng.choice([2, 3])
        how = rng.choice(ASSEMBLY)
        k = rng.randint(2, 5)
        cut = rng.randint(1, k - 1)
        left = [gen.random_gate(rng, lo, allow_empty=False) for _ in range(cut)]
        right = [gen.random_gate(rng, lo, allow_empty=False) for _ in range(k - cut)]
        if rng.random() < 0.35:
            right[-1] = left[0]       # a product framed by the same gate (V U V)
        chain = lambda gs: gs[0] if len(gs) == 1 else ("mul", chain(gs[:-1]), gs[-1])
        e = (how, chain(left), chain(right))
        hi = [c for c in range(1, 1 << n) if not c & ((1 << lo) - 1)]
        c1 = rng.choice(hi)
        form = rng.random()
        if form < 0.5:
            e = ("c", c1, e)
        elif form < 0.7:
            e = ("dgr", ("c", c1, e))
        elif form < 0.85:
            e = ("c", c1, ("dgr", e))
        else:
            rest = [c for c in hi if not c & c1]
            e = ("c", rng.choice(rest), ("c", c1, e)) if rest else ("c", c1, e)
        if rng.random() < 0.5:
            cs.append({"kind": "matrix", "n": n, "e": e})
        else:
            cs.append({"kind": "applyraw", "n": n, "raw": gen.random_state(rng, n), "e": e})
    # the documented products u3 / u2 with equal outer angles (rz(p) ry rz(p)) and hand-made framed products, controlled
    for n_, m_, c_ in ((2, 1, 2), (3, 2, 5), (3, 4, 1), (4, 1, 12)):
        for e in (("u3", 1.23456, 0.7, 0.7, m_), ("u3", -0.7, 7.5, 7.5, m_), ("u2", 1.23456, 1.23456, m_),
                  ("mul", ("mul", ("s", m_), ("x", m_)), ("s", m_)), ("mul", ("mul", ("t", m_), ("h", m_)), ("t", m_)),
                  ("mul", ("mul", ("rz", 0.7, m_), ("ry", 0.3, m_)), ("rz", 0.7, m_))):
            cs.append({"kind": "matrix", "n": n_, "e": ("c", c_, e)})
    # dense states on the register path
    for _ in range(60 if tier == "quick" else 1500):
        n = rng.randint(2, 5)
        g = gen.random_gate(rng, n)
        free = [c for c in range(1 << n) if not c & act_on(g)]
        c = rng.choice(free)
        cs.append({"kind": "applyraw", "n": n, "raw": gen.random_state(rng, n), "e": ("c", c, g)})
    # the threaded kernels with control qubits beyond the first block of 64 amplitudes (registers of 7-9 qubits)
    for _ in range(24 if tier == "quick" else 600):
        n = rng.randint(7, 9)
        g = gen.random_gate(rng, min(n, 6))
        hi = 1 << rng.randint(6, n - 1)
        free = [c for c in range(1 << n) if not c & act_on(g)]
        c = (rng.choice(free) | hi) & ~act_on(g)
        cs.append({"kind": "applyraw", "n": n, "raw": gen.random_state(rng, n), "e": ("c", c, g), "threads": rng.choice([2, 3, 5])})
    # registers of 14-17 qubits, serial and threaded: one to three controls and the gate all on the highest qubits, basis
    # states with all / some / none of the controls set (blocks of cells a kernel might skip or copy as a whole)
    for _ in range(120 if tier == "quick" else 3000):
        cs.append(gen.high_probe(rng, rng.choice(gen.ALL_KINDS[:-1]), nctrl=rng.choice([1, 2, 2, 3])))
    # SingleOp::c called directly on an element of a queue (plain, already controlled once or twice): every mask
    n = 4
    for _ in range(40 if tier == "quick" else 600):
        g = gen.random_gate(rng, n)
        free = [c for c in range(1 << n) if not c & act_on(g)]
        c1 = rng.choice(free)
        e = rng.choice([g, ("c", c1, g), ("c", c1, g), ("mul", ("c", c1, g), gen.random_gate(rng, n)), ("dgr", ("c", c1, g))])
        if rng.random() < 0.3:
            free2 = [c for c in range(1 << n) if not c & (act_on(g) | c1)]
            e = ("c", rng.choice(free2), e) if free2 and e[0] != "mul" else e
        for mask in (range(1 << n) if tier != "quick" else rng.sample(range(1 << n), 6) + [c1, c1 | 1, c1 | 8]):
            cs.append({"kind": "singlec", "n": n, "idx": rng.choice([0, 0, 0, 1]), "mask": mask, "e": e})
    # act_on / refusal on wide masks
    for _ in range(60):
        w = rng.choice([8, 24, 48, 62])
        kind = rng.choice(gen.NOPARAM1)
        m = rng.getrandbits(w); c = rng.getrandbits(w)
        if rng.random() < 0.5:
            c &= ~m
        e = ("c", c, (kind, m))
        if rng.random() < 0.4:
            c2 = rng.getrandbits(w)
            e = ("c", c2, e)
        cs.append({"kind": "struct", "e": e})
    return cs


if __name__ == "__main__":
    opsmain.main(PROP, cases, "C02 controlled application / refusal / act_on",
                 "C02_semantics, C02_refusal, C02_act_on",
                 "every gate kind x every valid mask x every control mask (disjoint and overlapping) on registers of 1..3(4) "
                 "qubits via matrix(n); nested controls and controls on products/qft/h on 4 qubits; dense states; wide masks; SingleOp::c called directly on (already controlled) queue elements, all masks; "
                 "sparse probes on registers of 14-17 qubits (serial and under 2-7 workers) with 1-3 controls and the gate on qubits 10-16, "
                 "basis states with all / some / none of the controls set")
