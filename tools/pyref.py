"""Reference semantics of OpenQASM 2.0 programs (python / numpy), independent of the Coq model:
qelib1.inc gate bodies over the two primitives U(theta,phi,lambda) = Rz(phi) Ry(theta) Rz(lambda)
and CX, the documented matrices for the qvnt extensions, statement-by-statement execution with
measure / if / reset / barrier.  Used only to search for a failing input after a disagreement."""
import math, cmath
import numpy as np
import opexpr


class Unsupported(Exception):
    pass


class IllFormed(Exception):
    pass


def U(theta, phi, lam):
    c, s = math.cos(theta / 2), math.sin(theta / 2)
    return np.array([[cmath.exp(-0.5j * (phi + lam)) * c, -cmath.exp(-0.5j * (phi - lam)) * s],
                     [cmath.exp(0.5j * (phi - lam)) * s, cmath.exp(0.5j * (phi + lam)) * c]], dtype=complex)


PI = math.pi
# standard qelib1.inc, transcribed: name -> (nparams, nqubits, body) with body over lower-level names
QELIB = {
    "u3": (3, 1, lambda p, q: [("U", p, q)]),
    "u2": (2, 1, lambda p, q: [("U", (PI / 2, p[0], p[1]), q)]),
    "u1": (1, 1, lambda p, q: [("U", (0, 0, p[0]), q)]),
    "cx": (0, 2, lambda p, q: [("CX", (), q)]),
    "id": (0, 1, lambda p, q: [("U", (0, 0, 0), q)]),
    "x": (0, 1, lambda p, q: [("u3", (PI, 0, PI), q)]),
    "y": (0, 1, lambda p, q: [("u3", (PI, PI / 2, PI / 2), q)]),
    "z": (0, 1, lambda p, q: [("u1", (PI,), q)]),
    "h": (0, 1, lambda p, q: [("u2", (0, PI), q)]),
    "s": (0, 1, lambda p, q: [("u1", (PI / 2,), q)]),
    "sdg": (0, 1, lambda p, q: [("u1", (-PI / 2,), q)]),
    "t": (0, 1, lambda p, q: [("u1", (PI / 4,), q)]),
    "tdg": (0, 1, lambda p, q: [("u1", (-PI / 4,), q)]),
    "rx": (1, 1, lambda p, q: [("u3", (p[0], -PI / 2, PI / 2), q)]),
    "ry": (1, 1, lambda p, q: [("u3", (p[0], 0, 0), q)]),
    "rz": (1, 1, lambda p, q: [("u1", (p[0],), q)]),
    "cz": (0, 2, lambda p, q: [("h", (), [q[1]]), ("cx", (), q), ("h", (), [q[1]])]),
    "cy": (0, 2, lambda p, q: [("sdg", (), [q[1]]), ("cx", (), q), ("s", (), [q[1]])]),
    "swap": (0, 2, lambda p, q: [("cx", (), q), ("cx", (), [q[1], q[0]]), ("cx", (), q)]),
    "ch": (0, 2, lambda p, q: [("h", (), [q[1]]), ("sdg", (), [q[1]]), ("cx", (), q), ("h", (), [q[1]]), ("t", (), [q[1]]),
                               ("cx", (), q), ("t", (), [q[1]]), ("h", (), [q[1]]), ("s", (), [q[1]]), ("x", (), [q[1]]),
                               ("s", (), [q[0]])]),
    "ccx": (0, 3, lambda p, q: [("h", (), [q[2]]), ("cx", (), [q[1], q[2]]), ("tdg", (), [q[2]]), ("cx", (), [q[0], q[2]]),
                                ("t", (), [q[2]]), ("cx", (), [q[1], q[2]]), ("tdg", (), [q[2]]), ("cx", (), [q[0], q[2]]),
                                ("t", (), [q[1]]), ("t", (), [q[2]]), ("h", (), [q[2]]), ("cx", (), [q[0], q[1]]),
                                ("t", (), [q[0]]), ("tdg", (), [q[1]]), ("cx", (), [q[0], q[1]])]),
    "cswap": (0, 3, lambda p, q: [("cx", (), [q[2], q[1]]), ("ccx", (), q), ("cx", (), [q[2], q[1]])]),
    "crz": (1, 2, lambda p, q: [("u1", (p[0] / 2,), [q[1]]), ("cx", (), q), ("u1", (-p[0] / 2,), [q[1]]), ("cx", (), q)]),
    "cu1": (1, 2, lambda p, q: [("u1", (p[0] / 2,), [q[0]]), ("cx", (), q), ("u1", (-p[0] / 2,), [q[1]]), ("cx", (), q),
                                ("u1", (p[0] / 2,), [q[1]])]),
    "cu3": (3, 2, lambda p, q: [("u1", ((p[2] - p[1]) / 2,), [q[1]]), ("cx", (), q),
                                ("u3", (-p[0] / 2, 0, -(p[1] + p[2]) / 2), [q[1]]), ("cx", (), q),
                                ("u3", (p[0] / 2, p[1], 0), [q[1]])]),
}
EXT2 = {"rxx": opexpr.rxx, "ryy": opexpr.ryy, "rzz": opexpr.rzz}
EXT0 = {"sqrt_swap": opexpr.DOC2["sqrt_swap"], "i_swap": opexpr.DOC2["i_swap"], "sqrt_i_swap": opexpr.DOC2["sqrt_i_swap"]}


def apply_1(psi, n, M, b):
    return opexpr.lift1(M, b, n) @ psi


def apply_cx(psi, n, c, t):
    out = psi.copy()
    for i in range(1 << n):
        if (i >> c) & 1:
            out[i] = psi[i ^ (1 << t)]
    return out


def qelib_apply(psi, n, name, params, qubits):
    """apply a qelib gate on single qubits given as bit positions"""
    if name == "U":
        return apply_1(psi, n, U(*params), qubits[0])
    if name == "CX":
        return apply_cx(psi, n, qubits[0], qubits[1])
    npar, nq, body = QELIB[name]
    for (g, p, q) in body(params, qubits):
        psi = qelib_apply(psi, n, g, p, q)
    return psi


def unitary_of(name, params, k):
    """the 2^k x 2^k unitary of a qelib gate on qubits 0..k-1 (argument i = bit i)"""
    N = 1 << k
    cols = []
    for j in range(N):
        v = np.zeros(N, dtype=complex); v[j] = 1
        cols.append(qelib_apply(v, k, name, params, list(range(k))))
    return np.array(cols).T


def controlled(Umat, k):
    """control on bit 0, target(s) on bits 1..k of a (k+1)-qubit space"""
    N = Umat.shape[0]
    M = np.eye(2 * N, dtype=complex)
    for i in range(N):
        for j in range(N):
            M[2 * i + 1, 2 * j + 1] = Umat[i, j]
            if i != j:
                M[2 * i + 1, 2 * j + 1] = Umat[i, j]
    for i in range(N):
        M[2 * i + 1, 2 * i + 1] = Umat[i, i]
    return M


def spec_unitary(name, params):
    """(unitary, nqubits) OpenQASM/qelib (or the documented matrix for extensions) assigns to a gate name,
    single-qubit arguments; argument i is bit i.  Leading c beyond qelib's own names = control on the first argument."""
    low = name.lower()
    if low in QELIB and len(params) == QELIB[low][0]:
        k = QELIB[low][1]
        M = unitary_of(low, params, k)
        if low.startswith("c") and abs(M[0, 0]) > 1e-9:
            # qelib's bodies realise the controlled gates up to a global phase (the primitive U is in SU(2));
            # fix it so that the control-off block is the identity -- further controls then mean what they say
            M = M * (M[0, 0].conjugate() / abs(M[0, 0]))
        return M, k
    if low in EXT2 and len(params) == 1:
        return EXT2[low](params[0]), 2
    if low in EXT0 and not params:
        return EXT0[low], 2
    if low == "qft" and not params:
        return opexpr.dft(1) @ opexpr.bitrev_perm(1), 1
    if low.startswith("c") and len(low) > 1:
        inner, k = spec_unitary(low[1:], params)
        return controlled(inner, k), k + 1
    raise Unsupported(name)


def peval(e, ctx):
    k = e[0]
    if k == "num":
        return float(e[1])
    if k == "var":
        if e[1] in ctx:
            return ctx[e[1]]
        if e[1] == "pi":
            return math.pi
        raise IllFormed("unbound %s" % e[1])
    if k == "neg":
        return -peval(e[1], ctx)
    a = peval(e[1], ctx) if k != "fun" else None
    if k == "add":
        return a + peval(e[2], ctx)
    if k == "sub":
        return a - peval(e[2], ctx)
    if k == "mul":
        return a * peval(e[2], ctx)
    if k == "div":
        b = peval(e[2], ctx)
        return a / b if b != 0 else (math.inf if a > 0 else -math.inf if a < 0 else math.nan)
    if k == "pow":
        try:
            r = float(a) ** peval(e[2], ctx)
            return r if not isinstance(r, complex) else math.nan
        except (OverflowError, ZeroDivisionError, ValueError):
            return math.nan
    if k == "fun":
        xs = [peval(x, ctx) for x in e[2]]
        f = {"sqrt": lambda x: math.sqrt(x) if x >= 0 else math.nan, "exp": math.exp,
             "ln": lambda x: math.log(x) if x > 0 else math.nan, "abs": abs,
             "floor": math.floor, "ceil": math.ceil,
             "round": lambda x: math.floor(abs(x) + 0.5) * (1 if x >= 0 else -1)}
        if e[1] in f and len(xs) == 1:
            try:
                return float(f[e[1]](xs[0]))
            except (ValueError, OverflowError):
                return math.nan
        if e[1] == "max" and xs:
            return max(xs)
        if e[1] == "min" and xs:
            return min(xs)
        raise IllFormed("function %s/%d" % (e[1], len(xs)))
    raise ValueError(k)


def embed(Umat, bits, n):
    return opexpr.embed(Umat, bits, n)


def same_up_to_phase(a, b, tol=1e-8):
    a = np.array(a, dtype=complex); b = np.array(b, dtype=complex)
    if a.shape != b.shape:
        return False
    k = int(np.argmax(np.abs(b)))
    if abs(b[k]) < 1e-12 or abs(a[k]) < 1e-12:
        return bool(np.allclose(a, b, atol=tol))
    ph = a[k] / b[k]; ph /= abs(ph)
    return bool(np.allclose(a, b * ph, atol=tol))


BROADCAST1 = {"x", "y", "z", "h", "s", "sdg", "t", "tdg"}


def run(nodes, outcomes, xor=False):
    """-> dict(qa, ca, psi, cls).  outcomes: values of the successive measurements (register-level masks)."""
    qa, ca = [], []
    gates = {}
    psi = None
    cls = 0
    outs = list(outcomes)

    def ensure():
        nonlocal psi
        n = len(qa)
        if psi is None:
            psi = np.zeros(1 << n, dtype=complex); psi[0] = 1

    def qbits(a):
        idx = [i for i, nm in enumerate(qa) if nm == a[1]]
        if not idx:
            raise IllFormed("no qreg %s" % a[1])
        if a[0] == "q":
            if a[2] >= len(idx):
                raise IllFormed("index")
            return [idx[a[2]]]
        return idx

    def cbits(a):
        idx = [i for i, nm in enumerate(ca) if nm == a[1]]
        if not idx:
            raise IllFormed("no creg %s" % a[1])
        if a[0] == "q":
            if a[2] >= len(idx):
                raise IllFormed("index")
            return [idx[a[2]]]
        return idx

    def apply_gate(name, qubit_lists, params, depth=0):
        nonlocal psi
        n = len(qa)
        if depth > 20:
            raise IllFormed("recursion")
        if name in gates:
            regs, pars, body = gates[name]
            if len(regs) != len(qubit_lists) or len(pars) != len(params):
                raise IllFormed("arity")
            env = dict(zip(pars, params))
            rmap = dict(zip(regs, qubit_lists))
            for b in body:
                apply_gate(b[1], [rmap[a[1]] for a in b[2]], [peval(e, env) for e in b[3]], depth + 1)
            return
        if len(qubit_lists) == 1 and len(qubit_lists[0]) > 1 and name.lower() in BROADCAST1 and not params:
            # a one-qubit gate without parameter on a whole register: the gate on each of its qubits
            for b in qubit_lists[0]:
                apply_gate(name, [[b]], params, depth + 1)
            return
        if len(qubit_lists) == 1 and len(qubit_lists[0]) > 1 and name.lower() == "qft" and not params:
            # qft on a whole register: the documented transform on the register's qubits (lowest bit least significant)
            bs = sorted(qubit_lists[0]); kk = len(bs)
            psi = opexpr.embed(opexpr.dft(kk) @ opexpr.bitrev_perm(kk), bs, n) @ psi
            return
        low = name.lower()
        jc = len(low) - len(low.lstrip("c"))
        if jc >= 1 and low[jc:] in BROADCAST1 and not params and len(qubit_lists) > jc \
                and all(len(q) == 1 for q in qubit_lists[:jc]) \
                and (len(qubit_lists) > jc + 1 or len(qubit_lists[jc]) > 1):
            # c...c-prefixed one-qubit gate with several target qubits (a whole register, or several arguments): the
            # first arguments are controls, the gate acts on every remaining qubit under the same controls
            ctrls = [q[0] for q in qubit_lists[:jc]]
            targets = [b for q in qubit_lists[jc:] for b in q]
            if len(set(ctrls + targets)) != len(ctrls) + len(targets):
                raise IllFormed("repeated qubit")
            for t in targets:
                apply_gate(name, [[c] for c in ctrls] + [[t]], params, depth + 1)
            return
        if any(len(q) != 1 for q in qubit_lists):
            raise Unsupported("whole-register argument to a built-in gate")
        bits = [q[0] for q in qubit_lists]
        if len(set(bits)) != len(bits):
            raise IllFormed("repeated qubit")
        if any(not math.isfinite(p) for p in params):
            raise IllFormed("non-finite parameter")
        Umat, k = spec_unitary(name, params)
        if k != len(bits):
            raise IllFormed("arity")
        psi = embed(Umat, bits, n) @ psi

    for nd in nodes:
        k = nd[0]
        if k == "qreg":
            qa += [nd[1]] * nd[2]
            if psi is not None:
                # a register declared after the first operation: new qubits in |0> above the existing ones
                ext = np.zeros(1 << len(qa), dtype=complex); ext[:len(psi)] = psi; psi = ext
        elif k == "creg":
            ca += [nd[1]] * nd[2]
        elif k == "gate":
            gates[nd[1]] = (nd[2], nd[3], nd[4])
        elif k == "barrier":
            pass
        elif k == "apply":
            ensure()
            apply_gate(nd[1], [qbits(a) for a in nd[2]], [peval(e, {}) for e in nd[3]])
        elif k == "if":
            ensure()
            cb = cbits(("r", nd[1]))
            val = sum(((cls >> b) & 1) << t for t, b in enumerate(cb))
            inner = nd[3]
            qs = [qbits(a) for a in inner[2]]
            ps = [peval(e, {}) for e in inner[3]]
            if val == nd[2]:
                apply_gate(inner[1], qs, ps)
        elif k in ("measure", "reset"):
            ensure()
            n = len(qa)
            qb = qbits(nd[1])
            mask = sum(1 << b for b in qb)
            if not outs:
                raise Unsupported("no recorded outcome")
            v = outs.pop(0)
            keep = np.array([1.0 if (i & mask) == v else 0.0 for i in range(1 << n)])
            psi = psi * keep
            nrm = np.linalg.norm(psi)
            if nrm == 0:
                raise IllFormed("impossible outcome")
            psi = psi / nrm
            if k == "measure":
                cb = cbits(nd[2])
                if len(cb) != len(qb):
                    raise IllFormed("size mismatch")
                for q, c in zip(qb, cb):
                    bit = (v >> q) & 1
                    if xor:
                        cls ^= bit << c
                    else:
                        cls = (cls & ~(1 << c)) | (bit << c)
            else:
                for q in qb:
                    if (v >> q) & 1:
                        psi = opexpr.lift1(opexpr.DOC1["x"], q, n) @ psi
    ensure()
    return {"qa": qa, "ca": ca, "psi": list(psi), "cls": cls}
