"""Common driver of the operator-level properties (C01-C04, C15)."""
import sys
from lib import *
import audit, opscheck, oprel
import known

TRUSTED = ["Coq 8.16.1 kernel (coqc); vm_compute for the correspondence runs; no native_compute",
           "axioms (Print Assumptions): " + ", ".join(sorted(audit.ALLOWED_AXIOMS)),
           "hand-written model coq/theories/Model/{Bits,Scalar,Vec,Atomic,Op,Expr}.v tied to /repo only by the "
           "correspondence check (harness/ + tools/opscheck.py, cfg hooks verif_raw/verif_from_raw)",
           "float/real gap: theorems over R, model run at binary64, comparison at 1e-9",
           "numpy oracle (tools/opexpr.py) used only to search for a failing input after a disagreement",
           "implementation-against-itself comparisons that need no model: every case on the harness's shared thread and again on a "
           "thread of its own (results must be identical); every executed program also on the simulator the previous case left "
           "behind (Sym::init + reset + finish) and its accessors / Sym::measure probed on a copy"]


def _tup(x):
    return tuple(_tup(y) for y in x) if isinstance(x, list) else x


def load_corpus(prop):
    """minimised past failures (one per repaired defect at least); always run first"""
    p = os.path.join(ROOT, "corpus", "%s.json" % prop)
    if not os.path.exists(p):
        return []
    cs = json.load(open(p))
    for c in cs:
        if "e" in c:
            c["e"] = _tup(c["e"])
        if "es" in c:
            c["es"] = [_tup(e) for e in c["es"]]
        if "raw" in c:
            c["raw"] = [complex(a, b) for a, b in c["raw"]]
    return cs


def tier_seed():
    tier = os.environ.get("VERIF_TIER", "quick")
    if "--tier" in sys.argv:
        tier = sys.argv[sys.argv.index("--tier") + 1]
    if tier not in ("quick", "thorough"):
        tier = "quick"
    seed = int(os.environ.get("VERIF_SEED", "1"))
    return tier, seed


def main(prop, cases_fn, relation, theorem_hint, rule, up_to_phase=False, assumptions=None, extra=None):
    tier, seed = tier_seed()
    run = Run(prop, tier, seed)
    binary = build_harness()
    au = audit.audit(prop)
    cs = load_corpus(prop) + cases_fn(run.rng, tier)
    n, dis = opscheck.run_cases(run, binary, cs, prop, up_to_phase=up_to_phase, relation=relation,
                                theorem_hint=theorem_hint, self_relation=oprel.RELATIONS.get(prop))
    if extra:
        extra(run, binary, tier)
    if au["problems"] and not run.violations:
        run.violation({"what": "proof obligations of %s no longer check" % prop, "problems": au["problems"]},
                      found_input=False)
    kinds = {}
    for c in cs:
        e = c["e"] if "e" in c else ("seq",)
        key = c["kind"] + ":" + e[0]
        kinds[key] = kinds.get(key, 0) + 1
    distinct = len({opscheck.harness_text(c) for c in cs})
    run.coverage.update({
        "obligations": au["obligations"], "discharged": au["discharged"], "checker_cmd": au["checker_cmd"],
        "trusted_base": TRUSTED, "theorems": au["theorems"],
        "evaluations": n, "distinct_nontrivial": distinct,
        "rule": rule + "; distinct = distinct harness case lines",
        "disagreements_checked": len(dis),
        "input_distribution": kinds,
        "samples": [opscheck.harness_text(c)[:300] for c in run.rng.sample(cs, min(5, len(cs)))],
        "exhaustive": False,
    })
    run.assumptions = (assumptions or []) + [
        "IEEE rounding is not modelled: theorems are over R, the correspondence compares at 1e-9"]
    known.apply(run)
    sys.exit(run.finish())
