"""Proof-layer audit: the development builds (full .vo), the pinned statements still type-check
against the compiled theorems, every theorem's axioms are on the allow-list, and no
Admitted / Axiom / disabled check appears anywhere in the sources."""
import sys
import os, re, subprocess, glob
from lib import *

ALLOWED_AXIOMS = {
    "ClassicalDedekindReals.sig_forall_dec",
    "ClassicalDedekindReals.sig_not_dec",
    "FunctionalExtensionality.functional_extensionality_dep",
    # brought in by the standard library's real logarithm (Rpower.ln), which the R instance of the scalar
    # operations uses to give the QASM function ln its mathematical meaning
    "Classical_Prop.classic",
}
FORBIDDEN = re.compile(
    r"\b(Admitted|admit|Axiom|Axioms|Parameter|Parameters|Conjecture|Conjectures|Abort All|Admit Obligations)\b"
    r"|Unset\s+Guard|Unset\s+Positivity|Unset\s+Universe|bypass_check|type-in-type|impredicative-set")
SECTION_ONLY = re.compile(r"^\s*(Variable|Variables|Hypothesis|Hypotheses)\b")
PINS = os.path.join(ROOT, "tools", "pins")


def strip_comments(src):
    out = []
    depth = 0
    i = 0
    while i < len(src):
        if src.startswith("(*", i):
            depth += 1
            i += 2
        elif src.startswith("*)", i) and depth:
            depth -= 1
            i += 2
        else:
            if depth == 0:
                out.append(src[i])
            elif src[i] == "\n":
                out.append("\n")
            i += 1
    return "".join(out)


def grep_sources():
    problems = []
    for path in sorted(glob.glob(os.path.join(COQDIR, "theories", "**", "*.v"), recursive=True)):
        src = strip_comments(open(path).read())
        depth = 0
        for ln, line in enumerate(src.split("\n"), 1):
            if re.match(r"^\s*Section\b", line):
                depth += 1
            if re.match(r"^\s*End\b", line) and depth:
                depth -= 1
            if FORBIDDEN.search(line):
                problems.append("%s:%d: forbidden token: %s" % (os.path.relpath(path, ROOT), ln, line.strip()))
            if SECTION_ONLY.match(line) and depth == 0:
                problems.append("%s:%d: Variable/Hypothesis outside a section" % (os.path.relpath(path, ROOT), ln))
    return problems


def audit(prop):
    """-> dict(obligations, discharged, theorems=[(name, ok, axioms)], problems=[...], checker_cmd)"""
    res = {"obligations": 0, "discharged": 0, "theorems": [], "problems": [],
           "checker_cmd": "make -C coq (coqc 8.16.1, full .vo) && coqc tools/pins/%s.v + Print Assumptions" % prop}
    ok, out = build_coq()
    if not ok:
        res["problems"].append("coq build failed: " + out[-1500:])
    res["problems"] += grep_sources()
    pin = os.path.join(PINS, "%s.v" % prop)
    if not os.path.exists(pin):
        res["problems"].append("no pin file for %s" % prop)
        return res
    src = open(pin).read()
    names = re.findall(r"(?m)^Check\s+(\w+)\s*:", src)
    res["obligations"] = len(names)
    if not ok:
        return res
    d = os.path.join(CACHE, "audit")
    os.makedirs(d, exist_ok=True)
    path = os.path.join(d, "audit_%s.v" % prop)
    with open(path, "w") as f:
        f.write(src)
        f.write("\n")
        for n in names:
            f.write('Goal True. idtac "@@BEGIN %s". Abort.\nPrint Assumptions %s.\n' % (n, n))
    p = subprocess.run(["coqc", "-noglob", "-Q", os.path.join(COQDIR, "theories"), "QV", path],
                       stdout=subprocess.PIPE, stderr=subprocess.PIPE, text=True, cwd=d)
    if p.returncode != 0:
        res["problems"].append("pinned statements no longer check: " + p.stderr[-1500:])
        return res
    chunks = p.stdout.split("@@BEGIN ")[1:]
    for ch in chunks:
        name = ch.split()[0]
        body = ch[len(name):]
        if "Closed under the global context" in body:
            axioms = []
        else:
            axioms = re.findall(r"(?m)^([A-Za-z_][\w.']*)\s*(?::|$)", body.split("Axioms:")[-1])
            axioms = [a for a in axioms if a not in ("Axioms",)]
        bad = [a for a in axioms if a not in ALLOWED_AXIOMS]
        if bad:
            res["problems"].append("%s depends on non-allow-listed axioms: %s" % (name, ", ".join(bad)))
        else:
            res["discharged"] += 1
        res["theorems"].append({"name": name, "axioms": axioms})
    if _tier() == "thorough":
        coqchk(prop, res)
    return res


def _tier():
    t = os.environ.get("VERIF_TIER", "quick")
    if "--tier" in sys.argv:
        t = sys.argv[sys.argv.index("--tier") + 1]
    return t


def coqchk(prop, res):
    """thorough tier: re-check the compiled property file and everything it depends on with Coq's independent
    checker, and compare the axioms it reports with the allow-list"""
    try:
        p = subprocess.run(["coqchk", "-silent", "-o", "-Q", os.path.join(COQDIR, "theories"), "QV",
                            "QV.Properties.%s" % prop],
                           stdout=subprocess.PIPE, stderr=subprocess.STDOUT, text=True, timeout=1500)
    except subprocess.TimeoutExpired:
        res["problems"].append("coqchk timed out on QV.Properties.%s" % prop)
        return
    out = p.stdout
    if p.returncode != 0 or "CONTEXT SUMMARY" not in out:
        res["problems"].append("coqchk failed on QV.Properties.%s: %s" % (prop, out[-800:]))
        return
    summ = out.split("CONTEXT SUMMARY")[-1]
    ax = re.findall(r"(?m)^\s{4}([A-Za-z_][\w.']*)\s*$", summ.split("* Axioms:")[1].split("* Constants")[0])
    short = [".".join(a.split(".")[-2:]) for a in ax]
    bad = [a for a in short if a not in ALLOWED_AXIOMS]
    for key in ("type-in-type", "unsafe (co)fixpoints", "positivity is assumed"):
        line = [l for l in summ.splitlines() if key in l]
        if line and "<none>" not in line[0]:
            res["problems"].append("coqchk: %s" % line[0].strip())
    if bad:
        res["problems"].append("coqchk reports non-allow-listed axioms: %s" % ", ".join(bad))
    res["coqchk"] = {"module": "QV.Properties.%s" % prop, "axioms": short, "ok": not bad}
    res["checker_cmd"] += " && coqchk -silent -o QV.Properties.%s" % prop


if __name__ == "__main__":
    import sys, json
    r = audit(sys.argv[1])
    print(json.dumps({"obligations": r["obligations"], "discharged": r["discharged"], "problems": r["problems"]}, indent=1))
    sys.exit(1 if r["problems"] else 0)
