"""Evaluate model terms inside Coq (vm_compute) and parse the printed values.

run_terms(terms, imports) writes shards of `Eval vm_compute in (<term>).`, runs `coqc` on them in
parallel against the compiled development and returns one parsed value per term.

Parsed values: constructors become ("Name", [args...]) (or just "Name" when nullary), lists
become python lists, tuples become python tuples, numbers become int / float.
"""
import os, re, subprocess, sys, struct, math, hashlib, shutil
from concurrent.futures import ThreadPoolExecutor

ROOT = os.path.dirname(os.path.dirname(os.path.abspath(__file__)))
COQDIR = os.path.join(ROOT, "coq")
CACHE = os.path.join(ROOT, ".cache")

# ---------------------------------------------------------------- rendering

def fhex(x):
    """python float -> Coq hex float literal (exact)."""
    if x != x:
        return "nan%float"
    if x == math.inf:
        return "infinity%float"
    if x == -math.inf:
        return "neg_infinity%float"
    h = float(x).hex()
    if h.startswith("-"):
        return "(-%s)%%float" % h[1:]
    return "%s%%float" % h


def cN(n):
    return "%d%%N" % n


def cnat(n):
    return "%d%%nat" % n


def cZ(n):
    return "(%d)%%Z" % n


def clist(items):
    return "[" + "; ".join(items) + "]"


def cpair(a, b):
    return "(%s, %s)" % (a, b)


def ccomplex(z):
    return cpair(fhex(z.real), fhex(z.imag))


# ---------------------------------------------------------------- parsing

_TOKEN = re.compile(
    r"\s*(?:(?P<num>-?(?:\d+\.?\d*(?:e[-+]?\d+)?))(?:%[A-Za-z0-9_]+)?"
    r"|(?P<id>[A-Za-z_][A-Za-z0-9_'.]*)(?:%[A-Za-z0-9_]+)?"
    r"|(?P<str>\"(?:[^\"]|\"\")*\")(?:%[A-Za-z0-9_]+)?"
    r"|(?P<p>[()\[\];,]))"
)


def tokenize(s):
    pos = 0
    out = []
    n = len(s)
    while pos < n:
        m = _TOKEN.match(s, pos)
        if not m:
            if s[pos:].strip() == "":
                break
            raise ValueError("cannot tokenize at %r" % s[pos:pos + 40])
        pos = m.end()
        if m.group("num") is not None:
            t = m.group("num")
            if re.fullmatch(r"-?\d+", t):
                out.append(("n", int(t)))
            else:
                out.append(("n", float(t)))
        elif m.group("id") is not None:
            t = m.group("id")
            if t == "nan":
                out.append(("n", math.nan))
            elif t == "infinity":
                out.append(("n", math.inf))
            elif t == "neg_infinity":
                out.append(("n", -math.inf))
            else:
                out.append(("i", t))
        elif m.group("str") is not None:
            out.append(("s", m.group("str")[1:-1].replace('""', '"')))
        else:
            out.append(("p", m.group("p")))
    return out


class _P:
    def __init__(self, toks):
        self.t = toks
        self.i = 0

    def peek(self):
        return self.t[self.i] if self.i < len(self.t) else None

    def next(self):
        x = self.t[self.i]
        self.i += 1
        return x

    def atom(self):
        k, v = self.next()
        if k == "n" or k == "s":
            return v
        if k == "i":
            return v
        if v == "(":
            first = self.app()
            items = [first]
            while self.peek() == ("p", ","):
                self.next()
                items.append(self.app())
            assert self.next() == ("p", ")"), "expected )"
            if len(items) == 1:
                return items[0]
            # Coq prints nested pairs flat: (a, b, c) = ((a, b), c)
            return tuple(items)
        if v == "[":
            items = []
            if self.peek() == ("p", "]"):
                self.next()
                return items
            items.append(self.app())
            while self.peek() == ("p", ";"):
                self.next()
                items.append(self.app())
            assert self.next() == ("p", "]"), "expected ]"
            return items
        raise ValueError("unexpected token %r" % (v,))

    def app(self):
        head = self.atom()
        args = []
        while True:
            p = self.peek()
            if p is None or (p[0] == "p" and p[1] in ")];,"):
                break
            args.append(self.atom())
        if args:
            if isinstance(head, str):
                return (head, args)
            # unary minus printed as "- 5"?  not produced by Coq for literals
            raise ValueError("application of non-identifier %r" % (head,))
        return head


def parse_value(s):
    s = re.sub(r"%[A-Za-z_][A-Za-z0-9_]*", "", s)
    p = _P(tokenize(s))
    v = p.app()
    if p.peek() is not None:
        raise ValueError("trailing tokens: %r" % (p.t[p.i:p.i + 5],))
    return v


def split_evals(out):
    """Split coqc stdout into the printed values of successive Eval commands."""
    chunks = re.split(r"(?m)^     = ", out)
    vals = []
    for ch in chunks[1:]:
        k = ch.rfind("\n     : ")
        if k < 0:
            raise ValueError("no type line in chunk %r" % ch[:80])
        vals.append(ch[:k])
    return vals


# ---------------------------------------------------------------- running

def _run_shard(args):
    path, timeout = args
    try:
        p = subprocess.run(
            ["coqc", "-noglob", "-w", "none", "-Q", os.path.join(COQDIR, "theories"), "QV", path],
            stdout=subprocess.PIPE, stderr=subprocess.PIPE, timeout=timeout, text=True,
            cwd=os.path.dirname(path))
    except subprocess.TimeoutExpired:
        return None, "timeout"
    if p.returncode != 0:
        return None, p.stderr[-2000:]
    return p.stdout, None


def run_terms(terms, imports, tag, shard_size=150, timeout=900, prelude=""):
    """Evaluate each Coq term with vm_compute; returns list of parsed values.
    Raises RuntimeError when coqc fails (that is a machinery error, not a verdict)."""
    if not terms:
        return []
    d = os.path.join(CACHE, "cases", tag)
    shutil.rmtree(d, ignore_errors=True)
    os.makedirs(d, exist_ok=True)
    shards = []
    for k in range(0, len(terms), shard_size):
        name = "cases_%s_%d.v" % (re.sub(r"\W", "_", tag), k // shard_size)
        path = os.path.join(d, name)
        with open(path, "w") as f:
            f.write("From Coq Require Import List NArith ZArith Floats String.\nImport ListNotations.\n")
            for imp in imports:
                f.write("From QV Require Import %s.\n" % imp)
            f.write(prelude + "\n")
            for t in terms[k:k + shard_size]:
                f.write("Eval vm_compute in (%s).\n" % t)
        shards.append((path, len(terms[k:k + shard_size])))
    results = []
    with ThreadPoolExecutor(max_workers=16) as ex:
        outs = list(ex.map(_run_shard, [(p, timeout) for p, _ in shards]))
    for (path, cnt), (out, err) in zip(shards, outs):
        if out is None:
            raise RuntimeError("coqc failed on %s: %s" % (path, err))
        vals = split_evals(out)
        if len(vals) != cnt:
            raise RuntimeError("coqc printed %d values for %d terms in %s" % (len(vals), cnt, path))
        for v in vals:
            results.append(parse_value(v))
    return results
