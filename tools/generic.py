"""Generic correspondence driver: a case carries its harness line, its Coq term, parsers to a
canonical observable for both sides and (for the search step) the property's own oracle on the
implementation's observable."""
import sys
from lib import *
import coqio, audit, known
from opsmain import tier_seed, TRUSTED


class Case:
    def __init__(self, h, c, parse_impl, parse_model, oracle=None, desc=None, kind="", eq=None, sig=None):
        self.h = h                    # harness text (after the id)
        self.c = c                    # Coq term (None: implementation-only case, oracle decides)
        self.parse_impl = parse_impl  # payload -> observable
        self.parse_model = parse_model
        self.oracle = oracle          # observable -> True / False / None(unknown)
        self.desc = desc or h
        self.kind = kind
        self.eq = eq or (lambda a, b: a == b)
        self.sig = sig                # signature for known findings


def died(payload):
    return payload.startswith("TIMEOUT") or payload.startswith("ABORT")


def run_generic(run, binary, engine, cases, imports, tag, relation, theorem_hint="", deadline=20.0,
                shard_size=150, env_extra=None, prelude=""):
    texts = [(str(i), c.h) for i, c in enumerate(cases)]
    impl = run_harness(binary, engine, texts, deadline=deadline, env_extra=env_extra)
    with_model = [(i, c) for i, c in enumerate(cases) if c.c is not None]
    vals = coqio.run_terms([c.c for _, c in with_model], imports, tag, shard_size=shard_size, prelude=prelude)
    mv = {i: v for (i, _), v in zip(with_model, vals)}
    disagreements = []
    obs = {}
    for i, c in enumerate(cases):
        payload = impl.get(str(i), "ABORT missing")
        try:
            oi = ("died", payload) if died(payload) else c.parse_impl(payload)
        except Exception as ex:
            oi = ("unparsed", payload[:200], str(ex))
        obs[i] = oi
        if c.c is None:
            continue
        om = c.parse_model(mv[i])
        ok = False
        try:
            ok = c.eq(oi, om)
        except Exception:
            ok = False
        if not ok:
            disagreements.append((i, c, oi, om))
    found = 0
    reported = set()

    def report(i, c, oi, om=None):
        key = c.sig or c.h
        if key in reported:
            return
        reported.add(key)
        run.violation({"case": c.desc, "harness": "%s %s" % (engine, c.h[:2000]), "implementation": shorten(oi),
                       "model": shorten(om), "signature": c.sig,
                       "what": "the property fails on the implementation at this input"})
    # search step 1: the property's own oracle at the disagreeing inputs
    for i, c, oi, om in disagreements:
        if c.oracle is not None and c.oracle(oi) is False:
            found += 1
            if found <= 6:
                report(i, c, oi, om)
    # implementation-only cases and (when something disagreed) the whole tier under the oracle
    for i, c in enumerate(cases):
        if c.oracle is None:
            continue
        if c.c is None or (disagreements and not found):
            if c.oracle(obs[i]) is False:
                found += 1
                if found <= 6:
                    report(i, c, obs[i])
    if disagreements and not found:
        i, c, oi, om = disagreements[0]
        run.violation({"relation": relation, "theorem": theorem_hint, "case": c.desc,
                       "harness": "%s %s" % (engine, c.h[:2000]),
                       "implementation": shorten(oi), "model": shorten(om), "disagreements": len(disagreements),
                       "what": "implementation left the model (correspondence %s no longer checks); no input "
                               "violating the property was found" % relation}, found_input=False)
    return len(cases), disagreements, obs


def shorten(o, n=80):
    if isinstance(o, (list, tuple)):
        l = [shorten(x, n) for x in o[:n]]
        if len(o) > n:
            l.append("...(%d more)" % (len(o) - n))
        return l
    if isinstance(o, complex):
        return str(o)
    return o


def finish(run, prop, au, cases, n, dis, rule, assumptions=None, extra_cov=None):
    if au["problems"] and not run.violations:
        run.violation({"what": "proof obligations of %s no longer check" % prop, "problems": au["problems"]},
                      found_input=False)
    kinds = {}
    for c in cases:
        kinds[c.kind] = kinds.get(c.kind, 0) + 1
    distinct = len({c.h for c in cases})
    run.coverage.update({
        "obligations": au["obligations"], "discharged": au["discharged"], "checker_cmd": au["checker_cmd"],
        "trusted_base": TRUSTED, "theorems": au["theorems"],
        "evaluations": n, "distinct_nontrivial": distinct, "rule": rule + "; distinct = distinct harness case lines",
        "disagreements_checked": len(dis), "input_distribution": kinds,
        "samples": [c.h[:300] for c in run.rng.sample(cases, min(5, len(cases)))],
        "exhaustive": False,
    })
    if extra_cov:
        run.coverage.update(extra_cov)
    run.assumptions = (assumptions or [])
    known.apply(run)
    sys.exit(run.finish())
