"""C16 -- histograms: 2^n cells, exact shot total, no shots on impossible outcomes."""
import math
from lib import *
import audit, regcheck, generic, gen
from opsmain import tier_seed
from c05 import rand_small_state

PROP = "C16"
COUNTS = [0, 1, 2, 3, 7, 10, 101, 2048, 10 ** 6]


def sparse_state(rng, n, k):
    N = 1 << n
    idx = rng.sample(range(N), min(k, N))
    v = [0j] * max(N, 8)
    for i in idx:
        v[i] = complex(rng.gauss(0, 1), rng.gauss(0, 1))
    nrm = math.sqrt(sum(abs(z) ** 2 for z in v))
    return [z / nrm for z in v]


def histories(rng, tier):
    hs = []
    # the witnesses of the repaired defects first
    for n in (0, 1, 2):
        hs.append((n + 1, [("new", n), ("dump",), ("sample", 10)]))
    hs.append((5, [("with", 3, 1), ("apply", ("h", 6)), ("dump",), ("sample", 7)]))
    hs.append((6, [("new", 1), ("apply", ("h", 1)), ("dump",), ("sample", 1 << 63)]))        # F23
    for n in range(0, 7):
        states = [("with", n, rng.randrange(1 << n) if n else 0)]
        for k in (1, 2, 3):
            states.append(("raw", n, sparse_state(rng, n, k)))
        states.append(("raw", n, rand_small_state(rng, n)))
        for st in states:
            for c in COUNTS:
                for _ in range(2 if tier == "quick" else 40):
                    acts = [st, ("dump",)]
                    if rng.random() < 0.25:
                        acts.insert(1, ("threads", rng.choice(regcheck.thread_counts())))      # "any threading model"
                    if rng.random() < 0.2 and n:
                        acts.insert(1, ("apply", ("h", rng.randrange(1, 1 << n))))
                    acts.append(("sample", c))
                    hs.append((rng.randrange(1 << 30), acts))
    # shot counts at the edge of the machine word (2^53 and beyond: the count is no longer exact as a float; 2^63 and
    # beyond: it no longer fits a signed word) on small registers in basis, uniform and skewed states
    for n in (0, 1, 2, 3):
        full = (1 << n) - 1
        for c in ((1 << 53) + 1, (1 << 62) + 12345, (1 << 63) - 1, 1 << 63, (1 << 63) + 7, (1 << 64) - 2, (1 << 64) - 1):
            preps = [[("new", n)], [("new", n), ("apply", ("h", full))]]
            if n >= 2:
                preps.append([("with", n, 1), ("apply", ("ry", 0.3, 2)), ("apply", ("h", 1))])
            for pre in preps:
                if tier == "quick" and rng.random() < 0.4:
                    continue
                acts = list(pre) + [("dump",), ("sample", c)]
                hs.append((rng.randrange(1 << 30), acts))
                if c >= (1 << 63) - 1 and n >= 1:
                    # the same under the rayon arm, several draws (the rounded cells reach the word's end only sometimes)
                    th = list(pre[:1]) + [("threads", rng.choice([2, 3]))] + list(pre[1:]) + [("dump",)] + [("sample", c)] * 4
                    hs.append((rng.randrange(1 << 30), th))
    # outcomes whose amplitude is not zero but whose probability is (the squared modulus underflows): one qubit turned by
    # 1e-170 next to sizeable outcomes, the faint outcomes between and below them; the largest counts and many small ones
    for c in ((1 << 64) - 1, (1 << 63) + 7):
        hs.append((rng.randrange(1 << 30), [("new", 1), ("apply", ("rx", 1e-170, 1)), ("dump",), ("sample", c)]))
        hs.append((rng.randrange(1 << 30), [("with", 2, 2), ("apply", ("ry", -3e-180, 1)), ("dump",), ("sample", c), ("sample", c - 3)]))
    for rep in range(4 if tier == "quick" else 60):
        acts = [("with", 4, 8), ("apply", ("h", 4)), ("apply", ("ry", rng.choice([0.9, 1.3, 2.0]), 2)),
                ("apply", (rng.choice(["rx", "ry"]), rng.choice([1e-170, 3e-200]), 1)), ("dump",)]
        if rep % 4 == 3:
            acts.insert(1, ("threads", rng.choice(regcheck.thread_counts())))
        for _ in range(40):
            acts.append(("sample", rng.choice([3, 5, 7, 7, 10, 13, 101])))
        hs.append((rng.randrange(1 << 30), acts))
    # registers with a past (grown, shrunk, regrown, multiplied, measured before): many small-count histograms each,
    # so that both correction branches (deficit and surplus) are taken
    def observe(r, n):
        acts = [("dump",)]
        for c in (0, 1, 1, 2, 3, 3, 5, 7, 7, 10, 101):
            acts.append(("sample", c))
        return acts
    hs += regcheck.lifecycle_histories(rng, tier, observe)
    return hs


def oracle(acts, recs):
    fails = []
    last_dump = None
    counts = [a[1] for a in acts if a[0] == "sample"]
    ci = 0
    for r in recs:
        if r[0] == "d":
            last_dump = r
        elif r[0] == "h":
            cells = r[1]
            n = last_dump[1]
            v = last_dump[2]
            if len(cells) != (1 << n):
                fails.append("%d cells for %d qubits" % (len(cells), n))
            if sum(cells) != counts[ci]:
                fails.append("cells sum to %d, %d shots requested" % (sum(cells), counts[ci]))
            for i, c in enumerate(cells[:1 << n]):
                if c and v[i].real * v[i].real + v[i].imag * v[i].imag == 0:
                    fails.append("cell %d got %d shots but its probability is exactly zero" % (i, c)); break
            ci += 1
        elif r[0] in ("x", "died"):
            fails.append("panic/abort: %s" % (r,))
    return fails


def soak(run, binary, rng, tier):
    """rare events of the rounding corrections (a surplus larger than the number of non-empty cells, a deficit that is
    not a multiple of the number of possible outcomes): skewed sparse states, many draws, statement checked on the
    implementation's histograms directly"""
    hs = []
    for _ in range(60 if tier == "quick" else 4000):
        n = rng.choice([1, 2, 3, 4])
        N = 1 << n
        k = rng.choice([2, 2, 3])
        idx = rng.sample(range(N), min(k, N))
        pr = rng.choice([0.004, 0.008, 0.015, 0.03])
        v = [0j] * max(N, 8)
        v[idx[0]] = complex(math.sqrt(1 - pr * (len(idx) - 1)), 0)
        for i in idx[1:]:
            ph = rng.uniform(0, 2 * math.pi)
            v[i] = complex(math.sqrt(pr) * math.cos(ph), math.sqrt(pr) * math.sin(ph))
        c = rng.choice([1, 2, 3, 5, 9, 30, 60, 100, 150, 250])
        hs.append((rng.randrange(1 << 30), [("raw", n, v), ("dump",)] + [("sample", c)] * 100))
    texts = [(str(i), regcheck.hist_harness(s_, a)) for i, (s_, a) in enumerate(hs)]
    impl = run_harness(binary, "reg", texts, deadline=60.0)
    bad = 0
    for i, (s_, a) in enumerate(hs):
        recs = regcheck.parse_records(impl.get(str(i), "ABORT missing"))
        fails = oracle(a, recs)
        if fails:
            bad += 1
            if bad <= 3:
                rep = regcheck.describe_hist(s_, a)
                rep.update({"what": "histogram statement fails on the implementation", "failures": fails[:5],
                            "note": "100 consecutive sample_all(%d) draws on this state" % a[2][1]})
                run.violation(rep)
    return 100 * len(hs)


if __name__ == "__main__":
    tier, seed = tier_seed()
    run = Run(PROP, tier, seed)
    binary = build_harness()
    au = audit.audit(PROP)
    hs = histories(run.rng, tier)
    def rounding_of_a_parallel_sum(acts, r, rm, k):
        # a threaded register sums the draws in another order than the model; with 2^53 shots and more one ulp of that
        # sum moves a cell by hundreds of shots, so the cells are not compared there (the three clauses still are)
        return any(a[0] == "threads" for a in acts) and any(a[0] == "sample" and a[1] >= (1 << 53) for a in acts)
    n, dis, recs = regcheck.run_histories(run, binary, hs, PROP, oracle,
                                          "C16 sample_all histogram with recorded normal draws", "C16_histogram",
                                          near_threshold=rounding_of_a_parallel_sum)
    nsoak = soak(run, binary, run.rng, tier)
    n += nsoak
    cs = [generic.Case(regcheck.hist_harness(s, a)[:300], None, None, None, kind="n=%d" % a[0][1]) for s, a in hs]
    branches = {"deficit": 0, "surplus": 0, "exact": 0}
    generic.finish(run, PROP, au, cs, n, dis,
                   "n = 0..6, states from sparse (1, 2, 3 non-zero cells with exact zeros through the raw-buffer hook) to dense, shot counts "
                   "{0,1,2,3,7,10,101,2048,10^6}, several draws each; the scaled normal draws are recorded by the hook and replayed in the "
                   "model, histograms compared exactly; plus a soak of 6000 (400000) draws on skewed sparse states (one dominant outcome, one or two "
                   "rare ones, 1..250 shots) checked against the statement directly, for the rare rounding-correction events",
                   assumptions=["the Gaussian draws are taken from the implementation (recording hook) and fed to the model"])
