"""C16 -- histograms: 2^n cells, exact shot total, no shots on impossible outcomes."""
import math
from lib import *
import audit, regcheck, generic, gen
from opsmain import tier_seed
from c05 import rand_small_state

PROP = "C16"
COUNTS = [0, 1, 2, 3, 7, 10, 101, 2048, 10 ** 6]


def sparse_state(rng, n, k):
    N = 1 << n
    idx = rng.sample(range(N), min(k, N))
    v = [0j] * max(N, 8)
    for i in idx:
        v[i] = complex(rng.gauss(0, 1), rng.gauss(0, 1))
    nrm = math.sqrt(sum(abs(z) ** 2 for z in v))
    return [z / nrm for z in v]


def histories(rng, tier):
    hs = []
    # the witnesses of the repaired defects first
    for n in (0, 1, 2):
        hs.append((n + 1, [("new", n), ("dump",), ("sample", 10)]))
    hs.append((5, [("with", 3, 1), ("apply", ("h", 6)), ("dump",), ("sample", 7)]))
    for n in range(0, 7):
        states = [("with", n, rng.randrange(1 << n) if n else 0)]
        for k in (1, 2, 3):
            states.append(("raw", n, sparse_state(rng, n, k)))
        states.append(("raw", n, rand_small_state(rng, n)))
        for st in states:
            for c in COUNTS:
                for _ in range(2 if tier == "quick" else 12):
                    acts = [st, ("dump",)]
                    if rng.random() < 0.2 and n:
                        acts.insert(1, ("apply", ("h", rng.randrange(1, 1 << n))))
                    acts.append(("sample", c))
                    hs.append((rng.randrange(1 << 30), acts))
    return hs


def oracle(acts, recs):
    fails = []
    last_dump = None
    counts = [a[1] for a in acts if a[0] == "sample"]
    ci = 0
    for r in recs:
        if r[0] == "d":
            last_dump = r
        elif r[0] == "h":
            cells = r[1]
            n = last_dump[1]
            v = last_dump[2]
            if len(cells) != (1 << n):
                fails.append("%d cells for %d qubits" % (len(cells), n))
            if sum(cells) != counts[ci]:
                fails.append("cells sum to %d, %d shots requested" % (sum(cells), counts[ci]))
            for i, c in enumerate(cells[:1 << n]):
                if c and v[i] == 0:
                    fails.append("cell %d got %d shots but its probability is exactly zero" % (i, c)); break
            ci += 1
        elif r[0] in ("x", "died"):
            fails.append("panic/abort: %s" % (r,))
    return fails


if __name__ == "__main__":
    tier, seed = tier_seed()
    run = Run(PROP, tier, seed)
    binary = build_harness()
    au = audit.audit(PROP)
    hs = histories(run.rng, tier)
    n, dis, recs = regcheck.run_histories(run, binary, hs, PROP, oracle,
                                          "C16 sample_all histogram with recorded normal draws", "C16_histogram")
    cs = [generic.Case(regcheck.hist_harness(s, a)[:300], None, None, None, kind="n=%d" % a[0][1]) for s, a in hs]
    branches = {"deficit": 0, "surplus": 0, "exact": 0}
    generic.finish(run, PROP, au, cs, n, dis,
                   "n = 0..6, states from sparse (1, 2, 3 non-zero cells with exact zeros through the raw-buffer hook) to dense, shot counts "
                   "{0,1,2,3,7,10,101,2048,10^6}, several draws each; the scaled normal draws are recorded by the hook and replayed in the "
                   "model, histograms compared exactly",
                   assumptions=["the Gaussian draws are taken from the implementation (recording hook) and fed to the model"])
