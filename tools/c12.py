"""C12 -- the interpreter is total: a result or an error value, never a crash or hang (partial)."""
from lib import *
import audit, generic, qasmcheck, qasmprops, known
import qasmast as qa
from generic import Case
from opsmain import tier_seed
PROP = "C12"


def ast_cases(rng):
    """AST-level adversarial identifiers, through the text path and the model"""
    cs = []
    names = ["c", "C", "cc", "ccc", "cq", "cx", "cX", "Cx", "c_", "c1", "cé", "éx", "é", "xé", "ĉ", "c" * 31, "cu", "cu1", "cU1", "CU1", "ccu1",
             "u", "U", "CX", "cqft", "cid", "id", "cswapx", "sqrt", "pi", "csdg", "ctdg"]
    for nm in names:
        for nq in (1, 2, 3):
            args = [("q", "q", i) for i in range(nq)]
            for params in ([], [("num", "0.5")]):
                cs.append({"chunks": [[("qreg", "q", 3), ("creg", "c", 1), ("apply", nm, args, params)]], "seed": 1})
    return cs


if __name__ == "__main__":
    tier, seed = tier_seed()
    run = Run(PROP, tier, seed)
    binary = build_harness()
    au = audit.audit(PROP)
    strings = qasmprops.c12_strings(run.rng, tier)
    cases = []
    for text, sig in strings:
        def pi(payload):
            t = payload.split()
            return (t[0], " ".join(t[1:4])[:120])
        cases.append(Case("run add 0 %d 1 %s" % (run.rng.randrange(1 << 20), qasmcheck.hexs(text)), None, pi, None,
                          oracle=lambda o: o[0] in ("OK", "OKNOEXEC", "ERR", "PARSE"), desc=text[:400], kind="string", sig=sig))
    n, dis, obs = generic.run_generic(run, binary, "qasm", cases, qasmcheck.IMPORTS, PROP, "C12 totality of the pipeline on strings",
                                      "C12_interp_total", deadline=10.0)
    acs = ast_cases(run.rng)
    n2, dis2, obs2 = qasmcheck.run_programs(run, binary, acs, PROP + "a",
                                           lambda c, o: ["crash: %s" % (o,)] if o[0] in ("panic", "died") else [],
                                           "C12 adversarial gate names: result / error value vs model", "C12_interp_total")
    verdicts = {}
    for o in obs.values():
        verdicts[o[0]] = verdicts.get(o[0], 0) + 1
    generic.finish(run, PROP, au, cases, n + n2, dis + dis2,
                   "grammar programs, ~110 hand-written adversarial inputs (empty / one-letter / non-ASCII stems, (mutually) recursive gates, "
                   "non-finite and ill-typed parameters, limits, truncations, deep nesting, NUL / BOM / invalid UTF-8), and token-, byte- and "
                   "block-level mutations of valid programs (400 quick / 20000 thorough); every string runs parse + interpret + execute in a "
                   "worker under a 10 s deadline and must end in a value; adversarial gate names also against the model",
                   assumptions=["the qvnt-qasm lexer / parser / pre-processor and meval are external crates outside the model: their totality "
                                "is sampled, not proved", "'promptly' = 10 s per input on this machine"],
                   extra_cov={"verdicts": verdicts})
