"""C09 -- interpreter gate names mean what OpenQASM 2.0 / qelib1.inc define."""
from lib import *
import audit, generic, qasmcheck, qasmprops
import qasmast as qa
from opsmain import tier_seed
PROP = "C09"
if __name__ == "__main__":
    tier, seed = tier_seed()
    run = Run(PROP, tier, seed)
    binary = build_harness()
    au = audit.audit(PROP)
    cs = qasmprops.c09_cases(run.rng, tier)
    n, dis, obs = qasmcheck.run_programs(run, binary, cs, PROP, qasmprops.c09_oracle,
                                         "C09 one gate statement after a random preparation circuit", "C09_table, C09_prefix")
    gcs = [generic.Case(qa.p_node(c["stmt"]), None, None, None, kind=c["kind"]) for c in cs]
    generic.finish(run, PROP, au, gcs, n, dis,
                   "every accepted gate name (22 stems, 24 c-prefixed names with up to three leading c) x lower/upper case x random "
                   "assignments of distinct indexed qubits in register sets of 3-5 qubits split over 1-3 qreg x the angle set, each after a "
                   "seeded random preparation circuit; final amplitudes against the model; numpy unitaries built from qelib1.inc's bodies "
                   "(U, CX primitives) / the documented matrices, up to one global phase, for the search step",
                   assumptions=["c-prefixed stems whose qelib definition is only fixed up to a phase (cs, ct, csdg, ctdg, cu2) are outside the "
                                "generator: the property's 'up to one global phase' leaves their controlled form ambiguous",
                                "whole-register arguments to multi-qubit gates are outside the property's quantifier"])
