"""C20 -- bit-mask bookkeeping of virtual and classical registers is exact for every mask."""
from lib import *
import generic, audit, opscheck, regcheck
from generic import Case
from coqio import cN, cnat, clist
from opsmain import tier_seed

PROP = "C20"
W = (1 << 64) - 1


def bits_of(m):
    return [1 << b for b in range(64) if (m >> b) & 1]


def p_entries(payload):
    t = payload.split()
    if t[0] == "NONE":
        return ("none",)
    if t[0] == "PANIC":
        return ("panic", t[1])
    assert t[0] == "OK", payload
    return ("ok", [int(x) for x in t[2:2 + int(t[1])]])


def m_entries(v):
    # option (list N)
    if v == "None":
        return ("fuel",)
    return ("ok", list(v[1][0]))


def cases(rng, tier):
    cs = []
    masks = list(range(0, 1 << (8 if tier == "quick" else 10)))
    masks += [1 << a for a in range(64)] + [(1 << a) | (1 << b) for a in range(64) for b in range(a + 1, 64, 7)]
    for _ in range(300 if tier == "quick" else 10000):
        w = rng.choice([8, 16, 32, 48, 63, 64])
        m = rng.getrandbits(w)
        if rng.random() < 0.3:
            m &= rng.getrandbits(w)      # sparse
        if rng.random() < 0.3:
            m |= rng.getrandbits(w)      # dense
        if rng.random() < 0.25:
            m |= 1 << 63                 # top bit
        masks.append(m)
    masks += [W, 1 << 63, (1 << 63) | 1, W ^ 1, W >> 1]
    for m in masks:
        cs.append(Case("vreg %d" % m, "run_vreg %s" % cN(m), p_entries, m_entries,
                       oracle=lambda o, m=m: o == ("ok", bits_of(m)), kind="vreg",
                       sig="vreg-top-bit" if m >> 63 else None))
    for n in list(range(0, 66)) + [127, 128, 200]:
        cs.append(Case("vregnew %d" % n, "run_vreg_new %s" % cN(n), p_entries, m_entries, kind="vregnew",
                       oracle=(lambda o, n=n: o == ("ok", bits_of((1 << n) - 1))) if n < 64 else None))
    # index forms
    for _ in range(200 if tier == "quick" else 6000):
        m = rng.getrandbits(rng.choice([6, 12, 30, 63]))
        k = bin(m).count("1")
        idx = [rng.randrange(max(k, 1) + 2) for _ in range(rng.randint(0, 4))]      # repeats and any order allowed
        if rng.random() < 0.5:
            idx = sorted(set(idx))

        def pi(payload):
            t = payload.split()
            if t[0] != "OK":
                return ("bad", payload)
            return ("ok", int(t[1]), int(t[2]), int(t[3]))

        def pm(v):
            if v == "None":
                return ("fuel",)
            a, b, c = v[1][0]
            return ("ok", a, b, c)
        bl = bits_of(m)
        want_list = 0
        for i in idx:
            if i < len(bl):
                want_list |= bl[i]
        want = ("ok", want_list, m, len(bl))
        cs.append(Case("vregsel %d %d %s" % (m, len(idx), " ".join(map(str, idx))),
                       "run_vreg_sel %s %s" % (cN(m), clist([cnat(i) for i in idx])), pi, pm,
                       oracle=lambda o, want=want: o == want, kind="vregsel"))
    # sub-views of a quantum register
    for n in range(0, 7):
        for _ in range(12):
            m = rng.getrandbits(n + 2) if rng.random() < 0.8 else rng.getrandbits(64)
            inside = (m & ~((1 << n) - 1)) == 0

            def pm(v):
                if v == "None":
                    return ("none",)
                return m_entries(v[1][0])
            cs.append(Case("getvregby %d %d" % (n, m), "run_get_vreg_by %s %s" % (cN(n), cN(m)), p_entries, pm,
                           oracle=lambda o, m=m, inside=inside: (o == ("ok", bits_of(m))) if inside else o == ("none",),
                           kind="getvregby"))
        cs.append(Case("getvreg %d" % n, "run_vreg_new %s" % cN(n), p_entries, m_entries,
                       oracle=lambda o, n=n: o == ("ok", bits_of((1 << n) - 1)), kind="getvreg"))
    # classical registers: initial values wider than the register, update sequences
    for _ in range(300 if tier == "quick" else 10000):
        n = rng.choice([0, 1, 2, 3, 4, 5, 8, 13, 31, 32, 33, 62, 63])
        st = rng.getrandbits(min(64, rng.choice([n + 1, n + 4, 64]))) if rng.random() < 0.7 else rng.getrandbits(max(n, 1))
        ops = []
        val = st & ((1 << n) - 1)
        for _ in range(rng.randint(0, 30)):
            m = rng.getrandbits(n) if n else 0
            o = rng.choice(["s1", "s0", "x1", "x0"])
            ops.append((o, m))
            if o == "s1": val |= m
            elif o == "s0": val &= ~m
            elif o == "x1": val ^= m
        h = "creg %d %d %s" % (n, st, " ".join("%s %d" % (o, m) for o, m in ops))
        c = "run_creg %s %s %s" % (cN(n), cN(st), clist(
            ["(%s %s %s)" % ("CSet" if o[0] == "s" else "CXor", "true" if o[1] == "1" else "false", cN(m)) for o, m in ops]))

        def pi(payload):
            t = payload.split()
            if t[0] != "OK":
                return ("bad", payload)
            return ("ok", int(t[1]), int(t[2]), t[3].strip("()"))

        def pm(v):
            g, num, dbg = v
            if dbg == "None":
                return ("fuel",)
            return ("ok", g, num, "".join("1" if b == "true" else "0" for b in dbg[1][0]))
        want = ("ok", val, n, format(val, "0%db" % n) if n else "")
        cs.append(Case(h, c, pi, pm, oracle=lambda o, want=want: o == want, kind="creg",
                       sig="creg-initial-value-unmasked" if st >> n else None))
    # concatenation
    for _ in range(150 if tier == "quick" else 5000):
        n1 = rng.randint(0, 20); n2 = rng.randint(0, 20)
        s1 = rng.getrandbits(n1 + rng.choice([0, 0, 3])); s2 = rng.getrandbits(n2 + rng.choice([0, 0, 3]))

        def pi(payload):
            t = payload.split()
            if t[0] != "OK":
                return ("bad", payload)
            return ("ok", int(t[1]), int(t[2]))

        def pm(v):
            if v == "None":
                return ("panic",)
            a, b = v[1][0]
            return ("ok", a, b)
        want = ("ok", n1 + n2, (s1 & ((1 << n1) - 1)) | ((s2 & ((1 << n2) - 1)) << n1))
        cs.append(Case("cmul %d %d %d %d" % (n1, s1, n2, s2), "run_cmul %s %s %s %s" % (cN(n1), cN(s1), cN(n2), cN(s2)),
                       pi, pm, oracle=lambda o, want=want: o == want, kind="cmul",
                       sig="creg-initial-value-unmasked" if (s1 >> n1) or (s2 >> n2) else None))
    return cs


def ops_struct_cases(rng, tier):
    """termination and structure of op::h / op::qft_swapped on full-width masks (ops engine)"""
    cs = []
    for _ in range(30):
        m = rng.getrandbits(64) | (1 << 63)
        if rng.random() < 0.5:
            m &= rng.getrandbits(64) | (1 << 63) | 1
        cs.append({"kind": "struct", "e": ("h", m)})
        if bin(m).count("1") <= 12:
            cs.append({"kind": "struct", "e": ("qft_swapped", m)})
    cs.append({"kind": "struct", "e": ("h", (1 << 63) | 1)})
    cs.append({"kind": "struct", "e": ("qft_swapped", (1 << 63) | 1)})
    cs.append({"kind": "struct", "e": ("h", (1 << 64) - 1)})
    return cs


if __name__ == "__main__":
    tier, seed = tier_seed()
    run = Run(PROP, tier, seed)
    binary = build_harness()
    au = audit.audit(PROP)
    cs = cases(run.rng, tier)
    n, dis, obs = generic.run_generic(run, binary, "bits", cs, ["RunBits"], PROP,
                                      "C20 VReg/CReg observables", "C20_bits_iter, C20_vreg, C20_creg", deadline=3.0)
    ocs = ops_struct_cases(run.rng, tier)
    n2, dis2 = opscheck.run_cases(run, binary, ocs, PROP + "ops", relation="C20 h/qft_swapped structure on full-width masks",
                                  theorem_hint="C20_walk", deadline=3.0)
    # views of registers with a past (grown, shrunk, regrown, multiplied, measured): "a view of a quantum register
    # exists exactly when the mask lies inside the register" must not depend on how the register came to its size
    def observe(r, k):
        full = (1 << k) - 1
        masks = [0, full, full + 1, (full << 1) | 1, 1 << (k + 2), r.randrange(1 << (k + 2)), r.randrange(1 << (k + 3)), 4, 7, 8]
        return [("dump",), ("vreglen",)] + [("view", m) for m in masks]
    vhs = regcheck.lifecycle_histories(run.rng, tier, observe, sizes=(0, 1, 2, 3, 4, 5))
    vhs += [(0, [("new", k), ("dump",), ("vreglen",)] + [("view", m) for m in (0, (1 << k) - 1, 1 << k, 5, 1 << 63)]) for k in range(0, 7)]
    n3, dis3, _ = regcheck.run_histories(run, binary, vhs, PROP + "views", regcheck.oracle_views,
                                         "C20 views (get_vreg / get_vreg_by) of registers with a construction history", "C20_vreg")
    cs += [generic.Case(regcheck.hist_harness(s, a)[:300], None, None, None, kind="regview") for s, a in vhs]
    n2 += n3; dis2 = dis2 + dis3
    generic.finish(run, PROP, au, cs, n + n2, dis + dis2,
                   "all masks below 2^8 (2^10), all one-bit and a grid of two-bit masks of the 64-bit word, random sparse/dense "
                   "words with and without the top bit (each call under a 3 s deadline); VReg::new for 0..65 and beyond; index "
                   "forms (closure, array, range); sub-views; CReg update sequences (<= 30 steps) with initial values wider "
                   "than the register; CReg products; h/qft_swapped structure on full-width masks; get_vreg / get_vreg_by on registers "
                   "that were grown, shrunk, regrown, multiplied or measured before",
                   assumptions=["masks are machine words (< 2^64); the 64-bit wrap is written into the model"])
