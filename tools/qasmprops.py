"""Case generators and oracles of the interpreter properties C09, C11, C12, C13, C17, C18."""
import math, copy, random
import numpy as np
from lib import *
import qasmast as qa
import qasmcheck, pyref, gen as opgen
from coqio import cN, clist

# ------------------------------------------------------------------------------------------------ C09

C09_STEMS = {  # stem -> (nparams, nqubits)
    "u1": (1, 1), "u2": (2, 1), "u3": (3, 1), "x": (0, 1), "y": (0, 1), "z": (0, 1), "h": (0, 1), "s": (0, 1), "sdg": (0, 1),
    "t": (0, 1), "tdg": (0, 1), "rx": (1, 1), "ry": (1, 1), "rz": (1, 1), "swap": (0, 2), "rxx": (1, 2), "ryy": (1, 2),
    "rzz": (1, 2), "sqrt_swap": (0, 2), "i_swap": (0, 2), "sqrt_i_swap": (0, 2), "qft": (0, 1),
}
# c-prefixed names whose meaning OpenQASM / qelib1 / the documentation fixes without a phase ambiguity
C09_CTRL = {"cx": (0, 2), "cy": (0, 2), "cz": (0, 2), "ch": (0, 2), "ccx": (0, 3), "crz": (1, 2), "cu1": (1, 2), "cu3": (3, 2),
            "cswap": (0, 3), "crx": (1, 2), "cry": (1, 2), "ccz": (0, 3), "cccx": (0, 4), "ccu1": (1, 3), "ccrz": (1, 3),
            "crxx": (1, 3), "cryy": (1, 3), "crzz": (1, 3), "ci_swap": (0, 3), "csqrt_swap": (0, 3), "csqrt_i_swap": (0, 3),
            "ccswap": (0, 4), "ccy": (0, 3), "cch": (0, 3)}
ANGLE_TEXT = ["0", "pi/2", "(-pi/2)", "pi", "3*pi/2", "2*pi+0.3", "1.23456", "(-0.7)", "7.5", "2*pi", "(-2*pi)", "4*pi", "6.283185307179586"]


def angle_expr(rng, tier):
    t = rng.choice(ANGLE_TEXT)
    table = {"0": ("num", "0"), "pi/2": ("div", ("var", "pi"), ("num", "2")), "(-pi/2)": ("neg", ("div", ("var", "pi"), ("num", "2"))),
             "pi": ("var", "pi"), "3*pi/2": ("div", ("mul", ("num", "3"), ("var", "pi")), ("num", "2")),
             "2*pi+0.3": ("add", ("mul", ("num", "2"), ("var", "pi")), ("num", "0.3")), "1.23456": ("num", "1.23456"),
             "(-0.7)": ("neg", ("num", "0.7")), "7.5": ("num", "7.5"),
             "2*pi": ("mul", ("num", "2"), ("var", "pi")), "(-2*pi)": ("neg", ("mul", ("num", "2"), ("var", "pi"))),
             "4*pi": ("mul", ("num", "4"), ("var", "pi")), "6.283185307179586": ("num", "6.283185307179586")}
    return table[t]


def c09_cases(rng, tier):
    cs = []
    names = list(C09_STEMS.items()) + list(C09_CTRL.items())
    reps = 3 if tier == "quick" else 40
    for name, (npar, nq) in names:
        for rep in range(reps):
            for upper in (False, True):
                if upper and rep % 2:
                    continue
                total = max(nq, rng.randint(3, 6 if name == "qft" else 5))
                # split the qubits over 1-3 registers
                sizes = []
                left = total
                while left > 0:
                    s = rng.randint(1, left); sizes.append(s); left -= s
                sizes = sizes[:3] if len(sizes) <= 3 else sizes[:2] + [sum(sizes[2:])]
                regs = ["q", "r", "w"][:len(sizes)]
                decl = [("qreg", regs[i], sizes[i]) for i in range(len(sizes))] + [("creg", "c", 1)]
                lay = qa.Layout(); lay.q = [(regs[i], sizes[i]) for i in range(len(sizes))]
                prep = [("apply", "h", [("r", r_)], []) for r_ in regs]     # controls and targets in superposition
                for _ in range(rng.randint(2, 6)):
                    st = qa.gen_gate_stmt(rng, lay, depth=1, allow_user=False, allow_ctrl=False)
                    if st:
                        prep.append(st)
                args = rng.sample(lay.qubits(), nq)
                if (name in pyref.BROADCAST1 or name == "qft") and rng.random() < 0.4:
                    args = [("r", rng.choice(regs))]      # whole-register form: the gate on each qubit of the register
                stmt = ("apply", name.upper() if upper else name, args, [angle_expr(rng, tier) for _ in range(npar)])
                nodes = decl + prep + [stmt]
                cs.append({"chunks": [nodes], "seed": 1, "kind": name, "stmt": stmt, "prep": decl + prep})
                partner = {"s": "sdg", "sdg": "s", "t": "tdg", "tdg": "t"}.get(name)
                if partner:
                    # the same program with the gate's dagger partner, directly afterwards
                    stmt2 = ("apply", partner.upper() if upper else partner, args, [])
                    cs.append({"chunks": [decl + prep + [stmt2]], "seed": 1, "kind": partner, "stmt": stmt2, "prep": decl + prep})
    # "all parameter values": angles of 1e9 .. 1e16 (far beyond the range in which the model's own trigonometry is comparable
    # with libm: implementation only, against the reference that reduces the argument exactly)
    for name, (npar, nq) in names:
        if not npar:
            continue
        for big in ("1000000000", "1000000000000", "12345678901234567"):
            decl = [("qreg", "q", max(nq, 2)), ("creg", "c", 1)]
            prep = [("apply", "h", [("r", "q")], []), ("apply", "t", [("q", "q", 0)], []), ("apply", "rx", [("q", "q", 1)], [("num", "0.7")])]
            pars = [("num", big) if rng.random() < 0.7 else ("neg", ("num", big)) for _ in range(npar)]
            stmt = ("apply", name, [("q", "q", i) for i in rng.sample(range(max(nq, 2)), nq)], pars)
            cs.append({"chunks": [decl + prep + [stmt]], "seed": 1, "kind": name + "/huge", "stmt": stmt, "prep": decl + prep,
                       "impl_only": True})
    # whole-register form of every one-qubit gate without parameter (and of qft) on registers of 2..4 qubits
    for name in sorted(pyref.BROADCAST1) + ["qft"]:
        for size in ((2, 3, 4) if tier == "quick" else (2, 3, 4, 5)):
            for upper in (False, True):
                decl = [("qreg", "a", 1), ("qreg", "q", size), ("creg", "c", 1)]
                lay = qa.Layout(); lay.q = [("a", 1), ("q", size)]
                prep = [("apply", "h", [("r", "q")], [])]
                for _ in range(rng.randint(2, 5)):
                    st = qa.gen_gate_stmt(rng, lay, depth=1, allow_user=False, allow_ctrl=False)
                    if st:
                        prep.append(st)
                stmt = ("apply", name.upper() if upper else name, [("r", "q")], [])
                cs.append({"chunks": [decl + prep + [stmt]], "seed": 1, "kind": name + "/reg", "stmt": stmt, "prep": decl + prep})
    # the same under one and two controls: the target a whole register of 2..5 qubits, or several single qubits
    # (x y z h only: the controlled forms of s / t are fixed by qelib1 only up to a phase, see DESIGN 0.5)
    for name in ("x", "y", "z", "h"):
        for size in ((2, 3, 4) if tier == "quick" else (2, 3, 4, 5)):
            for nc in (1, 2):
                decl = [("qreg", "a", 2), ("qreg", "q", size), ("creg", "c", 1)]
                lay = qa.Layout(); lay.q = [("a", 2), ("q", size)]
                prep = [("apply", "h", [("r", "q")], []), ("apply", "h", [("r", "a")], [])]
                for _ in range(rng.randint(2, 5)):
                    st = qa.gen_gate_stmt(rng, lay, depth=1, allow_user=False, allow_ctrl=False)
                    if st:
                        prep.append(st)
                ctrls = [("q", "a", i) for i in range(nc)]
                targets = [("r", "q")] if rng.random() < 0.6 else [("q", "q", i) for i in sorted(rng.sample(range(size), max(2, size - 1)))]
                nm = "c" * nc + name
                stmt = ("apply", nm.upper() if rng.random() < 0.3 else nm, ctrls + targets, [])
                cs.append({"chunks": [decl + prep + [stmt]], "seed": 1, "kind": nm + "/reg", "stmt": stmt, "prep": decl + prep})
    return cs


def c09_oracle(case, obs):
    if obs[0] in ("panic", "died"):
        return ["crash: %s" % (obs,)]
    if obs[0] != "ok":
        return ["accepted gate name rejected: %s" % (obs,)]
    try:
        want = pyref.run(case["chunks"][0], [])
    except pyref.Unsupported:
        return []
    n = len(want["qa"])
    if not pyref.same_up_to_phase(obs[1]["psi"][:1 << n], want["psi"]):
        return ["%s does not act as the unitary OpenQASM / qelib1 / the documentation assigns to it" % case["stmt"][1]]
    return []


# ------------------------------------------------------------------------------------------------ C11

def c11_cases(rng, tier):
    cs = []
    # witnesses of the repaired defects first
    w1 = [("qreg", "q", 2), ("creg", "c", 2), ("apply", "h", [("q", "q", 0)], []),
          ("if", "c", 1, ("apply", "x", [("q", "q", 1)], []))]
    w2 = [("qreg", "q", 2), ("creg", "c", 1), ("apply", "x", [("q", "q", 0)], []), ("apply", "x", [("q", "q", 1)], []),
          ("reset", ("q", "q", 0))]
    w3 = [("qreg", "q", 2), ("creg", "c", 2), ("apply", "x", [("q", "q", 1)], []), ("apply", "h", [("q", "q", 0)], []),
          ("apply", "cx", [("q", "q", 0), ("q", "q", 1)], []), ("reset", ("q", "q", 0)), ("measure", ("q", "q", 1), ("q", "c", 0))]
    for w in (w1, w2, w3):
        cs.append({"chunks": [w], "seed": 7})
    for _ in range(150 if tier == "quick" else 6000):
        nodes, lay = qa.gen_program(rng, nstmts=rng.randint(6, 30), max_q=5, measure_p=0.2, if_p=0.2, reset_p=0.12,
                                    gate_defs=1, depth=2)
        cs.append({"chunks": [nodes], "seed": rng.randrange(1 << 30), "xor": rng.random() < 0.4})
    # more than 32 classical bits: measurements into bits 32..62 (one wide register, registers straddling bit 32, a second
    # register above it) and conditions on registers wider than 32 bits whose high bits are set
    X = lambda i: ("apply", "x", [("q", "q", i)], [])
    M = lambda qi, reg, ci: ("measure", ("q", "q", qi), ("q", reg, ci))
    wide = [
        [("qreg", "q", 2), ("creg", "lo", 32), ("creg", "hi", 4), X(0), M(0, "hi", 1), M(0, "lo", 31), ("if", "hi", 2, X(1)), M(1, "hi", 3)],
        [("qreg", "q", 2), ("creg", "a", 30), ("creg", "b", 5), X(0), M(0, "b", 0), M(0, "b", 4), ("if", "b", 17, X(1)), M(1, "a", 29)],
        [("qreg", "q", 2), ("creg", "c", 33), X(0), M(0, "c", 32), ("if", "c", 0, X(1)), M(1, "c", 0)],
        [("qreg", "q", 2), ("creg", "c", 34), X(0), M(0, "c", 33), M(0, "c", 0), ("if", "c", 1, X(1)), M(1, "c", 5)],
        [("qreg", "q", 2), ("creg", "lo", 2), ("creg", "c", 40), X(0), M(0, "c", 39), M(0, "c", 1), ("if", "c", 2, X(1)), ("if", "lo", 0, X(0))],
        [("qreg", "q", 3), ("creg", "c", 63), X(2), M(2, "c", 62), M(2, "c", 31), M(2, "c", 32), ("if", "c", 0, X(0)), M(0, "c", 1)],
    ]
    # comparison values that do not fit the register, for registers placed high in the word (a value moved up to the
    # register's position would lose its top bits): v = held value + k * 2^(64 - start) and v = k * 2^width
    wide += [
        [("qreg", "q", 2), ("creg", "pad", 60), ("creg", "c", 2), X(0), M(0, "c", 0), ("if", "c", 17, X(1)), M(1, "c", 1)],
        [("qreg", "q", 2), ("creg", "pad", 60), ("creg", "c", 3), ("if", "c", 16, X(1)), M(1, "c", 2), ("if", "c", 8, X(0)), M(0, "c", 0)],
        [("qreg", "q", 2), ("creg", "lo", 40), ("creg", "c", 4), X(0), M(0, "c", 0), M(0, "c", 1), ("if", "c", 16777219, X(1)), M(1, "c", 3)],
        [("qreg", "q", 2), ("creg", "lo", 34), ("creg", "c", 2), X(0), M(0, "c", 1), ("if", "c", 1073741826, X(1)), M(1, "c", 0), ("if", "c", 6, X(0))],
        [("qreg", "q", 2), ("creg", "lo", 50), ("creg", "c", 5), ("if", "c", 16384, X(1)), ("if", "c", 32, X(0)), M(1, "lo", 49), M(0, "c", 4)],
    ]
    for w in wide:
        for xor in (False, True):
            cs.append({"chunks": [w], "seed": 11, "xor": xor})
    # a conditional directly after every kind of statement, at every register offset
    kinds = [("apply", "h", [("q", "q", 0)], []), ("measure", ("q", "q", 0), ("q", "c", 0)), ("reset", ("q", "q", 1)),
             ("barrier", ("r", "q")), ("if", "d", 0, ("apply", "x", [("q", "q", 0)], [])), None]
    for pre in kinds:
        for reg, size in (("c", 2), ("d", 2)):
            for v in range(1 << size):
                nodes = [("qreg", "q", 3), ("creg", "c", 2), ("creg", "d", 2), ("apply", "x", [("q", "q", 0)], []),
                         ("measure", ("q", "q", 0), ("q", "d", 1)), ("apply", "h", [("q", "q", 1)], []),
                         ("measure", ("q", "q", 1), ("q", "c", 0))]
                if pre:
                    nodes.append(pre)
                nodes.append(("if", reg, v, ("apply", "x", [("q", "q", 2)], [])))
                nodes.append(("apply", "h", [("q", "q", 0)], []))
                cs.append({"chunks": [nodes], "seed": rng.randrange(1 << 30)})
    # a third of the programs run again directly afterwards in the other measurement mode (same seed), and a qubit
    # measured twice into the same bit in both modes and both orders
    twice = [("qreg", "q", 2), ("creg", "c", 2), ("apply", "x", [("q", "q", 0)], []), ("measure", ("q", "q", 0), ("q", "c", 0)),
             ("measure", ("q", "q", 0), ("q", "c", 0)), ("apply", "h", [("q", "q", 1)], []), ("measure", ("q", "q", 1), ("q", "c", 1)),
             ("measure", ("q", "q", 1), ("q", "c", 1))]
    out = []
    for x in (False, True, False):
        out.append({"chunks": [twice], "seed": 17, "xor": x})
    # runs of adjacent measurements whose qubit order and classical-bit order are crossed (bit form, register form,
    # a barrier in between), the measured qubits holding different values; a condition afterwards reads the result
    X = lambda r, i: ("apply", "x", [("q", r, i)], [])
    M = lambda q, c: ("measure", q, c)
    crossed = [
        [("qreg", "q", 2), ("creg", "c", 2), X("q", 0), M(("q", "q", 0), ("q", "c", 1)), M(("q", "q", 1), ("q", "c", 0)),
         ("if", "c", 2, X("q", 1))],
        [("qreg", "a", 1), ("qreg", "b", 1), ("creg", "c", 1), ("creg", "d", 1), X("b", 0), M(("r", "a"), ("r", "d")), M(("r", "b"), ("r", "c")),
         ("if", "c", 1, X("a", 0))],
        [("qreg", "q", 3), ("creg", "c", 3), X("q", 0), X("q", 2), M(("q", "q", 2), ("q", "c", 0)), ("barrier", ("r", "q")),
         M(("q", "q", 0), ("q", "c", 2)), M(("q", "q", 1), ("q", "c", 1)), ("if", "c", 5, X("q", 1))],
        [("qreg", "q", 3), ("creg", "c", 3), X("q", 1), M(("q", "q", 1), ("q", "c", 2)), M(("q", "q", 2), ("q", "c", 1)),
         M(("q", "q", 0), ("q", "c", 0)), ("if", "c", 4, X("q", 0))],
    ]
    for prog in crossed:
        for x in (False, True):
            out.append({"chunks": [prog], "seed": 23, "xor": x})
    for c in cs:
        out.append(c)
        if rng.random() < 0.34:
            c2 = dict(c); c2["xor"] = not c.get("xor"); out.append(c2)
    return out


def c11_oracle(case, obs):
    if obs[0] in ("panic", "died"):
        return ["crash: %s" % (obs,)]
    if obs[0] != "ok":
        try:
            pyref.run(case["chunks"][0], [0] * 64, xor=bool(case.get("xor")))
        except pyref.IllFormed:
            return []
        except pyref.Unsupported:
            return []
        return ["well-formed program rejected: %s" % (obs,)]
    try:
        want = pyref.run(case["chunks"][0], obs[1]["out"], xor=bool(case.get("xor")))
    except pyref.Unsupported:
        return []
    except pyref.IllFormed as e:
        return ["reference semantics cannot follow the recorded outcomes: %s" % e]
    fails = []
    n = len(want["qa"])
    if obs[1]["class"] != want["cls"]:
        fails.append("classical register %d, reference %d" % (obs[1]["class"], want["cls"]))
    if not pyref.same_up_to_phase(obs[1]["psi"][:1 << n], want["psi"]):
        fails.append("final state differs from the reference semantics (measure / if / reset)")
    return fails


def reset_statistics(run, binary, tier):
    """reset must not change the outcome statistics of the other qubits: entangled partner stays 50/50"""
    from scipy import stats
    prog = [("qreg", "q", 2), ("creg", "c", 1), ("apply", "h", [("q", "q", 0)], []),
            ("apply", "cx", [("q", "q", 0), ("q", "q", 1)], []), ("reset", ("q", "q", 0)),
            ("measure", ("q", "q", 1), ("q", "c", 0))]
    shots = 400 if tier == "quick" else 5000
    texts = [(str(i), qasmcheck.harness_run({"chunks": [prog], "seed": 1000 + i})) for i in range(shots)]
    impl = run_harness(binary, "qasm", texts, deadline=60.0)
    ones = 0
    zero_state_ok = True
    for i in range(shots):
        o = qasmcheck.parse_impl_run(impl[str(i)])
        if o[0] != "ok":
            run.violation({"what": "reset program failed", "obs": str(o)[:300], "harness": texts[i][1][:400]}); return shots
        ones += o[1]["class"] & 1
        psi = o[1]["psi"]
        if abs(psi[1]) > 1e-9 or abs(psi[3]) > 1e-9:
            zero_state_ok = False
    p = stats.binomtest(ones, shots, 0.5).pvalue
    if p < 1e-6 or not zero_state_ok:
        run.violation({"what": "reset changes the statistics of the entangled partner qubit or does not end in |0>",
                       "ones": ones, "shots": shots, "p_value": p, "reset_qubit_in_zero": zero_state_ok,
                       "source_chunks": [qa.p_program(prog)]})
    return shots


# ------------------------------------------------------------------------------------------------ C13

def c13_mutants(rng, nodes, lay):
    """planted violations: (rule, mutated program, expected canonical error prefix)"""
    out = []
    pos = lambda: rng.randrange(len(lay_decl_end(nodes)), len(nodes) + 1)
    qn = lay.q[0][0]; qs = lay.q[0][1]
    cn = lay.c[0][0]; cs_ = lay.c[0][1]

    def ins(p, st):
        return nodes[:p] + [st] + nodes[p:]
    g1 = lambda a: ("apply", "h", [a], [])
    out.append(("undeclared qreg in gate", ins(pos(), g1(("q", "zz", 0))), ("NoQReg", "zz")))
    out.append(("undeclared qreg (whole) in gate", ins(pos(), g1(("r", "zz"))), ("NoQReg", "zz")))
    out.append(("undeclared qreg in measure", ins(pos(), ("measure", ("q", "zz", 0), ("q", cn, 0))), ("NoQReg", "zz")))
    out.append(("undeclared creg in measure", ins(pos(), ("measure", ("q", qn, 0), ("q", "zz", 0))), ("NoCReg", "zz")))
    out.append(("undeclared qreg in reset", ins(pos(), ("reset", ("r", "zz"))), ("NoQReg", "zz")))
    out.append(("undeclared creg in condition", ins(pos(), ("if", "zz", 0, g1(("q", qn, 0)))), ("NoCReg", "zz")))
    out.append(("index beyond register", ins(pos(), g1(("q", qn, qs))), ("IdxOutOfRange", qn, qs)))
    out.append(("index beyond creg", ins(pos(), ("measure", ("q", qn, 0), ("q", cn, cs_ + 2))), ("IdxOutOfRange", cn, cs_ + 2)))
    # indices far beyond the register: at and around the machine-word width and its multiples (a shift amount taken
    # modulo 64 would fold them back into the register), and at the edge of 32-bit integers
    far = rng.choice([63, 64, 64 + rng.randrange(qs), 65, 127, 128, 128 + rng.randrange(qs), 192, 256, 1000, 4096, 2 ** 31 - 1])
    out.append(("index far beyond register", ins(pos(), g1(("q", qn, far))), ("IdxOutOfRange", qn, far)))
    farc = rng.choice([64, 64 + rng.randrange(cs_), 128, 128 + rng.randrange(cs_), 4096, 2 ** 31 - 1])
    out.append(("index far beyond creg", ins(pos(), ("measure", ("q", qn, 0), ("q", cn, farc))), ("IdxOutOfRange", cn, farc)))
    farr = 64 + rng.randrange(qs)
    out.append(("index far beyond register in reset", ins(pos(), ("reset", ("q", qn, farr))), ("IdxOutOfRange", qn, farr)))
    out.append(("duplicate qreg", ins(pos(), ("qreg", qn, 1)), ("DupQReg", qn, qs)))
    out.append(("duplicate creg", ins(pos(), ("creg", cn, 1)), ("DupCReg", cn, cs_)))
    out.append(("qreg named like a creg", ins(pos(), ("qreg", cn, 1)), ("DupCReg", cn, cs_)))
    out.append(("unknown gate", ins(pos(), ("apply", "foo", [("q", qn, 0)], [])), ("UnknownGate", "foo")))
    # a gate applied before the statement that defines it (also through another gate's body) is unknown at that point
    glater = ("gate", "glater", ["a"], [], [("apply", "h", [("r", "a")], [])])
    p0 = pos()
    out.append(("gate used before its definition", nodes[:p0] + [("apply", "glater", [("q", qn, 0)], []), glater] + nodes[p0:],
                ("UnknownGate", "glater")))
    gvia = ("gate", "gvia", ["a"], [], [("apply", "glater", [("r", "a")], [])])
    out.append(("gate used (inside another gate's body) before its definition",
                nodes + [gvia, ("apply", "gvia", [("q", qn, 0)], []), glater], ("UnknownGate", "glater")))
    out.append(("unknown c-gate", ins(pos(), ("apply", "cfoo", [("q", qn, 0), ("q", lay.qubits()[-1][1], lay.qubits()[-1][2])], [])),
                ("UnknownGate", "cfoo")) if lay.nq() >= 2 else None)
    out.append(("wrong parameter count", ins(pos(), ("apply", "rx", [("q", qn, 0)], [])), ("WrongArgNumber", "rx", 0)))
    out.append(("wrong parameter count (extra)", ins(pos(), ("apply", "h", [("q", qn, 0)], [("num", "1")])), ("WrongArgNumber", "h", 1)))
    if lay.nq() >= 3:
        q3 = lay.qubits()[:3]
        out.append(("wrong qubit count", ins(pos(), ("apply", "swap", q3, [])), ("WrongRegNumber", "swap", 3)))
    if lay.nq() >= 2:
        q2 = lay.qubits()[:2]
        out.append(("wrong qubit count (rx)", ins(pos(), ("apply", "rx", q2, [("num", "1")])), ("WrongRegNumber", "rx", 2)))
        out.append(("control overlapping target", ins(pos(), ("apply", "cx", [q2[0], q2[0]], [])), ("InvalidControlMask",)))
        # several controls: a control that meets another control (not the target), in every position, and a whole
        # register together with one of its own qubits
        stem = rng.choice(["x", "z", "h", "y"])
        out.append(("control overlapping another control", ins(pos(), ("apply", "cc" + stem, [q2[0], q2[0], q2[1]], [])), ("InvalidControlMask",)))
        out.append(("outer control overlapping the target", ins(pos(), ("apply", "cc" + stem, [q2[1], q2[0], q2[1]], [])), ("InvalidControlMask",)))
        if lay.nq() >= 3:
            a, b, c = lay.qubits()[:3]
            out.append(("first and third control equal", ins(pos(), ("apply", "ccc" + stem, [a, b, a, c], [])), ("InvalidControlMask",)))
            out.append(("control overlapping another control (parametrised)",
                        ins(pos(), ("apply", "ccrz", [b, b, c], [("num", "0.5")])), ("InvalidControlMask",)))
            gdef = ("gate", "g3c", ["a", "b", "c"], [], [("apply", "ccx", [("r", "a"), ("r", "b"), ("r", "c")], [])])
            out.append(("control overlapping another control inside a gate body",
                        nodes + [gdef, ("apply", "g3c", [a, a, b], [])], ("InvalidControlMask",)))
        wide = [r_ for r_ in lay.q if r_[1] >= 2]
        if wide and lay.nq() > wide[0][1]:
            rn = wide[0][0]
            t = [x for x in lay.qubits() if x[1] != rn][0]
            out.append(("register as a control together with one of its qubits",
                        ins(pos(), ("apply", "cc" + stem, [("r", rn), ("q", rn, 1), t], [])), ("InvalidControlMask",)))
    if qs != cs_ or True:
        other = [c for c in lay.c if c[1] != qs]
        if other:
            out.append(("measure between different sizes", ins(pos(), ("measure", ("r", qn), ("r", other[0][0]))),
                        ("UnmatchedRegSize", qs, other[0][1])))
    # (the unbound name is often one that IS bound somewhere else: a formal parameter of a gate defined / called earlier)
    ub = rng.choice(["zz", "theta", "phi", "lam", "theta", "t"])
    out.append(("unbound name in parameter", ins(pos(), ("apply", "rx", [("q", qn, 0)], [("add", ("num", "1"), ("var", ub))])),
                ("UnevaluatedArgument", "UnknownVariable", ub)))
    out.append(("unknown function in parameter", ins(pos(), ("apply", "rx", [("q", qn, 0)], [("fun", "sin", [("num", "1")])])),
                ("UnevaluatedArgument", "FunctionError", "sin")))
    out.append(("indexing inside a gate body", ins(pos(), ("gate", "gbad", ["a"], [], [("apply", "x", [("q", "a", 0)], [])])),
                ("DisallowedRegister", "a", 0)))
    out.append(("undeclared name inside a gate body", ins(pos(), ("gate", "gbad", ["a"], [], [("apply", "x", [("r", "b")], [])])),
                ("UnknownReg", "b")))
    # a formal *parameter* is not a qubit: its name in a qubit position is an undeclared register of the body
    out.append(("parameter name used as a qubit inside a gate body",
                ins(pos(), ("gate", "gbad", ["x"], ["a"], [("apply", "h", [("r", "a")], [])])), ("UnknownReg", "a")))
    out.append(("parameter name used as a qubit inside a gate body (second argument, after a use as parameter)",
                ins(pos(), ("gate", "gbad", ["x", "y"], ["a"], [("apply", "rx", [("r", "x")], [("var", "a")]),
                                                                ("apply", "cx", [("r", "y"), ("r", "a")], [])])),
                ("UnknownReg", "a")))
    # the same two rules at a later argument of a later statement of the body
    out.append(("indexing inside a gate body (second argument, second statement)",
                ins(pos(), ("gate", "gbad", ["a", "b"], [], [("apply", "h", [("r", "a")], []),
                                                              ("apply", "cx", [("r", "a"), ("q", "b", 0)], [])])),
                ("DisallowedRegister", "b", 0)))
    out.append(("undeclared name inside a gate body (second argument)",
                ins(pos(), ("gate", "gbad", ["a", "b"], [], [("apply", "cx", [("r", "a"), ("r", "zz")], [])])),
                ("UnknownReg", "zz")))
    out.append(("global register inside a gate body (third argument)",
                ins(pos(), ("gate", "gbad", ["a", "b"], [], [("apply", "x", [("r", "b")], []),
                                                              ("apply", "ccx", [("r", "a"), ("r", "b"), ("r", qn)], [])])),
                ("UnknownReg", qn)))
    # arity rules at a call site inside a gate body (checked when the outer gate is applied)
    gin2 = ("gate", "gin", ["a", "b"], [], [("apply", "cx", [("r", "a"), ("r", "b")], [])])
    gout1 = ("gate", "gout", ["a"], [], [("apply", "gin", [("r", "a")], [])])
    out.append(("wrong qubit count in a nested call",
                nodes + [gin2, gout1, ("apply", "gout", [("q", qn, 0)], [])], ("WrongRegNumber", "gin", 1)))
    ginp = ("gate", "gin", ["a"], ["t"], [("apply", "rx", [("r", "a")], [("var", "t")])])
    out.append(("wrong parameter count in a nested call",
                nodes + [ginp, gout1, ("apply", "gout", [("q", qn, 0)], [])], ("WrongArgNumber", "gin", 0)))
    out.append(("unbound parameter inside a gate body",
                ins(pos(), ("gate", "gbad", ["a"], ["t"], [("apply", "rx", [("r", "a")], [("add", ("var", "t"), ("var", "zz"))])])),
                ("UnknownArg", "zz")))
    out.append(("non-gate statement under if", ins(pos(), ("if", cn, 0, ("measure", ("q", qn, 0), ("q", cn, 0)))),
                ("DisallowedNodeInIf", 5)))
    out.append(("non-gate statement under if (reset)", ins(pos(), ("if", cn, 0, ("reset", ("q", qn, 0)))), ("DisallowedNodeInIf", 4)))
    # the limit counts bytes: names in letters that take two or three bytes each are over-long well before 32 characters
    long_id = rng.choice(["a" * rng.choice([32, 33, 40]), "a" * rng.choice([32, 33, 40]), "\u0436" * rng.randint(16, 31),
                          "q" + "\u00e9" * rng.randint(16, 30), "\u03b1\u03b2" * rng.randint(8, 15), "w" + "\u4e2d" * rng.randint(11, 20)])
    blen = len(long_id.encode("utf-8"))
    out.append(("over-long identifier", ins(len(lay_decl_end(nodes)), (rng.choice(["qreg", "qreg", "creg"]), long_id, 1)), ("IdentIsTooLarge", long_id, blen)))
    out.append(("over-long gate name", ins(pos(), ("gate", long_id, ["a"], [], [])), ("IdentIsTooLarge", long_id, blen)))
    big = 64 - lay.nq()
    out.append(("too many qubits in total", ins(len(lay_decl_end(nodes)), ("qreg", "zbig", big)), ("RegisterIsTooLarge", "zbig", 64)))
    out.append(("too many qubits in one register", ins(len(lay_decl_end(nodes)), ("qreg", "zbig", 64)), ("RegisterIsTooLarge", "zbig", 64)))
    out.append(("too many classical bits in total", ins(len(lay_decl_end(nodes)), ("creg", "zbig", 64 - lay.nc())),
                ("RegisterIsTooLarge", "zbig", 64)))
    if lay.gates:
        gname = lay.gates[0][0]
        out.append(("duplicate gate name", ins(len(nodes), ("gate", gname, ["a"], [], [])), ("MacroAlreadyDefined", gname)))
        nr, npar = lay.gates[0][1], lay.gates[0][2]
        if lay.nq() >= nr + 1:
            out.append(("wrong qubit count for a user gate",
                        ins(len(nodes), ("apply", gname, lay.qubits()[:nr + 1], [("num", "1")] * npar)), ("WrongRegNumber", gname, nr + 1)))
        out.append(("wrong parameter count for a user gate",
                    ins(len(nodes), ("apply", gname, lay.qubits()[:nr] if lay.nq() >= nr else lay.qubits(), [("num", "1")] * (npar + 1))),
                    ("WrongArgNumber", gname, npar + 1)) if lay.nq() >= nr else None)
    return [m for m in out if m]


def lay_decl_end(nodes):
    k = 0
    for i, n in enumerate(nodes):
        if n[0] in ("qreg", "creg", "gate"):
            k = i + 1
    return nodes[:k]


def c13_cases(rng, tier):
    cs = []
    # recorded finding K2: a gate body is validated lazily
    cs.append({"chunks": [[("qreg", "q", 1), ("gate", "g", ["x"], [], [("apply", "foo", [("r", "x")], [])])]], "seed": 1,
               "expect": ("UnknownGate", "foo"), "rule": "unknown gate inside a never-called gate body", "sig": "lazy-gate-body-unknown-gate"})
    for _ in range(12 if tier == "quick" else 600):
        nodes, lay = qa.gen_program(rng, nstmts=rng.randint(3, 12), max_q=5, measure_p=0.15, if_p=0.1, reset_p=0.05,
                                    gate_defs=2, depth=2)
        cs.append({"chunks": [nodes], "seed": 1, "expect": None, "rule": "well-formed"})
        for rule, prog, exp in c13_mutants(rng, nodes, lay):
            cs.append({"chunks": [prog], "seed": 1, "expect": exp, "rule": rule})
            # the same violation arriving in a later chunk of an incremental session: the cut lies anywhere before the
            # planted statement (rules about names -- duplicates -- always get a cut, they have to look across chunks)
            if rng.random() < 0.3 or rule.startswith("duplicate") or "named like" in rule:
                p = next((i for i in range(min(len(prog), len(nodes))) if prog[i] != nodes[i]), min(len(prog), len(nodes)))
                if p >= 1 and len(prog) > 1:
                    k = rng.randint(1, min(p, len(prog) - 1))
                    cs.append({"chunks": [prog[:k], prog[k:]], "seed": 1, "expect": exp, "rule": rule + " (second chunk)",
                               "api": rng.choice(["add", "changes"])})
                    if p >= 2 and rng.random() < 0.5:
                        k1 = rng.randint(1, p - 1); k2 = rng.randint(k1 + 1, min(p, len(prog) - 1)) if k1 + 1 <= min(p, len(prog) - 1) else None
                        if k2:
                            cs.append({"chunks": [prog[:k1], prog[k1:k2], prog[k2:]], "seed": 1, "expect": exp,
                                       "rule": rule + " (third chunk)", "api": rng.choice(["add", "changes"])})
    return cs


def c13_oracle(case, obs):
    if obs[0] in ("panic", "died"):
        return ["crash instead of an error value: %s" % (obs,)]
    exp = case["expect"]
    if exp is None:
        return [] if obs[0] == "ok" else ["well-formed program rejected: %s" % (obs,)]
    if obs[0] == "ok":
        return ["rule '%s' not enforced: the program was accepted" % case["rule"]]
    if obs[0] != "err":
        return ["unexpected result %s" % (obs,)]
    got = obs[1]
    if tuple(got[:len(exp)]) != tuple(exp):
        return ["rule '%s': error %s, expected %s" % (case["rule"], got, exp)]
    return []


# ------------------------------------------------------------------------------------------------ C17

def split_chunks(rng, nodes, k):
    cuts = sorted(rng.sample(range(1, len(nodes)), min(k - 1, len(nodes) - 1))) if len(nodes) > 1 else []
    out = []
    prev = 0
    for c in cuts + [len(nodes)]:
        out.append(nodes[prev:c]); prev = c
    return [c for c in out if c]


def c17_cases(rng, tier):
    cs = []
    # witness of the repaired append_int record
    w = [("qreg", "q", 1), ("creg", "c", 1), ("apply", "h", [("q", "q", 0)], [])]
    cs.append({"chunks": [w[:2], w[2:]], "api": "changes", "seed": 3, "whole": w})
    w2 = [("qreg", "q", 2), ("creg", "c", 2), ("apply", "h", [("q", "q", 0)], []),
          ("if", "c", 1, ("apply", "x", [("q", "q", 1)], []))]
    cs.append({"chunks": [w2[:3], w2[3:]], "api": "add", "seed": 3, "whole": w2})
    # a later chunk declares a second classical register and uses it at once (masks of the chunk's own statements)
    w3 = [("qreg", "q", 2), ("creg", "c", 1), ("creg", "d", 1), ("apply", "x", [("q", "q", 0)], []),
          ("measure", ("q", "q", 0), ("q", "d", 0)), ("if", "d", 1, ("apply", "x", [("q", "q", 1)], []))]
    for api in ("changes", "prepend", "add"):
        cs.append({"chunks": [w3[:2], w3[2:]], "api": api, "seed": 5, "whole": w3})
    # nested gate definitions that end up in different chunks (callee earlier / callee later / callee shadowing a built-in)
    q2 = [("q", "q", 0), ("q", "q", 1)]
    bell = ("gate", "bell", ["a", "b"], [], [("apply", "h", [("r", "a")], []), ("apply", "cx", [("r", "a"), ("r", "b")], [])])
    outer = ("gate", "outer", ["a", "b"], [], [("apply", "bell", [("r", "a"), ("r", "b")], []), ("apply", "t", [("r", "b")], [])])
    myqft = ("gate", "qft", ["a"], [], [("apply", "x", [("r", "a")], [])])
    outer2 = ("gate", "outer", ["a", "b"], [], [("apply", "qft", [("r", "a")], []), ("apply", "cx", [("r", "a"), ("r", "b")], [])])
    call = ("apply", "outer", q2, [])
    for chunks in ([[("qreg", "q", 2), bell], [outer, call]],
                   [[("qreg", "q", 2), outer], [bell, call]],
                   [[("qreg", "q", 2), bell, outer], [call]],
                   [[("qreg", "q", 2), myqft], [outer2, call]],
                   [[("qreg", "q", 2)], [bell], [outer], [call]]):
        whole = [n for ch in chunks for n in ch]
        for api in ("changes", "prepend", "add"):
            cs.append({"chunks": chunks, "api": api, "seed": 9, "whole": whole})
    for _ in range(60 if tier == "quick" else 3000):
        nodes, lay = qa.gen_program(rng, nstmts=rng.randint(4, 25), max_q=5, measure_p=0.15, if_p=0.15, reset_p=0.08,
                                    gate_defs=2, depth=2, late_p=0.15)
        seed = rng.randrange(1 << 30)
        xor = rng.random() < 0.3
        for _ in range(3):
            api = rng.choice(["add", "changes", "prepend"])
            chunks = split_chunks(rng, nodes, rng.randint(1, 6))
            # the accumulate mode may be chosen at any time: at the end, on the still empty session, after the first chunk
            cs.append({"chunks": chunks, "api": api, "seed": seed, "xor": xor, "xor_at": rng.choice([1, 2, 2, 3]), "whole": nodes})
    # chunks that declare nothing (header, include, comment, barrier on nothing) before the first declaring chunk: they
    # are accepted, so the record lists them; and the mode chosen on the empty session must survive
    body = [("qreg", "q", 2), ("creg", "c", 2), ("apply", "x", [("q", "q", 0)], []), ("measure", ("q", "q", 0), ("q", "c", 0)),
            ("measure", ("q", "q", 0), ("q", "c", 0)), ("apply", "h", [("q", "q", 1)], []), ("measure", ("q", "q", 1), ("q", "c", 1))]
    for api in ("changes", "prepend", "add"):
        for xor_at in (0, 1, 2, 3):
            for lead in (["OPENQASM 2.0;\n"], ["OPENQASM 2.0;\ninclude \"qelib1.inc\";\n", "// a comment only\n"], []):
                chunks = [[] for _ in lead] + [body[:2], body[2:5], body[5:]]
                texts = list(lead) + [qa.p_program(c, None) for c in chunks[len(lead):]]
                cs.append({"chunks": chunks, "texts": texts, "api": api, "seed": 11, "xor": xor_at != 0, "xor_at": xor_at or 1,
                           "whole": body})
    return cs


def c17_run(run, binary, cases, tag):
    """incremental vs whole on the implementation (oracle) and incremental vs model"""
    whole_cases = [{"chunks": [c["whole"]], "seed": c["seed"], "xor": c.get("xor"), "api": "add"} for c in cases]
    texts = [(str(i), qasmcheck.harness_run(c)) for i, c in enumerate(whole_cases)]
    impl = run_harness(binary, "qasm", texts, deadline=30.0)
    whole_obs = [qasmcheck.parse_impl_run(impl[str(i)]) for i in range(len(cases))]

    def oracle(case, obs):
        i = case["_idx"]
        w = whole_obs[i]
        if obs[0] in ("panic", "died"):
            return ["crash: %s" % (obs,)]
        if w[0] != obs[0]:
            return ["incremental (%s, %d chunks) gives %s, whole text gives %s" % (case["api"], len(case["chunks"]), obs[0], w[0])]
        fails = []
        if obs[0] == "ok":
            a, b = obs[1], w[1]
            if a["out"] != b["out"]:
                fails.append("measurement outcomes differ under the same seed: %s vs %s" % (a["out"], b["out"]))
            if a["class"] != b["class"] or not vec_close(a["psi"], b["psi"], 1e-9):
                fails.append("final state / classical register differ between incremental and whole interpretation")
            if a["rec"] != len(case["chunks"]):
                fails.append("record lists %d chunks, %d were accepted" % (a["rec"], len(case["chunks"])))
            want = [qasmcheck.fnv(t) for t in (case.get("texts") or [qa.p_program(c, None) for c in case["chunks"]])]
            if a.get("rech") is not None and a["rech"] != want:
                fails.append("the record does not list the accepted chunks once each, in order (positions of the recorded sources: %s)"
                             % [want.index(h) if h in want else None for h in a["rech"]])
            if a.get("reci") is False:
                fails.append("iter_ast and into_iter_ast list different records")
            if a["qa"] != b["qa"] or a["ca"] != b["ca"]:
                fails.append("register layout differs")
        return fails
    for i, c in enumerate(cases):
        c["_idx"] = i
    return qasmcheck.run_programs(run, binary, cases, tag, oracle,
                                  "C17 incremental interfaces (add_ast / ast_changes+append_int / prepend_int) vs model",
                                  "C17_record, C17_chunks")


def c17_rerun(run, binary, rng, tier):
    n = 0
    X = lambda r, i: ("apply", "x", [("q", r, i)], [])
    # more classical bits than qubits (and the reverse), conditions on high classical bits, both modes' worth of measurements
    fixed = [
        [("qreg", "q", 1), ("creg", "a", 1), ("creg", "b", 1), X("q", 0), ("measure", ("q", "q", 0), ("q", "b", 0)), ("if", "b", 1, X("q", 0))],
        [("qreg", "q", 2), ("creg", "c", 4), X("q", 1), ("measure", ("q", "q", 1), ("q", "c", 3)), ("if", "c", 8, X("q", 0)),
         ("measure", ("q", "q", 0), ("q", "c", 2)), ("if", "c", 12, ("apply", "h", [("q", "q", 1)], []))],
        [("qreg", "q", 3), ("creg", "c", 1), ("apply", "h", [("r", "q")], []), ("measure", ("q", "q", 2), ("q", "c", 0)), ("if", "c", 1, X("q", 0)),
         ("reset", ("q", "q", 1))],
        [("qreg", "q", 1), ("creg", "c", 5), ("apply", "h", [("q", "q", 0)], []), ("measure", ("q", "q", 0), ("q", "c", 4)), ("if", "c", 16, X("q", 0)),
         ("if", "c", 0, ("apply", "h", [("q", "q", 0)], []))],
    ]
    small = [("qreg", "p", 1), ("apply", "h", [("q", "p", 0)], [])]
    # a qubit measured twice into the same bit tells the two measurement modes apart
    twice = [("qreg", "q", 2), ("creg", "c", 2), X("q", 0), ("measure", ("q", "q", 0), ("q", "c", 0)), ("measure", ("q", "q", 0), ("q", "c", 0)),
             ("apply", "h", [("q", "q", 1)], []), ("measure", ("q", "q", 1), ("q", "c", 1)), ("measure", ("q", "q", 1), ("q", "c", 1))]
    pairs = [("s", "sdg"), ("sdg", "s"), ("t", "tdg"), ("tdg", "t"), ("x", "y"), ("rz", "rx")]
    plan = [(f, small, 0, 0) for f in fixed]
    # the simulator that is re-used through init ran *nearly the same* program before: the same registers, one gate
    # replaced by its dagger (or a neighbouring gate), and / or the other measurement mode
    plan += [(twice, twice, 1, 0), (twice, twice, 0, 1), (twice, twice, 1, 1)]
    for a, b in pairs:
        par = [("num", "0.7")] if a.startswith("r") else []
        for ctl in ("", "c", "cc"):
            qs = [("q", "q", i) for i in range(len(ctl) + 1)]
            mk = lambda g: [("qreg", "q", 3), ("creg", "c", 1), ("apply", "h", [("r", "q")], []), ("apply", ctl + g, qs, par),
                            ("apply", "h", [("r", "q")], [])]
            plan.append((mk(a), mk(b), 0, 0))
    for k in range(20 if tier == "quick" else 800):
        nodes, lay = qa.gen_program(rng, nstmts=rng.randint(4, 15), max_q=4, measure_p=0.2, if_p=0.15, reset_p=0.1, gate_defs=1, depth=2)
        if rng.random() < 0.5:
            other, _ = qa.gen_program(rng, nstmts=4, max_q=3, measure_p=0.1, gate_defs=0, depth=1)
            plan.append((nodes, other, 0, 0))
        else:
            # a twin: the same program with a tail that differs in one gate, in either mode
            q0 = lay.qubits()[0]
            a, b = rng.choice(pairs[:4])
            tail = lambda g: [("apply", "h", [q0], []), ("apply", g, [q0], []), ("apply", "h", [q0], [])]
            plan.append((nodes + tail(a), nodes + tail(b), rng.randrange(2), rng.randrange(2)))
    for nodes, other, x1, x2 in plan:
        seed = rng.randrange(1 << 30)
        line = "rerun %d %s %s %d %d" % (seed, qasmcheck.hexs(qa.p_program(nodes)), qasmcheck.hexs(qa.p_program(other)), x1, x2)
        out = run_harness(binary, "qasm", [("0", line)], deadline=30.0)["0"]
        n += 1
        if not out.startswith("OK"):
            if out.startswith("ERR") or out.startswith("PARSE"):
                continue
            run.violation({"what": "re-running a simulator crashed", "result": out[:300], "source_chunks": [qa.p_program(nodes)]})
            continue
        reports = out[3:].split(" | nout")[0].split(" / ")
        if len(set(r.strip() for r in reports)) != 1:
            run.violation({"what": "reset + finish (or init with the same / another interpreter) does not reproduce the run from Sym::new",
                           "reports": [r[:200] for r in reports], "source_chunks": [qa.p_program(nodes)], "seed": seed})
    return n


# ------------------------------------------------------------------------------------------------ C18

def c18_cases(rng, tier):
    sessions = []
    # witness of the repaired defect
    good0 = [("qreg", "q", 2), ("creg", "c", 2), ("apply", "h", [("q", "q", 0)], [])]
    bad = [("qreg", "r", 1), ("apply", "x", [("q", "q", 1)], []), ("gate", "g", ["a"], [], [("apply", "x", [("r", "a")], [])]),
           ("apply", "y", [("q", "zz", 0)], [])]
    cont = [("apply", "cx", [("q", "q", 0), ("q", "q", 1)], []), ("measure", ("r", "q"), ("r", "c"))]
    sessions.append({"chunks": [good0, bad, cont], "bad": [1], "seed": 5})
    # a session with pending gates, and a failing chunk that reaches a measure / reset / if before the failing statement
    zz = ("apply", "y", [("q", "zz", 0)], [])
    for pre in ([("measure", ("r", "q"), ("r", "c"))], [("reset", ("q", "q", 0))],
                [("if", "c", 0, ("apply", "x", [("q", "q", 1)], []))],
                [("apply", "z", [("q", "q", 1)], []), ("measure", ("q", "q", 0), ("q", "c", 1)), ("apply", "h", [("q", "q", 1)], [])]):
        sessions.append({"chunks": [good0, pre + [zz], cont], "bad": [1], "seed": 6})
    sessions.append({"chunks": [good0, [("if", "zz", 1, ("apply", "x", [("q", "q", 1)], []))], cont], "bad": [1], "seed": 6})
    # the failing statement is a *call of a user gate* whose body fails while it is expanded (control = target, a
    # non-finite angle, an unknown gate, a wrong arity one level down, recursion), once, twice and three times in a
    # row; the continuation calls user gates again (directly and nested)
    A, B = ("r", "a"), ("r", "b")
    gdefs = {
        "ctl": [("gate", "gc", ["a", "b"], [], [("apply", "cx", [A, B], [])])],
        "inf": [("gate", "gi", ["a"], ["t"], [("apply", "rx", [A], [("div", ("num", "1"), ("var", "t"))])])],
        "unk": [("gate", "gu", ["a"], [], [("apply", "nosuchgate", [A], [])])],
        "ari": [("gate", "in2", ["a", "b"], [], [("apply", "cz", [A, B], [])]), ("gate", "ga", ["a"], [], [("apply", "in2", [A], [])])],
        "nest": [("gate", "lo", ["a", "b"], [], [("apply", "cx", [A, B], [])]),
                 ("gate", "mid", ["a", "b"], [], [("apply", "lo", [A, B], [])]), ("gate", "hi", ["a", "b"], [], [("apply", "mid", [A, B], [])])],
    }
    Q0, Q1 = ("q", "q", 0), ("q", "q", 1)
    gfail = {"ctl": ("apply", "gc", [Q0, Q0], []), "inf": ("apply", "gi", [Q0], [("num", "0")]), "unk": ("apply", "gu", [Q0], []),
             "ari": ("apply", "ga", [Q1], []), "nest": ("apply", "hi", [Q1, Q1], [])}
    gcont = {"ctl": ("apply", "gc", [Q0, Q1], []), "inf": ("apply", "gi", [Q1], [("num", "2")]), "unk": ("apply", "h", [Q1], []),
             "ari": ("apply", "in2", [Q0, Q1], []), "nest": ("apply", "hi", [Q0, Q1], [])}
    for kind in gdefs:
        for times in (1, 2, 3):
            for lead in ([], [("apply", "h", [Q1], [])]):
                start = [("qreg", "q", 2), ("creg", "c", 2)] + gdefs[kind] + [("apply", "h", [Q0], [])]
                failing = lead + [gfail[kind]]
                contn = [gcont[kind], ("gate", "late", ["a"], [], [("apply", "x", [A], [])]), ("apply", "late", [Q0], []),
                         ("measure", ("r", "q"), ("r", "c"))]
                sessions.append({"chunks": [start] + [failing] * times + [contn], "bad": list(range(1, 1 + times)), "seed": 8,
                                 "rule": "failure inside a gate body (%s)" % kind, "position": times})
    # a rejected chunk defines a gate (directly, or the inner gate of an accepted outer one) and calls it successfully
    # before the failing statement; a later chunk defines the same name with another body and makes the same call
    fooX = ("gate", "foo", ["a"], [], [("apply", "x", [A], [])])
    fooH = ("gate", "foo", ["a"], [], [("apply", "h", [A], [])])
    rotA = ("gate", "rot", ["a"], ["t"], [("apply", "rx", [A], [("div", ("var", "t"), ("num", "2"))])])
    rotB = ("gate", "rot", ["a"], ["t"], [("apply", "ry", [A], [("var", "t")])])
    base = [("qreg", "q", 2), ("creg", "c", 2)]
    zzbad = ("apply", "h", [("q", "nowhere", 0)], [])
    meas = ("measure", ("r", "q"), ("r", "c"))
    sessions.append({"chunks": [base, [fooX, ("apply", "foo", [Q0], []), zzbad], [fooH, ("apply", "foo", [Q0], []), meas]],
                     "bad": [1], "seed": 9, "rule": "stale definition from a rejected chunk", "position": 0})
    sessions.append({"chunks": [base, [rotA, ("apply", "rot", [Q1], [("var", "pi")]), zzbad],
                                [rotB, ("apply", "rot", [Q1], [("var", "pi")]), meas]],
                     "bad": [1], "seed": 9, "rule": "stale definition from a rejected chunk", "position": 1})
    wrap = ("gate", "wrap", ["a"], [], [("apply", "foo", [A], []), ("apply", "s", [A], [])])
    sessions.append({"chunks": [base + [("apply", "h", [Q0], [])], [fooX, wrap, ("apply", "wrap", [Q0], []), zzbad],
                                [fooH, wrap, ("apply", "wrap", [Q0], []), meas]],
                     "bad": [1], "seed": 9, "rule": "stale definition from a rejected chunk", "position": 2})
    sessions.append({"chunks": [base, [fooX, ("apply", "foo", [Q0], []), zzbad], [fooX, ("apply", "foo", [Q0], []), zzbad],
                                [fooH, ("apply", "foo", [Q0], []), ("apply", "foo", [Q1], []), meas]],
                     "bad": [1, 2], "seed": 9, "rule": "stale definition from a rejected chunk", "position": 3})
    # a rejected gate definition with formal parameters (the body names an unknown register / an indexed qubit / an unknown
    # variable): afterwards the formals' names mean what they meant before -- pi is the constant again, theta is unknown again
    for badbody, rule in ((("apply", "rx", [("r", "b")], [("var", "pi")]), "unknown register in the body"),
                          (("apply", "rx", [("q", "a", 0)], [("var", "theta")]), "indexed qubit in the body"),
                          (("apply", "rx", [A], [("var", "nosuchvar")]), "unknown variable in the body")):
        badchunk = [("apply", "h", [Q1], []), ("gate", "bad", ["a"], ["pi", "theta"], [("apply", "h", [A], []), badbody])]
        contn = [("apply", "rx", [Q0], [("var", "pi")]), ("apply", "rz", [Q0], [("div", ("var", "pi"), ("num", "2"))]),
                 ("apply", "u1", [Q1], [("var", "pi")]), ("apply", "h", [Q1], []), meas]
        unk = [("apply", "rx", [Q0], [("var", "theta")])]
        sessions.append({"chunks": [base + [("apply", "h", [Q1], [])], badchunk, contn], "bad": [1], "seed": 12,
                         "rule": "rejected gate definition with parameters: " + rule, "position": 0})
        sessions.append({"chunks": [base + [rotA, ("apply", "rot", [Q1], [("var", "pi")])], badchunk, [("apply", "rot", [Q0], [("var", "pi")])], contn],
                         "bad": [1], "seed": 12, "rule": "rejected gate definition with parameters: " + rule, "position": 1})
        sessions.append({"chunks": [base, unk, badchunk, unk, contn], "bad": [1, 2, 3], "seed": 12,
                         "rule": "rejected gate definition with parameters: " + rule, "position": 2})
    # a rejected chunk made of declarations only (a header / include-like chunk): the error comes from a later
    # declaration, the earlier ones of the same chunk must not stay
    decl0 = [("qreg", "q", 2), ("creg", "c", 2), ("gate", "old", ["a"], [], [("apply", "x", [A], [])]), ("apply", "h", [Q0], [])]
    fresh = [("qreg", "nq", 1), ("creg", "nc", 1), ("gate", "ng", ["a"], [], [("apply", "h", [A], [])])]
    for bad_decl, rule in ((("qreg", "q", 1), "duplicate qreg"), (("creg", "c", 1), "duplicate creg"), (("qreg", "c", 1), "qreg named like a creg"),
                           (("gate", "old", ["a"], [], []), "duplicate gate name"), (("qreg", "big", 64), "register too large"),
                           (("creg", "x" * 40, 1), "identifier too long"), (("qreg", "w", 62), "too many qubits in total")):
        for kfresh in (1, 2, 3):
            failing = fresh[:kfresh] + [("barrier", ("r", "q"))] * (kfresh % 2) + [bad_decl]
            contn = [("qreg", "nq", 2), ("gate", "ng", ["a"], [], [("apply", "z", [A], [])]), ("apply", "ng", [Q1], []),
                     ("apply", "x", [("q", "nq", 1)], []), ("measure", ("r", "q"), ("r", "c"))]
            sessions.append({"chunks": [decl0, failing, contn], "bad": [1], "seed": 10, "rule": "declarations-only chunk: " + rule, "position": kfresh})
    # the failed attempt is the first thing the session sees (nothing accepted yet), once and twice in a row, in both
    # measurement modes; the continuation measures a qubit twice into the same bit, which tells the modes apart
    twice = [("qreg", "q", 2), ("creg", "c", 2), ("apply", "x", [("q", "q", 0)], []), ("measure", ("q", "q", 0), ("q", "c", 0)),
             ("measure", ("q", "q", 0), ("q", "c", 0)), ("apply", "h", [("q", "q", 1)], []), ("measure", ("q", "q", 1), ("q", "c", 1))]
    for xor in (False, True):
        for first in ([zz], [("qreg", "r", 1), zz], [("qreg", "r", 1), ("creg", "d", 1), ("measure", ("r", "r"), ("r", "d")), zz]):
            sessions.append({"chunks": [first, twice], "bad": [0], "seed": 7, "xor": xor})
            sessions.append({"chunks": [first, [zz], twice, cont], "bad": [0, 1], "seed": 8, "xor": xor})
        sessions.append({"chunks": [twice, [zz], cont], "bad": [1], "seed": 9, "xor": xor})
    for _ in range(25 if tier == "quick" else 1200):
        nodes, lay = qa.gen_program(rng, nstmts=rng.randint(6, 16), max_q=5, measure_p=0.15, if_p=0.15, reset_p=0.05, gate_defs=2, depth=2)
        k = len(lay_decl_end(nodes))
        body = nodes[k:]
        if len(body) < 3:
            continue
        chunks = [nodes[:k]] + split_chunks(rng, body, rng.randint(2, 4))
        good_chunk = chunks[-1]
        accepted = chunks[:-1]
        # failing chunk: a good chunk (fresh statements) with a planted violation at every statement position
        extra = []
        for _ in range(rng.randint(1, 5)):
            st = qa.gen_gate_stmt(rng, lay, depth=1)
            if st:
                extra.append(st)
        extra += [("qreg", "fresh", 1), ("gate", "gfresh", ["a"], [], [("apply", "h", [("r", "a")], [])])]
        # statements that close the open block of the operation queue (measure / reset / if) before the failing one
        if lay.nc() and rng.random() < 0.8:
            for _ in range(rng.randint(1, 2)):
                kind = rng.choice(["measure", "reset", "if"])
                if kind == "measure":
                    extra.append(("measure", rng.choice(lay.qubits()), rng.choice(lay.cbits())))
                elif kind == "reset":
                    extra.append(("reset", rng.choice(lay.qubits())))
                else:
                    st = qa.gen_gate_stmt(rng, lay, depth=1)
                    if st:
                        cn, csz = rng.choice(lay.c)
                        extra.append(("if", cn, rng.randrange(1 << csz), st))
        rng.shuffle(extra)
        muts = c13_mutants(rng, [("qreg", "qq0", 1)] + extra, lay)
        for p in range(len(extra) + 1):
            rule, _, exp = rng.choice(muts)
            viol = [m for m in c13_mutants(rng, nodes[:k], lay)][0]
            # take the statement that carries the violation out of a mutant of the declarations-only program
            rule, prog, exp = rng.choice(c13_mutants(rng, nodes[:k], lay))
            bad_stmt = [s for s in prog if s not in nodes[:k]]
            if len(bad_stmt) != 1:
                continue
            failing = extra[:p] + bad_stmt + extra[p:]
            sessions.append({"chunks": accepted + [failing, good_chunk], "bad": [len(accepted)], "seed": rng.randrange(1 << 30),
                             "rule": rule, "position": p, "xor": rng.random() < 0.25})
    return sessions


def c18_run(run, binary, sessions, tag):
    import coqio
    texts = []
    for i, s in enumerate(sessions):
        srcs = [qa.p_program(c) for c in s["chunks"]]
        texts.append((str(i), "session %s%d %d %s" % ("x" if s.get("xor") else "", s["seed"], len(srcs), " ".join(qasmcheck.hexs(t) for t in srcs))))
    impl = run_harness(binary, "qasm", texts, deadline=30.0)
    # the same sessions without the failing chunk
    texts2 = []
    for i, s in enumerate(sessions):
        srcs = [qa.p_program(c) for k, c in enumerate(s["chunks"]) if k not in s["bad"]]
        texts2.append((str(i), "session %s%d %d %s" % ("x" if s.get("xor") else "", s["seed"], len(srcs), " ".join(qasmcheck.hexs(t) for t in srcs))))
    impl2 = run_harness(binary, "qasm", texts2, deadline=30.0)

    def parse(payload):
        if not payload.startswith("OK v "):
            return ("bad", payload[:300])
        head, final = payload.split(" | final ")
        t = head.split()
        k = int(t[2])
        verdicts = t[3:3 + k]
        snaps = t[3 + k + 1].split("/")
        return ("ok", verdicts, snaps, qasmcheck.parse_final(final.split()))
    obs = [parse(impl[str(i)]) for i in range(len(sessions))]
    obs2 = [parse(impl2[str(i)]) for i in range(len(sessions))]
    terms = []
    for s, o in zip(sessions, obs):
        outs = o[3]["out"] if o[0] == "ok" else []
        terms.append("run_session_x %s %s %s" % ("true" if s.get("xor") else "false", clist([qa.c_chunk(c) for c in s["chunks"]]), clist([cN(x) for x in outs])))
    vals = coqio.run_terms(terms, qasmcheck.IMPORTS, tag, shard_size=40)
    dis = []
    found = 0
    for i, (s, o, o2, v) in enumerate(zip(sessions, obs, obs2, vals)):
        fails = []
        if o[0] != "ok" or o2[0] != "ok":
            fails.append("session crashed: %s" % (o,))
        else:
            verdicts, snaps, fin = o[1], o[2], o[3]
            for b in s["bad"]:
                if not verdicts[b].startswith("err"):
                    fails.append("the failing chunk was accepted (%s)" % verdicts[b])
                elif snaps[b + 1] != snaps[b]:      # snaps[0] = before any chunk, snaps[i + 1] = after chunk i
                    fails.append("the interpreter changed across the rejected chunk (accessor / Debug output differs)")
            if any(not v_.startswith("ok") for k, v_ in enumerate(verdicts) if k not in s["bad"]):
                fails.append("a correct chunk was rejected: %s" % verdicts)
            f2 = o2[3]
            if fin["class"] != f2["class"] or not vec_close(fin["psi"], f2["psi"], 1e-9) or fin["rec"] != f2["rec"] \
                    or fin["qa"] != f2["qa"] or fin["tree"] != f2["tree"]:
                fails.append("the session with the failed attempt computes something else than the session without it")
        # model
        verd_m, qres = v
        mv = ["ok" if x == "None" else "err" for x in verd_m]
        om = qasmcheck.parse_model_qres(qres)
        agree = (o[0] == "ok" and [x[:3] if x.startswith("err") else x for x in o[1]] == mv
                 and qasmcheck.same_run(("ok", o[3]), om))
        if not agree:
            dis.append((i, o, (mv, om)))
        if fails:
            found += 1
            if found <= 5:
                run.violation({"what": "the property fails on the implementation for this session", "failures": fails,
                               "source_chunks": [qa.p_program(c) for c in s["chunks"]], "failing_chunk_index": s["bad"],
                               "harness": "qasm " + texts[i][1][:3000], "rule": s.get("rule"), "position": s.get("position")})
    if dis and not found:
        i, o, m = dis[0]
        run.violation({"relation": "C18 session verdicts and final run vs model", "theorem": "C18_atomic",
                       "what": "implementation left the model (correspondence C18 session no longer checks); no session violating "
                               "the property was found",
                       "source_chunks": [qa.p_program(c) for c in sessions[i]["chunks"]],
                       "implementation": str(o)[:600], "model": str(m)[:600], "disagreements": len(dis)}, found_input=False)
    return len(sessions) * 2, dis


# ------------------------------------------------------------------------------------------------ C12

def c12_strings(rng, tier):
    """(text, signature or None)"""
    out = []
    base_progs = []
    for _ in range(30 if tier == "quick" else 1200):
        nodes, lay = qa.gen_program(rng, nstmts=rng.randint(3, 14), max_q=5, measure_p=0.2, if_p=0.15, reset_p=0.1, gate_defs=2, depth=2)
        base_progs.append(qa.p_program(nodes, rng, header=rng.random() < 0.5))
    out += [(t, None) for t in base_progs]
    # adversarial hand-written inputs (each once a crash or hang)
    fill = lambda k: " ".join("gate f%d q { h q; }" % i for i in range(k))
    adversarial = [
        # recursive cycles whose bodies call the next member several times, among dozens of unrelated definitions (an
        # expansion that does not stop at the first refused call visits calls^gates branches)
        fill(40) + " gate ping q { pong q; pong q; } gate pong q { ping q; ping q; } qreg q[1]; ping q[0];",
        fill(28) + " gate a q { x q; b q; b q; b q; } gate b q { c2 q; h q; c2 q; } gate c2 q { a q; a q; } qreg q[1]; h q[0]; a q[0];",
        "OPENQASM 2.0; include \"qelib1.inc\"; gate ping(t) q { pong(t/2) q; rx(t) q; pong(t) q; } gate pong(t) q { ping(t) q; ping(t+1) q; } qreg q[1]; ping(1) q[0];",
        "qreg q[2]; c q[0],q[1];", "qreg q[2]; C q[0],q[1];", "qreg q[1]; éx q[0];", "qreg q[2]; cé q[0],q[1];",
        "qreg q[1]; cc q[0];", "qreg q[1]; 中 q[0];", "gate a q { b q; } gate b q { a q; } qreg q[1]; a q[0];",
        "gate a q { a q; } qreg q[1]; a q[0];", "gate a q { b q; } gate b q { c2 q; } gate c2 q { a q; } qreg q[1]; a q[0];",
        "qreg q[1]; creg c[1]; rx(1/0) q[0]; measure q -> c;", "qreg q[1]; creg c[1]; rx(0/0) q[0]; measure q -> c;",
        "qreg q[1]; creg c[1]; rz(ln(0)) q[0]; measure q -> c;", "qreg q[1]; rx(sqrt(0-1)) q[0];",
        "gate g(a) x { rx(a/0) x; } qreg q[1]; creg c[1]; g(1) q[0]; measure q -> c;",
        "qreg a[40]; qreg b[40]; x b[39];", "qreg a[63]; qreg b[1]; x b[0];", "qreg a[64];", "qreg a[2147483647];", "qreg a[99999999999];",
        "qreg a[0]; x a;", "qreg q[1]; x q[99999999999];", "creg c[40]; creg d[40];", "qreg q[1]; creg c[1]; if(c==99999999999) x q[0];",
        "qreg q[1]; rx() q[0];", "qreg q[1]; rx(1,) q[0];", "qreg q[1]; rx((1) q[0];", "qreg q[1]; rx(1)) q[0];", "qreg q[1]; rx(1 2) q[0];",
        "qreg q[1]; rx(pi pi) q[0];", "qreg q[1]; rx(+) q[0];", "qreg q[1]; rx(1e999) q[0];", "qreg q[1]; rx(.) q[0];", "qreg q[1]; rx(1..2) q[0];",
        "qreg q[1]; u3(1,2) q[0];", "qreg q[1]; measure q;", "qreg q[1]; measure q -> ;", "qreg q[1]; if (q==0) x q[0];", "if", "gate", "gate g", "gate g a {",
        "qreg", "qreg q", "qreg q[", "qreg q[1", "qreg q[1]", "OPENQASM", "OPENQASM 3.0; qreg q[1];", "OPENQASM 2.0", "include \"qelib1.inc\";",
        "include \"qelib1.inc\"; qreg q[1]; h q[0];", "// only a comment", "", " ", "\n\n", ";", ";;;;", "}", "{", "]", "->", "q", "x q[0];",
        "qreg q[1]; barrier zz;", "qreg q[1]; reset q[5];", "opaque g a;", "qreg q[1]; opaque g(a,b) x,y; g q[0];",
        "qreg q[2]; creg c[2]; measure q[0] -> c; ", "qreg q[1]; creg c[1]; measure q -> c[0] -> c;",
        "qreg q[1]; gate x a { } x q[0];", "qreg q[1]; gate h a { h a; } h q[0];", "qreg q[1]; gate g a,a { x a; } g q[0],q[0];",
        "qreg q[2]; gate g a,b { cx a,b; } g q[0],q[0];", "qreg q[2]; cx q,q;", "qreg q[2]; swap q[0],q[0];", "qreg q[3]; ccx q[0],q[1],q[1];",
        "qreg q[1]; " + "x q[0]; " * 3000, "qreg " + "a" * 10000 + "[1];", "qreg q[1]; rx(" + "(" * 3000 + "1" + ")" * 3000 + ") q[0];",
        "qreg q[1]; rx(" + "1+" * 3000 + "1) q[0];", "qreg q[1]; rx(" + "-" * 3000 + "1) q[0];",
        "qreg q[1]; creg c[1]; " + "if(c==0) " * 1000 + "x q[0];",
        "qreg q[10]; qft q; h q; qft q;", "qreg q[1]; \x00x q[0];", "qreg q[1]; x q[0]\x00;", "qreg q[1];\xff", "﻿qreg q[1];",
        "qreg q[1]; gate g(" + ",".join("p%d" % i for i in range(300)) + ") a { } ", "qreg q[1]; creg c[1]; measure q[0] -> c[0]; " * 200,
    ]
    adversarial += [
        # a parameter name in a qubit position of a gate body, the gate then called (directly, nested, under if)
        "qreg q[1]; gate g(a) x { h a; } g(0) q[0];",
        "qreg q[2]; gate g(a) x, y { rx(a) x; cx y, a; } g(1) q[0], q[1];",
        "qreg q[1]; creg c[1]; gate g(a) x { h a; } gate o x { g(1) x; } if (c==0) o q[0];",
        "gate g(a, b) x { u3(a, b, a) x; z b; } qreg q[1]; g(1, 2) q[0];",
    ]
    adversarial += [
        # arity mismatches of user gates called from inside other user gates (too few / too many operands, parameters)
        "gate inner a, b { cx a, b; } gate outer a { inner a; } qreg q[2]; outer q[0];",
        "gate inner a { x a; } gate outer a, b { inner a, b; } qreg q[2]; outer q[0], q[1];",
        "gate inner(t) a { rx(t) a; } gate outer a { inner a; } qreg q[1]; outer q[0];",
        "gate inner(t) a { rx(t) a; } gate outer a { inner(1,2) a; } qreg q[1]; outer q[0];",
        "gate inner a, b { cx a, b; } gate mid a { inner a; } gate outer a { mid a; } qreg q[1]; outer q[0];",
        "gate inner a, b, c { ccx a, b, c; } gate outer a, b { inner a, b; h a; } qreg q[3]; creg c[1]; outer q[0], q[2]; measure q[0] -> c[0];",
    ]
    # a non-finite value in every parameter position of every parametrised gate name (plain, upper case, with one to
    # three leading c), written at the call, arising inside a gate body, and under an if -- followed by a measurement
    nonfinite = ["1/0", "0/0", "(-1)/0", "ln(0)", "exp(1000)", "sqrt(0-1)", "1e308*10"]
    for name, (npar, nq) in list(C09_STEMS.items()) + list(C09_CTRL.items()):
        if not npar:
            continue
        for extra_c in (0, 1, 2):
            nm = "c" * extra_c + name
            k = nq + extra_c
            qs = ", ".join("q[%d]" % i for i in range(k))
            for pos in range(npar):
                bad = rng.choice(nonfinite)
                pars = ", ".join(bad if i == pos else "0.5" for i in range(npar))
                form = rng.randrange(4)
                nmx = nm.upper() if form == 3 else nm
                if form in (0, 3):
                    adversarial.append("qreg q[%d]; creg c[1]; %s(%s) %s; measure q[0] -> c[0];" % (k, nmx, pars, qs))
                elif form == 1:
                    formal = ", ".join("a%d" % i for i in range(k))
                    inner = ", ".join("1/t" if i == pos else "0.5" for i in range(npar))
                    adversarial.append("gate g(t) %s { %s(%s) %s; } qreg q[%d]; creg c[1]; g(0) %s; measure q[0] -> c[0];"
                                       % (formal, nm, inner, formal, k, qs))
                else:
                    adversarial.append("qreg q[%d]; creg c[1]; if (c==0) %s(%s) %s; measure q[0] -> c[0];" % (k, nm, pars, qs))
    # tiny angles of every parametrised gate (a controlled phase of a wide QFT is pi/2^k) and the built-in qft on
    # registers too wide to execute (only interpreted)
    for k in list(range(18, 34)) + [40, 52, 60, 1000]:
        for nm, qs in (("cu1", "q[0], q[1]"), ("u1", "q[0]"), ("crz", "q[0], q[1]"), ("rx", "q[1]"), ("ccu1", "q[0], q[1], q[2]")):
            if k > 34 and nm != "cu1":
                continue
            adversarial.append("qreg q[3]; creg c[1]; h q; %s(%spi/2^%d) %s; measure q[0] -> c[0];" % (nm, rng.choice(["", "-"]), k, qs))
    adversarial += ["qreg q[3]; creg c[1]; cu1(0.00000005) q[0], q[1]; measure q[0] -> c[0];", "qreg q[3]; cu1(1e-300) q[0], q[1];",
                    "qreg q[3]; cu1(5e-324) q[0], q[1];", "qreg q[2]; gate g(l) a, b { cu1(l/2^26) a, b; } g(pi) q[0], q[1];"]
    for w in (13, 20, 25, 26, 27, 30, 40, 63):
        adversarial.append("qreg q[%d]; qft q;" % w)
        adversarial.append("qreg q[%d]; QFT q; h q[0];" % w)
    adversarial.append("qreg a[20]; qreg b[20]; qft a, b;")
    # controls that meet each other (not the target): same qubit twice, a register with one of its qubits, through a
    # gate body, under if, for several stems
    for stem, par in (("x", ""), ("z", ""), ("h", ""), ("rz", "(0.5)"), ("u1", "(0.5)"), ("u3", "(1,2,3)"), ("swap", ""), ("qft", "")):
        tq = "q[2], q[3]" if stem == "swap" else "q[2]"
        adversarial += [
            "qreg q[4]; cc%s%s q[0], q[0], %s;" % (stem, par, tq),
            "qreg q[4]; ccc%s%s q[1], q[0], q[1], %s;" % (stem, par, tq),
            "qreg a[2]; qreg q[4]; cc%s%s a, a[1], %s;" % (stem, par, tq),
            "qreg q[4]; creg c[1]; if (c==0) cc%s%s q[1], q[1], %s;" % (stem, par, tq),
            "gate g x, y, z { cc%s%s x, y, z; } qreg q[4]; g q[0], q[0], q[2];" % (stem, par) if stem != "swap" else "qreg q[1];",
        ]
    # a long run of leading c with as many operands (the prefix is stripped one letter at a time)
    for k in (10, 40, 62, 70, 100, 200, 300, 400, 1000):
        adversarial.append("qreg q[2]; %sx %s;" % ("c" * k, ", ".join(["q[0]"] * (k + 1))))
        adversarial.append("qreg q[63]; %sx %s;" % ("c" * k, ", ".join("q[%d]" % (i % 63) for i in range(k + 1))))
    out += [(t, None) for t in adversarial]
    # operand / parameter counts changed at random call sites, top level and inside gate bodies
    def bump(st):
        regs, pars = list(st[2]), list(st[3])
        r = rng.random()
        if r < 0.3 and regs:
            regs = regs[:-1]
        elif r < 0.55 and regs:
            regs = regs + [regs[0]]
        elif r < 0.8:
            pars = pars + [("num", "1")]
        elif pars:
            pars = pars[:-1]
        return ("apply", st[1], regs, pars)
    for _ in range(40 if tier == "quick" else 1500):
        nodes, lay = qa.gen_program(rng, nstmts=rng.randint(3, 10), max_q=5, measure_p=0.1, gate_defs=3, depth=1)
        nodes = list(nodes)
        sites = [(i, None) for i, nd in enumerate(nodes) if nd[0] == "apply"]
        sites += [(i, j) for i, nd in enumerate(nodes) if nd[0] == "gate" for j, b in enumerate(nd[4])]
        if not sites:
            continue
        i, j = rng.choice(sites)
        if j is None:
            nodes[i] = bump(nodes[i])
        else:
            g = nodes[i]; body = list(g[4]); body[j] = bump(body[j])
            nodes[i] = (g[0], g[1], g[2], g[3], body)
            # make sure the changed gate is actually applied
            qs = lay.qubits()
            if len(qs) >= len(g[2]):
                nodes.append(("apply", g[1], rng.sample(qs, len(g[2])), [("num", "0.5")] * len(g[3])))
        out.append((qa.p_program(nodes, rng), None))
    # every prefix of programs whose identifiers are non-ASCII wherever an identifier can stand (register, gate,
    # formal and actual parameter names, inside parameter lists at top level and inside gate bodies)
    prefix_progs = [
        "gate gθ(θ, é2) a, b { rx(θ*2) a; u1(é2/π) b; cx a, b; } qreg qé[2]; creg cπ[2]; gθ(π/2, 2*pi) qé[0], qé[1]; "
        "rx(π) qé[0]; u3(1,θ,a²) qé[1]; measure qé -> cπ; if (cπ==1) x qé[0];",
        "qreg q[2]; creg c[2]; gate rot(t, u) a { ry(t+u) a; rz(sqrt(t)) a; } rot(pi/3, 1.5e0) q[1]; cu1(pi/4) q[0], q[1]; "
        "measure q[0] -> c[1]; if (c==2) rot(1, 2) q[0]; reset q; barrier q;",
    ]
    for prog in (prefix_progs if tier != "quick" else prefix_progs):
        for k in range(len(prog) + 1):
            out.append((prog[:k], None))
    # K1: recorded finding (external parser recursion), one instance
    out.append(("qreg q[1]; creg c[1]; " + "if(c==0) " * 20000 + "x q[0];", "nested-if-depth>=20000"))
    # token- and byte-level mutations
    toks = [";", ",", "(", ")", "[", "]", "{", "}", "->", "==", "+", "-", "*", "/", "^", "q", "c", "pi", "0", "1", "64", "99999999999", "1.5",
            "qreg", "creg", "gate", "if", "measure", "reset", "barrier", "opaque", "include", "OPENQASM", "é", "c", "cc", "U", "CX", "//", "\n"]
    nmut = 400 if tier == "quick" else 60000
    for _ in range(nmut):
        t = rng.choice(base_progs)
        r = rng.random()
        if r < 0.25:
            k = rng.randrange(len(t) + 1); t = t[:k]                                   # truncation
        elif r < 0.5:
            k = rng.randrange(len(t) + 1); t = t[:k] + rng.choice(toks) + t[k:]        # token insertion
        elif r < 0.7:
            k = rng.randrange(max(len(t), 1)); t = t[:k] + t[k + rng.randint(1, 4):]   # deletion
        elif r < 0.85:
            k = rng.randrange(max(len(t), 1)); t = t[:k] + chr(rng.choice([0, 9, 34, 39, 92, 127, 200, 233, 8364, 0x4e2d, 0x1f600])) + t[k + 1:]
        else:
            a, b = sorted(rng.sample(range(len(t) + 1), 2)); t = t[:a] + t[b:] + t[a:b]  # block move
        out.append((t, None))
    return out
