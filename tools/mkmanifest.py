"""(Re)write MANIFEST.json from the table below.  Run by hand when a claim changes."""
import json, os
ROOT = os.path.dirname(os.path.dirname(os.path.abspath(__file__)))
AX = "Reals axioms ClassicalDedekindReals.sig_forall_dec, sig_not_dec, FunctionalExtensionality.functional_extensionality_dep"
NOAX = "no axioms (Closed under the global context)"
BASE = "Coq 8.16.1 kernel; %s; hand-written model tied to /repo by correspondence only (harness + tools); float rounding not modelled (tolerance 1e-9)"
C = json.load(open(os.path.join(ROOT, "tools", "claims.json")))
props = [json.loads(l) for l in open(os.path.join(ROOT, "properties.jsonl"))]
m = {
    "version": 1,
    "setup_cmd": "./setup.sh",
    "hooks": {"guard": "qvnt_verif",
              "enable": "RUSTFLAGS=\"--cfg qvnt_verif\" (set by tools/lib.py for every harness build)",
              "baseline_off_cmd": "cd /repo && cargo test --workspace --no-fail-fast --offline",
              "source_commits": C["hook_commits"], "add_only": False},
    "engines": C["engines"],
    "checks": [],
    "notes": "Machine-checked proof in Coq 8.16.1 about a hand-written Gallina model; the model is tied to /repo by a "
             "behavioural correspondence check on every run (see DESIGN.md). fixed findings: known_findings.json.",
    "not_applicable": [],
}
for p in props:
    i = p["id"]
    if i in C["claims"]:
        c = C["claims"][i]
        m["checks"].append({
            "property_id": i, "quick_cmd": "./check %s --tier quick" % i, "thorough_cmd": "./check %s --tier thorough" % i,
            "evidence_file": "/verif/evidence/%s.json" % i, "replay_cmd_template": "cat {path}", "engine": c["engine"],
            "level_claimed": {"category": "proof", "text": c["text"], "design_ref": "DESIGN.md section 5, " + i},
            "level_note": BASE % (NOAX if c.get("noax") else AX), "technique": c["technique"]})
    else:
        m["not_applicable"].append({"property_id": i, "reason": C["pending"].get(i, "check not built yet in this revision (work in progress; see DESIGN.md section 5)")})
json.dump(m, open(os.path.join(ROOT, "MANIFEST.json"), "w"), indent=1)
print("claimed:", [c["property_id"] for c in m["checks"]])
