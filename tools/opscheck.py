"""Correspondence machinery for the `ops` engine (C01-C04, C15): run operator cases on the
implementation and on the Coq model, compare, and classify disagreements with the numpy oracle."""
import numpy as np
from lib import *
import coqio
from coqio import cN, cnat, clist, ccomplex
import opexpr
from opexpr import to_harness, to_coq, oracle, Refused, MaskPanic

IMPORTS = ["Runner"]


def harness_text(c):
    k = c["kind"]
    if k == "matrix":
        return "matrix %d %s" % (c["n"], to_harness(c["e"]))
    if k == "struct":
        return "struct %s" % to_harness(c["e"])
    if k == "singlec":
        return "singlec %d %d %d %s" % (c["n"], c["idx"], c["mask"], to_harness(c["e"]))
    if k == "applybasis":
        return "applybasis %d %d %d %s" % (c["n"], c["j"], c.get("threads", 1), to_harness(c["e"]))
    if k == "applyraw":
        raw = " ".join("%s %s" % (hexf(z.real), hexf(z.imag)) for z in c["raw"])
        return "applyraw %d %d %s %s" % (c["n"], c.get("threads", 1), raw, to_harness(c["e"]))
    if k == "applyseq":
        return "applyseq %d %d %d %s" % (c["n"], c["j"], len(c["es"]), " ".join(to_harness(e) for e in c["es"]))
    if k == "probe":
        head = "probet %d %d %d" % (c["n"], c["j"], c["threads"]) if c.get("threads", 1) > 1 else "probe %d %d" % (c["n"], c["j"])
        return "%s %d %s %s" % (head, len(c["idxs"]), " ".join(map(str, c["idxs"])), to_harness(c["e"]))
    raise ValueError(k)


def coq_term(c):
    k = c["kind"]
    if k == "matrix":
        return "run_matrix %s %s" % (cnat(c["n"]), to_coq(c["e"]))
    if k == "struct":
        return "run_struct %s" % to_coq(c["e"])
    if k == "singlec":
        return "run_single_c %s %s %s %s" % (cnat(c["n"]), cnat(c["idx"]), cN(c["mask"]), to_coq(c["e"]))
    if k == "applybasis":
        return "run_apply_basis %s %s %s" % (cnat(c["n"]), cN(c["j"]), to_coq(c["e"]))
    if k == "applyraw":
        return "run_apply_raw %s %s" % (clist([ccomplex(z) for z in c["raw"]]), to_coq(c["e"]))
    if k == "applyseq":
        return "run_apply_seq %s %s %s" % (cnat(c["n"]), cN(c["j"]), clist([to_coq(e) for e in c["es"]]))
    if k == "probe":
        return "run_probe %s %s %s" % (cN(c["j"]), clist([cN(i) for i in c["idxs"]]), to_coq(c["e"]))
    raise ValueError(k)


def parse_impl(c, payload):
    """-> canonical observable: ('ok', struct, numbers) | ('refused',) | ('panic', class) | ('bad', text)"""
    t = payload.split()
    if not t:
        return ("bad", payload)
    if t[0] == "REFUSED":
        return ("refused",)
    if t[0] == "PANIC":
        return ("panic", t[1] if len(t) > 1 else "?", " ".join(t[2:]))
    if t[0] in ("TIMEOUT", "ABORT"):
        return ("died", payload)
    if t[0] != "OK":
        return ("bad", payload)
    k = c["kind"]
    if k in ("matrix", "struct", "singlec"):
        act, ln = int(t[1]), int(t[2])
        acts = [int(x) for x in t[3:3 + ln]]
        rest = t[3 + ln:]
        st = (act, ln, acts)
        if k == "struct":
            return ("ok", st, [])
        return ("ok", st, parse_complex_hex(rest))
    return ("ok", None, parse_complex_hex(t[1:]))


def parse_model(c, v):
    if v == "RRefused":
        return ("refused",)
    if isinstance(v, tuple) and v[0] == "RPanic":
        k = v[1][0]
        return ("panic", {1: "mask1", 2: "mask2"}.get(k, "fuel"), "")
    assert isinstance(v, tuple) and v[0] == "ROk", v
    a = v[1][0]
    k = c["kind"]
    if k == "struct":
        act, ln, acts = a
        return ("ok", (act, ln, list(acts)), [])
    if k in ("matrix", "singlec"):
        act, ln, acts, rows = a
        flat = []
        for r in rows:
            flat.extend(model_complex_list(r))
        return ("ok", (act, ln, list(acts)), flat)
    return ("ok", None, model_complex_list(a))


def same(oi, om):
    if oi[0] != om[0]:
        return False
    if oi[0] == "refused":
        return True
    if oi[0] == "panic":
        return oi[1] == om[1]
    if oi[0] == "ok":
        return oi[1] == om[1] and vec_close(oi[2], om[2])
    return False


def expected_by_oracle(c):
    """What the documentation demands for this case, computed without the model:
    ('ok', numbers or None) | ('refused',) | ('panic', class)."""
    try:
        k = c["kind"]
        if k == "struct":
            oracle(c["e"], 0) if False else None
            # structure is not specified by the documentation beyond act_on
            # refusal/panic are: evaluate on a small register containing the masks
            n = max(1, opexpr.act_on(c["e"]).bit_length())
            if n <= 6:
                oracle(c["e"], n)
            return ("ok", None)
        if k == "matrix":
            M = oracle(c["e"], c["n"])
            return ("ok", [complex(z) for z in M.reshape(-1)])
        if k == "applybasis" and c["n"] >= 11 and c["e"][0] in ("qft", "qft_swapped") and c["e"][1] == (1 << c["n"]) - 1:
            # the DFT column by formula (no 2^n x 2^n matrix): natural order for qft_swapped, input index bit-reversed for qft
            n = c["n"]; j = c["j"] & ((1 << n) - 1)
            x = int(format(j, "0%db" % n)[::-1], 2) if c["e"][0] == "qft" else j
            y = np.arange(1 << n, dtype=np.float64)
            ph = 2 * np.pi * ((y * x) % (1 << n)) / (1 << n)
            out = np.exp(1j * ph) / np.sqrt(1 << n)
            return ("ok", [complex(z) for z in out])
        if k == "applybasis":
            n = c["n"]
            M = oracle(c["e"], n)
            v = np.zeros(1 << n, dtype=complex); v[c["j"] & ((1 << n) - 1)] = 1
            out = list(M @ v) + [0j] * (max(1 << n, 8) - (1 << n))
            return ("ok", [complex(z) for z in out])
        if k == "applyraw":
            n = c["n"]
            M = oracle(c["e"], n)
            v = np.array(c["raw"][:1 << n], dtype=complex)
            out = list(M @ v) + list(c["raw"][1 << n:])
            return ("ok", [complex(z) for z in out])
        if k == "applyseq":
            n = c["n"]
            v = np.zeros(1 << n, dtype=complex); v[c["j"] & ((1 << n) - 1)] = 1
            for e in c["es"]:
                v = oracle(e, n) @ v
            out = list(v) + [0j] * (max(1 << n, 8) - (1 << n))
            return ("ok", [complex(z) for z in out])
        if k == "probe":
            # the oracle works on the sub-register of touched bits: compress indices
            e = c["e"]
            touched = sorted(set(opexpr.bits(opexpr.act_on(e))))
            if len(touched) > 8:
                return ("unknown",)
            pos = {b: t for t, b in enumerate(touched)}

            def remap_mask(m):
                return sum(1 << pos[b] for b in opexpr.bits(m))

            def remap_expr(x):
                if not isinstance(x, tuple):
                    return x
                h = x[0]
                if h in opexpr.MASK_ONLY:
                    return (h, remap_mask(x[1]))
                if h in opexpr.ONE_ANGLE:
                    return (h, x[1], remap_mask(x[2]))
                if h == "u2":
                    return (h, x[1], x[2], remap_mask(x[3]))
                if h == "u3":
                    return (h, x[1], x[2], x[3], remap_mask(x[4]))
                if h == "c":
                    return (h, remap_mask(x[1]), remap_expr(x[2]))
                return (h,) + tuple(remap_expr(y) for y in x[1:])
            k2 = len(touched)
            M = oracle(remap_expr(e), max(k2, 1))
            tmask = sum(1 << b for b in touched)
            j = c["j"]
            jj = sum(((j >> b) & 1) << pos[b] for b in touched)
            out = []
            for i in c["idxs"]:
                if (i & ~tmask) != (j & ~tmask):
                    out.append(0j)
                else:
                    ii = sum(((i >> b) & 1) << pos[b] for b in touched)
                    out.append(complex(M[ii, jj]))
            return ("ok", out)
    except Refused:
        return ("refused",)
    except MaskPanic as p:
        return ("panic", "mask%d" % p.k)
    return ("unknown",)


def oracle_agrees(c, oi, up_to_phase=False):
    """Does the implementation's observable satisfy the documentation at this case?"""
    ex = expected_by_oracle(c)
    if ex[0] == "unknown":
        return None
    if oi[0] == "died":
        return False
    if ex[0] != oi[0]:
        return False
    if ex[0] == "panic":
        return ex[1] == oi[1]
    if ex[0] == "refused":
        return True
    if ex[1] is None:
        return True
    got = oi[2]
    want = ex[1]
    if len(got) != len(want):
        return False
    if up_to_phase:
        # one global phase for the whole operator
        k = max(range(len(want)), key=lambda t: abs(want[t]))
        if abs(want[k]) < 1e-12 or abs(got[k]) < 1e-12:
            return vec_close(got, want, 1e-8)
        ph = got[k] / want[k]
        ph /= abs(ph)
        want = [w * ph for w in want]
    return vec_close(got, want, 1e-8)


def describe(c):
    d = {k: v for k, v in c.items() if k not in ("raw",)}
    d["harness"] = harness_text(c)
    return d


def run_cases(run, binary, cases, tag, up_to_phase=False, relation="ops-correspondence", deadline=30.0,
              theorem_hint="", self_relation=None):
    """Run all cases through implementation and model.  Records violations in `run`.
    Returns (n_evaluated, disagreements)."""
    texts = [(str(i), harness_text(c)) for i, c in enumerate(cases)]
    impl = run_harness(binary, "ops", texts, deadline=deadline)
    # cases marked no_model are too large for the model's list buffers (registers of 17+ qubits): they run on the
    # implementation only and serve the search for a failing input once some other case has left the model
    with_model = [i for i, c in enumerate(cases) if not c.get("no_model")]
    vals = coqio.run_terms([coq_term(cases[i]) for i in with_model], IMPORTS, tag)
    model_vals = dict(zip(with_model, vals))
    disagreements = []
    for i in with_model:
        c = cases[i]
        oi = parse_impl(c, impl.get(str(i), "ABORT missing"))
        om = parse_model(c, model_vals[i])
        if not same(oi, om):
            disagreements.append((i, c, oi, om))
    # classify: search for a concrete input on which the property itself fails
    found = 0
    # the cases without a model run are always judged by the statement's own relation / the documented operator
    for i, c in enumerate(cases):
        if not c.get("no_model"):
            continue
        if self_relation is not None:
            why = self_relation(binary, c)
        else:
            oi = parse_impl(c, impl.get(str(i), "ABORT missing"))
            why = "implementation differs from the documented operator at this input" if oracle_agrees(c, oi, up_to_phase) is False else None
        if why:
            found += 1
            if found <= 3:
                run.violation({"case": describe(c), "what": why, "how": "register too large for the model's buffers: judged on "
                               "implementation results only"})
    if self_relation is not None and disagreements:
        # the statement relates the implementation to itself (tools/oprel.py): evaluate that relation on the
        # implementation for the disagreeing cases first, then for a sample of all cases
        pool = [c for _, c, _, _ in disagreements[:60]]
        rest = [c for c in cases if c not in pool]
        run.rng.shuffle(rest)
        for c in pool + rest[:300]:
            why = self_relation(binary, c)
            if why:
                found += 1
                run.violation({"case": describe(c), "what": why,
                               "how": "relation of the statement evaluated on implementation results only"})
                if found >= 3:
                    break
        if not found:
            i, c, oi, om = disagreements[0]
            run.violation({"relation": relation, "theorem": theorem_hint,
                           "what": "implementation left the model (correspondence %s no longer checks); the statement's own "
                                   "relation still holds on the implementation for every case tried, so no input violating "
                                   "the property was found" % relation,
                           "case": describe(c), "implementation": _short(oi), "model": _short(om),
                           "disagreements": len(disagreements)}, found_input=False)
        return len(cases), disagreements
    for i, c, oi, om in disagreements[:50]:
        ok = oracle_agrees(c, oi, up_to_phase)
        if ok is False:
            found += 1
            if found <= 5:
                run.violation({"case": describe(c), "implementation": _short(oi), "model": _short(om),
                               "documented": _short(expected_by_oracle(c)),
                               "what": "implementation differs from the documented operator at this input"})
    if disagreements and not found:
        # widen the search: oracle over every case of the tier
        for i, c in enumerate(cases):
            oi = parse_impl(c, impl.get(str(i), "ABORT missing"))
            if oracle_agrees(c, oi, up_to_phase) is False:
                found += 1
                run.violation({"case": describe(c), "implementation": _short(oi),
                               "documented": _short(expected_by_oracle(c)),
                               "what": "implementation differs from the documented operator at this input"})
                break
    if disagreements and not found:
        i, c, oi, om = disagreements[0]
        run.violation({"relation": relation, "theorem": theorem_hint,
                       "what": "implementation left the model (correspondence %s no longer checks); "
                               "no input violating the property was found" % relation,
                       "case": describe(c), "implementation": _short(oi), "model": _short(om),
                       "disagreements": len(disagreements)}, found_input=False)
    return len(cases), disagreements


def _short(o):
    if o is None:
        return None
    o = list(o)
    for k, x in enumerate(o):
        if isinstance(x, list) and len(x) > 64:
            o[k] = x[:64] + ["..."]
    return [str(x) if isinstance(x, complex) else ([str(y) for y in x] if isinstance(x, list) else x) for x in o]
