#!/bin/bash
# usage: refrun.sh <refactor-id> [check-id...] : apply /verif/refactors/<id>/patch.diff (a behaviour-preserving
# rewrite written by a sub-agent that saw nothing of /verif) to /repo, run the named checks (default: all 20, quick
# tier), print their verdict lines, and undo the change.  Expected: exit 0 everywhere -- an alarm here is a false alarm.
set -u
rid=$1; shift
checks=${*:-C01 C02 C03 C04 C05 C06 C07 C08 C09 C10 C11 C12 C13 C14 C15 C16 C17 C18 C19 C20}
cd /verif
if [ -n "$(git -C /repo status --porcelain)" ]; then echo "/repo not clean"; exit 2; fi
git -C /repo apply /verif/refactors/$rid/patch.diff || exit 2
trap 'git -C /repo checkout -- . ' EXIT
mkdir -p /verif/refactors/$rid/runs
for c in $checks; do
  s=$(date +%s)
  ./check $c --tier ${TIER:-quick} > /verif/refactors/$rid/runs/$c.log 2>&1; rc=$?
  echo "refactor=$rid check=$c exit=$rc $(( $(date +%s)-s ))s :: $(grep -h 'VIOLATION' /verif/refactors/$rid/runs/$c.log | head -3 | tr '\n' ' ')"
done
