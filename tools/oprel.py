"""Property-specific failing-input search for the operator properties whose statement relates the
implementation to itself (C02 controls, C03 daggers, C04 products).  After a model/implementation
disagreement the documented-matrix oracle (opexpr.oracle) decides C01 and C15, whose statements name
the documented matrix.  For C02-C04 a gate whose own matrix is wrong is not a failing input: the
property only fails when the combinator (.c, .dgr, *) does not do to the implementation's own
operators what the statement says.  The relations below are therefore evaluated on implementation
results only (extra harness runs), never on the model."""
import numpy as np
from lib import *
import opexpr
from opexpr import to_harness, ASSEMBLY

TOL = 1e-8


def _run(binary, lines):
    texts = [(str(i), l) for i, l in enumerate(lines)]
    out = run_harness(binary, "ops", texts, deadline=30.0)
    return [out.get(str(i), "ABORT missing") for i in range(len(lines))]


def _matrix(payload, n):
    """-> ('ok', act, M) | ('refused',) | ('panic', cls) | ('died',)"""
    t = payload.split()
    if not t:
        return ("died",)
    if t[0] == "REFUSED":
        return ("refused",)
    if t[0] == "PANIC":
        return ("panic", t[1] if len(t) > 1 else "?")
    if t[0] != "OK":
        return ("died",)
    act, ln = int(t[1]), int(t[2])
    vals = parse_complex_hex(t[3 + ln:])
    N = 1 << n
    return ("ok", act, np.array(vals, dtype=complex).reshape(N, N))


def _vec(payload):
    t = payload.split()
    if not t or t[0] != "OK":
        return None
    return np.array(parse_complex_hex(t[1:]), dtype=complex)


def impl_matrices(binary, n, exprs):
    return [_matrix(p, n) for p in _run(binary, ["matrix %d %s" % (n, to_harness(e)) for e in exprs])]


def close(A, B):
    return A.shape == B.shape and float(np.max(np.abs(A - B))) <= TOL if A.size else True


def flatten(e):
    """the queue of a product expression, left to right"""
    if isinstance(e, tuple) and e[0] in ASSEMBLY:
        return flatten(e[1]) + flatten(e[2])
    if e == ("id",):
        return []
    return [e]


def case_n(c):
    if "n" in c:
        return c["n"]
    return None


# ------------------------------------------------------------------------------------------------ C03

def c03_fails(binary, c):
    """None = relation holds on the implementation (or not applicable); str = how it fails"""
    n = case_n(c)
    if n is None or n > 6 or c["kind"] not in ("matrix", "applyraw"):
        return None
    e = c["e"]
    if e[0] == "dgr":
        x = e[1]
        a, b = impl_matrices(binary, n, [x, e])
        if a[0] != b[0]:
            return "dgr(op) %s but op %s" % (b[0], a[0])
        if a[0] != "ok":
            return None
        if not close(b[2], a[2].conj().T):
            return "matrix of op.dgr() is not the conjugate transpose of the matrix of op"
        if a[1] != b[1]:
            return "op.dgr() reports other touched qubits than op"
        return None
    if e[0] in ASSEMBLY:
        l, r = e[1], e[2]
        if (isinstance(r, tuple) and r[0] == "dgr" and r[1] == l) or (isinstance(l, tuple) and l[0] == "dgr" and l[1] == r):
            m = impl_matrices(binary, n, [e])[0]
            if m[0] != "ok":
                x = impl_matrices(binary, n, [l if r[0] == "dgr" else r])[0]
                return None if x[0] == m[0] else "op*op.dgr() %s but op %s" % (m[0], x[0])
            if not close(m[2], np.eye(1 << n, dtype=complex)):
                return "op followed by its dagger is not the identity"
            return None
    # dagger of a product = reversed product of daggers: through matrices
    return None


# ------------------------------------------------------------------------------------------------ C04

def c04_fails(binary, c):
    n = case_n(c)
    if n is None or (n > 5 and not (c["kind"] == "applyseq" and n <= 14)):
        return None
    if c["kind"] == "applyseq":
        gates = list(c["es"])
        if not gates:
            return None
        prod = gates[0]
        for g in gates[1:]:
            prod = ("mul", prod, g)
        a, b = _run(binary, ["applyseq %d %d %d %s" % (n, c["j"], len(gates), " ".join(to_harness(g) for g in gates)),
                             "applybasis %d %d 1 %s" % (n, c["j"], to_harness(prod))])
        va, vb = _vec(a), _vec(b)
        if va is None or vb is None:
            return None if (a.split()[:1] == b.split()[:1]) else "product %s but factor-by-factor application %s" % (b.split()[:1], a.split()[:1])
        if not close(va, vb):
            return "applying the product differs from applying its factors one after another"
        return None
    e = c.get("e")
    if e is None:
        return None
    if c["kind"] in ("applyraw", "applybasis"):
        # the case as it was run (its threading model, its input) against its factors' own matrices applied one by one
        from opscheck import harness_text
        gates = flatten(e)
        ms = impl_matrices(binary, n, gates)
        if any(m[0] != "ok" for m in ms):
            return None
        got = _vec(_run(binary, [harness_text(c)])[0])
        if got is None:
            return "applying the product %s although every factor builds" % "fails"
        if c["kind"] == "applyraw":
            v = np.array(c["raw"][:1 << n], dtype=complex); pad = list(c["raw"][1 << n:])
        else:
            v = np.zeros(1 << n, dtype=complex); v[c["j"] & ((1 << n) - 1)] = 1; pad = [0j] * (max(1 << n, 8) - (1 << n))
        for m in ms:
            v = m[2] @ v
        want = np.array(list(v) + pad, dtype=complex)
        if not close(got, want):
            return ("applying the product (threads=%d) differs from applying its factors one after another"
                    % c.get("threads", 1)) if gates else "the empty product (identity) changes the state (threads=%d)" % c.get("threads", 1)
        return None
    gates = flatten(e)
    ms = impl_matrices(binary, n, [e] + gates)
    if any(m[0] != "ok" for m in ms):
        return None if ms[0][0] != "ok" else "product builds although a factor does not"
    M = np.eye(1 << n, dtype=complex)
    for m in ms[1:]:
        M = m[2] @ M
    if not close(ms[0][2], M):
        return "matrix of the product is not the product of the factors' matrices in queue order"
    # disjoint supports commute
    if len(gates) == 2 and e[0] in ASSEMBLY and (ms[1][1] & ms[2][1]) == 0:
        if not close(ms[1][2] @ ms[2][2], ms[2][2] @ ms[1][2]):
            return "operators on disjoint qubits do not commute"
    return None


# ------------------------------------------------------------------------------------------------ C02

def c02_single(binary, c):
    """SingleOp::c on one element of a queue: refused exactly when the mask meets the element's targets or
    controls (the element's own act_on, read from the implementation), else act_on grows by the mask"""
    n, idx, mask, e = c["n"], c["idx"], c["mask"], c["e"]
    a, b = _run(binary, ["struct %s" % to_harness(e), "singlec %d %d %d %s" % (n, idx, mask, to_harness(e))])
    ta = a.split()
    if not ta or ta[0] != "OK":
        return None
    ln = int(ta[2]); acts = [int(x) for x in ta[3:3 + ln]]
    if idx >= ln:
        return None
    tb = b.split()
    if mask & acts[idx]:
        return None if tb[:1] == ["REFUSED"] else ("SingleOp::c(%d) on an element touching %d (targets and controls) is not refused" % (mask, acts[idx]))
    if tb[:1] != ["OK"]:
        return "admissible control of a queue element %s" % (tb[:1] or ["died"])[0]
    if int(tb[2]) >= 1 and int(tb[1]) != (acts[idx] | mask):
        return "touched qubits of the controlled element are not the union of its qubits and the new controls"
    return None


def c02_fails(binary, c):
    if c["kind"] == "singlec":
        return c02_single(binary, c)
    n = case_n(c)
    if n is None or n > 6 or c["kind"] not in ("matrix", "applyraw"):
        return None
    e = c["e"]
    while isinstance(e, tuple) and e[0] == "dgr":
        e = e[1]
    if not (isinstance(e, tuple) and e[0] == "c"):
        return None
    # peel nested controls
    masks = []
    base = e
    while isinstance(base, tuple) and base[0] == "c":
        masks.append(base[1]); base = base[2]
    mb, me = impl_matrices(binary, n, [base, e])
    if mb[0] != "ok":
        return None if me[0] == mb[0] else "controlled operator %s but operator %s" % (me[0], mb[0])
    touched = mb[1]
    want = mb[2]
    refused = False
    for cm in reversed(masks):
        if cm & touched:
            refused = True
            break
        want = opexpr.ctrl(want, cm, n)
        touched |= cm
    if refused:
        return None if me[0] == "refused" else "control mask overlapping the operator is not refused"
    if me[0] != "ok":
        return "admissible control %s" % me[0]
    if not close(me[2], want):
        return "controlled operator is not 'the operator where all controls are 1, identity elsewhere'"
    if me[1] != touched:
        return "touched qubits are not the union of targets and controls"
    return None


RELATIONS = {"C02": c02_fails, "C03": c03_fails, "C04": c04_fails}
