"""C03 -- the dagger of every operator is its inverse."""
from lib import *
import gen, opsmain
from opexpr import act_on

PROP = "C03"


def rand_circuit(rng, n, k, ctrl_p=0.3):
    e = None
    for _ in range(k):
        g = gen.random_gate(rng, n, kinds=gen.ALL_KINDS + ["qft", "qft_swapped"])
        if rng.random() < ctrl_p:
            free = [c for c in range(1, 1 << n) if not c & act_on(g)]
            if free:
                g = ("c", rng.choice(free), g)
        if rng.random() < 0.2:
            g = ("dgr", g)
        e = g if e is None else (rng.choice(["mul", "mul", "mulassign", "append", "pushsingles", "pushfront", "mulsingles", "mulrefmut", "pushback", "wrapped"]), e, g)
    return e or ("id",)


def cases(rng, tier):
    cs = []
    nmax = 3
    for n in range(1, nmax + 1):
        for kind in gen.ALL_KINDS + ["qft", "qft_swapped"]:
            for m in gen.valid_masks(kind, n):
                g = gen.gate(kind, m, rng)
                cs.append({"kind": "matrix", "n": n, "e": ("dgr", g)})
                cs.append({"kind": "matrix", "n": n, "e": ("mul", g, ("dgr", g))})
                cs.append({"kind": "matrix", "n": n, "e": ("mul", ("dgr", g), g)})
                # the dagger of a dagger, and a daggered gate followed by its own dagger
                cs.append({"kind": "matrix", "n": n, "e": ("dgr", ("dgr", g))})
                cs.append({"kind": "matrix", "n": n, "e": ("mul", ("dgr", g), ("dgr", ("dgr", g)))})
                free = [c for c in range(1, 1 << n) if not c & m]
                if free:
                    c = rng.choice(free)
                    cs.append({"kind": "matrix", "n": n, "e": ("dgr", ("c", c, g))})
                    cs.append({"kind": "matrix", "n": n, "e": ("mul", ("c", c, g), ("dgr", ("c", c, g)))})
    # the gates that accept several-bit masks, on masks of four and more bits (counts that are not reduced mod 4 / mod 8)
    for n in (5, 6):
        for kind in gen.NOPARAM1:
            ms = [m for m in range(1 << n) if bin(m).count("1") >= 4]
            for m in (rng.sample(ms, 2) + [(1 << n) - 1] if tier == "quick" else ms):
                g = (kind, m)
                cs.append({"kind": "matrix", "n": n, "e": ("dgr", g)})
                cs.append({"kind": "matrix", "n": n, "e": (rng.choice(["mul", "mulassign", "pushfront"]), g, ("dgr", g))})
                free = [c for c in range(1, 1 << n) if not c & m]
                if free:
                    c = rng.choice(free)
                    cs.append({"kind": "matrix", "n": n, "e": ("mul", ("dgr", ("c", c, g)), ("c", c, g))})
    # ... and of 8-9 bits on basis states with every selected qubit set (the count passes 8)
    for kind in gen.NOPARAM1:
        for n in (8, 9):
            g = (kind, (1 << n) - 1)
            for j in ((1 << n) - 1, (1 << n) - 2):
                cs.append({"kind": "applybasis", "n": n, "j": j, "e": ("dgr", g)})
                cs.append({"kind": "applybasis", "n": n, "j": j, "e": ("mul", ("dgr", g), g)})
    # angle sweep for the rotation daggers
    for kind in gen.PARAM1 + gen.PARAM2:
        m = 0b10 if kind in gen.PARAM1 else 0b101
        for a in gen.ANGLES:
            g = (kind, a, m)
            cs.append({"kind": "matrix", "n": 3, "e": ("dgr", g)})
            cs.append({"kind": "matrix", "n": 3, "e": ("mul", g, ("dgr", g))})
    # angles so small that their cosine rounds to 1 while the sine does not vanish: one gate, and four in a row (the
    # deviation of a wrong dagger adds up)
    for kind in gen.PARAM1 + gen.PARAM2:
        m = 0b10 if kind in gen.PARAM1 else 0b101
        for a in (2e-8, -2e-8, 1.2e-8, 3e-9):
            g = (kind, a, m)
            e4 = ("mul", ("mul", g, g), ("mul", g, g))
            cs.append({"kind": "matrix", "n": 3, "e": ("dgr", g)})
            cs.append({"kind": "matrix", "n": 3, "e": ("mul", g, ("dgr", g))})
            cs.append({"kind": "matrix", "n": 3, "e": ("mul", e4, ("dgr", e4))})
    # products: dagger of a product, product with its dagger
    maxlen = 12 if tier == "quick" else 200
    for _ in range(80 if tier == "quick" else 2000):
        n = rng.randint(2, 4)
        k = rng.randint(1, maxlen if rng.random() < 0.2 else 12)
        e = rand_circuit(rng, n, k)
        cs.append({"kind": "matrix", "n": n, "e": ("dgr", e)})
        cs.append({"kind": "applyraw", "n": n, "raw": gen.random_state(rng, n), "e": ("mul", e, ("dgr", e))})
    # products with a shape: neighbours in the queue sit on different qubits, gates further apart share one and do
    # not commute (a b a', a b c a', ...), and layers (every gate on its own qubit, then a gate across them)
    ones = ["x", "y", "z", "s", "t", "h", "rx", "ry", "rz"]
    for _ in range(60 if tier == "quick" else 1500):
        n = rng.randint(2, 4)
        qs = list(range(n))
        k = rng.randint(3, 6)
        seq = []
        prev = None
        for i in range(k):
            q = rng.choice([x for x in qs if x != prev])
            prev = q
            seq.append(gen.gate(rng.choice(ones), 1 << q, rng))
        if rng.random() < 0.4 and n >= 2:
            a, b = rng.sample(qs, 2)
            seq.append(gen.gate(rng.choice(["rzz", "rxx", "swap", "sqrt_swap"]), (1 << a) | (1 << b), rng))
        e = seq[0]
        for g in seq[1:]:
            e = (rng.choice(["mul", "mul", "mulassign", "pushfront", "wrapped"]), e, g)
        cs.append({"kind": "matrix", "n": n, "e": ("dgr", e)})
        cs.append({"kind": "matrix", "n": n, "e": ("mul", e, ("dgr", e))})
    return cs


if __name__ == "__main__":
    opsmain.main(PROP, cases, "C03 dgr() matrices and op*dgr(op)",
                 "C03_atomic, C03_product",
                 "dgr(g), g*dgr(g), dgr(g)*g and controlled forms for every gate kind x valid mask on 1..3 qubits, the angle set on "
                 "the six rotation kernels, random products (length <= 12 quick / 200 thorough) with controls, qft and nested daggers")
