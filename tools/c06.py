"""C06 -- measurement projects the state onto the returned outcome."""
import math
from lib import *
import audit, regcheck, generic, gen
from opsmain import tier_seed
from c05 import rand_small_state

PROP = "C06"


def prep(rng, n):
    """a state reachable by a circuit: random gates on a basis state (or a raw random state)"""
    acts = [("with", n, rng.randrange(1 << n) if n else 0)]
    for _ in range(rng.randint(0, 6)):
        if n:
            acts.append(("apply", gen.random_gate(rng, n, kinds=gen.ALL_KINDS + ["qft"])))
    return acts


def histories(rng, tier):
    hs = []
    reps = 8
    for n in range(0, 7):
        for _ in range(6 if tier == "quick" else 120):
            base = prep(rng, n) if rng.random() < 0.7 else [("raw", n, rand_small_state(rng, n))]
            full = (1 << n) - 1
            masks = [0, full, full | (1 << (n + 2)), 1 << (n + 1)]
            if n:
                masks += [1 << rng.randrange(n), rng.randrange(1 << n), rng.randrange(1 << n) | (1 << (n + 3))]
            # QReg::measure(): the whole register
            hs.append((rng.randrange(1 << 30), list(base) + [("dump",), ("measureall",), ("dump",), ("measureall",), ("dump",)]))
            for m in masks:
                for _ in range(1 if tier == "quick" else reps):
                    acts = list(base) + [("dump",), ("measure", m), ("dump",), ("measure", m), ("dump",)]
                    if rng.random() < 0.3:
                        acts += [("measure", m & rng.getrandbits(n + 1)), ("dump",)]
                    hs.append((rng.randrange(1 << 30), acts))
    # states within 1e-9 (in probability) of one basis state without being it: a basis state turned by a tiny angle
    # on one qubit, or by pi (whose cosine is a 6e-17 residue), measured on that qubit, on the others, on all
    import math
    for n in (1, 2, 3, 5):
        for theta in (1e-5, 3e-6, 2e-7, math.pi, -math.pi, 2 * math.pi):
            for kind in ("rx", "ry"):
                b = rng.randrange(n)
                st = rng.randrange(1 << n)
                full = (1 << n) - 1
                for m in {1 << b, full & ~(1 << b), full}:
                    acts = [("with", n, st), ("apply", (kind, theta, 1 << b)), ("dump",), ("measure", m), ("dump",), ("measure", m), ("dump",)]
                    hs.append((rng.randrange(1 << 30), acts))
    # amplitudes so faint that their squared modulus underflows to zero (they are not zero: their ratio to the rest of the
    # state is part of the statement): one qubit turned by 1e-170 .. 1e-300 next to a qubit in superposition that is measured
    for n in (2, 3):
        for theta in (4e-170, -4e-170, 2.5e-200, 1e-300):
            for kind in ("rx", "ry"):
                a, b = rng.sample(range(n), 2)
                acts = [("new", n), ("apply", ("h", 1 << a)), ("apply", (kind, theta, 1 << b)), ("dump",), ("measure", 1 << a), ("dump",)]
                hs.append((rng.randrange(1 << 30), acts))
    # the projection must not depend on the threading model: a third of the histories under num_threads(k),
    # plus systematic threaded measurements of high qubits on 4-6 qubit registers
    hs = regcheck.thread_mix(rng, hs, 0.33)
    hs += regcheck.threaded_core(rng, tier, sample=False)
    # registers with a past (grown, shrunk, regrown, multiplied, measured before): full, high-qubit and random masks

    def observe(r, n):
        full = (1 << n) - 1
        m = r.choice([full, full, (1 << (n - 1)) if n else 0, r.randrange(1 << n) | ((1 << (n - 1)) if n else 0), full | (1 << (n + 1))])
        return [("dump",), ("measure", m), ("dump",), ("measure", m), ("dump",)]
    hs += regcheck.lifecycle_histories(rng, tier, observe)
    return hs


def oracle(acts, recs):
    fails = regcheck.oracle_valid_state(acts, recs)
    # walk: dump, m, dump triples
    k = 0
    ai = 0
    measures = [a if a[0] == "measure" else ("measure", (1 << 64) - 1) for a in acts if a[0] in ("measure", "measureall")]
    mi = 0
    prev = None
    last_m = None
    # touched[k]: the state was changed (gate, product, resize) between measurement k-1 and measurement k
    touched = []
    t = False
    for a in acts:
        if a[0] in ("measure", "measureall"):
            touched.append(t); t = False
        elif a[0] in ("apply", "tensorr", "tensorl", "mulassign", "setnum"):
            t = True
    for r in recs:
        if r[0] == "d":
            if last_m is not None and prev is not None:
                (mask, outcome), pre, post = last_m, prev, r
                n = post[1]
                qm = (1 << n) - 1
                em = mask & qm
                if outcome & ~em:
                    fails.append("outcome %d uses bits outside mask %d" % (outcome, em))
                v0, v1 = pre[2], post[2]
                if em == 0:
                    if v0 != v1:
                        fails.append("empty measurement changed the state")
                else:
                    p = sum(abs(v0[i]) ** 2 for i in range(1 << n) if (i & em) == outcome)
                    if p <= 0:
                        fails.append("outcome %d had zero probability" % outcome)
                    else:
                        s = 1 / math.sqrt(p / max(regcheck.norm2(v0), 1e-300))
                        for i in range(len(v1)):
                            if i < (1 << n) and (i & em) == outcome:
                                if abs(v1[i] - v0[i] * s / math.sqrt(regcheck.norm2(v0)) * math.sqrt(regcheck.norm2(v0))) > 1e-8 * max(1, s):
                                    fails.append("consistent amplitude %d not rescaled uniformly" % i); break
                            elif v1[i] != 0:
                                fails.append("amplitude %d inconsistent with the outcome is %r, not exactly 0" % (i, v1[i])); break
                        # mutual ratios, relative to each amplitude's own size (faint amplitudes are amplitudes too)
                        cons = [i for i in range(1 << n) if (i & em) == outcome and abs(v0[i]) > 1e-290]
                        if cons:
                            k0 = max(cons, key=lambda i: abs(v0[i]))
                            r0 = v1[k0] / v0[k0]
                            for i in cons:
                                if abs(v1[i] / v0[i] - r0) > 1e-9 * abs(r0):
                                    fails.append("consistent amplitudes %d and %d changed their ratio: scaled by %r and %r" % (k0, i, r0, v1[i] / v0[i])); break
                last_m = None
            prev = r
        elif r[0] == "m":
            if mi < len(measures):
                # repeated measurement of the same mask returns the same value
                if mi > 0 and measures[mi][1] == measures[mi - 1][1] and prev_m is not None and r[1] != prev_m and not touched[mi]:
                    fails.append("repeated measurement of mask %d returned %d then %d" % (measures[mi][1], prev_m, r[1]))
                last_m = (measures[mi][1], r[1])
                prev_m = r[1]
                mi += 1
    return fails


if __name__ == "__main__":
    tier, seed = tier_seed()
    run = Run(PROP, tier, seed)
    binary = build_harness()
    au = audit.audit(PROP)
    hs = histories(run.rng, tier)
    n, dis, recs = regcheck.run_histories(run, binary, hs, PROP, oracle,
                                          "C06 outcome and raw buffer before/after measure_mask", "C06_projection, C06_repeat")
    cs = [generic.Case(regcheck.hist_harness(s, a)[:400], None, None, None, kind="measure") for s, a in hs]
    outcomes = {}
    for r in recs:
        for x in r:
            if x[0] == "m":
                outcomes[x[1]] = outcomes.get(x[1], 0) + 1
    generic.finish(run, PROP, au, cs, n, dis,
                   "states prepared by random circuits / raw random states on 0..6 qubits x masks (empty, single, partial, full, with "
                   "out-of-range bits) x seeds; state dumped before and after; double measurement; model fed with the observed outcome",
                   assumptions=["the drawn outcome is taken from the implementation (seedable RNG hook)"],
                   extra_cov={"distinct_outcomes": len(outcomes)})
