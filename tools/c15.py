"""C15 -- the QFT operators are the discrete Fourier transform."""
from lib import *
import gen, opsmain

PROP = "C15"


def cases(rng, tier):
    cs = []
    nmax = 4 if tier == "quick" else 5
    for n in range(0, nmax + 1):
        for m in range(1 << n):
            for kind in ("qft", "qft_swapped"):
                cs.append({"kind": "matrix", "n": n, "e": (kind, m)})
                if rng.random() < 0.3:
                    cs.append({"kind": "matrix", "n": n, "e": ("dgr", (kind, m))})
    # larger registers, scattered masks, random states
    for _ in range(40 if tier == "quick" else 1000):
        n = rng.randint(5, 6 if tier == "quick" else 7)
        m = rng.randrange(1, 1 << n)
        kind = rng.choice(["qft", "qft_swapped"])
        cs.append({"kind": "applyraw", "n": n, "raw": gen.random_state(rng, n), "e": (kind, m)})
        cs.append({"kind": "applyraw", "n": n, "raw": gen.random_state(rng, n), "e": ("mul", (kind, m), ("dgr", (kind, m)))})
    # the transform does not depend on the threading model: every admissible worker count (those that do not divide the
    # buffer included) on registers of 4-7 qubits, dense states and Fourier inputs, forward and inverse
    import os
    cores = os.cpu_count() or 4
    for w in [k for k in (2, 3, 5, 6, 7) if k <= cores]:
        for n in (4, 5, 6, 7):
            for rep in range(1 if tier == "quick" else 6):
                kind = rng.choice(["qft", "qft_swapped"])
                m = (1 << n) - 1 if rep == 0 else rng.randrange(3, 1 << n)
                cs.append({"kind": "applyraw", "n": n, "raw": gen.random_state(rng, n), "e": (kind, m), "threads": w})
                cs.append({"kind": "applybasis", "n": n, "j": rng.randrange(1 << n), "e": ("dgr", (kind, m)), "threads": w})
    # registers too large for the model's buffers (17-18 qubits): basis states through the full-register transforms,
    # judged by the DFT column formula when the search for a failing input is on
    for n in (17, 18):
        for kind, j in (("qft", 1 << (n - 1)), ("qft_swapped", 1), ("qft", 3), ("qft_swapped", (1 << n) - 2)):
            cs.append({"kind": "applybasis", "n": n, "j": j, "e": (kind, (1 << n) - 1), "no_model": True})
    # 16-17 qubits, serial and threaded: the transform over two or three of the highest qubits (every rung controlled on
    # a qubit beyond any block of cells), basis states read at every image
    for _ in range(40 if tier == "quick" else 600):
        k = rng.choice(["qft", "qft_swapped"])
        c = gen.high_probe(rng, k, n=rng.choice([16, 17]), lo=rng.choice([12, 14, 14]), nctrl=0)
        if rng.random() < 0.3:
            c["e"] = ("dgr", c["e"])
        cs.append(c)
    # structure on wide masks
    for _ in range(20):
        m = rng.getrandbits(rng.choice([8, 20, 40, 62]))
        cs.append({"kind": "struct", "e": (rng.choice(["qft", "qft_swapped"]), m)})
    return cs


if __name__ == "__main__":
    opsmain.main(PROP, cases, "C15 qft / qft_swapped matrices and action",
                 "C15_dft", "qft and qft_swapped for every mask of registers of 0..4 (5) qubits via matrix(n), daggers, random "
                 "states on 5..6(7) qubits with scattered masks, qft*dgr(qft), structure on wide masks; basis states through the "
                 "full-register transforms on 17-18 qubits (implementation only, DFT column formula); sparse probes of the transform over 2-3 "
                 "of the highest qubits of 16-17 qubit registers, serial and threaded",
                 up_to_phase=True)
