"""C08 -- multi-threaded execution agrees with single-threaded under every schedule (partial)."""
import os
from lib import *
import audit, regcheck, generic, gen
from opsmain import tier_seed
from opexpr import act_on
from c05 import rand_small_state

PROP = "C08"
CORES = os.cpu_count() or 4


def circuit(rng, n, k):
    e = None
    for _ in range(k):
        g = gen.random_gate(rng, min(n, 6), kinds=gen.ALL_KINDS + ["qft", "qft_swapped"])
        # move the gate to random positions inside the n-qubit register
        if rng.random() < 0.3:
            free = [c for c in range(1, 1 << min(n, 6)) if not c & act_on(g)]
            if free:
                g = ("c", rng.choice(free), g)
        if rng.random() < 0.2:
            g = ("dgr", g)
        e = g if e is None else (rng.choice(["mul", "mul", "mulassign", "append", "pushfront", "mulsingles", "mulrefmut", "pushback", "wrapped"]), e, g)
    return e


def shift_expr(e, sh):
    from opexpr import MASK_ONLY, ONE_ANGLE
    h = e[0]
    if h in MASK_ONLY:
        return (h, e[1] << sh)
    if h in ONE_ANGLE:
        return (h, e[1], e[2] << sh)
    if h == "u2":
        return (h, e[1], e[2], e[3] << sh)
    if h == "u3":
        return (h, e[1], e[2], e[3], e[4] << sh)
    if h == "c":
        return (h, e[1] << sh, shift_expr(e[2], sh))
    if h == "id":
        return e
    return (h,) + tuple(shift_expr(x, sh) for x in e[1:])


def base_history(rng, n):
    acts = [("with", n, rng.randrange(1 << n)), ("apply", ("h", (1 << n) - 1))]
    for _ in range(rng.randint(2, 5)):
        e = circuit(rng, n, rng.randint(1, 4))
        acts.append(("apply", shift_expr(e, rng.randint(0, max(0, n - 6)))))
    if rng.random() < 0.5:
        acts.append(("apply", rng.choice([("id",), ("h", 0), ("mul", ("id",), ("id",)), ("qft", 0)])))   # an empty product
    acts += [("dump",), ("probs",), ("abs",)]
    if n <= 6:
        acts += [("polar",)]
    if rng.random() < 0.7:
        acts += [("measure", rng.randrange(1, 1 << n)), ("dump",)]
    if n <= 10 and rng.random() < 0.5:
        n2 = rng.randint(1, 2)
        acts += [("tensorr", n2, rand_small_state(rng, n2)), ("dump",)]
    return acts


def with_threads(acts, k):
    return [acts[0], ("threads", k)] + acts[1:]


if __name__ == "__main__":
    tier, seed = tier_seed()
    run = Run(PROP, tier, seed)
    binary = build_harness()
    au = audit.audit(PROP)
    rng = run.rng
    ks = sorted({2, 3, CORES // 2, CORES}) if tier == "quick" else list(range(2, CORES + 1))
    ks = [k for k in ks if 2 <= k <= CORES]
    sizes = [3, 4, 6, 9, 12, 14] if tier == "quick" else [3, 4, 5, 6, 8, 10, 12, 14, 16, 18]
    texts = []
    meta = []
    bases = []
    for n in sizes:
        for rep in range(2 if tier == "quick" else 3):
            s = rng.randrange(1 << 30)
            acts = base_history(rng, n)
            bases.append((s, acts, n))
            # the largest registers (dumps of 2^16 and more amplitudes) run under four worker counts only
            kk = ks if n <= 14 else sorted({ks[0], 3 if 3 in ks else ks[0], 7 if 7 in ks else ks[-1], ks[-1]})
            variants = [("single", acts)] + [("k=%d#%d" % (k, r), with_threads(acts, k)) for k in kk for r in ((0, 1) if n <= 14 else (0,))]
            for name, a in variants:
                texts.append((str(len(texts)), regcheck.hist_harness(s, a)))
                meta.append((len(bases) - 1, name))
    # a stored state whose norm is not 1 to rounding: a qubit turned by 2e-5 .. 8e-5 and measured (the collapse loses less
    # than the 1e-9 that normalize tolerates, so the state is left as it is) -- the derived sums have to account for it alike
    for n in (3, 4, 6):
        for theta in (8e-5, 5e-5, 2e-5):
            b = rng.randrange(n)
            s = rng.randrange(1 << 30)
            acts = [("new", n), ("apply", ("h", ((1 << n) - 1) & ~(1 << b))), ("apply", (rng.choice(["rx", "ry"]), theta, 1 << b)),
                    ("measure", 1 << b), ("dump",), ("probs",), ("abs",)]
            bases.append((s, acts, n))
            for name, a in [("single", acts)] + [("k=%d" % k, with_threads(acts, k)) for k in ks]:
                texts.append((str(len(texts)), regcheck.hist_harness(s, a)))
                meta.append((len(bases) - 1, name))
    # tensor products in both operand orders and with either operand the wider one (0..5 (6) qubits each side)
    wmax = 5 if tier == "quick" else 6
    for a in range(0, wmax + 1):
        for b in range(0, wmax + 1):
            for kind in (("tensorr", "tensorl") if tier == "quick" else ("tensorr", "tensorl", "mulassign")):
                if tier == "quick" and (a + b) % 2 == (0 if kind == "tensorr" else 1) and a != b and abs(a - b) != 1:
                    continue
                s = rng.randrange(1 << 30)
                acts = [("raw", a, gen.random_state(rng, a)), (kind, b, gen.random_state(rng, b)), ("dump",), ("probs",), ("polar",), ("abs",)]
                bases.append((s, acts, a + b))
                variants = [("single", acts)] + [("k=%d" % k, with_threads(acts, k)) for k in (ks[0], ks[-1])]
                for name, av in variants:
                    texts.append((str(len(texts)), regcheck.hist_harness(s, av)))
                    meta.append((len(bases) - 1, name))
    # refusals
    refus = [(0, "t none"), (CORES + 1, "t none"), ((1 << 64) - 1, "t none"), (1, "t ok"), (CORES, "t ok")]
    # requests that look admissible once their upper bits are cut off (a count narrowed to 8, 16, 32 or 48 bits)
    for w in (8, 16, 32, 48, 63):
        for r_ in (0, 1, 2, CORES):
            k = (1 << w) + r_
            if k > CORES:
                refus.append((k, "t none"))
    refus += [((1 << 64) - (1 << 16) + 2, "t none"), (2 * CORES, "t none"), (CORES + 2, "t none")]
    for k, _ in refus:
        texts.append((str(len(texts)), "0 new 3 ; threads %d ; dump" % k))
        meta.append((None, "threads %d" % k))
    impl = run_harness(binary, "reg", texts, deadline=300.0)
    # compare every variant with the single-threaded run of the same history: bit patterns of the buffers
    by_base = {}
    for i, (b, name) in enumerate(meta):
        if b is not None:
            by_base.setdefault(b, []).append((name, impl.get(str(i), "ABORT missing")))
    mismatches = 0
    compared = 0
    for b, runs in by_base.items():
        ref = runs[0][1]
        refr = [x for x in ref.split(" | ") if not x.startswith("t ")]
        for name, payload in runs[1:]:
            compared += 1
            rr = [x for x in payload.split(" | ") if not x.startswith("t ")]
            ok = len(rr) == len(refr)
            why = "record count"
            if ok:
                exact = True      # element-wise kernels: bit for bit; after a collapse the state has been
                                  # rescaled by a derived sum (the norm), so only "to rounding" is demanded
                for x, y in zip(refr, rr):
                    if x[:2] == "m ":
                        if x != y:
                            ok = False; why = "measurement outcome differs under the same seed"; break
                        exact = False
                    elif x[:2] == "d ":
                        if exact:
                            if x != y:
                                ok = False; why = "amplitudes differ bit for bit"; break
                        else:
                            a = parse_complex_hex(x.split()[3:]); c = parse_complex_hex(y.split()[3:])
                            if x.split()[1:3] != y.split()[1:3] or not vec_close(a, c, 1e-12):
                                ok = False; why = "amplitudes differ beyond rounding after a measurement"; break
                    elif x[:2] in ("p ", "b "):
                        a = [unhexf(t) for t in x.split()[2 if x[0] == "p" else 1:]]
                        c = [unhexf(t) for t in y.split()[2 if y[0] == "p" else 1:]]
                        if not vec_close(a, c, 1e-12):
                            ok = False; why = "derived sums differ beyond rounding"; break
                    elif x != y:
                        ok = False; why = "record differs"; break
            if not ok:
                mismatches += 1
                s, acts, n = bases[b]
                rep = regcheck.describe_hist(s, acts)
                rep.update({"what": "a register with %s differs from the single-threaded register on the same inputs (%s)" % (name, why),
                            "variant": name})
                if mismatches <= 3:
                    run.violation(rep)
    for (k, want), i in zip(refus, range(len(texts) - len(refus), len(texts))):
        got = impl.get(str(i), "")
        if want not in got:
            run.violation({"what": "num_threads(%d) expected '%s'" % (k, want), "got": got[:200], "harness": texts[i][1]})
    # small registers additionally go through the model (multi-threaded register vs Coq model)
    # ... with a histogram of only a few shots per outcome at the end (replayed in the model with the recorded draws)
    small = [(s, with_threads(a + [("apply", ("h", (1 << n) - 1)), ("dump",), ("sample", run.rng.choice([1 << n, 3 << n, 5])), ("sample", 0)],
                              run.rng.choice(ks)))
             for s, a, n in bases if 1 <= n <= 6]
    small += regcheck.threaded_core(run.rng, tier)
    n2, dis, _ = regcheck.run_histories(run, binary, small, PROP,
                                        lambda acts, recs: regcheck.oracle_valid_state(acts, recs) + regcheck.oracle_draws(acts, recs),
                                        "C08 multi-threaded register vs model", "C08_instances")
    cs = [generic.Case(t[:300], None, None, None, kind=m[1].split("#")[0]) for (_, t), m in zip(texts, meta)]
    generic.finish(run, PROP, au, cs, len(texts) + n2, dis,
                   "histories (superposition, random circuits with controls/daggers/qft at shifted positions, probabilities, norm, "
                   "measurement with a fixed seed, tensor product) on registers of %s qubits executed single-threaded and with "
                   "num_threads(k), k in %s, twice each: raw buffers and outcomes bit-identical, derived sums within 1e-12; refusal of "
                   "0, cores+1 and usize::MAX threads; registers up to 6 qubits with k threads also against the model" % (sizes, ks),
                   assumptions=["rayon's splitting/stealing, data-race freedom of the generated code and the memory model are outside "
                                "any Gallina model: the theorems cover every schedule of the abstract sweep, the runs sample the real one",
                                "machine offers %d threads" % CORES],
                   extra_cov={"thread_counts": ks, "register_sizes": sizes, "variants_compared_bitwise": compared})
