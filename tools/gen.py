"""Generators shared by the operator-level checks."""
import math, random
from opexpr import popcount

ANGLES = [0.0, math.pi / 2, -math.pi / 2, math.pi, 1.5 * math.pi, 2 * math.pi + 0.3, 1.23456, -0.7, 7.5,
          math.pi / 4, -math.pi, 2 * math.pi, 3 * math.pi, 4 * math.pi, -math.pi / 4]
NOPARAM1 = ["x", "y", "z", "s", "t", "h"]
PARAM1 = ["rx", "ry", "rz", "u1"]
PARAM2 = ["rxx", "ryy", "rzz"]
NOPARAM2 = ["swap", "sqrt_swap", "i_swap", "sqrt_i_swap"]


def gate(kind, mask, rng, angles=None):
    a = angles or ANGLES
    if kind in NOPARAM1 or kind in NOPARAM2 or kind in ("qft", "qft_swapped"):
        return (kind, mask)
    if kind in PARAM1 or kind in PARAM2:
        return (kind, rng.choice(a), mask)
    if kind == "u2":
        return ("u2", rng.choice(a), rng.choice(a), mask)
    if kind == "u3":
        return ("u3", rng.choice(a), rng.choice(a), rng.choice(a), mask)
    if kind == "id":
        return ("id",)
    raise ValueError(kind)


ALL_KINDS = NOPARAM1 + PARAM1 + PARAM2 + NOPARAM2 + ["u2", "u3", "id"]


def valid_masks(kind, n):
    """masks inside an n-qubit register the constructor accepts"""
    ms = range(1 << n)
    if kind in NOPARAM1 or kind in ("qft", "qft_swapped"):
        return list(ms)
    if kind in PARAM1 or kind in ("u2", "u3"):
        return [m for m in ms if popcount(m) == 1]
    if kind in PARAM2 or kind in NOPARAM2:
        return [m for m in ms if popcount(m) == 2]
    if kind == "id":
        return [0]
    raise ValueError(kind)


def random_gate(rng, n, kinds=None, allow_empty=True):
    """a random valid gate inside n qubits, or None when the kind has no valid mask"""
    kinds = kinds or ALL_KINDS
    for _ in range(20):
        k = rng.choice(kinds)
        ms = valid_masks(k, n)
        if not allow_empty:
            ms = [m for m in ms if m]
        if ms:
            return gate(k, rng.choice(ms), rng)
    return ("id",)


def random_state(rng, n, sparse=False):
    """dense pseudo-random normalised state over max(2^n, 8) cells, padding zero"""
    N = 1 << n
    v = [complex(rng.gauss(0, 1), rng.gauss(0, 1)) if (not sparse or rng.random() < 0.3) else 0j for _ in range(N)]
    if all(z == 0 for z in v):
        v[rng.randrange(N)] = 1 + 0j
    nrm = math.sqrt(sum(abs(z) ** 2 for z in v))
    v = [z / nrm for z in v]
    return v + [0j] * (max(N, 8) - N)


def high_probe(rng, kind, n=None, lo=None, nbits=None, nctrl=None, threads=None):
    """one sparse probe on a register of 14-17 qubits: a gate (under 0-3 controls) whose bits all sit on the highest
    qubits -- beyond any block of cells a kernel, serial or parallel, might work in -- on a basis state that has all,
    some or none of the controls set; read at the images of the state under every part of the mask"""
    import os
    cores = os.cpu_count() or 4
    n = n or rng.choice([14, 15, 16, 16, 17])
    lo = min(lo if lo is not None else rng.choice([10, 12, 12, 14]), n - 3)
    hi = list(range(lo, n))
    if kind in ("qft", "qft_swapped"):
        need = nbits or rng.choice([2, 3])
    elif kind in PARAM2 + NOPARAM2:
        need = 2
    elif kind in PARAM1 + ["u2", "u3"]:
        need = 1
    else:
        need = nbits or rng.choice([1, 2, 2, 3])
    bits = rng.sample(hi, min(need, len(hi)))
    m = sum(1 << b for b in bits)
    e = gate(kind, m, rng)
    rest = [b for b in hi if b not in bits]
    if nctrl is None:
        nctrl = rng.choice([0, 0, 1, 2, 2, 3])
    cb = rng.sample(rest, min(len(rest), nctrl))
    if cb:
        e = ("c", sum(1 << b for b in cb), e)
    j = rng.getrandbits(n)
    r = rng.random()
    if cb and r < 0.45:
        for b in cb:
            j |= 1 << b
    elif cb and r < 0.8:
        j |= 1 << cb[0]
        if len(cb) > 1:
            j &= ~(1 << cb[1])
    parts = [0]
    for b in bits:
        parts += [p | (1 << b) for p in parts]
    idxs = sorted({j ^ p for p in parts} | {j & ((1 << 14) - 1), j & ((1 << 12) - 1), rng.randrange(1 << n)})
    if threads is None:
        threads = rng.choice([1, 1] + [k for k in (2, 3, 4, 5, 7) if k <= cores])
    c = {"kind": "probe", "n": n, "j": j, "idxs": idxs, "e": e}
    if threads > 1 and threads <= cores:
        c["threads"] = threads
    return c
