"""Generators shared by the operator-level checks."""
import math, random
from opexpr import popcount

ANGLES = [0.0, math.pi / 2, -math.pi / 2, math.pi, 1.5 * math.pi, 2 * math.pi + 0.3, 1.23456, -0.7, 7.5,
          math.pi / 4, -math.pi, 2 * math.pi, 3 * math.pi, 4 * math.pi, -math.pi / 4]
NOPARAM1 = ["x", "y", "z", "s", "t", "h"]
PARAM1 = ["rx", "ry", "rz", "u1"]
PARAM2 = ["rxx", "ryy", "rzz"]
NOPARAM2 = ["swap", "sqrt_swap", "i_swap", "sqrt_i_swap"]


def gate(kind, mask, rng, angles=None):
    a = angles or ANGLES
    if kind in NOPARAM1 or kind in NOPARAM2 or kind in ("qft", "qft_swapped"):
        return (kind, mask)
    if kind in PARAM1 or kind in PARAM2:
        return (kind, rng.choice(a), mask)
    if kind == "u2":
        return ("u2", rng.choice(a), rng.choice(a), mask)
    if kind == "u3":
        return ("u3", rng.choice(a), rng.choice(a), rng.choice(a), mask)
    if kind == "id":
        return ("id",)
    raise ValueError(kind)


ALL_KINDS = NOPARAM1 + PARAM1 + PARAM2 + NOPARAM2 + ["u2", "u3", "id"]


def valid_masks(kind, n):
    """masks inside an n-qubit register the constructor accepts"""
    ms = range(1 << n)
    if kind in NOPARAM1 or kind in ("qft", "qft_swapped"):
        return list(ms)
    if kind in PARAM1 or kind in ("u2", "u3"):
        return [m for m in ms if popcount(m) == 1]
    if kind in PARAM2 or kind in NOPARAM2:
        return [m for m in ms if popcount(m) == 2]
    if kind == "id":
        return [0]
    raise ValueError(kind)


def random_gate(rng, n, kinds=None, allow_empty=True):
    """a random valid gate inside n qubits, or None when the kind has no valid mask"""
    kinds = kinds or ALL_KINDS
    for _ in range(20):
        k = rng.choice(kinds)
        ms = valid_masks(k, n)
        if not allow_empty:
            ms = [m for m in ms if m]
        if ms:
            return gate(k, rng.choice(ms), rng)
    return ("id",)


def random_state(rng, n, sparse=False):
    """dense pseudo-random normalised state over max(2^n, 8) cells, padding zero"""
    N = 1 << n
    v = [complex(rng.gauss(0, 1), rng.gauss(0, 1)) if (not sparse or rng.random() < 0.3) else 0j for _ in range(N)]
    if all(z == 0 for z in v):
        v[rng.randrange(N)] = 1 + 0j
    nrm = math.sqrt(sum(abs(z) ** 2 for z in v))
    v = [z / nrm for z in v]
    return v + [0j] * (max(N, 8) - N)
