"""Correspondence machinery for the `reg` engine (C05, C06, C07, C14, C16): histories of public
operations on one quantum register, run on the implementation (seeded RNG hook), then replayed
in the Coq model with the implementation's measurement outcomes and recorded normal draws."""
import math
from lib import *
import coqio
from coqio import cN, cnat, clist, ccomplex, fhex
from opexpr import to_harness, to_coq

IMPORTS = ["RunReg"]

# action = tuple: ("new", n) ("with", n, st) ("raw", n, [complex]) ("threads", k) ("apply", expr)
#   ("measure", mask) ("tensorr", n2, raw2) ("tensorl", n2, raw2) ("mulassign", n2, raw2) ("setnum", k)
#   ("sample", count) ("probs",) ("abs",) ("dump",)


def rawhex(raw):
    return " ".join("%s %s" % (hexf(z.real), hexf(z.imag)) for z in raw)


def act_harness(a):
    k = a[0]
    if k in ("new", "setnum", "measure", "sample", "threads", "view", "clonefrom"):
        return "%s %d" % (k, a[1])
    if k in ("freq", "samplestats"):
        return "%s %d %d" % (k, a[1], a[2])
    if k == "seqfreq":
        return "seqfreq %d %d %d" % (a[1], a[2], a[3])
    if k == "with":
        return "with %d %d" % (a[1], a[2])
    if k == "raw":
        return "raw %d %s" % (a[1], rawhex(a[2]))
    if k in ("tensorr", "tensorl", "mulassign"):
        return "%s %d %s" % (k, a[1], rawhex(a[2]))
    if k in ("tensorrt", "tensorlt", "mulassignt"):
        return "%s %d %d %s" % (k, a[3], a[1], rawhex(a[2]))
    if k == "apply":
        return "apply %s" % to_harness(a[1])
    if k in ("probs", "abs", "dump", "polar", "measureall", "vreglen"):
        return k
    raise ValueError(k)


def hist_harness(seed, acts):
    return "%d %s" % (seed, " ; ".join(act_harness(a) for a in acts))


def parse_records(payload):
    """-> list of records: ('d', n, [complex]) ('m', v, num) ('h', cells, normals) ('p', [float]) ('b', float)
    ('x', class, text) ('t', 'ok'|'none')"""
    if payload.startswith("TIMEOUT") or payload.startswith("ABORT"):
        return [("died", payload)]
    parts = payload.split(" | ")
    assert parts[0].strip() == "OK", payload[:100]
    out = []
    for p in parts[1:]:
        t = p.split()
        if not t:
            continue
        if t[0] == "d":
            out.append(("d", int(t[1]), parse_complex_hex(t[3:3 + 2 * int(t[2])])))
        elif t[0] == "m":
            out.append(("m", int(t[1]), int(t[2])))
        elif t[0] == "h":
            k = int(t[1])
            cells = [int(x) for x in t[2:2 + k]]
            assert t[2 + k] == "n"
            kn = int(t[3 + k])
            out.append(("h", cells, [unhexf(x) for x in t[4 + k:4 + k + kn]]))
        elif t[0] == "p":
            out.append(("p", [unhexf(x) for x in t[2:2 + int(t[1])]]))
        elif t[0] == "b":
            out.append(("b", unhexf(t[1])))
        elif t[0] == "o":
            k = int(t[1])
            v = [unhexf(x) for x in t[2:2 + 2 * k]]
            out.append(("o", [(v[i], v[i + 1]) for i in range(0, 2 * k, 2)]))
        elif t[0] == "x":
            out.append(("x", t[1] if len(t) > 1 else "?", " ".join(t[2:])))
        elif t[0] == "t":
            out.append(("t", t[1]))
        elif t[0] == "f":
            k = int(t[1])
            out.append(("f", {int(t[2 + 2 * i]): int(t[3 + 2 * i]) for i in range(k)}))
        elif t[0] == "s":
            k = int(t[1])
            out.append(("s", [unhexf(x) for x in t[2:2 + k]], [unhexf(x) for x in t[2 + k:2 + 2 * k]]))
        elif t[0] == "g":
            k = int(t[1])
            out.append(("g", [unhexf(x) for x in t[2:2 + k]], [unhexf(x) for x in t[2 + k:2 + 2 * k]]))
        elif t[0] == "v":
            out.append(("v", int(t[1]), int(t[2])))
        elif t[0] == "w":
            out.append(("w", int(t[1]), int(t[2])))
        else:
            out.append(("?", p[:100]))
    return out


def model_actions(acts, recs):
    """Coq action list for the model, feeding it the implementation's outcomes / recorded normals.
    Returns (term, expected_record_kinds)."""
    items = []
    ri = 0
    recs = [r for r in recs if r[0] not in ("t", "o", "f", "s", "g")]
    for a in acts:
        k = a[0]
        if k == "new":
            items.append("ANew %s" % cN(a[1]))
        elif k == "with":
            items.append("AWith %s %s" % (cN(a[1]), cN(a[2])))
        elif k == "raw":
            items.append("ARaw %s %s" % (cN(a[1]), clist([ccomplex(z) for z in a[2]])))
        elif k in ("threads", "polar", "freq", "seqfreq", "samplestats", "clonefrom"):
            continue        # (a copy made by Clone::clone_from into an existing register is the same register)
        elif k == "view":
            if ri >= len(recs) or recs[ri][0] != "w":
                break
            items.append("AView %s" % cN(a[1])); ri += 1
        elif k == "vreglen":
            if ri >= len(recs) or recs[ri][0] != "v":
                break
            items.append("AViewAll"); ri += 1
        elif k == "apply":
            items.append("AApply %s" % to_coq(a[1]))
        elif k in ("measure", "measureall"):
            if ri >= len(recs) or recs[ri][0] != "m":
                break
            mask = a[1] if k == "measure" else (1 << 64) - 1
            items.append("AMeasure %s %s" % (cN(mask), cN(recs[ri][1])))
            ri += 1
        elif k in ("tensorr", "mulassign", "tensorrt", "mulassignt"):
            items.append("ATensorR %s %s" % (cN(a[1]), clist([ccomplex(z) for z in a[2]])))
        elif k in ("tensorl", "tensorlt"):
            items.append("ATensorL %s %s" % (cN(a[1]), clist([ccomplex(z) for z in a[2]])))
        elif k == "setnum":
            items.append("ASetNum %s" % cN(a[1]))
        elif k == "sample":
            if ri >= len(recs) or recs[ri][0] != "h":
                break
            items.append("ASample %s %s" % (cN(a[1]), clist([fhex(x) for x in recs[ri][2]])))
            ri += 1
        elif k == "probs":
            if ri >= len(recs) or recs[ri][0] != "p":
                break
            items.append("AProbs"); ri += 1
        elif k == "abs":
            if ri >= len(recs) or recs[ri][0] != "b":
                break
            items.append("AAbs"); ri += 1
        elif k == "dump":
            if ri >= len(recs) or recs[ri][0] != "d":
                break
            items.append("ADump"); ri += 1
    return "run_reg %s" % clist(["(%s)" % i for i in items])


def parse_model_records(v):
    out = []
    for r in v:
        if isinstance(r, tuple):
            h, args = r
            if h == "RDump":
                out.append(("d", args[0], model_complex_list(args[1])))
            elif h == "RMeas":
                out.append(("m", args[0]))
            elif h == "RHist":
                out.append(("h", list(args[0])))
            elif h == "RProbs":
                out.append(("p", [float(x) for x in args[0]]))
            elif h == "RAbs":
                out.append(("b", float(args[0])))
            elif h == "RView":
                o = args[0]
                out.append(("w", 0, 0) if o == "None" else ("w", 1, o[1][0]))
            elif h == "RViewAll":
                o = args[0]
                out.append(("v", None if o == "None" else o[1][0], args[1]))
            elif h == "RStop":
                out.append(("x", {1: "refused", 2: "mask", 3: "fuel"}.get(args[0], "?")))
    return out


def records_agree(ri, rm, tol=TOL):
    """first disagreement index or None"""
    ri = [r for r in ri if r[0] not in ("t", "o", "f", "s", "g")]
    n = max(len(ri), len(rm))
    zeros_differ = False
    for k in range(n):
        if k >= len(ri) or k >= len(rm):
            return k
        a, b = ri[k], rm[k]
        if a[0] != b[0]:
            return k
        if a[0] == "d":
            if a[1] != b[1] or not vec_close(a[2], b[2], tol):
                return k
            # an amplitude that is exactly 0 on one side and a rounding residue (1e-17) on the other -- a threaded sum
            # taken in another order -- makes "outcomes that can occur" differ: histograms of this state are not compared
            zeros_differ = any((x == 0) != (y == 0) for x, y in zip(a[2], b[2]))
        elif a[0] == "m":
            if a[1] != b[1]:
                return k
        elif a[0] == "h":
            if a[1] != b[1] and not zeros_differ:
                return k
        elif a[0] == "p":
            if not vec_close(a[1], b[1], tol):
                return k
        elif a[0] == "b":
            if not close(a[1], b[1], tol):
                return k
        elif a[0] in ("w", "v"):
            if tuple(a[1:]) != tuple(b[1:]):
                return k
        elif a[0] == "x":
            pass
    return None


def describe_hist(seed, acts):
    d = []
    for a in acts:
        if a[0] in ("raw", "tensorr", "tensorl", "mulassign", "tensorrt", "tensorlt", "mulassignt"):
            d.append([a[0], a[1], "<%d amplitudes>" % len(a[2])])
        else:
            d.append(list(a) if a[0] != "apply" else ["apply", to_harness(a[1])])
    return {"seed": seed, "actions": d, "harness": ("reg " + hist_harness(seed, acts))[:4000]}


def run_histories(run, binary, hists, tag, oracle, relation, theorem_hint="", deadline=60.0, tol=TOL,
                  near_threshold=None):
    """hists: list of (seed, actions).  oracle(acts, impl_records) -> list of failure strings (the
    property's own test on the implementation alone).  Returns (n, disagreements, impl_records)."""
    texts = [(str(i), hist_harness(s, a)) for i, (s, a) in enumerate(hists)]
    impl = run_harness(binary, "reg", texts, deadline=deadline)
    recs = [parse_records(impl.get(str(i), "ABORT missing")) for i in range(len(hists))]
    terms = [model_actions(a, r) for (s, a), r in zip(hists, recs)]
    vals = coqio.run_terms(terms, IMPORTS, tag, shard_size=40)
    disagreements = []
    for i, ((s, a), r, v) in enumerate(zip(hists, recs, vals)):
        rm = parse_model_records(v)
        k = records_agree(r, rm, tol)
        if k is not None:
            if near_threshold and near_threshold(a, r, rm, k):
                continue
            disagreements.append((i, k, r, rm))
    found = 0
    # property oracle on every history (cheap), reported for disagreeing histories first
    order = [i for i, _, _, _ in disagreements] + [i for i in range(len(hists)) if i not in {d[0] for d in disagreements}]
    dis_set = {d[0] for d in disagreements}
    for i in order:
        s, a = hists[i]
        fails = oracle(a, recs[i])
        if fails:
            found += 1
            if found <= 5:
                rep = describe_hist(s, a)
                rep.update({"what": "the property fails on the implementation for this history",
                            "failures": fails[:5], "impl_records": summarize(recs[i]),
                            "model_disagrees": i in dis_set})
                run.violation(rep)
    if disagreements and not found:
        i, k, r, rm = disagreements[0]
        s, a = hists[i]
        rep = describe_hist(s, a)
        rep.update({"relation": relation, "theorem": theorem_hint,
                    "what": "implementation left the model (correspondence %s no longer checks) at record %d; no history "
                            "violating the property was found" % (relation, k),
                    "impl_record": summarize(r[k:k + 1]), "model_record": summarize(rm[k:k + 1]),
                    "disagreements": len(disagreements)})
        run.violation(rep, found_input=False)
    return len(hists), disagreements, recs


def summarize(recs):
    out = []
    for r in recs:
        r = list(r)
        for k, x in enumerate(r):
            if isinstance(x, list):
                r[k] = [str(y) for y in x[:40]] + (["..."] if len(x) > 40 else [])
        out.append(r)
    return out


# ---------------------------------------------------------------- threading models of a history

def thread_counts():
    """admissible worker counts: powers of two AND counts that do not divide a power-of-two buffer"""
    import os
    cores = os.cpu_count() or 4
    return [k for k in (2, 3, 5, 6, 7) if k <= cores] or [1]


def thread_mix(rng, hs, frac=0.35):
    """a fraction of the histories runs under num_threads(k) (k drawn from thread_counts()); the model has no
    threading model, so the comparison is unchanged -- "any threading model" of the statements"""
    ks = thread_counts()
    out = []
    for s, acts in hs:
        acts = list(acts)
        if acts and acts[0][0] in ("new", "with", "raw") and not any(a[0] == "threads" for a in acts) and rng.random() < frac:
            acts = [acts[0], ("threads", rng.choice(ks))] + acts[1:]
        out.append((s, acts))
    return out


def threaded_core(rng, tier, sample=True):
    """systematic threaded histories: every worker count x registers of 4-6 qubits (buffers longer than one
    block of 8) with weight on the highest basis states: norm, probabilities, a measurement that includes a
    high qubit, the same measurement again, and a histogram with only a few shots per outcome"""
    import gen
    hs = []
    for k in thread_counts():
        for n in ((4, 5, 6) if tier != "quick" else (4, 5, 6)[: 3]):
            for rep in range(1 if tier == "quick" else 6):
                full = (1 << n) - 1
                st = gen.random_state(rng, n)
                hi = 1 << (n - 1)
                m = hi | rng.randrange(1 << n)
                acts = [("raw", n, st), ("threads", k), ("dump",), ("abs",), ("probs",),
                        ("measure", m), ("dump",), ("abs",), ("probs",), ("measure", m), ("dump",),
                        ("apply", ("h", full)), ("dump",), ("abs",), ("measure", hi), ("dump",), ("abs",), ("probs",)]
                if sample:
                    acts += [("apply", ("h", full)), ("dump",), ("sample", rng.choice([1 << n, 3 << n, (1 << n) // 2 + 1])),
                             ("sample", rng.choice([0, 1, 7]))]
                hs.append((rng.randrange(1 << 30), acts))
    return hs


# ---------------------------------------------------------------- oracles shared by the register properties

def norm2(v):
    return sum(abs(z) ** 2 for z in v)


def oracle_valid_state(acts, recs, tol=1e-7):
    """C05: every dumped state is finite, unit norm, padding zero, right length; probabilities ok; no panic."""
    fails = []
    for r in recs:
        if r[0] == "d":
            n, v = r[1], r[2]
            if len(v) != max(1 << n, 8):
                fails.append("buffer length %d for %d qubits" % (len(v), n))
            if any(not (math.isfinite(z.real) and math.isfinite(z.imag)) for z in v):
                fails.append("non-finite amplitude")
            elif abs(math.sqrt(norm2(v)) - 1) > tol:
                fails.append("norm %r" % math.sqrt(norm2(v)))
            if any(z != 0 for z in v[1 << n:]):
                fails.append("amplitude outside the register's 2^n states")
        elif r[0] == "p":
            p = r[1]
            if any((not math.isfinite(x)) or x < 0 for x in p) or abs(sum(p) - 1) > 1e-9:
                fails.append("probabilities %r" % p[:8])
        elif r[0] == "b":
            if not math.isfinite(r[1]) or abs(r[1] - 1) > 1e-7:
                fails.append("reported norm (get_absolute) %r" % r[1])
        elif r[0] == "x":
            fails.append("panic: %s %s" % (r[1], r[2][:120] if len(r) > 2 else ""))
        elif r[0] == "died":
            fails.append(r[1])
    return fails


# ---------------------------------------------------------------- registers with a past

def lifecycle_prefixes(rng, n):
    """Construction histories that all end in an n-qubit register, none of them `QReg::new(n)` alone: grown from
    fewer qubits, shrunk from more, shrunk and grown again, multiplied together from smaller registers, measured.
    Every statement about "a register" must hold for these too (a cached mask, a re-used buffer or a padding cell
    that an earlier operation left behind is invisible on a freshly built register).  -> [(label, actions)]"""
    import gen
    out = []
    full = (1 << n) - 1

    def stir(bits):
        """gates that put weight on the given qubits (and sometimes on everything)"""
        g = []
        if bits:
            sub = (rng.randrange(1, bits + 1) & bits) or bits
            g.append(("apply", ("x", sub)))
        if n and rng.random() < 0.6:
            g.append(("apply", ("h", rng.randrange(1, 1 << n))))
        if n and rng.random() < 0.4:
            g.append(("apply", gen.random_gate(rng, n)))
        return g

    # grown from k < n qubits (inside and across the 8-entry minimum buffer)
    for k in range(0, n):
        acts = [("with", k, rng.randrange(1 << k))] if k and rng.random() < 0.5 else [("new", k)]
        if k and rng.random() < 0.5:
            acts.append(("apply", ("h", (1 << k) - 1)))
        acts.append(("setnum", n))
        out.append(("grow%d" % k, acts + stir(full & ~((1 << k) - 1))))
    # grown in two steps
    if n >= 2:
        out.append(("grow0-1", [("new", 0), ("setnum", 1), ("apply", ("x", 1)), ("setnum", n)] + stir(full & ~1)))
    # shrunk from n + j qubits holding a spread-out state
    for j in (1, 2, 4):
        big = n + j
        acts = [("with", big, rng.randrange(1 << big)), ("apply", ("h", (1 << big) - 1)), ("setnum", n)]
        out.append(("shrink%d" % j, acts + (stir(full) if rng.random() < 0.7 else [])))
    # shrunk below n and grown again, with and without something in between
    for big in (max(n, 4), n + 1):
        k = rng.randrange(0, n) if n else 0
        acts = [("with", big, rng.randrange(1 << big)), ("apply", ("h", (1 << big) - 1)), ("setnum", k)]
        if k and rng.random() < 0.5:
            acts.append(("measure", rng.randrange(1, 1 << k)))
        acts.append(("setnum", n))
        out.append(("regrow%d" % big, acts + (stir(full) if rng.random() < 0.5 else [])))
    # a product of smaller registers (both orders, and *=), including the empty register
    for a in range(0, n + 1):
        b = n - a
        sa, sb = gen.random_state(rng, a), gen.random_state(rng, b)
        how = rng.choice(["tensorr", "tensorl", "mulassign"])
        out.append(("prod%d" % a, [("raw", a, sa), (how, b, sb)] + (stir(full) if rng.random() < 0.3 else [])))
    # measured before
    if n:
        out.append(("measured", [("with", n, rng.randrange(1 << n)), ("apply", ("h", full)),
                                 ("measure", rng.randrange(1, 1 << n))] + stir(full)))
    return out


def lifecycle_histories(rng, tier, observe, sizes=(0, 1, 2, 3, 4), threads_frac=0.25):
    """every construction history x the observations of one property (observe(rng, n) -> actions)"""
    hs = []
    for rep in range(1 if tier == "quick" else 6):
        for n in sizes:
            for label, pre in lifecycle_prefixes(rng, n):
                acts = list(pre)
                if rng.random() < threads_frac:
                    acts.append(("threads", rng.choice(thread_counts())))
                hs.append((rng.randrange(1 << 30), acts + observe(rng, n)))
    return hs


def oracle_draws(acts, recs):
    """C07 / C08: the normal deviates behind a histogram are drawn independently for every outcome, however the work
    is split: two outcomes of non-negligible probability never receive the bit-identical deviate (for continuous
    draws that has probability 0; a generator cloned into every work piece produces exactly that)."""
    fails = []
    p = None
    for r in recs:
        if r[0] == "d":
            n, v = r[1], r[2]
            tot = sum(abs(z) ** 2 for z in v[:1 << n]) or 1.0
            p = [abs(z) ** 2 / tot for z in v[:1 << n]]
        elif r[0] == "h" and p is not None and len(r) > 2 and len(r[2]) == len(p) and len(p) >= 4:
            seen = {}
            for i, (pi, x) in enumerate(zip(p, r[2])):
                if pi < 1e-6 or x == 0:
                    continue
                g = x / math.sqrt(pi)
                key = "%.13e" % g
                if key in seen and abs(seen[key][1] - g) <= 1e-12 * max(1.0, abs(g)):
                    fails.append("outcomes %d and %d received the same normal deviate %r" % (seen[key][0], i, g))
                    break
                seen[key] = (i, g)
    return fails


def oracle_views(acts, recs):
    """C20 / C14: the full range of the register's view is 2^n - 1, and a view by a mask exists exactly when the
    mask lies inside the register (and then lists exactly the mask's bits)."""
    fails = []
    views = [a for a in acts if a[0] == "view"]
    vi = 0
    n = None
    for r in recs:
        if r[0] == "d":
            n = r[1]
        elif r[0] == "v":
            if r[1] != (1 << r[2]) - 1:
                fails.append("get_vreg()[..] = %d on a register of %d qubits" % (r[1], r[2]))
            n = r[2]
        elif r[0] == "w":
            m = views[vi][1]; vi += 1
            if n is None:
                continue
            inside = (m & ~((1 << n) - 1)) == 0
            if bool(r[1]) != inside:
                fails.append("get_vreg_by(%d) on %d qubits: %s" % (m, n, "a view of qubits the register does not have" if r[1] else "refused"))
            elif r[1] and r[2] != m:
                fails.append("get_vreg_by(%d)[..] = %d" % (m, r[2]))
    return fails


# ---------------------------------------------------------------- registers too large for the model's buffers
def run_unmodelled(run, binary, hists, oracle, deadline=120.0):
    """histories on registers of 15+ qubits (beyond any block of cells a kernel might work in; too large for the model's
    list buffers): implementation only, judged by the property's own oracle.  Returns the number of histories."""
    texts = [("u%d" % i, hist_harness(s, a)) for i, (s, a) in enumerate(hists)]
    impl = run_harness(binary, "reg", texts, deadline=deadline)
    found = 0
    for i, (s, a) in enumerate(hists):
        recs = parse_records(impl.get("u%d" % i, "ABORT missing"))
        fails = oracle(a, recs)
        if fails:
            found += 1
            if found <= 3:
                rep = describe_hist(s, a)
                rep.update({"what": "the property fails on the implementation for this history (register too large for the "
                                    "model's buffers: judged on implementation results only)",
                            "failures": fails[:5], "impl_records": summarize(recs)})
                run.violation(rep)
    return len(hists)


def wide_histories(rng, tier, observe):
    """registers of 15-16 qubits, serial and threaded, basis states with high qubits set, stirred by gates and controlled
    gates on the highest qubits (superposing only a few, so that the state stays sparse); then `observe(rng, n, hi)`"""
    hs = []
    ks = [1] + thread_counts()[:3]
    for rep in range(6 if tier == "quick" else 40):
        n = rng.choice([15, 16])
        k = ks[rep % len(ks)]
        hi = rng.sample(range(12, n), 3)
        lo = rng.sample(range(0, 12), 2)
        j = rng.getrandbits(n) | (1 << hi[0]) if rep % 2 == 0 else rng.getrandbits(n)
        acts = [("with", n, j)] + ([("threads", k)] if k > 1 else [])
        acts += [("apply", ("h", (1 << hi[1]) | (1 << lo[0]))),
                 ("apply", ("c", 1 << hi[1], ("x", 1 << hi[2]))),
                 ("apply", ("c", 1 << hi[0], (rng.choice(["x", "y", "h"]), 1 << lo[1]))),
                 ("apply", ("c", (1 << hi[2]) | (1 << hi[0]), ("rx", 1.1, 1 << lo[0]))),
                 ("apply", ("c", 1 << lo[0], ("ry", 0.7, 1 << hi[0])))]
        acts += observe(rng, n, hi)
        hs.append((rng.randrange(1 << 30), acts))
    return hs
