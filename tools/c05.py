"""C05 -- a register always holds a valid (unit-norm, finite) quantum state."""
from lib import *
import audit, regcheck, generic, gen
from opsmain import tier_seed
from opexpr import act_on

PROP = "C05"


def rand_small_state(rng, n):
    return gen.random_state(rng, n, sparse=rng.random() < 0.3)


def history(rng, length, nmax=6, p_measure=0.25):
    n = rng.randint(0, min(4, nmax))
    acts = [("with", n, rng.randrange(1 << (n + 1)))] if rng.random() < 0.7 else [("raw", n, rand_small_state(rng, n))]
    acts += [("dump",)]
    for _ in range(length):
        r = rng.random()
        if r < 0.55 and n > 0:
            k = rng.randint(1, 4)
            e = None
            for _ in range(k):
                g = gen.random_gate(rng, n, kinds=gen.ALL_KINDS + ["qft", "qft_swapped"])
                if rng.random() < 0.25:
                    free = [c for c in range(1, 1 << n) if not c & act_on(g)]
                    if free:
                        g = ("c", rng.choice(free), g)
                if rng.random() < 0.15:
                    g = ("dgr", g)
                e = g if e is None else ("mul", e, g)
                # the same factor again, directly next to itself (once or twice): a gate and its repetition are not
                # a special case for a product
                while rng.random() < 0.2:
                    e = ("mul", e, g)
            acts.append(("apply", e))
        elif r < 0.55 + p_measure:
            m = rng.randrange(1 << n) if n else 0
            if rng.random() < 0.15:
                m = (1 << n) - 1
            acts.append(("measure", m))
        elif r < 0.88:
            if n < nmax:
                n2 = rng.randint(0, min(2, nmax - n))
                acts.append((rng.choice(["tensorr", "tensorl", "mulassign"]), n2, rand_small_state(rng, n2)))
                n += n2
            else:
                acts.append(("setnum", rng.randint(0, n)))
                n = acts[-1][1]
        else:
            k = rng.randint(0, nmax)
            acts.append(("setnum", k))
            n = k
        acts.append(("dump",))
        if rng.random() < 0.3:
            acts.append(("probs",))
        if rng.random() < 0.2:
            acts.append(("abs",))
    return acts


def loop_history(rng, rounds, n=3):
    """measure / re-superpose loop: the norm must not decay"""
    acts = [("new", n)]
    for k in range(rounds):
        acts.append(("apply", ("h", (1 << n) - 1)))
        acts.append(("measure", rng.randrange(1, 1 << n)))
        if k % 25 == 0 or k == rounds - 1:
            acts += [("dump",), ("probs",)]
    return acts


def histories(rng, tier):
    hs = []
    # corpus: the shortest witnesses of the repaired defects run first
    hs.append((1, [("new", 2), ("apply", ("h", 3)), ("measure", 1), ("dump",), ("probs",)]))
    hs.append((2, [("new", 3), ("apply", ("h", 7)), ("setnum", 1), ("dump",), ("probs",)]))
    hs.append((3, [("new", 3), ("apply", ("x", 4)), ("setnum", 2), ("dump",), ("probs",)]))
    for i in range(40 if tier == "quick" else 600):
        hs.append((rng.randrange(1 << 30), history(rng, rng.choice([5, 20, 60]) if tier == "quick" else rng.choice([20, 100, 400]))))
    hs.append((rng.randrange(1 << 30), loop_history(rng, 200 if tier == "quick" else 2000)))
    # nearly certain outcomes: a qubit turned by a tiny angle and measured, alone and in a loop, on 8-10 qubits; the
    # collapse loses between 1e-9 and 1e-9 * 2^n of the norm, which normalize has to give back
    for n in (8, 9, 10):
        for rep in range(1 if tier == "quick" else 4):
            b = rng.randrange(n)
            deficit = rng.choice([3e-9, 2e-8, 1e-7]) * (1 << (n - 8))
            theta = (8 * deficit) ** 0.5
            acts = [("new", n), ("apply", ("h", ((1 << n) - 1) & ~(1 << b)))]
            for _ in range(1 if rep == 0 else 12):
                acts += [("apply", ("ry", theta, 1 << b)), ("measure", 1 << b), ("dump",), ("abs",)]
            hs.append((rng.randrange(1 << 30), acts))
    # "any history": also under the rayon threading models, worker counts that do not divide the buffer included
    hs = regcheck.thread_mix(rng, hs, 0.3)
    hs += regcheck.threaded_core(rng, tier, sample=False)
    # registers with a past (grown, shrunk, regrown, multiplied, measured): the same observations
    hs += regcheck.lifecycle_histories(rng, tier, lambda r, n: [("dump",), ("abs",), ("probs",), ("measure", r.randrange(1 << (n + 1))),
                                                                 ("dump",), ("abs",), ("probs",)])
    for k in regcheck.thread_counts()[1:3]:
        hs.append((rng.randrange(1 << 30), [("new", 4), ("threads", k)] + loop_history(rng, 40 if tier == "quick" else 400, n=4)[1:]))
    return hs


if __name__ == "__main__":
    tier, seed = tier_seed()
    run = Run(PROP, tier, seed)
    binary = build_harness()
    au = audit.audit(PROP)
    hs = histories(run.rng, tier)
    n, dis, recs = regcheck.run_histories(run, binary, hs, PROP, regcheck.oracle_valid_state,
                                          "C05 raw buffer after every step of a history", "C05_invariant")
    # registers of 15-16 qubits (implementation only): reported norm and probabilities after every stage
    wide = regcheck.wide_histories(run.rng, tier, lambda r, n, hi: [("abs",), ("measure", (1 << hi[1]) | 1), ("abs",), ("probs",),
                                                                     ("apply", ("h", 1 << hi[1])), ("abs",)])
    n += regcheck.run_unmodelled(run, binary, wide, regcheck.oracle_valid_state)
    hs = hs + wide
    steps = sum(len(a) for _, a in hs)
    kinds = {}
    for _, a in hs:
        for x in a:
            kinds[x[0]] = kinds.get(x[0], 0) + 1
    cs = [generic.Case(regcheck.hist_harness(s, a)[:400], None, None, None, kind="history") for s, a in hs]
    generic.finish(run, PROP, au, cs, n, dis,
                   "seeded random histories over apply (all gate kinds, controls, daggers, qft) / measure_mask / tensor products "
                   "(both sides, *=) / set_num on 0..6 qubits (30 % under num_threads(2|3|5|6|7), plus systematic threaded histories on 4-6 qubits), raw buffer dumped after every step, reported norm and probabilities, compared with the model "
                   "fed with the implementation's outcomes; plus a measure/re-superpose loop of 200 (2000) rounds; plus histories on 15-16 "
                   "qubits (serial and threaded, gates and controls on the highest qubits) judged on the implementation alone",
                   assumptions=["measurement outcomes are taken from the implementation (seedable RNG hook) and fed to the model",
                                "float thresholds of normalize (1e-15, 1e-9) are evaluated at binary64 in the model run and are "
                                "idealised over R in the theorem"],
                   extra_cov={"history_steps": steps, "action_distribution": kinds})
