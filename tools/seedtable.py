"""Regenerate the table of section 8 of DESIGN.md from seeded/<id>/meta.json and the logs of the runs
(seeded/<id>/runs/<check>.log, written by tools/seedrun.sh)."""
import json, glob, os, re
from lib import ROOT

def verdict(log):
    try:
        t = open(log).read()
    except OSError:
        return None
    v = [l for l in t.splitlines() if l.startswith("VIOLATION")]
    if not v:
        return ""
    l = v[0].replace("/verif/", "")
    return l

rows = []
for d in sorted(glob.glob(os.path.join(ROOT, "seeded", "*", "meta.json"))):
    sid = os.path.basename(os.path.dirname(d))
    m = json.load(open(d))
    prop = m["property"]
    runs = {os.path.basename(f)[:-4]: verdict(f) for f in glob.glob(os.path.join(os.path.dirname(d), "runs", "*.log"))}
    own = runs.get(prop)
    also = sorted(k for k, v in runs.items() if k != prop and v)
    weak = [k for k in also if "no-failing-input-found" in runs[k]]
    quiet = sorted(k for k, v in runs.items() if k != prop and v == "")
    caught = ", ".join([prop] + [k + (" (correspondence only)" if k in weak else "") for k in also]) if own else "MISSED"
    rows.append("| `seeded/%s` (round %s): %s | %s | %s | %s | %s | `%s` |" % (
        sid, m.get("round", 1), m["change"], prop, m["needs_to_manifest"], caught, ", ".join(quiet) or "-", own or "-"))

p = os.path.join(ROOT, "DESIGN.md")
s = open(p).read()
head = "| seeded change | property | what it needs to manifest | caught by (quick tier) | neighbouring checks that stay quiet | verdict line of the property's own check |\n|---|---|---|---|---|---|\n"
i = s.index(head)
j = i + len(head)
k = j
while s[k:k + 2] == "| ":
    k = s.index("\n", k) + 1
s = s[:j] + "\n".join(rows) + "\n" + s[k:]
open(p, "w").write(s)
print(len(rows), "rows")
