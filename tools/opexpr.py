"""Operator expressions: one python representation, three renderings
(harness text, Coq term, numpy oracle matrix)."""
import math, cmath
import numpy as np
from coqio import fhex, cN
from lib import hexf

# expression = tuple: (head, args...) with heads as in harness/src/expr.rs
ONE_ANGLE = ("rx", "ry", "rz", "rxx", "ryy", "rzz", "u1")
MASK_ONLY = ("x", "y", "z", "s", "t", "h", "swap", "sqrt_swap", "i_swap", "sqrt_i_swap", "qft", "qft_swapped")
COQ_HEAD = {"x": "EX", "y": "EY", "z": "EZ", "s": "ES", "t": "ET", "h": "EH", "rx": "ERx", "ry": "ERy",
            "rz": "ERz", "rxx": "ERxx", "ryy": "ERyy", "rzz": "ERzz", "swap": "ESwap",
            "sqrt_swap": "ESqrtSwap", "i_swap": "EISwap", "sqrt_i_swap": "ESqrtISwap", "u1": "EU1",
            "u2": "EU2", "u3": "EU3", "qft": "EQft", "qft_swapped": "EQftSwapped"}
ASSEMBLY = ("mul", "mulassign", "append", "pushsingles", "pushfront", "mulsingles", "mulrefmut", "pushback", "wrapped")


def to_harness(e):
    h = e[0]
    if h == "id":
        return "id"
    if h in MASK_ONLY:
        return "%s %d" % (h, e[1])
    if h in ONE_ANGLE:
        return "%s %s %d" % (h, hexf(e[1]), e[2])
    if h == "u2":
        return "u2 %s %s %d" % (hexf(e[1]), hexf(e[2]), e[3])
    if h == "u3":
        return "u3 %s %s %s %d" % (hexf(e[1]), hexf(e[2]), hexf(e[3]), e[4])
    if h in ASSEMBLY:
        return "%s %s %s" % (h, to_harness(e[1]), to_harness(e[2]))
    if h == "dgr":
        return "dgr %s" % to_harness(e[1])
    if h == "c":
        return "c %d %s" % (e[1], to_harness(e[2]))
    raise ValueError(h)


def to_coq(e):
    h = e[0]
    if h == "id":
        return "EId"
    if h in MASK_ONLY:
        return "(%s %s)" % (COQ_HEAD[h], cN(e[1]))
    if h in ONE_ANGLE:
        return "(%s %s %s)" % (COQ_HEAD[h], fhex(e[1]), cN(e[2]))
    if h == "u2":
        return "(EU2 %s %s %s)" % (fhex(e[1]), fhex(e[2]), cN(e[3]))
    if h == "u3":
        return "(EU3 %s %s %s %s)" % (fhex(e[1]), fhex(e[2]), fhex(e[3]), cN(e[4]))
    if h in ASSEMBLY:
        return "(EMul %s %s)" % (to_coq(e[1]), to_coq(e[2]))
    if h == "dgr":
        return "(EDgr %s)" % to_coq(e[1])
    if h == "c":
        return "(EC %s %s)" % (cN(e[1]), to_coq(e[2]))
    raise ValueError(h)


def size(e):
    return 1 + sum(size(x) for x in e[1:] if isinstance(x, tuple))


# ------------------------------------------------------------------ numpy oracle
# The documented matrices (doc tables of src/operator/mod.rs), independent of the Coq model.

def bits(mask):
    return [b for b in range(64) if (mask >> b) & 1]


I2 = np.eye(2, dtype=complex)
SQ = 1 / math.sqrt(2)
DOC1 = {
    "x": np.array([[0, 1], [1, 0]], dtype=complex),
    "y": np.array([[0, -1j], [1j, 0]], dtype=complex),
    "z": np.array([[1, 0], [0, -1]], dtype=complex),
    "s": np.array([[1, 0], [0, 1j]], dtype=complex),
    "t": np.array([[1, 0], [0, (1 + 1j) * SQ]], dtype=complex),
    "h": np.array([[SQ, SQ], [SQ, -SQ]], dtype=complex),
}


def rx(l):
    c, s = math.cos(l / 2), math.sin(l / 2)
    return np.array([[c, -1j * s], [-1j * s, c]], dtype=complex)


def ry(l):
    c, s = math.cos(l / 2), math.sin(l / 2)
    return np.array([[c, -s], [s, c]], dtype=complex)


def rz(l):
    return np.array([[cmath.exp(-0.5j * l), 0], [0, cmath.exp(0.5j * l)]], dtype=complex)


def rxx(l):
    c, s = math.cos(l / 2), -1j * math.sin(l / 2)
    return np.array([[c, 0, 0, s], [0, c, s, 0], [0, s, c, 0], [s, 0, 0, c]], dtype=complex)


def ryy(l):
    c, s = math.cos(l / 2), 1j * math.sin(l / 2)
    return np.array([[c, 0, 0, s], [0, c, -s, 0], [0, -s, c, 0], [s, 0, 0, c]], dtype=complex)


def rzz(l):
    a, b = cmath.exp(-0.5j * l), cmath.exp(0.5j * l)
    return np.diag([a, b, b, a]).astype(complex)


DOC2 = {
    "swap": np.array([[1, 0, 0, 0], [0, 0, 1, 0], [0, 1, 0, 0], [0, 0, 0, 1]], dtype=complex),
    "sqrt_swap": np.array([[1, 0, 0, 0], [0, (1 + 1j) / 2, (1 - 1j) / 2, 0], [0, (1 - 1j) / 2, (1 + 1j) / 2, 0],
                           [0, 0, 0, 1]], dtype=complex),
    "i_swap": np.array([[1, 0, 0, 0], [0, 0, 1j, 0], [0, 1j, 0, 0], [0, 0, 0, 1]], dtype=complex),
    "sqrt_i_swap": np.array([[1, 0, 0, 0], [0, SQ, 1j * SQ, 0], [0, 1j * SQ, SQ, 0], [0, 0, 0, 1]], dtype=complex),
}


def lift1(U, b, n):
    """U on qubit b (bit b of the index), identity elsewhere; n qubits."""
    N = 1 << n
    M = np.zeros((N, N), dtype=complex)
    for i in range(N):
        bi = (i >> b) & 1
        for bj in (0, 1):
            j = (i & ~(1 << b)) | (bj << b)
            M[i, j] += U[bi, bj]
    return M


def lift2(U, a, b, n):
    """U on qubits (a = low index of the 2-bit basis label, b = high)."""
    N = 1 << n
    M = np.zeros((N, N), dtype=complex)
    for i in range(N):
        li = ((i >> a) & 1) | (((i >> b) & 1) << 1)
        for lj in range(4):
            j = (i & ~((1 << a) | (1 << b))) | ((lj & 1) << a) | ((lj >> 1) << b)
            M[i, j] += U[li, lj]
    return M


def ctrl(M, c, n):
    N = 1 << n
    R = np.eye(N, dtype=complex)
    for i in range(N):
        if i & c == c:
            R[i, :] = M[i, :]
    return R


def dft(k):
    N = 1 << k
    return np.array([[cmath.exp(2j * math.pi * j * l / N) / math.sqrt(N) for l in range(N)] for j in range(N)])


def embed(U, bs, n):
    """U (2^k x 2^k) on the sub-register selected by ascending bit list bs (bs[0] least significant)."""
    N = 1 << n
    k = len(bs)
    M = np.zeros((N, N), dtype=complex)
    rest_mask = ~sum(1 << b for b in bs)
    for i in range(N):
        xi = sum(((i >> b) & 1) << t for t, b in enumerate(bs))
        for xj in range(1 << k):
            j = (i & rest_mask) | sum(((xj >> t) & 1) << b for t, b in enumerate(bs))
            M[i, j] += U[xi, xj]
    return M


def bitrev_perm(k):
    N = 1 << k
    P = np.zeros((N, N), dtype=complex)
    for x in range(N):
        r = int(format(x, "0%db" % k)[::-1], 2) if k else 0
        P[r, x] = 1
    return P


class Refused(Exception):
    pass


class MaskPanic(Exception):
    def __init__(self, k):
        self.k = k


def popcount(m):
    return bin(m).count("1")


def act_on(e):
    h = e[0]
    if h == "id":
        return 0
    if h in MASK_ONLY:
        return e[1]
    if h in ONE_ANGLE:
        return e[2]
    if h == "u2":
        return e[3]
    if h == "u3":
        return e[4]
    if h in ASSEMBLY:
        return act_on(e[1]) | act_on(e[2])
    if h == "dgr":
        return act_on(e[1])
    if h == "c":
        return e[1] | act_on(e[2])


def oracle(e, n):
    """The unitary the *documentation* assigns to expression e on n qubits (matrix M with
    out = M @ in).  Raises Refused / MaskPanic where the documented API refuses."""
    h = e[0]
    N = 1 << n
    if h == "id":
        return np.eye(N, dtype=complex)
    if h in DOC1:
        M = np.eye(N, dtype=complex)
        for b in bits(e[1]):
            M = lift1(DOC1[h], b, n) @ M
        return M
    if h in ("rx", "ry", "rz", "u1"):
        if popcount(e[2]) != 1:
            raise MaskPanic(1)
        f = {"rx": rx, "ry": ry, "rz": rz, "u1": rz}[h]
        return lift1(f(e[1]), bits(e[2])[0], n)
    if h in ("rxx", "ryy", "rzz"):
        if popcount(e[2]) != 2:
            raise MaskPanic(2)
        f = {"rxx": rxx, "ryy": ryy, "rzz": rzz}[h]
        a, b = bits(e[2])
        return lift2(f(e[1]), a, b, n)
    if h in DOC2:
        if popcount(e[1]) != 2:
            raise MaskPanic(2)
        a, b = bits(e[1])
        return lift2(DOC2[h], a, b, n)
    if h == "u2":
        if popcount(e[3]) != 1:
            raise MaskPanic(1)
        b = bits(e[3])[0]
        # documented: U2(phi, lam) = U3(pi/2, phi, lam); U3 = RZ(phi) RY(theta) RZ(lam)
        return lift1(rz(e[1]) @ ry(math.pi / 2) @ rz(e[2]), b, n)
    if h == "u3":
        if popcount(e[4]) != 1:
            raise MaskPanic(1)
        b = bits(e[4])[0]
        return lift1(rz(e[2]) @ ry(e[1]) @ rz(e[3]), b, n)
    if h == "qft_swapped":
        bs = bits(e[1])
        return embed(dft(len(bs)), bs, n) if bs else np.eye(N, dtype=complex)
    if h == "qft":
        bs = bits(e[1])
        if not bs:
            return np.eye(N, dtype=complex)
        k = len(bs)
        return embed(dft(k) @ bitrev_perm(k), bs, n)
    if h in ASSEMBLY:
        A = oracle(e[1], n)
        B = oracle(e[2], n)
        return B @ A
    if h == "dgr":
        return oracle(e[1], n).conj().T
    if h == "c":
        M = oracle(e[2], n)
        if act_on(e[2]) & e[1]:
            raise Refused()
        return ctrl(M, e[1], n)
    raise ValueError(h)
