#!/bin/bash
# Line coverage of /repo/src under the inputs of all 20 quick checks (not a check: a measurement of what the
# correspondence exercises).  Builds the harness with -C instrument-coverage into a scratch target directory, runs
# every quick check with that binary (VERIF_HARNESS_BIN), merges the profiles with the nightly toolchain's llvm tools
# and prints the per-file summary and the uncovered lines of /repo/src.   usage: tools/coverage.sh [outdir]
set -u
out=${1:-/tmp/cov}; tgt=${COV_TARGET:-/tmp/covtgt}
B=$(ls -d ~/.rustup/toolchains/nightly-x86_64-unknown-linux-gnu/lib/rustlib/*/bin | head -1)
mkdir -p "$out"; rm -f "$out"/*.profraw
# (instrumented build scripts write profiles too: keep them out of the source trees)
export LLVM_PROFILE_FILE="$out/build-%p-%m.profraw"
cd /verif/harness && cp /repo/Cargo.lock Cargo.lock && CARGO_NET_OFFLINE=true CARGO_TARGET_DIR=$tgt RUSTFLAGS="--cfg qvnt_verif -C instrument-coverage" cargo build --offline --quiet || exit 2
cd /verif
for c in ${CHECKS:-C01 C02 C03 C04 C05 C06 C07 C08 C09 C10 C11 C12 C13 C14 C15 C16 C17 C18 C19 C20}; do
  LLVM_PROFILE_FILE="$out/$c-%p-%m.profraw" VERIF_HARNESS_BIN=$tgt/debug/qv-harness ./check $c --tier quick > "$out/$c.log" 2>&1
  echo "$c exit=$?"
done
$B/llvm-profdata merge -sparse "$out"/*.profraw -o "$out/all.profdata" || exit 2
$B/llvm-cov report $tgt/debug/qv-harness -instr-profile="$out/all.profdata" 2>/dev/null | grep -E "repo/src|^TOTAL|^Filename" > "$out/summary.txt"
$B/llvm-cov show $tgt/debug/qv-harness -instr-profile="$out/all.profdata" --show-line-counts-or-regions=false 2>/dev/null > "$out/show.txt"
python3 - "$out" <<'PY'
import re,sys
out=sys.argv[1]
cur=None; unc={}
for line in open(out+"/show.txt", errors="replace"):
    m=re.match(r"^(/\S+\.rs):$", line.strip())
    if m: cur=m.group(1); continue
    m=re.match(r"^\s*(\d+)\|\s*0\|(.*)$", line)
    if m and cur and "/repo/src/" in cur and "verif.rs" not in cur:
        unc.setdefault(cur,[]).append((int(m.group(1)), m.group(2).rstrip()))
with open(out+"/uncovered.txt","w") as f:
    for k in sorted(unc):
        f.write("== %s (%d lines)\n" % (k, len(unc[k])))
        for n,t in unc[k]: f.write("%5d %s\n" % (n,t))
print("uncovered lines:", sum(len(v) for v in unc.values()), "in", len(unc), "files ->", out+"/uncovered.txt")
PY
awk '{print $1, "lines:", $(NF-5), "missed:", $(NF-4), $(NF-3)}' "$out/summary.txt" | sed 's#.*/repo/src/#src/#' | head -60
