"""C18 -- a rejected chunk leaves the interpreter session unchanged."""
from lib import *
import audit, generic, qasmcheck, qasmprops
import qasmast as qa
from opsmain import tier_seed
PROP = "C18"
if __name__ == "__main__":
    tier, seed = tier_seed()
    run = Run(PROP, tier, seed)
    binary = build_harness()
    au = audit.audit(PROP)
    ss = qasmprops.c18_cases(run.rng, tier)
    n, dis = qasmprops.c18_run(run, binary, ss, PROP)
    gcs = [generic.Case(" || ".join(qa.p_program(c)[:80] for c in s["chunks"]), None, None, None,
                        kind="%s@%s" % (s.get("rule", "witness"), s.get("position", 0))) for s in ss]
    generic.finish(run, PROP, au, gcs, n, dis,
                   "sessions of 1-4 accepted chunks x failing chunks made from fresh statements (gates, a register, a gate definition) with a "
                   "planted static violation at every statement position x a correct continuation: accessor and Debug output (macro table "
                   "sorted) before vs after the failed add, verdict of every chunk, and the final run compared with the same session "
                   "without the failed attempt; verdicts and final run also against the model",
                   assumptions=[])
