#!/bin/bash
# usage: seedrun.sh <seed-id> <check-id>... : apply /verif/seeded/<seed-id>/patch.diff to /repo, run the named
# checks (quick tier), print their verdict lines, and undo the change straight afterwards.
set -u
sid=$1; shift
cd /verif
if [ -n "$(git -C /repo status --porcelain)" ]; then echo "/repo not clean"; exit 2; fi
git -C /repo apply /verif/seeded/$sid/patch.diff || exit 2
trap 'git -C /repo checkout -- . ' EXIT
mkdir -p /verif/seeded/$sid/runs
for c in "$@"; do
  s=$(date +%s)
  ./check $c --tier ${TIER:-quick} > /verif/seeded/$sid/runs/$c.log 2>&1; rc=$?
  echo "seed=$sid check=$c exit=$rc $(( $(date +%s)-s ))s :: $(grep -h 'VIOLATION\|KNOWN-FINDING' /verif/seeded/$sid/runs/$c.log | head -3 | tr '\n' ' ')"
done
