"""C04 -- a product of operators acts as its factors applied in queue order."""
from lib import *
import gen, opsmain
from opexpr import act_on

PROP = "C04"


def bracket(rng, gates):
    """random binary bracketing with a random mix of the assembly APIs"""
    if len(gates) == 1:
        return gates[0]
    k = rng.randint(1, len(gates) - 1)
    return (rng.choice(["mul", "mulassign", "append", "pushsingles", "pushfront", "mulsingles", "mulrefmut", "pushback", "wrapped"]), bracket(rng, gates[:k]), bracket(rng, gates[k:]))


def cases(rng, tier):
    cs = []
    maxlen = 60 if tier == "quick" else 400
    for _ in range(120 if tier == "quick" else 3000):
        n = rng.randint(0, 5)
        k = rng.choice([0, 1, 2, 3, 4, 5, 7, 8, rng.randint(0, maxlen)])
        gates = [gen.random_gate(rng, n, kinds=gen.ALL_KINDS + ["qft"]) for _ in range(k)]
        # neighbouring equal factors (the same gate two or three times in a row), and h on overlapping masks
        if gates and rng.random() < 0.35:
            p = rng.randrange(len(gates))
            gates[p + 1:p + 1] = [gates[p]] * rng.choice([1, 1, 2])
        if n and rng.random() < 0.15:
            m = rng.randrange(1, 1 << n)
            gates += [("h", m), ("h", m & rng.randrange(1, 1 << n) or m)]
        j = rng.randrange(1 << n)
        # (ii) factor by factor
        cs.append({"kind": "applyseq", "n": n, "j": j, "es": gates})
        # (i)/(iii) as one product under a random bracketing / API mix
        e = bracket(rng, gates) if gates else ("id",)
        cs.append({"kind": "applybasis", "n": n, "j": j, "e": e, "threads": rng.choice([1, 1, 2, 4])})
        if k and rng.random() < 0.5:
            e2 = bracket(rng, gates)
            cs.append({"kind": "applyraw", "n": n, "raw": gen.random_state(rng, n), "e": e2, "threads": rng.choice([1, 1, 2, 3])})
    # more workers than the register has cells (0-3 qubits under 9-16 workers), and every other worker count: short products
    import os
    wide = [k for k in (9, 11, 12, 16) if k <= (os.cpu_count() or 4)] or [2]
    for _ in range(40 if tier == "quick" else 1000):
        n = rng.randint(0, 3)
        gates = [gen.random_gate(rng, n, allow_empty=False) for _ in range(rng.randint(2, 5))]
        w = rng.choice(wide + [8, 5])
        if w > (os.cpu_count() or 4):
            w = 2
        if rng.random() < 0.5:
            cs.append({"kind": "applybasis", "n": n, "j": rng.randrange(1 << n), "e": bracket(rng, gates), "threads": w})
        else:
            cs.append({"kind": "applyraw", "n": n, "raw": gen.random_state(rng, n), "e": bracket(rng, gates), "threads": w})
    # registers of 11-13 qubits (beyond any block size a kernel might work in; too large for the model's buffers):
    # products of one-qubit gates on the high qubits mixed with gates on the low ones, as one product against factor by
    # factor, on basis states with the high qubits set
    for _ in range(24 if tier == "quick" else 600):
        n = rng.choice([11, 12, 13])
        gates = []
        for _ in range(rng.randint(2, 6)):
            q = rng.choice([0, 1, 5, 8, 9, 10, 10, 11, 12, n - 1])
            q = min(q, n - 1)
            kind = rng.choice(["x", "y", "z", "s", "t", "h", "rx", "ry", "rz"])
            g = gen.gate(kind, 1 << q, rng)
            if rng.random() < 0.25:
                c = 1 << rng.choice([x for x in range(n) if x != q])
                g = ("c", c, g)
            gates.append(g)
        j = rng.getrandbits(n) | (1 << rng.choice([9, 10, n - 1]))
        cs.append({"kind": "applyseq", "n": n, "j": j, "es": gates, "no_model": True})
    # products whose first and last factors are the same gate (palindromes, conjugations g u g, a gate twice), under
    # every threading model
    for _ in range(40 if tier == "quick" else 1000):
        n = rng.randint(1, 5)
        g = gen.random_gate(rng, n, allow_empty=False)
        mid = [gen.random_gate(rng, n) for _ in range(rng.randint(0, 3))]
        gates = [g] + mid + [g]
        cs.append({"kind": "applyraw", "n": n, "raw": gen.random_state(rng, n), "e": bracket(rng, gates),
                   "threads": rng.choice([1, 2, 2, 3, 4])})
        cs.append({"kind": "applyseq", "n": n, "j": rng.randrange(1 << n), "es": gates})
    for th in (2, 3):
        for e in (("u3", 1.23456, 0.7, 0.7, 1), ("u2", -0.7, -0.7, 2), ("mul", ("x", 1), ("x", 1)), ("mul", ("mul", ("h", 1), ("z", 1)), ("h", 1))):
            cs.append({"kind": "applyraw", "n": 3, "raw": gen.random_state(rng, 3), "e": e, "threads": th})
    # empty products (identity, h / qft on the empty mask, products of those) on dense states, both threading models
    for e in (("id",), ("h", 0), ("qft", 0), ("mul", ("id",), ("id",)), ("mul", ("h", 0), ("id",)), ("dgr", ("id",))):
        for th in (1, 2, 4):
            for n in (0, 1, 3, 5):
                cs.append({"kind": "applyraw", "n": n, "raw": gen.random_state(rng, n), "e": e, "threads": th})
    # identity neutral on both sides
    for _ in range(20):
        n = rng.randint(1, 4)
        g = gen.random_gate(rng, n)
        cs.append({"kind": "matrix", "n": n, "e": ("mul", ("id",), g)})
        cs.append({"kind": "matrix", "n": n, "e": ("mul", g, ("id",))})
        cs.append({"kind": "struct", "e": ("mul", ("mul", ("id",), g), ("id",))})
    # matrix of products for n <= 3
    for _ in range(60 if tier == "quick" else 1500):
        n = rng.randint(1, 3)
        gates = [gen.random_gate(rng, n) for _ in range(rng.randint(2, 9))]
        cs.append({"kind": "matrix", "n": n, "e": bracket(rng, gates)})
    # disjoint supports commute: both orders
    for _ in range(60 if tier == "quick" else 1500):
        n = rng.randint(2, 5)
        for _try in range(20):
            a = gen.random_gate(rng, n, allow_empty=False); b = gen.random_gate(rng, n, allow_empty=False)
            if act_on(a) & act_on(b) == 0:
                break
        else:
            continue
        raw = gen.random_state(rng, n)
        cs.append({"kind": "applyraw", "n": n, "raw": raw, "e": ("mul", a, b)})
        cs.append({"kind": "applyraw", "n": n, "raw": raw, "e": ("mul", b, a)})
    return cs


if __name__ == "__main__":
    opsmain.main(PROP, cases, "C04 product application (one product / factor by factor / regrouped)",
                 "C04_pingpong, C04_assembly, C04_commute",
                 "random gate sequences of length 0..60 (400 thorough) on 0..5 qubits applied factor by factor, as one product under a "
                 "random bracketing and mix of *, *=, append, push_back; identity on both sides; matrices of products; disjoint pairs in both orders")
