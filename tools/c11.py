"""C11 -- measure, if and reset statements follow OpenQASM semantics."""
from lib import *
import audit, generic, qasmcheck, qasmprops
import qasmast as qa
from opsmain import tier_seed
PROP = "C11"
if __name__ == "__main__":
    tier, seed = tier_seed()
    run = Run(PROP, tier, seed)
    binary = build_harness()
    au = audit.audit(PROP)
    cs = qasmprops.c11_cases(run.rng, tier)
    n, dis, obs = qasmcheck.run_programs(run, binary, cs, PROP, qasmprops.c11_oracle,
                                         "C11 classical register and final state of programs with measure / if / reset / barrier",
                                         "C11_measure, C11_if, C11_reset")
    shots = qasmprops.reset_statistics(run, binary, tier)
    kinds = {}
    gcs = []
    for c in cs:
        ks = sorted({s[0] for s in c["chunks"][0]})
        gcs.append(generic.Case(qa.p_program(c["chunks"][0])[:300], None, None, None, kind="+".join(k for k in ks if k in ("measure", "if", "reset", "barrier"))))
    generic.finish(run, PROP, au, gcs, n + shots, dis,
                   "grammar programs with raised measure / if / reset / barrier density in both measurement modes, outcomes recorded by the "
                   "hook and fed to the model and to the python reference interpreter; a conditional directly after every statement kind at "
                   "every register offset and value; reset of |0>, |1>, superposed and entangled qubits, with a binomial test that the "
                   "entangled partner keeps its statistics",
                   assumptions=["measurement outcomes are taken from the implementation (recording hook) and fed to model and reference"])
