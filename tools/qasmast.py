"""OpenQASM programs as python trees: printer to source text (for the real lexer / parser / meval),
renderer to Coq terms of Model/Interp.v, error canonicalisation, and a grammar-based generator."""
import re, math
from coqio import fhex, cN, cZ, clist

# node  = ("qreg", name, size) | ("creg", name, size) | ("barrier", arg) | ("reset", arg) | ("measure", qarg, carg)
#       | ("apply", name, [arg], [pexpr]) | ("gate", name, [reg], [param], [apply node]) | ("if", creg, value, node)
# arg   = ("q", name, idx) | ("r", name)
# pexpr = ("num", "1.25") | ("var", name) | ("neg", e) | ("add"|"sub"|"mul"|"div"|"pow", a, b) | ("fun", name, [e])

# ------------------------------------------------------------------ text


def p_arg(a):
    return "%s[%d]" % (a[1], a[2]) if a[0] == "q" else a[1]


def p_expr(e, rng=None):
    def sp():
        return " " if (rng is not None and rng.random() < 0.3) else ""
    k = e[0]
    if k == "num":
        return e[1]
    if k == "var":
        return e[1]
    if k == "neg":
        return "(%s-%s%s)" % (sp(), sp(), p_expr(e[1], rng))
    if k in ("add", "sub", "mul", "div", "pow"):
        op = {"add": "+", "sub": "-", "mul": "*", "div": "/", "pow": "^"}[k]
        return "(%s%s%s%s%s)" % (p_expr(e[1], rng), sp(), op, sp(), p_expr(e[2], rng))
    if k == "fun":
        return "%s(%s)" % (e[1], ",".join(p_expr(x, rng) for x in e[2]))
    raise ValueError(k)


def p_node(n, rng=None):
    k = n[0]
    if k in ("qreg", "creg"):
        return "%s %s[%d];" % (k, n[1], n[2])
    if k == "barrier":
        return "barrier %s;" % p_arg(n[1])
    if k == "reset":
        return "reset %s;" % p_arg(n[1])
    if k == "measure":
        return "measure %s -> %s;" % (p_arg(n[1]), p_arg(n[2]))
    if k == "apply":
        params = "(%s)" % ",".join(p_expr(e, rng) for e in n[3]) if n[3] else ""
        return "%s%s %s;" % (n[1], params, ",".join(p_arg(a) for a in n[2]))
    if k == "gate":
        params = "(%s)" % ",".join(n[3]) if n[3] else ""
        body = " ".join(p_node(b, rng) for b in n[4])
        return "gate %s%s %s { %s }" % (n[1], params, ",".join(n[2]), body)
    if k == "if":
        return "if(%s==%d) %s" % (n[1], n[2], p_node(n[3], rng))
    raise ValueError(k)


def p_program(nodes, rng=None, header=False):
    lines = []
    if header:
        lines.append("OPENQASM 2.0;")
    sep = "\n" if rng is None else rng.choice(["\n", " ", "\n  "])
    for n in nodes:
        lines.append(p_node(n, rng) + sep)
        if rng is not None and rng.random() < 0.1:
            lines.append("// comment %d\n" % rng.randrange(100))
    return "".join(lines) + "\n"


# ------------------------------------------------------------------ Coq

def cstr(s):
    return '"%s"%%string' % s.replace('"', '""')


def c_arg(a):
    return "(Qubit %s %s)" % (cstr(a[1]), cZ(a[2])) if a[0] == "q" else "(Register %s)" % cstr(a[1])


def c_expr(e):
    k = e[0]
    if k == "num":
        return "(PNum %s)" % fhex(float(e[1]))
    if k == "var":
        return "(PVar %s)" % cstr(e[1])
    if k == "neg":
        return "(PNeg %s)" % c_expr(e[1])
    if k in ("add", "sub", "mul", "div", "pow"):
        return "(P%s %s %s)" % (k.capitalize(), c_expr(e[1]), c_expr(e[2]))
    if k == "fun":
        return "(PFun %s %s)" % (cstr(e[1]), clist([c_expr(x) for x in e[2]]))
    raise ValueError(k)


def c_node(n):
    k = n[0]
    if k == "qreg":
        return "(NQReg %s %s)" % (cstr(n[1]), cZ(n[2]))
    if k == "creg":
        return "(NCReg %s %s)" % (cstr(n[1]), cZ(n[2]))
    if k == "barrier":
        return "(NBarrier %s)" % c_arg(n[1])
    if k == "reset":
        return "(NReset %s)" % c_arg(n[1])
    if k == "measure":
        return "(NMeasure %s %s)" % (c_arg(n[1]), c_arg(n[2]))
    if k == "apply":
        return "(NApply %s %s %s)" % (cstr(n[1]), clist([c_arg(a) for a in n[2]]), clist([c_expr(e) for e in n[3]]))
    if k == "gate":
        return "(NGate %s %s %s %s)" % (cstr(n[1]), clist([cstr(r) for r in n[2]]), clist([cstr(p) for p in n[3]]),
                                        clist([c_node(b) for b in n[4]]))
    if k == "if":
        return "(NIf %s %s %s)" % (cstr(n[1]), cZ(n[2]), c_node(n[3]))
    raise ValueError(k)


def c_chunk(nodes):
    return clist([c_node(n) for n in nodes])


# ------------------------------------------------------------------ errors

NODE_TAG = {"QReg": 1, "CReg": 2, "Barrier": 3, "Reset": 4, "Measure": 5, "ApplyGate": 6, "Opaque": 7, "Gate": 8, "If": 9}


def canon_impl_error(dbg):
    """Debug string of qvnt::qasm::int::Error -> canonical tuple"""
    dbg = dbg.strip()
    m = re.match(r"(\w+)\((.*)\)$", dbg, re.S)
    if not m:
        return (dbg,)
    v, body = m.group(1), m.group(2)
    if v == "MacroError":
        return canon_impl_error(body)
    if v in ("DisallowedNodeInIf", "DisallowedNodeInMacro"):
        head = re.match(r"(\w+)", body).group(1)
        return (v, NODE_TAG.get(head, 0))
    if v == "UnevaluatedArgument":
        m2 = re.search(r"(UnknownVariable|Function)\(\"([^\"]*)\"", body)
        if m2:
            return (v, "UnknownVariable" if m2.group(1) == "UnknownVariable" else "FunctionError", m2.group(2))
        return (v, "other", body[:60])
    if v == "NonFiniteArgument":
        return (v, re.match(r'"([^"]*)"', body).group(1))
    parts = []
    for p in re.findall(r'"(?:[^"\\]|\\.)*"|-?\d+', body):
        parts.append(p[1:-1] if p.startswith('"') else int(p))
    return (v,) + tuple(parts)


def canon_model_error(e):
    """parsed Coq value of Interp.error -> canonical tuple"""
    if isinstance(e, str):
        return (e,)
    h, args = e
    if h == "UnevaluatedArgument":
        what, pe = args
        return (h, pe[0], pe[1][0])
    if h == "NonFiniteArgument":
        return (h, args[0])
    return (h,) + tuple(args)


# ------------------------------------------------------------------ generator

GATES0_1 = ["x", "y", "z", "s", "sdg", "t", "tdg", "h"]
GATES1_1 = ["rx", "ry", "rz", "u1"]
GATES1_2 = ["rxx", "ryy", "rzz"]
GATES0_2 = ["swap", "sqrt_swap", "i_swap", "sqrt_i_swap"]
NUMS = ["0", "1", "2", "3", "0.5", "0.25", "1.25", "0.7", "2.5", "7.5", "0.1", "4"]


def gen_expr(rng, depth, vars_=()):
    """a parameter expression whose value stays moderate, so that the binary64 trigonometry of model and
    implementation are comparable at the 1e-9 tolerance: an angle of magnitude 1e9 has an ulp of 1e-7, and the
    model's own pow / exp / ln differ from libm in the last ulps.  Top-level actual parameters stay below 300 in
    magnitude; expressions over formal parameters stay below 1000 with every formal at +-300"""
    import pyref
    bound = 1000.0 if vars_ else 300.0
    for _ in range(12):
        e = gen_expr_raw(rng, depth, vars_)
        try:
            vals = [pyref.peval(e, {v: x for v in vars_}) for x in (300.0, -300.0, 0.3)]
        except Exception:
            continue
        if all(v == v and abs(v) < bound for v in vals):
            return e
    return ("num", "0.7")


def gen_expr_raw(rng, depth, vars_=()):
    r = rng.random()
    if depth <= 0 or r < 0.3:
        c = rng.random()
        if c < 0.55:
            return ("num", rng.choice(NUMS))
        if c < 0.8 or not vars_:
            return ("var", "pi")
        return ("var", rng.choice(vars_))
    if r < 0.4:
        return ("neg", gen_expr_raw(rng, depth - 1, vars_))
    if r < 0.85:
        op = rng.choice(["add", "sub", "mul", "div", "add", "mul"])
        b = gen_expr_raw(rng, depth - 1, vars_)
        if op == "div" and b[0] != "num":
            b = ("num", rng.choice(["2", "4", "0.5", "3"]))
        if op == "div" and b == ("num", "0"):
            b = ("num", "2")
        return (op, gen_expr_raw(rng, depth - 1, vars_), b)
    if r < 0.9:
        return ("pow", gen_expr_raw(rng, depth - 1, vars_), ("num", rng.choice(["2", "3", "0.5", "1"])))
    f = rng.choice(["sqrt", "abs", "floor", "ceil", "round", "max", "min", "exp", "ln"])
    a = gen_expr_raw(rng, depth - 1, vars_)
    if f in ("sqrt", "ln"):
        a = ("fun", "abs", [a]) if f == "sqrt" else ("add", ("fun", "abs", [a]), ("num", "0.5"))
    if f == "exp":
        a = ("fun", "min", [("fun", "abs", [a])])
        a = ("div", a, ("num", "4"))
    return ("fun", f, [a])


class Layout:
    """declared registers of a program under construction"""

    def __init__(self):
        self.q = []   # (name, size)
        self.c = []
        self.gates = []   # (name, nregs, nparams)

    def nq(self):
        return sum(s for _, s in self.q)

    def nc(self):
        return sum(s for _, s in self.c)

    def qubits(self):
        return [("q", n, i) for n, s in self.q for i in range(s)]

    def cbits(self):
        return [("q", n, i) for n, s in self.c for i in range(s)]


BROADCAST1 = ("x", "y", "z", "h", "s", "sdg", "t", "tdg")


def gen_gate_stmt(rng, lay, qubits=None, vars_=(), depth=3, allow_user=True, allow_ctrl=True):
    """a random gate application on distinct indexed qubits (or formals inside a gate body); a built-in name that a
    user definition shadows is only used with the user definition's arity"""
    st = gen_gate_stmt_raw(rng, lay, qubits, vars_, depth, allow_user, allow_ctrl)
    if st is None:
        return None
    for (g, nr, npar) in lay.gates:
        if st[1] == g and (len(st[2]) != nr or len(st[3]) != npar):
            return ("apply", "z", [st[2][0]], [])
    return st


def gen_gate_stmt_raw(rng, lay, qubits=None, vars_=(), depth=3, allow_user=True, allow_ctrl=True):
    qs = qubits if qubits is not None else lay.qubits()
    choices = []
    if len(qs) >= 1:
        choices += ["g01", "g11", "u2", "u3"]
    if len(qs) >= 2:
        choices += ["g02", "g12", "c1", "c1"]
    if len(qs) >= 3:
        choices += ["cc"]
    if allow_user and lay.gates:
        choices += ["user", "user"]
    if not choices:
        return None
    k = rng.choice(choices)
    if k == "g01":
        g = rng.choice(GATES0_1 + ["qft"])
        if qubits is None and lay.q and (g in BROADCAST1 or g == "qft") and g not in [u[0] for u in lay.gates] and rng.random() < 0.15:
            # whole-register form of a one-qubit gate: the gate on each qubit of the register
            return ("apply", g, [("r", rng.choice(lay.q)[0])], [])
        return ("apply", g, [rng.choice(qs)], [])
    if k == "g11":
        return ("apply", rng.choice(GATES1_1), [rng.choice(qs)], [gen_expr(rng, depth, vars_)])
    if k == "u2":
        return ("apply", "u2", [rng.choice(qs)], [gen_expr(rng, depth, vars_) for _ in range(2)])
    if k == "u3":
        return ("apply", "u3", [rng.choice(qs)], [gen_expr(rng, depth, vars_) for _ in range(3)])
    if k == "g02":
        return ("apply", rng.choice(GATES0_2), rng.sample(qs, 2), [])
    if k == "g12":
        return ("apply", rng.choice(GATES1_2), rng.sample(qs, 2), [gen_expr(rng, depth, vars_)])
    if k == "c1" and allow_ctrl:
        base = rng.choice(["x", "y", "z", "h", "rz", "u1", "u3", "rx", "ry"])
        params = {"rz": 1, "u1": 1, "rx": 1, "ry": 1, "u3": 3}.get(base, 0)
        name = "c" + base
        if rng.random() < 0.2:
            name = name.upper()
        return ("apply", name, rng.sample(qs, 2), [gen_expr(rng, depth, vars_) for _ in range(params)])
    if k == "cc" and allow_ctrl:
        base = rng.choice(["cx", "cz", "swap", "crz", "cu1"])
        params = {"crz": 1, "cu1": 1}.get(base, 0)
        need = {"swap": 3}.get(base, 3)
        return ("apply", "c" + base, rng.sample(qs, need), [gen_expr(rng, depth, vars_) for _ in range(params)])
    if k == "user":
        name, nr, npar = rng.choice(lay.gates)
        if len(qs) < nr:
            return ("apply", "h", [rng.choice(qs)], [])
        return ("apply", name, rng.sample(qs, nr), [gen_expr(rng, depth, vars_) for _ in range(npar)])
    return ("apply", "x", [rng.choice(qs)], [])


def gen_program(rng, nstmts=12, max_q=5, measure_p=0.0, if_p=0.0, reset_p=0.0, gate_defs=2, depth=3, late_p=0.06):
    """a well-formed program over the supported subset"""
    lay = Layout()
    nodes = []
    names = ["q", "r", "anc", "w", "a_1"]
    cnames = ["c", "m", "out", "d"]
    rng.shuffle(names); rng.shuffle(cnames)
    nregs = rng.randint(1, 3)
    decls = []
    budget = max_q
    for i in range(nregs):
        if budget <= 0:
            break
        s = rng.randint(1, min(3, budget)); budget -= s
        decls.append(("qreg", names[i], s)); lay.q.append((names[i], s))
    for i in range(rng.randint(1, 2)):
        s = rng.randint(1, 3)
        decls.append(("creg", cnames[i], s)); lay.c.append((cnames[i], s))
    rng.shuffle(decls)
    nodes += decls
    # gate definitions (nested: later ones may call earlier ones)
    gnames = ["g1", "mygate", "rot", "bell", "x"]   # "x" shadows a built-in
    rng.shuffle(gnames)
    # a definition that shadows a built-in comes first: names inside gate bodies are resolved when the gate is
    # called, so a body written before the shadowing definition would silently change its meaning (or arity)
    ndefs = rng.randint(0, gate_defs)
    if "x" in gnames[:ndefs]:
        gnames.remove("x"); gnames.insert(0, "x")
    def gate_def(gname):
        nr = rng.randint(1, 3); npar = rng.randint(0, 3)
        regs = ["a", "b", "cc"][:nr]
        params = rng.sample(["theta", "phi", "lam", "pi", "inf", "nan", "infinity"], npar) if rng.random() < 0.25 else ["theta", "phi", "lam"][:npar]
        body = []
        formal_qs = [("r", x) for x in regs]
        sub = Layout(); sub.gates = [g for g in lay.gates if g[0] != gname]
        for _ in range(rng.randint(0, 4)):
            st = gen_gate_stmt(rng, sub, qubits=formal_qs, vars_=tuple(params), depth=2)
            if st and st[1] != gname:
                body.append(st)
        lay.gates.append((gname, nr, npar))
        return ("gate", gname, regs, params, body)

    for gi in range(ndefs):
        nodes.append(gate_def(gnames[gi]))
    for _ in range(nstmts):
        if rng.random() < late_p:
            # a declaration in the middle of the program (registers / gates declared by a later chunk)
            usedq = [n for n, _ in lay.q]; usedc = [n for n, _ in lay.c]
            freeq = [n for n in names if n not in usedq]; freec = [n for n in cnames if n not in usedc]
            kind = rng.choice(["qreg", "creg", "creg", "gate"])
            if kind == "qreg" and budget > 0 and freeq:
                s_ = rng.randint(1, min(2, budget)); budget -= s_
                nodes.append(("qreg", freeq[0], s_)); lay.q.append((freeq[0], s_))
            elif kind == "creg" and freec and lay.nc() <= 6:
                s_ = rng.randint(1, 3)
                nodes.append(("creg", freec[0], s_)); lay.c.append((freec[0], s_))
            elif kind == "gate":
                free = [g for g in gnames if g not in [x[0] for x in lay.gates] and g != "x"]
                if free:
                    # (its body may call the gates defined so far: nested definitions across chunks)
                    nodes.append(gate_def(free[0]))
            continue
        r = rng.random()
        if r < measure_p and lay.nc():
            if rng.random() < 0.5:
                nodes.append(("measure", rng.choice(lay.qubits()), rng.choice(lay.cbits())))
            else:
                same = [(q, c) for q in lay.q for c in lay.c if q[1] == c[1]]
                if same:
                    q, c = rng.choice(same)
                    nodes.append(("measure", ("r", q[0]), ("r", c[0])))
                else:
                    nodes.append(("measure", rng.choice(lay.qubits()), rng.choice(lay.cbits())))
        elif r < measure_p + if_p and lay.nc():
            cn, cs = rng.choice(lay.c)
            st = gen_gate_stmt(rng, lay, depth=depth)
            if st:
                nodes.append(("if", cn, rng.randrange(1 << cs), st))
        elif r < measure_p + if_p + reset_p:
            nodes.append(("reset", rng.choice(lay.qubits()) if rng.random() < 0.7 else ("r", rng.choice(lay.q)[0])))
        elif r < measure_p + if_p + reset_p + 0.05:
            nodes.append(("barrier", ("r", rng.choice(lay.q)[0])))
        else:
            st = gen_gate_stmt(rng, lay, depth=depth)
            if st:
                nodes.append(st)
                # the same statement again, directly afterwards (and sometimes a third time)
                while rng.random() < 0.12:
                    nodes.append(st)
        # a measurement is often followed at once by another one (same or crossed pairing)
        if nodes and nodes[-1][0] == "measure" and lay.nc() and rng.random() < 0.3:
            nodes.append(("measure", rng.choice(lay.qubits()), rng.choice(lay.cbits())))
    return nodes, lay
