"""Correspondence machinery for the `qasm` engine (C09-C13, C17, C18)."""
import re
from lib import *
import coqio
from coqio import cN, clist
import qasmast as qa

IMPORTS = ["RunQasm"]
API = {"add": 0, "changes": 1, "prepend": 2}


def hexs(s):
    return "h" + s.encode("utf-8", "replace").hex()


def unhexs(h):
    return bytes.fromhex(h).decode(errors="replace")


def harness_run(case):
    texts = case.get("texts") or [qa.p_program(c, None) for c in case["chunks"]]
    return "run %s %d %d %d %s" % (case.get("api", "add"), case.get("xor_at", 1) if case.get("xor") else 0, case.get("seed", 1),
                                   len(texts), " ".join(hexs(t) for t in texts))


def parse_final(tokens):
    """tokens after 'OK' / 'final' -> dict"""
    t = tokens
    assert t[0] == "class", t[:3]
    d = {"class": int(t[1]), "cnum": int(t[2])}
    assert t[3] == "q"
    ln = int(t[4])
    d["psi"] = parse_complex_hex(t[5:5 + 2 * ln])
    i = 5 + 2 * ln
    assert t[i] == "rec"
    d["rec"] = int(t[i + 1])
    d["qa"] = re.findall(r'"([^"]*)"', unhexs(t[i + 3]))
    d["ca"] = re.findall(r'"([^"]*)"', unhexs(t[i + 5]))
    d["tree"] = unhexs(t[i + 7])
    k = int(t[i + 9])
    d["out"] = [int(x) for x in t[i + 10:i + 10 + k]]
    j = i + 10 + k
    if len(t) > j and t[j] == "rech":
        kk = int(t[j + 1])
        d["rech"] = t[j + 2:j + 2 + kk]
        d["reci"] = t[j + 3 + kk] == "1"
        j = j + 4 + kk
        if len(t) > j and t[j] == "acc":
            d["acc"] = t[j + 1] == "1"
            j += 2
        if len(t) > j and t[j] == "reuse":
            d["reuse"] = t[j + 1] == "1"
            if not d["reuse"]:
                d["reuse_class"] = int(t[j + 3])
                prev = t[j + 6] if len(t) > j + 6 else ""
                xor_prev = prev.startswith("x")
                try:
                    d["reuse_prev"] = ("[accumulate mode] " if xor_prev else "") + " || ".join(unhexs(x) for x in prev.lstrip("x").split("+"))
                except ValueError:
                    d["reuse_prev"] = prev
    return d


def fnv(text):
    h = 0xcbf29ce484222325
    for b in text.encode("utf-8", "replace"):
        h = ((h ^ b) * 0x100000001b3) & 0xFFFFFFFFFFFFFFFF
    return "%016x" % h


def parse_impl_run(payload):
    t = payload.split()
    if t[0] == "PARSE":
        return ("parse", int(t[1]), " ".join(t[2:]))
    if t[0] == "ERR":
        return ("err", qa.canon_impl_error(payload.split(" ", 2)[2]))
    if t[0] == "PANIC":
        return ("panic", t[1], " ".join(t[2:])[:200])
    if t[0] in ("TIMEOUT", "ABORT"):
        return ("died", payload)
    if t[0] == "OKNOEXEC":
        return ("noexec", int(t[1]), unhexs(t[2]) if len(t) > 2 else None)
    if t[0] == "OK":
        return ("ok", parse_final(t[1:]))
    return ("bad", payload[:200])


def model_term_run(case, outcomes):
    return "run_qasm %s %s %s %s" % (cN(API[case.get("api", "add")]), "true" if case.get("xor") else "false",
                                     clist([qa.c_chunk(c) for c in case["chunks"]]), clist([cN(o) for o in outcomes]))


def parse_model_qres(v):
    if isinstance(v, tuple) and v[0] == "QErr":
        return ("err", qa.canon_model_error(v[1][0]))
    if isinstance(v, tuple) and v[0] == "QPanic":
        return ("panic", "model-%d" % v[1][0], "")
    assert v[0] == "QRun", v
    cv, cn, qn, psi, rec, qal, cal, nb = v[1]
    return ("ok", {"class": cv, "cnum": cn, "qnum": qn, "psi": model_complex_list(psi), "rec": rec,
                   "qa": list(qal), "ca": list(cal), "nb": nb})


def same_run(oi, om, tol=TOL):
    if oi[0] != om[0]:
        return False
    if oi[0] == "err":
        return oi[1] == om[1]
    if oi[0] == "ok":
        a, b = oi[1], om[1]
        return (a["class"] == b["class"] and a["cnum"] == b["cnum"] and vec_close(a["psi"], b["psi"], tol)
                and a["rec"] == b["rec"] and a["qa"] == b["qa"] and a["ca"] == b["ca"])
    if oi[0] == "panic":
        return False      # the model never agrees with a crash of the implementation
    return False


def describe(case):
    d = {"api": case.get("api", "add"), "xor": bool(case.get("xor")), "seed": case.get("seed", 1)}
    d["source_chunks"] = case.get("texts") or [qa.p_program(c, None) for c in case["chunks"]]
    d["harness"] = "qasm " + harness_run(case)[:3000]
    return d


def run_programs(run, binary, cases, tag, oracle, relation, theorem_hint="", deadline=30.0, tol=TOL):
    """cases: dicts with chunks (python ASTs) [+ texts].  oracle(case, impl_obs) -> list of failures (the
    property's own test on the implementation).  Returns (n, disagreements, impl observables)."""
    texts = [(str(i), harness_run(c)) for i, c in enumerate(cases)]
    impl = run_harness(binary, "qasm", texts, deadline=deadline)
    obs = [parse_impl_run(impl.get(str(i), "ABORT missing")) for i in range(len(cases))]
    terms = []
    idx = []
    for i, (c, o) in enumerate(zip(cases, obs)):
        if "chunks" not in c or c.get("impl_only"):
            continue
        outs = o[1]["out"] if o[0] == "ok" else []
        terms.append(model_term_run(c, outs)); idx.append(i)
    vals = coqio.run_terms(terms, IMPORTS, tag, shard_size=60)
    model = {i: parse_model_qres(v) for i, v in zip(idx, vals)}
    disagreements = []
    for i in idx:
        if not same_run(obs[i], model[i], tol):
            disagreements.append((i, obs[i], model[i]))
    found = 0
    dis_set = {d[0] for d in disagreements}
    order = [d[0] for d in disagreements] + [i for i in range(len(cases)) if i not in dis_set]
    seen = set()
    # every executed program was also run on the simulator the previous program left behind (Sym::init + reset + finish)
    reused = 0
    for i, o in enumerate(obs):
        if o[0] == "ok" and o[1].get("reuse") is False:
            reused += 1
            if reused <= 2:
                rep = describe(cases[i])
                rep.update({"what": "executed on a simulator re-used through Sym::init (after the program below), this program ends in a "
                                    "different state / classical register than on a fresh simulator",
                            "previous_program": o[1].get("reuse_prev", "")[:2000], "fresh": short_obs(o),
                            "reused_classical_register": o[1].get("reuse_class")})
                run.violation(rep)
    found += reused
    # the simulator's accessors (probabilities, polar amplitudes) and its own measure(q, c) entry point, probed on a copy
    bad_acc = [i for i, o in enumerate(obs) if o[0] == "ok" and o[1].get("acc") is False]
    for i in bad_acc[:2]:
        rep = describe(cases[i])
        rep.update({"what": "after this program Sym::get_probabilities / get_polar_wavefunction disagree with the state, or "
                            "Sym::measure(q, c) does not store the outcome in the paired classical bits in the session's mode",
                    "implementation": short_obs(obs[i])})
        run.violation(rep)
    found += len(bad_acc)
    for i in order:
        fails = oracle(cases[i], obs[i])
        if fails:
            key = cases[i].get("sig") or fails[0][:60]
            if cases[i].get("sig"):
                found -= 1      # a recorded finding does not count as the explanation of a disagreement
            if key in seen:
                continue
            seen.add(key)
            found += 1
            if found <= 6:
                rep = describe(cases[i])
                rep.update({"what": "the property fails on the implementation for this program", "failures": fails[:5],
                            "implementation": short_obs(obs[i]), "model": short_obs(model.get(i)),
                            "signature": cases[i].get("sig")})
                run.violation(rep)
    if disagreements and not found:
        i, oi, om = disagreements[0]
        rep = describe(cases[i])
        rep.update({"relation": relation, "theorem": theorem_hint,
                    "what": "implementation left the model (correspondence %s no longer checks); no program violating "
                            "the property was found" % relation,
                    "implementation": short_obs(oi), "model": short_obs(om), "disagreements": len(disagreements)})
        run.violation(rep, found_input=False)
    return len(cases), disagreements, obs


def short_obs(o):
    if o is None:
        return None
    if o[0] == "ok":
        d = dict(o[1])
        d["psi"] = [str(z) for z in d["psi"][:16]] + (["..."] if len(d["psi"]) > 16 else [])
        return ["ok", d]
    return list(o)
