#!/bin/bash
# usage: seedverify.sh <ID> [suffix]   -- confirm a seeded change in its scratch worktree /tmp/mut/<ID>
# (tests pass with it, demonstration fails with it and passes without), then store it under /verif/seeded/<ID>/
set -u
id=$1; sfx=${2:-}; wt=/tmp/mut/$id; lc=$(echo $id | tr A-Z a-z)
export CARGO_NET_OFFLINE=true CARGO_TARGET_DIR=$wt/target
cd $wt || exit 2
git checkout -q -- src; git apply OUT/patch.diff || exit 2
mkdir -p /tmp/mut/hold; [ -f tests/demo_$lc.rs ] && mv tests/demo_$lc.rs /tmp/mut/hold/
cargo test --workspace --no-fail-fast --offline > OUT/suite.log 2>&1; suite=$?
cp OUT/demo_$lc.rs tests/demo_$lc.rs
cargo test --offline --all-features --test demo_$lc > OUT/demo_with.log 2>&1; with=$?
git apply -R OUT/patch.diff
cargo test --offline --all-features --test demo_$lc > OUT/demo_without.log 2>&1; without=$?
echo "$id suite_exit=$suite demo_with_exit=$with demo_without_exit=$without"
grep -h "^test result" OUT/suite.log OUT/demo_with.log OUT/demo_without.log
if [ $suite = 0 ] && [ $with != 0 ] && [ $without = 0 ]; then
  mkdir -p /verif/seeded/$id$sfx; cp OUT/patch.diff /verif/seeded/$id$sfx/patch.diff; cp OUT/demo_$lc.rs /verif/seeded/$id$sfx/; cp OUT/meta.md /verif/seeded/$id$sfx/agent_notes.md
  echo CONFIRMED
fi
