From QV Require Import Interp.
