From QV Require Import Reg.
