From QV Require Import Spec ScalarR.
