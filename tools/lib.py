"""Shared machinery of the checks: building, running the harness, comparing numbers,
reporting verdicts and writing evidence."""
import os, sys, json, time, subprocess, struct, math, random, hashlib, re, shutil

ROOT = os.path.dirname(os.path.dirname(os.path.abspath(__file__)))
CACHE = os.path.join(ROOT, ".cache")
TARGET = os.path.join(CACHE, "target")
HARNESS_DIR = os.path.join(ROOT, "harness")
COQDIR = os.path.join(ROOT, "coq")
REPLAYS = os.path.join(ROOT, "replays")
EVIDENCE = os.path.join(ROOT, "evidence")
REPO = "/repo"
GUARD = "qvnt_verif"
TOL = 1e-9


def log(*a):
    print(*a, file=sys.stderr, flush=True)


# ------------------------------------------------------------------ building

def cargo_env():
    env = dict(os.environ)
    env["CARGO_TARGET_DIR"] = TARGET
    env["CARGO_NET_OFFLINE"] = "true"
    env["RUSTFLAGS"] = "--cfg %s" % GUARD
    return env


def build_harness(release=False):
    """(Re)build the harness against /repo's current working tree.  Returns the binary path.
    A build failure is a machinery error (the tree does not compile), reported as such."""
    os.makedirs(CACHE, exist_ok=True)
    if os.environ.get("VERIF_HARNESS_BIN") and not release:
        # a pre-built (e.g. coverage-instrumented) harness: used by tools/coverage.sh only, never by a registered check
        return os.environ["VERIF_HARNESS_BIN"]
    lock = os.path.join(HARNESS_DIR, "Cargo.lock")
    shutil.copyfile(os.path.join(REPO, "Cargo.lock"), lock)
    cmd = ["cargo", "build", "--offline", "--quiet"]
    if release:
        cmd.append("--release")
    t = time.time()
    p = subprocess.run(cmd, cwd=HARNESS_DIR, env=cargo_env(), stdout=subprocess.PIPE,
                       stderr=subprocess.PIPE, text=True)
    if p.returncode != 0:
        log(p.stderr[-4000:])
        raise SystemExit("harness build failed (does /repo compile?)")
    log("harness built in %.1fs" % (time.time() - t))
    return os.path.join(TARGET, "release" if release else "debug", "qv-harness")


def build_coq(targets=None):
    """make the Coq development (full .vo).  Returns (ok, output)."""
    mk = os.path.join(COQDIR, "Makefile")
    if not os.path.exists(mk) or os.path.getmtime(mk) < os.path.getmtime(os.path.join(COQDIR, "_CoqProject")):
        subprocess.run(["coq_makefile", "-f", "_CoqProject", "-o", "Makefile"], cwd=COQDIR, check=True,
                       stdout=subprocess.DEVNULL)
    cmd = ["timeout", "3000", "make", "-j16"] + (targets or [])
    p = subprocess.run(cmd, cwd=COQDIR, stdout=subprocess.PIPE, stderr=subprocess.STDOUT, text=True)
    return p.returncode == 0, p.stdout


# ------------------------------------------------------------------ harness

def hexf(x):
    return "%016x" % struct.unpack("<Q", struct.pack("<d", x))[0]


def unhexf(s):
    return struct.unpack("<d", struct.pack("<Q", int(s, 16)))[0]


# (engine, case id, case text, payload of the repetition on a thread of its own) for every case whose result on the
# shared thread differs from its result in isolation
ALT_DIFFS = []


def run_harness(binary, engine, cases, deadline=20.0, env_extra=None):
    """cases: list of (id, text).  Returns {id: payload}; payload is the text after `RES id `,
    or 'TIMEOUT' / 'ABORT <status>' when the worker hung or died on that case (the worker is
    then restarted on the remaining cases)."""
    import threading, queue
    out = {}
    pending = [(str(i), t) for i, t in cases]
    env = dict(os.environ)
    if env_extra:
        env.update(env_extra)
    while pending:
        inp = "".join("%s %s\n" % (i, t) for i, t in pending)
        p = subprocess.Popen([binary, engine], stdin=subprocess.PIPE, stdout=subprocess.PIPE,
                             stderr=subprocess.DEVNULL, text=True, env=env)
        q = queue.Queue()

        def feed():
            try:
                p.stdin.write(inp)
                p.stdin.close()
            except (BrokenPipeError, OSError):
                pass

        def read():
            for line in p.stdout:
                q.put(line)
            q.put(None)

        threading.Thread(target=feed, daemon=True).start()
        threading.Thread(target=read, daemon=True).start()
        current = None
        verdict = None
        while True:
            try:
                line = q.get(timeout=deadline)
            except queue.Empty:
                verdict = "TIMEOUT"
                p.kill()
                break
            if line is None:
                break
            if line.startswith("ALT "):
                parts = line.rstrip("\n").split(" ", 2)
                ALT_DIFFS.append((engine, parts[1], dict(pending).get(parts[1], "")[:3000], parts[2] if len(parts) > 2 else ""))
            elif line.startswith("BEGIN "):
                current = line.split()[1]
            elif line.startswith("RES "):
                parts = line.rstrip("\n").split(" ", 2)
                out[parts[1]] = parts[2] if len(parts) > 2 else ""
                current = None
        p.wait()
        if verdict is None and current is not None:
            verdict = "ABORT %s" % p.returncode
        if current is not None:
            out[current] = verdict
        elif verdict == "TIMEOUT":
            # hung between cases: attribute to the first unanswered one
            for i, _ in pending:
                if i not in out:
                    out[i] = "TIMEOUT"
                    break
        left = [(i, t) for i, t in pending if i not in out]
        if len(left) == len(pending):
            # no progress at all: the worker cannot even start
            for i, _ in left:
                out[i] = "ABORT nostart %s" % p.returncode
            left = []
        pending = left
    return out


def parse_complex_hex(tokens):
    vals = [unhexf(t) for t in tokens]
    return [complex(vals[k], vals[k + 1]) for k in range(0, len(vals), 2)]


# ------------------------------------------------------------------ comparing

def close(a, b, tol=TOL):
    if isinstance(a, complex) or isinstance(b, complex):
        a = complex(a); b = complex(b)
        return close(a.real, b.real, tol) and close(a.imag, b.imag, tol)
    if a != a or b != b:
        return (a != a) and (b != b)
    if math.isinf(a) or math.isinf(b):
        return a == b
    return abs(a - b) <= tol * max(1.0, abs(a), abs(b))


def vec_close(u, v, tol=TOL):
    return len(u) == len(v) and all(close(a, b, tol) for a, b in zip(u, v))


def model_complex_list(v):
    """parsed Coq value: list of (re, im) pairs -> list of python complex"""
    return [complex(float(a), float(b)) for (a, b) in v]


# ------------------------------------------------------------------ verdicts / evidence

class Run:
    """One execution of one property's check."""

    def __init__(self, prop, tier, seed, level="proof"):
        self.prop = prop
        self.tier = tier
        self.seed = seed
        self.level = level
        self.t0 = time.time()
        self.violations = []      # (what, replay path, found_input)
        self.known = []
        self.coverage = {}
        self.assumptions = []
        self.rng = random.Random(seed)
        os.makedirs(REPLAYS, exist_ok=True)
        os.makedirs(EVIDENCE, exist_ok=True)

    def replay_path(self, obj):
        h = hashlib.sha1(json.dumps(obj, sort_keys=True, default=str).encode()).hexdigest()[:12]
        path = os.path.join(REPLAYS, "%s-%s.json" % (self.prop, h))
        with open(path, "w") as f:
            json.dump(obj, f, indent=1, default=str)
        return path

    def violation(self, obj, found_input=True):
        """Record a violation; obj is the replay (the failing input, expected, got)."""
        obj = dict(obj)
        obj["property"] = self.prop
        obj["failing_input_found"] = found_input
        path = self.replay_path(obj)
        self.violations.append((path, found_input))
        return path

    def finish(self):
        self.coverage.setdefault("samples", [])
        # a call whose result depends on what ran before it on the thread (thread-local caches, counters, tables)
        for engine, cid, text, alt in ALT_DIFFS[:3]:
            self.violation({"what": "the same call gives one result on a thread that has run other cases before and another on a "
                                    "thread of its own: the result depends on state that outlives a call",
                            "harness": "%s %s" % (engine, text), "result_in_isolation": alt[:1500],
                            "cases_with_such_a_difference": len(ALT_DIFFS)})
        self.coverage["history_twins"] = "every case ran on the shared thread and again on a thread of its own; results differing: %d" % len(ALT_DIFFS)
        ev = {
            "property_id": self.prop,
            "tier": self.tier,
            "seed": self.seed,
            "level": self.level,
            "coverage": self.coverage,
            "assumptions": self.assumptions,
            "wall_s": round(time.time() - self.t0, 2),
            "violations": len(self.violations),
        }
        with open(os.path.join(EVIDENCE, "%s.json" % self.prop), "w") as f:
            json.dump(ev, f, indent=1, default=str)
        for k in self.known:
            print("KNOWN-FINDING: property=%s %s" % (self.prop, k))
        seen = set()
        # a failing input found by any part of the check decides the verdict: the lines that only name a broken
        # correspondence are then kept in the evidence / replay files but not printed as "no-failing-input-found"
        any_found = any(found for _, found in self.violations)
        for path, found in self.violations:
            if path in seen or (any_found and not found):
                continue
            seen.add(path)
            print("VIOLATION property=%s replay=%s%s" % (self.prop, path, "" if found else " no-failing-input-found"))
        sys.stdout.flush()
        return 1 if self.violations else 0
