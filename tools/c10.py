"""C10 -- programs run in order, on the right qubits, with the right parameters."""
import math, cmath
import numpy as np
from lib import *
import audit, generic, qasmcheck
import qasmast as qa
import pyref
from opsmain import tier_seed

PROP = "C10"


def cases(rng, tier):
    cs = []
    # user gates that shadow a built-in, called from inside other user gates (one and two levels down, with a parameter)
    q0, q1 = ("q", "q", 0), ("q", "q", 1)
    pre = [("qreg", "q", 2), ("creg", "c", 1), ("apply", "h", [("r", "q")], []), ("apply", "t", [q0], [])]
    shadow = [
        [("gate", "h", ["a"], [], [("apply", "x", [("r", "a")], [])]),
         ("gate", "outer", ["a", "b"], [], [("apply", "h", [("r", "a")], []), ("apply", "cx", [("r", "a"), ("r", "b")], [])]),
         ("apply", "outer", [q0, q1], [])],
        [("gate", "rz", ["a"], ["t"], [("apply", "rx", [("r", "a")], [("var", "t")])]),
         ("gate", "outer", ["a"], ["t"], [("apply", "rz", [("r", "a")], [("var", "t")])]),
         ("apply", "outer", [q1], [("num", "1.25")])],
        [("gate", "x", ["a"], [], [("apply", "h", [("r", "a")], [])]),
         ("gate", "mid", ["a"], [], [("apply", "x", [("r", "a")], [])]),
         ("gate", "outer", ["a"], [], [("apply", "mid", [("r", "a")], []), ("apply", "s", [("r", "a")], [])]),
         ("apply", "outer", [q0], [])],
        [("gate", "swap", ["a", "b"], [], [("apply", "cx", [("r", "a"), ("r", "b")], [])]),
         ("gate", "outer", ["a", "b"], [], [("apply", "swap", [("r", "b"), ("r", "a")], [])]),
         ("apply", "outer", [q0, q1], [])],
    ]
    # the same call before and after a definition that shadows a built-in its body uses (names in a body are resolved
    # when the gate is applied): identical qubits and parameters, directly, with a parameter, and one level down
    shadow += [
        [("gate", "prep", ["a"], [], [("apply", "h", [("r", "a")], [])]), ("apply", "prep", [q0], []),
         ("gate", "h", ["a"], [], [("apply", "x", [("r", "a")], [])]), ("apply", "prep", [q0], [])],
        [("gate", "rot", ["a"], ["t"], [("apply", "rz", [("r", "a")], [("var", "t")])]), ("apply", "rot", [q1], [("num", "1.25")]),
         ("gate", "rz", ["a"], ["t"], [("apply", "rx", [("r", "a")], [("var", "t")])]), ("apply", "rot", [q1], [("num", "1.25")]),
         ("apply", "rot", [q1], [("num", "0.5")])],
        [("gate", "inner", ["a"], [], [("apply", "z", [("r", "a")], [])]),
         ("gate", "outer", ["a"], [], [("apply", "inner", [("r", "a")], []), ("apply", "h", [("r", "a")], [])]),
         ("apply", "outer", [q0], []), ("gate", "z", ["a"], [], [("apply", "x", [("r", "a")], [])]), ("apply", "outer", [q0], []),
         ("apply", "outer", [q1], [])],
        [("gate", "pair", ["a", "b"], [], [("apply", "cz", [("r", "a"), ("r", "b")], [])]), ("apply", "pair", [q0, q1], []),
         ("gate", "cz", ["a", "b"], [], [("apply", "cx", [("r", "a"), ("r", "b")], [])]), ("apply", "pair", [q0, q1], [])],
    ]
    # inside a gate body: statements whose parameters all evaluate to exactly zero (literally, through a formal bound to
    # 0, through a cancelling expression) and whose callee is NOT the identity there
    A = ("r", "a"); B = ("r", "b")
    Z0 = ("num", "0")
    shadow += [
        [("gate", "gz", ["a"], [], [("apply", "u2", [A], [Z0, Z0]), ("apply", "x", [A], [])]), ("apply", "gz", [q0], [])],
        [("gate", "gz2", ["a", "b"], ["t"], [("apply", "cu2", [A, B], [("var", "t"), ("sub", ("var", "t"), ("var", "t"))]),
                                            ("apply", "u3", [B], [Z0, ("var", "t"), Z0])]),
         ("apply", "gz2", [q0, q1], [Z0]), ("apply", "gz2", [q1, q0], [("num", "1.5")])],
        [("gate", "flip", ["a"], ["t"], [("apply", "x", [A], []), ("apply", "rz", [A], [("var", "t")])]),
         ("gate", "wr", ["a"], ["t"], [("apply", "flip", [A], [("sub", ("var", "t"), ("var", "pi"))]), ("apply", "h", [A], [])]),
         ("apply", "wr", [q1], [("var", "pi")]), ("apply", "flip", [q0], [Z0])],
    ]
    # formal parameters whose names read like numbers (legal identifiers all of them): the name alone, signed, passed on to
    # a nested gate, inside an expression
    for w in ("inf", "nan", "infinity", "Inf", "NaN", "INFINITY", "e", "e1"):
        V = ("var", w)
        shadow += [
            [("gate", "gw", ["a"], [w], [("apply", "rx", [A], [V]), ("apply", "rz", [A], [("neg", V)])]), ("apply", "gw", [q0], [("num", "0.7")]),
             ("apply", "gw", [q1], [("num", "4")])],
            [("gate", "inv", ["a"], ["x"], [("apply", "rx", [A], [("div", ("num", "1"), ("var", "x"))])]),
             ("gate", "outer", ["a"], [w], [("apply", "inv", [A], [V]), ("apply", "ry", [A], [("mul", ("num", "2"), V)])]),
             ("apply", "outer", [q1], [("num", "4")]), ("apply", "outer", [q0], [("neg", ("num", "0.25"))])],
        ]
    for prog in shadow:
        nodes = pre + prog
        c = {"chunks": [nodes], "seed": 1, "lay": None}
        c["texts"] = [qa.p_program(nodes, rng, header=False)]
        cs.append(c)
    # more declared qubits than can be simulated (13..63 in 1-4 registers): the operator queue must name bit k for the
    # k-th declared qubit -- read from the interpreter's own rendering of the queue, no execution, no model run
    for _ in range(30 if tier == "quick" else 600):
        sizes = []
        total = rng.choice([13, 20, 31, 32, 33, 34, 40, 47, 62, 63])
        left = total
        while left > 0:
            k = min(left, rng.randint(1, 33)); sizes.append(k); left -= k
        names = ["r%d" % i for i in range(len(sizes))]
        decl = [("qreg", nm, sz) for nm, sz in zip(names, sizes)]
        offs = [sum(sizes[:i]) for i in range(len(sizes))]
        pick = lambda: (lambda i: (i, rng.randrange(sizes[i])))(rng.randrange(len(sizes)))
        (i1, j1), (i2, j2) = pick(), pick()
        k1, k2 = offs[i1] + j1, offs[i2] + j2
        if rng.random() < 0.5 or k1 == k2:
            st = ("apply", "x", [("q", names[i1], j1)], []); want = "[X%d]" % (1 << k1)
        else:
            st = ("apply", "cx", [("q", names[i1], j1), ("q", names[i2], j2)], []); want = "[C%d_X%d]" % (1 << k1, 1 << k2)
        if rng.random() < 0.3:
            # through a user gate, whole register argument of a one-qubit register when there is one
            st = ("apply", "x", [("q", names[i1], j1)], []); want = "[X%d]" % (1 << k1)
            decl = decl + [("gate", "gx", ["a"], [], [("apply", "x", [("r", "a")], [])])]
            st = ("apply", "gx", [("q", names[i1], j1)], [])
        nodes = decl + [st]
        c = {"chunks": [nodes], "seed": 1, "lay": None, "impl_only": True, "expect_tree": want}
        c["texts"] = [qa.p_program(nodes, rng, header=False)]
        cs.append(c)
    for _ in range(150 if tier == "quick" else 8000):
        nodes, lay = qa.gen_program(rng, nstmts=rng.randint(5, 40 if tier == "thorough" else 25), max_q=5,
                                    gate_defs=3, depth=rng.randint(1, 4))
        c = {"chunks": [nodes], "seed": rng.randrange(1 << 30), "lay": lay}
        c["texts"] = [qa.p_program(nodes, rng, header=rng.random() < 0.3)]
        cs.append(c)
    return cs


def oracle(case, obs):
    """reference interpreter (python, numpy) for the same program"""
    if obs[0] in ("panic", "died"):
        return ["crash: %s" % (obs,)]
    if case.get("expect_tree"):
        tree = obs[2] if obs[0] == "noexec" else (obs[1].get("tree") if obs[0] == "ok" else None)
        if tree is None:
            return ["well-formed program rejected: %s" % (obs,)]
        import re
        # only the masks are compared (the numbers in the rendering, in order), not the rendering itself
        return [] if re.findall(r"\d+", tree) == re.findall(r"\d+", case["expect_tree"]) else \
            ["operator queue %s, expected %s: the k-th declared qubit is not bit k" % (tree, case["expect_tree"])]
    try:
        want = pyref.run(case["chunks"][0], [])
    except pyref.Unsupported:
        return []
    except pyref.IllFormed as e:
        return [] if obs[0] == "err" else ["accepted an ill-formed program: %s" % e]
    if obs[0] != "ok":
        return ["well-formed program rejected: %s" % (obs,)]
    got = obs[1]
    fails = []
    if got["qa"] != want["qa"] or got["ca"] != want["ca"]:
        fails.append("register layout %s/%s, expected %s/%s" % (got["qa"], got["ca"], want["qa"], want["ca"]))
    n = len(want["qa"])
    psi = got["psi"][:1 << n]
    if not pyref.same_up_to_phase(psi, want["psi"]):
        fails.append("final state differs from the reference semantics")
    return fails


if __name__ == "__main__":
    tier, seed = tier_seed()
    run = Run(PROP, tier, seed)
    binary = build_harness()
    au = audit.audit(PROP)
    cs = cases(run.rng, tier)
    n, dis, obs = qasmcheck.run_programs(run, binary, cs, PROP, oracle, "C10 final state / layout of gate-only programs",
                                         "C10_numbering, C10_macro")
    gcs = [generic.Case(c["texts"][0][:300], None, None, None, kind="program") for c in cs]
    generic.finish(run, PROP, au, gcs, n, dis,
                   "grammar-generated well-formed programs: 1-3 qreg / 1-2 creg of sizes 1-3 in random interleaving, 0-3 gate "
                   "definitions with 0-3 parameters, nested calls and built-in shadowing, 5-25 (40) statements, parameter trees of "
                   "depth <= 4 printed with random whitespace, comments, optional header; final amplitudes, classical register, "
                   "register layout against the model; python reference interpreter for the search step",
                   assumptions=["the qvnt-qasm lexer/parser and meval run on the printed text in every case; they are not modelled"])
