(** * Atomic: the 20 amplitude kernels of src/operator/atomic/*.rs

    Each [kernel] clause has the same case split and the same component
    formulas as the corresponding [atomic_op]; [psi] is the accessor of the
    immutable input buffer. *)
From QV Require Export Vec.

Section Atomic.
  Context {F : Type} (OP : ops F).
  Local Notation C := (C F).
  Local Notation vec := (@vec F).

  Local Notation "x + y" := (fadd OP x y).
  Local Notation "x - y" := (fsub OP x y).
  Local Notation "x * y" := (fmul OP x y).
  Local Notation "- x" := (fneg OP x).

  (** row-major 2x2 / 4x4 matrices, as [M1 = [C;4]] and [M2 = [C;16]] *)
  Definition M1 := list C.
  Definition M2 := list C.
  Definition mget (m : list C) (k : nat) : C := nth k m (c0 OP).

  Inductive atomic :=
  | AId
  | AX (m : N)
  | AY (m : N)
  | AZ (m : N)
  | AS (m : N) (dagger : bool)
  | AT (m : N) (dagger : bool)
  | AH1 (m : N)
  | AH2 (a b : N)
  | ARX (m : N) (phase : C)
  | ARY (m : N) (phase : C)
  | ARZ (m : N) (phase : C)
  | ARXX (m : N) (phase : C)
  | ARYY (m : N) (phase : C)
  | ARZZ (m : N) (phase : C)
  | ASwap (m : N)
  | AISwap (m : N) (dagger : bool)
  | ASqrtSwap (m : N) (dagger : bool)
  | ASqrtISwap (m : N) (dagger : bool)
  | AU1 (m : N) (mat : M1)
  | AU2 (a b : N) (mat : M2).

  (** [Op::new(a_mask, phase)] of the six rotation kernels: half angle, then
      (cos, sin).  rxx uses [*= 0.5], the others [/= 2.]. *)
  Definition half_phase (t : F) : C := cis OP (fdiv OP t (f2 OP)).
  Definition half_phase_mul (t : F) : C := cis OP (t * fhalf OP).

  (** y.rs: [i_pow = !(count_ones + 1)] on u32 *)
  Definition y_ipow (m : N) : N := N.lxor (N.succ (popcount m)) (N.ones 32).

  (** s.rs / t.rs: [count], two's-complemented when daggered *)
  Definition st_count (m : N) (dagger : bool) (idx : N) : N :=
    let count := popcount (N.land idx m) in
    if dagger then neg64 count else count.

  Definition exp_i_pi_4 : C := (fisq2 OP, fisq2 OP).

  Definition kernel (g : atomic) (psi : vec) (idx : N) : C :=
    match g with
    | AId => psi idx
    | AX m => psi (N.lxor idx m)
    | AY m =>
        let ipow := y_ipow m in
        let ipow := if odd_bits (N.land idx m) then ipow else N.lxor ipow 2 in
        rotate OP (psi (N.lxor idx m)) ipow
    | AZ m =>
        if odd_bits (N.land idx m) then cneg OP (psi idx) else psi idx
    | AS m dg => rotate OP (psi idx) (st_count m dg idx)
    | AT m dg =>
        let count := st_count m dg idx in
        let z := rotate OP (psi idx) (N.shiftr count 1) in
        if N.testbit count 0 then cmul OP (exp_i_pi_4) z else z
    | AH1 m =>
        let p0 := psi idx in
        let p1 := psi (N.lxor idx m) in
        let p0 := if negb (N.eqb (N.land idx m) 0) then cneg OP p0 else p0 in
        cscale OP (cadd OP p0 p1) (fisq2 OP)
    | AH2 a b =>
        let p0 := psi idx in
        let p1 := psi (N.lxor idx a) in
        let p2 := psi (N.lxor idx b) in
        let p3 := psi (N.lxor idx (N.lor a b)) in
        let '(p0, p2) := if negb (N.eqb (N.land idx a) 0)
                         then (cneg OP p0, cneg OP p2) else (p0, p2) in
        let '(p0, p1) := if negb (N.eqb (N.land idx b) 0)
                         then (cneg OP p0, cneg OP p1) else (p0, p1) in
        cscale OP (cadd OP (cadd OP (cadd OP p0 p1) p2) p3) (fhalf OP)
    | ARX m ph | ARXX m ph =>
        let p0 := psi idx in
        let p1 := psi (N.lxor idx m) in
        (re p0 * re ph + im p1 * im ph,
         im p0 * re ph - re p1 * im ph)
    | ARY m ph =>
        let p0 := psi idx in
        let p1 := psi (N.lxor idx m) in
        let ph := if N.eqb (N.land idx m) 0 then cconj OP ph else ph in
        (re p0 * re ph + re p1 * im ph,
         im p0 * re ph + im p1 * im ph)
    | ARZ m ph =>
        let ph := if N.eqb (N.land idx m) 0 then cconj OP ph else ph in
        cmul OP ph (psi idx)
    | ARYY m ph =>
        let p0 := psi idx in
        let p1 := psi (N.lxor idx m) in
        let ph := if odd_bits (N.land idx m) then ph else cconj OP ph in
        (re p0 * re ph + im p1 * im ph,
         im p0 * re ph - re p1 * im ph)
    | ARZZ m ph =>
        let ph := if odd_bits (N.land idx m) then ph else cconj OP ph in
        cmul OP ph (psi idx)
    | ASwap m =>
        if odd_bits (N.land idx m) then psi (N.lxor idx m) else psi idx
    | AISwap m dg =>
        if odd_bits (N.land idx m) then
          let p := psi (N.lxor idx m) in
          if dg then (im p, - re p) else (- im p, re p)
        else psi idx
    | ASqrtSwap m dg =>
        if odd_bits (N.land idx m) then
          let p0 := psi idx in
          let p1 := psi (N.lxor idx m) in
          if dg then
            (fhalf OP * (((re p0 + im p0) + re p1) - im p1),
             fhalf OP * (((im p0 - re p0) + im p1) + re p1))
          else
            (fhalf OP * (((re p0 - im p0) + re p1) + im p1),
             fhalf OP * (((im p0 + re p0) + im p1) - re p1))
        else psi idx
    | ASqrtISwap m dg =>
        if odd_bits (N.land idx m) then
          let p0 := psi idx in
          let p1 := psi (N.lxor idx m) in
          if dg then
            (fisq2 OP * (re p0 + im p1), fisq2 OP * (im p0 - re p1))
          else
            (fisq2 OP * (re p0 - im p1), fisq2 OP * (im p0 + re p1))
        else psi idx
    | AU1 m mat =>
        let a_bit := negb (N.eqb (N.land idx m) 0) in
        let base := N.ldiff idx m in
        if negb a_bit then
          cadd OP (cmul OP (mget mat 0) (psi base)) (cmul OP (mget mat 1) (psi (N.lor base m)))
        else
          cadd OP (cmul OP (mget mat 2) (psi base)) (cmul OP (mget mat 3) (psi (N.lor base m)))
    | AU2 a b mat =>
        let a_bit := negb (N.eqb (N.land idx a) 0) in
        let b_bit := negb (N.eqb (N.land idx b) 0) in
        let base := N.ldiff (N.ldiff idx a) b in
        let row := ((if b_bit then 8 else 0) + (if a_bit then 4 else 0))%nat in
        cadd OP (cadd OP (cadd OP
          (cmul OP (mget mat row) (psi base))
          (cmul OP (mget mat (row + 1)) (psi (N.lor base a))))
          (cmul OP (mget mat (row + 2)) (psi (N.lor base b))))
          (cmul OP (mget mat (row + 3)) (psi (N.lor (N.lor base a) b)))
    end.

  Definition acts_on (g : atomic) : N :=
    match g with
    | AId => 0
    | AX m | AY m | AZ m | AS m _ | AT m _ | AH1 m => m
    | AH2 a b => N.lor a b
    | ARX m _ | ARY m _ | ARZ m _ | ARXX m _ | ARYY m _ | ARZZ m _ => m
    | ASwap m | AISwap m _ | ASqrtSwap m _ | ASqrtISwap m _ => m
    | AU1 m _ => m
    | AU2 a _ _ => a          (* sic: u2.rs reports only a_mask *)
    end.

  (** matrix.rs *)
  Definition m1_dagger (u : M1) : M1 :=
    [cconj OP (mget u 0); cconj OP (mget u 2); cconj OP (mget u 1); cconj OP (mget u 3)].
  Definition m2_dagger (u : M2) : M2 :=
    map (fun k => cconj OP (mget u k))
        [0;4;8;12; 1;5;9;13; 2;6;10;14; 3;7;11;15]%nat.

  (** per-gate [dgr] (after the rotation-dagger repair: conj, not neg) *)
  Definition atomic_dgr (g : atomic) : atomic :=
    match g with
    | AId | AX _ | AY _ | AZ _ | AH1 _ | AH2 _ _ | ASwap _ => g
    | AS m d => AS m (negb d)
    | AT m d => AT m (negb d)
    | ARX m ph => ARX m (cconj OP ph)
    | ARY m ph => ARY m (cconj OP ph)
    | ARZ m ph => ARZ m (cconj OP ph)
    | ARXX m ph => ARXX m (cconj OP ph)
    | ARYY m ph => ARYY m (cconj OP ph)
    | ARZZ m ph => ARZZ m (cconj OP ph)
    | AISwap m d => AISwap m (negb d)
    | ASqrtSwap m d => ASqrtSwap m (negb d)
    | ASqrtISwap m d => ASqrtISwap m (negb d)
    | AU1 m u => AU1 m (m1_dagger u)
    | AU2 a b u => AU2 a b (m2_dagger u)
    end.

  (** the pre-repair dagger of the rotation kernels: [-phase] (kept for [Legacy]) *)
  Definition atomic_dgr_legacy (g : atomic) : atomic :=
    match g with
    | ARX m ph => ARX m (cneg OP ph)
    | ARY m ph => ARY m (cneg OP ph)
    | ARZ m ph => ARZ m (cneg OP ph)
    | ARXX m ph => ARXX m (cneg OP ph)
    | ARYY m ph => ARYY m (cneg OP ph)
    | ARZZ m ph => ARZZ m (cneg OP ph)
    | _ => atomic_dgr g
    end.

  (** [approx_eq_real]: float_cmp approx_eq!(f64, x, y, ulps = 2); exact
      equality at the [R] instance *)
  Definition approx_eq (x y : F) : bool := fapprox OP x y.

  Definition is_unitary_m1 (u : M1) : bool :=
    let e00 := cnorm2 OP (mget u 0) + cnorm2 OP (mget u 1) in
    let e11 := cnorm2 OP (mget u 2) + cnorm2 OP (mget u 3) in
    let e01 := cadd OP (cmul OP (mget u 0) (cconj OP (mget u 2)))
                       (cmul OP (mget u 1) (cconj OP (mget u 3))) in
    approx_eq e00 (f1 OP) && approx_eq e11 (f1 OP) && approx_eq (re e01 + im e01) (f0 OP).

  (** [is_valid]: popcount tests (and the matrix test for U1) *)
  Definition is_valid (g : atomic) : bool :=
    match g with
    | AId | AX _ | AY _ | AZ _ | AS _ _ | AT _ _ => true
    | AH1 m => N.eqb (popcount m) 1
    | AH2 a b => N.eqb (popcount a) 1 && N.eqb (popcount b) 1 && N.eqb (popcount (N.lor a b)) 2
    | ARX m _ | ARY m _ | ARZ m _ => N.eqb (popcount m) 1
    | ARXX m _ | ARYY m _ | ARZZ m _ => N.eqb (popcount m) 2
    | ASwap m | AISwap m _ | ASqrtSwap m _ | ASqrtISwap m _ => N.eqb (popcount m) 2
    | AU1 m u => N.eqb (popcount m) 1 && is_unitary_m1 u
    | AU2 a b _ => N.eqb (popcount a) 1 && N.eqb (popcount b) 1
    end.
End Atomic.

Arguments atomic F : clear implicits.
