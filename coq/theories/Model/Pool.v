(** * Pool: the protocol of the process-wide thread pool (src/threads.rs) as a small-step machine.

    Calls of [global_install] are the actors (a caller thread may have several in flight: a rayon
    worker that waits for its job steals sibling tasks, which may call [global_install] again).
    The reader-writer lock grants nondeterministically (any fair or unfair, reader- or
    writer-preferring lock is a restriction of it).  Executable: [step], [accepts]. *)
From QV Require Export Bits.
Open Scope N_scope.

Inductive ev :=
| ReadAcq | ReadRel | WriteAcq | WriteRel | JobBegin | JobEnd.

(** program counter of one call of the *repaired* [global_install(n, op)]:
      Start -(ReadAcq)-> Reading -(ReadRel)-> Checked
      Checked -(JobBegin)-> Running            when the pool has the wanted size
      Checked -(WriteAcq)-> Writing -(WriteRel)-> Ready -(JobBegin)-> Running   otherwise
      Running -(JobEnd)-> Done *)
Inductive pc := Start | Reading | Checked (hit : bool) | Writing | Ready | Running | Done.

Record call := mkCall { c_want : N; c_pc : pc }.

Record pstate := mkP {
  readers : list N;            (* calls holding the read lock *)
  writer : option N;           (* call holding the write lock *)
  pool : option (N * N);       (* (size, generation) of the shared pool *)
  calls : list (N * call);     (* calls by id *)
}.

Definition pinit : pstate := {| readers := []; writer := None; pool := None; calls := [] |}.

Fixpoint find_call (id : N) (l : list (N * call)) : option call :=
  match l with
  | [] => None
  | (k, c) :: t => if N.eqb k id then Some c else find_call id t
  end.
Fixpoint set_call (id : N) (c : call) (l : list (N * call)) : list (N * call) :=
  match l with
  | [] => [(id, c)]
  | (k, c0) :: t => if N.eqb k id then (k, c) :: t else (k, c0) :: set_call id c t
  end.
Fixpoint remove1 (id : N) (l : list N) : list N :=
  match l with [] => [] | x :: t => if N.eqb x id then t else x :: remove1 id t end.

Definition pool_hit (p : option (N * N)) (want : N) : bool :=
  match p with Some (sz, _) => N.eqb sz want | None => false end.
Definition pool_gen (p : option (N * N)) : N := match p with Some (_, g) => g | None => 0 end.

(** one transition of call [id] (with wanted size [want] when it starts); [None] = the machine
    does not allow this event here *)
Definition step (s : pstate) (id want : N) (e : ev) : option pstate :=
  let c := match find_call id (calls s) with Some c => c | None => {| c_want := want; c_pc := Start |} end in
  let upd pc' s' := Some {| readers := readers s'; writer := writer s'; pool := pool s';
                            calls := set_call id {| c_want := c_want c; c_pc := pc' |} (calls s) |} in
  match c_pc c, e with
  | Start, ReadAcq =>
      match writer s with
      | None => upd Reading {| readers := id :: readers s; writer := None; pool := pool s; calls := calls s |}
      | Some _ => None
      end
  | Reading, ReadRel =>
      upd (Checked (pool_hit (pool s) (c_want c)))
          {| readers := remove1 id (readers s); writer := writer s; pool := pool s; calls := calls s |}
  | Checked true, JobBegin => upd Running s
  | Checked false, WriteAcq =>
      match writer s, readers s with
      | None, [] => upd Writing {| readers := []; writer := Some id; pool := pool s; calls := calls s |}
      | _, _ => None
      end
  | Writing, WriteRel =>
      (* re-check under the write lock: replace the pool only when it (still) has another size *)
      let p' := if pool_hit (pool s) (c_want c) then pool s else Some (c_want c, N.succ (pool_gen (pool s))) in
      upd Ready {| readers := readers s; writer := None; pool := p'; calls := calls s |}
  | Ready, JobBegin => upd Running s
  | Running, JobEnd => upd Done s
  | _, _ => None
  end.

Fixpoint accepts_from (s : pstate) (trace : list (N * N * ev)) : option pstate :=
  match trace with
  | [] => Some s
  | (id, want, e) :: t => match step s id want e with Some s' => accepts_from s' t | None => None end
  end.
Definition accepts (trace : list (N * N * ev)) : bool :=
  match accepts_from pinit trace with Some _ => true | None => false end.

(** the next event a call is waiting for *)
Definition wants (c : call) : option ev :=
  match c_pc c with
  | Start => Some ReadAcq | Reading => Some ReadRel
  | Checked true => Some JobBegin | Checked false => Some WriteAcq
  | Writing => Some WriteRel | Ready => Some JobBegin | Running => Some JobEnd | Done => None
  end.

(** ** the pre-repair protocol: the read lock is taken again for [install] and held while the
    job runs (kept for [Legacy]) *)
Inductive lpc := LStart | LReading | LChecked (hit : bool) | LWriting | LReady | LHolding | LRunning | LFinishing | LDone.
Record lcall := mkLCall { lc_want : N; lc_pc : lpc }.
Record lstate := mkL { l_readers : list N; l_writer : option N; l_pool : option (N * N); l_calls : list (N * lcall) }.

Fixpoint find_lcall (id : N) (l : list (N * lcall)) : option lcall :=
  match l with [] => None | (k, c) :: t => if N.eqb k id then Some c else find_lcall id t end.
Fixpoint set_lcall (id : N) (c : lcall) (l : list (N * lcall)) : list (N * lcall) :=
  match l with [] => [(id, c)] | (k, c0) :: t => if N.eqb k id then (k, c) :: t else (k, c0) :: set_lcall id c t end.

Definition lstep (s : lstate) (id want : N) (e : ev) : option lstate :=
  let c := match find_lcall id (l_calls s) with Some c => c | None => {| lc_want := want; lc_pc := LStart |} end in
  let upd pc' rd wr pl := Some {| l_readers := rd; l_writer := wr; l_pool := pl;
                                  l_calls := set_lcall id {| lc_want := lc_want c; lc_pc := pc' |} (l_calls s) |} in
  match lc_pc c, e with
  | LStart, ReadAcq => match l_writer s with None => upd LReading (id :: l_readers s) None (l_pool s) | _ => None end
  | LReading, ReadRel => upd (LChecked (pool_hit (l_pool s) (lc_want c))) (remove1 id (l_readers s)) (l_writer s) (l_pool s)
  | LChecked false, WriteAcq =>
      match l_writer s, l_readers s with
      | None, [] => upd LWriting [] (Some id) (l_pool s)
      | _, _ => None
      end
  | LWriting, WriteRel => upd LReady (l_readers s) None (Some (lc_want c, N.succ (pool_gen (l_pool s))))
  | LChecked true, ReadAcq | LReady, ReadAcq =>
      match l_writer s with None => upd LHolding (id :: l_readers s) None (l_pool s) | _ => None end
  | LHolding, JobBegin => upd LRunning (l_readers s) (l_writer s) (l_pool s)
  | LRunning, JobEnd => upd LFinishing (l_readers s) (l_writer s) (l_pool s)
  | LFinishing, ReadRel => upd LDone (remove1 id (l_readers s)) (l_writer s) (l_pool s)
  | _, _ => None
  end.
