(** * Scalar: the record of scalar operations the model is polymorphic in,
    and complex numbers as pairs with the component formulas of [num_complex].

    No laws are attached to [ops]: the model is *run* at IEEE binary64
    ([Run/ScalarF.v]) and *proved about* at Coq's reals ([Model/ScalarR.v]). *)
From Coq Require Import ZArith.
From QV Require Export Bits.

Record ops (F : Type) := mkOps {
  f0 : F;
  f1 : F;
  f2 : F;
  fhalf : F;                 (* 0.5 *)
  fisq2 : F;                 (* std::f64::consts::FRAC_1_SQRT_2 *)
  fpi : F;                   (* std::f64::consts::PI *)
  fadd : F -> F -> F;
  fsub : F -> F -> F;
  fmul : F -> F -> F;
  fdiv : F -> F -> F;
  fneg : F -> F;
  fsqrt : F -> F;
  fcos : F -> F;
  fsin : F -> F;
  fleb : F -> F -> bool;     (* x <= y *)
  fltb : F -> F -> bool;     (* x <  y *)
  feqb : F -> F -> bool;     (* x == y *)
  fapprox : F -> F -> bool;  (* float_cmp approx_eq!(f64, x, y, ulps = 2) *)
  fofN : N -> F;             (* usize as f64 *)
  fround : F -> Z;           (* f64::round() as isize (ties away from zero) *)
  ffinite : F -> bool;       (* f64::is_finite *)
  fexp : F -> F;
  fln : F -> F;
  fpow : F -> F -> F;        (* f64::powf *)
  ffloor : F -> F;
  fceil : F -> F;
  froundf : F -> F;          (* f64::round as a float *)
}.
Arguments f0 {F}. Arguments f1 {F}. Arguments f2 {F}. Arguments fhalf {F}.
Arguments fisq2 {F}. Arguments fpi {F}.
Arguments fadd {F}. Arguments fsub {F}. Arguments fmul {F}. Arguments fdiv {F}.
Arguments fneg {F}. Arguments fsqrt {F}. Arguments fcos {F}. Arguments fsin {F}.
Arguments fleb {F}. Arguments fltb {F}. Arguments feqb {F}. Arguments fapprox {F}. Arguments fofN {F}.
Arguments fround {F}. Arguments ffinite {F}.
Arguments fexp {F}. Arguments fln {F}. Arguments fpow {F}. Arguments ffloor {F}. Arguments fceil {F}. Arguments froundf {F}.

Section Complex.
  Context {F : Type} (OP : ops F).

  Definition C : Type := (F * F)%type.
  Definition re (z : C) : F := fst z.
  Definition im (z : C) : F := snd z.

  Local Notation "x + y" := (fadd OP x y).
  Local Notation "x - y" := (fsub OP x y).
  Local Notation "x * y" := (fmul OP x y).
  Local Notation "- x" := (fneg OP x).

  Definition c0 : C := (f0 OP, f0 OP).
  Definition c1 : C := (f1 OP, f0 OP).
  Definition ci : C := (f0 OP, f1 OP).

  Definition cadd (a b : C) : C := (re a + re b, im a + im b).
  Definition csub (a b : C) : C := (re a - re b, im a - im b).
  Definition cneg (a : C) : C := (- re a, - im a).
  Definition cconj (a : C) : C := (re a, - im a).
  (** [Complex::mul]: (a.re*b.re - a.im*b.im, a.re*b.im + a.im*b.re) *)
  Definition cmul (a b : C) : C :=
    (re a * re b - im a * im b, re a * im b + im a * re b).
  (** [Complex::scale] *)
  Definition cscale (a : C) (t : F) : C := (re a * t, im a * t).
  (** [Complex::norm_sqr] *)
  Definition cnorm2 (a : C) : F := re a * re a + im a * im a.
  (** [C::new(phase.cos(), phase.sin())] / [C::from_polar(1.0, rad)] *)
  Definition cis (t : F) : C := (fcos OP t, fsin OP t).
  (** [C::from_polar(1.0, rad)] multiplies by r = 1.0 *)
  Definition from_polar1 (t : F) : C := (f1 OP * fcos OP t, f1 OP * fsin OP t).

  (** [math::rotate]: multiplication by i^q, decided by the two low bits of q *)
  Definition rotate (z : C) (q : N) : C :=
    let z := if N.testbit q 1 then cneg z else z in
    if N.testbit q 0 then (- im z, re z) else z.
End Complex.

Arguments C F : clear implicits.
