(** * Expr: operator expressions -- the public ways of assembling an operator
    ([op::*] constructors, [*], [*=], [append]/[push_back], [.dgr()], [.c(m)]).
    The harness evaluates the same expression on the implementation. *)
From QV Require Export Op.

Inductive res (A : Type) :=
| ROk (a : A)
| RRefused                 (* [.c(mask)] returned [None] *)
| RPanic (kind : N).       (* 1 / 2 = "Mask should contain 1/2 bit!", 3 = out of fuel *)
Arguments ROk {A}. Arguments RRefused {A}. Arguments RPanic {A}.

Section Expr.
  Context {F : Type} (OP : ops F).

  Inductive opexpr :=
  | EId
  | EX (m : N) | EY (m : N) | EZ (m : N) | ES (m : N) | ET (m : N) | EH (m : N)
  | ERx (t : F) (m : N) | ERy (t : F) (m : N) | ERz (t : F) (m : N)
  | ERxx (t : F) (m : N) | ERyy (t : F) (m : N) | ERzz (t : F) (m : N)
  | ESwap (m : N) | ESqrtSwap (m : N) | EISwap (m : N) | ESqrtISwap (m : N)
  | EU1 (l : F) (m : N) | EU2 (p l : F) (m : N) | EU3 (t p l : F) (m : N)
  | EQft (m : N) | EQftSwapped (m : N)
  | EMul (a b : opexpr)          (* also [*=], [append], [push_back] *)
  | EDgr (a : opexpr)
  | EC (m : N) (a : opexpr).

  Definition of_opt (k : N) (o : option (multi F)) : res (multi F) :=
    match o with Some x => ROk x | None => RPanic k end.

  Fixpoint eval (e : opexpr) : res (multi F) :=
    match e with
    | EId => ROk (@op_id F)
    | EX m => ROk (op_x m) | EY m => ROk (op_y m) | EZ m => ROk (op_z m)
    | ES m => ROk (op_s m) | ET m => ROk (op_t m)
    | EH m => of_opt 3 (op_h m)
    | ERx t m => of_opt 1 (op_rx OP t m)
    | ERy t m => of_opt 1 (op_ry OP t m)
    | ERz t m => of_opt 1 (op_rz OP t m)
    | ERxx t m => of_opt 2 (op_rxx OP t m)
    | ERyy t m => of_opt 2 (op_ryy OP t m)
    | ERzz t m => of_opt 2 (op_rzz OP t m)
    | ESwap m => of_opt 2 (op_swap OP m)
    | ESqrtSwap m => of_opt 2 (op_sqrt_swap OP m)
    | EISwap m => of_opt 2 (op_i_swap OP m)
    | ESqrtISwap m => of_opt 2 (op_sqrt_i_swap OP m)
    | EU1 l m => of_opt 1 (op_u1 OP l m)
    | EU2 p l m => of_opt 1 (op_u2 OP p l m)
    | EU3 t p l m => of_opt 1 (op_u3 OP t p l m)
    | EQft m => of_opt 3 (op_qft OP m)
    | EQftSwapped m => of_opt 3 (op_qft_swapped OP m)
    | EMul a b =>
        match eval a with
        | ROk x => match eval b with ROk y => ROk (x ++ y) | r => r end
        | r => r
        end
    | EDgr a =>
        match eval a with ROk x => ROk (multi_dgr OP x) | r => r end
    | EC m a =>
        match eval a with
        | ROk x => match multi_c x m with Some y => ROk y | None => RRefused end
        | r => r
        end
    end.
End Expr.
Arguments opexpr F : clear implicits.
