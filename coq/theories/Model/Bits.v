(** * Bits: machine-word masks as [N]

    Rust [usize] masks are modelled as binary naturals.  Where a property is
    about the machine word itself (C20: loops that shift a walking bit out of
    the 64-bit word) the wrap-around is written out explicitly with [wrap];
    everywhere else masks are unbounded.  Definitions only; proofs live in
    [Proofs/]. *)
From Coq Require Export NArith List Bool.
Export ListNotations.
Open Scope N_scope.

Definition WORD : N := 64.
Definition wrap (x : N) : N := N.land x (N.ones WORD).
(** [x << 1] on a 64-bit word *)
Definition shl1 (x : N) : N := wrap (N.double x).
(** [!x] on a 64-bit word *)
Definition not64 (x : N) : N := N.lxor (wrap x) (N.ones WORD).
(** [(!x).wrapping_add(1)] = two's complement negation *)
Definition neg64 (x : N) : N := wrap (not64 x + 1).

(** [count_ones] *)
Fixpoint popcount_pos (p : positive) : N :=
  match p with
  | xH => 1
  | xO q => popcount_pos q
  | xI q => N.succ (popcount_pos q)
  end.
Definition popcount (n : N) : N :=
  match n with N0 => 0 | Npos p => popcount_pos p end.

(** [(x).count_ones() & 1 == 1] *)
Definition odd_bits (n : N) : bool := N.odd (popcount n).

(** the control test of [for_each]: [!idx & ctrl == 0] *)
Definition ctrl_ok (ctrl idx : N) : bool := N.eqb (N.ldiff ctrl idx) 0.

(** the set bits of a mask as one-hot words, ascending: the specification of
    [BitsIter], of the walking loops in [h]/[qft_swapped] and of the
    [0..64] scan in [qft]. *)
Fixpoint bits_pos (p : positive) (w : N) : list N :=
  match p with
  | xH => [w]
  | xO q => bits_pos q (N.double w)
  | xI q => w :: bits_pos q (N.double w)
  end.
Definition bits_of (n : N) : list N :=
  match n with N0 => [] | Npos p => bits_pos p 1 end.

(** bit positions (exponents) rather than one-hot words *)
Fixpoint bitpos_pos (p : positive) (k : N) : list N :=
  match p with
  | xH => [k]
  | xO q => bitpos_pos q (N.succ k)
  | xI q => k :: bitpos_pos q (N.succ k)
  end.
Definition bitpos_of (n : N) : list N :=
  match n with N0 => [] | Npos p => bitpos_pos p 0 end.

Definition lor_list (l : list N) : N := fold_left N.lor l 0.

(** ** [BitsIter] as the loop it is (src/math/bits_iter.rs, after the top-bit repair)

    state = (bits, pos); [next] either yields a one-hot word and the next
    state, or stops.  [pos <<= 1] wraps at 64 bits.  The loop inside [next] is
    given fuel; [None] in the outer option means "out of fuel" and is excluded
    by theorem ([Proofs/BitsIterP.v]). *)
Record bits_iter := { bi_bits : N; bi_pos : N }.

Definition bits_iter_from (bits : N) : bits_iter := {| bi_bits := bits; bi_pos := 1 |}.

Inductive iter_res :=
| Yield (v : N) (st : bits_iter)
| Done
| OutOfFuel.

Fixpoint bits_iter_next (fuel : nat) (st : bits_iter) : iter_res :=
  match fuel with
  | O => OutOfFuel
  | S fuel' =>
      let pos := bi_pos st in
      let bits := bi_bits st in
      if negb (N.eqb (N.land pos bits) 0) then
        Yield pos {| bi_bits := bits; bi_pos := shl1 pos |}
      else if N.eqb pos 0 || N.ltb bits pos then Done
      else bits_iter_next fuel' {| bi_bits := bits; bi_pos := shl1 pos |}
  end.

(** the pre-repair loop: no [pos == 0] exit (kept for [Legacy]) *)
Fixpoint bits_iter_next_legacy (fuel : nat) (st : bits_iter) : iter_res :=
  match fuel with
  | O => OutOfFuel
  | S fuel' =>
      let pos := bi_pos st in
      let bits := bi_bits st in
      if negb (N.eqb (N.land pos bits) 0) then
        Yield pos {| bi_bits := bits; bi_pos := shl1 pos |}
      else if N.ltb bits pos then Done
      else bits_iter_next_legacy fuel' {| bi_bits := bits; bi_pos := shl1 pos |}
  end.

(** collecting the iterator: [outer] bounds the number of [next] calls, each
    [next] gets [inner] steps.  [None] = out of fuel somewhere. *)
Fixpoint bits_iter_collect (next : nat -> bits_iter -> iter_res)
         (outer inner : nat) (st : bits_iter) : option (list N) :=
  match outer with
  | O => None
  | S outer' =>
      match next inner st with
      | Yield v st' =>
          match bits_iter_collect next outer' inner st' with
          | Some l => Some (v :: l)
          | None => None
          end
      | Done => Some []
      | OutOfFuel => None
      end
  end.

Definition FUEL : nat := 70.
Definition bits_iter_list (bits : N) : option (list N) :=
  bits_iter_collect bits_iter_next FUEL FUEL (bits_iter_from bits).
Definition bits_iter_list_legacy (bits : N) : option (list N) :=
  bits_iter_collect bits_iter_next_legacy FUEL FUEL (bits_iter_from bits).

(** ** the walking loop [while idx != 0 && idx <= mask { if idx & mask != 0 {..}; idx <<= 1 }]
    of [h] and [qft_swapped], as a fold over the visited set bits *)
Fixpoint walk_bits (fuel : nat) (mask idx : N) : option (list N) :=
  match fuel with
  | O => None
  | S fuel' =>
      if N.eqb idx 0 || N.ltb mask idx then Some []
      else
        match walk_bits fuel' mask (shl1 idx) with
        | Some l => Some (if negb (N.eqb (N.land idx mask) 0) then idx :: l else l)
        | None => None
        end
  end.
Fixpoint walk_bits_legacy (fuel : nat) (mask idx : N) : option (list N) :=
  match fuel with
  | O => None
  | S fuel' =>
      if N.ltb mask idx then Some []
      else
        match walk_bits_legacy fuel' mask (shl1 idx) with
        | Some l => Some (if negb (N.eqb (N.land idx mask) 0) then idx :: l else l)
        | None => None
        end
  end.

(** the [for idx in 0..64] scan of [qft] *)
Fixpoint scan_bits (k : nat) (w mask : N) : list N :=
  match k with
  | O => []
  | S k' =>
      if negb (N.eqb (N.land w mask) 0) then w :: scan_bits k' (N.double w) mask
      else scan_bits k' (N.double w) mask
  end.
Definition scan64 (mask : N) : list N := scan_bits 64 1 mask.

(** ** sums over [0, 2^n) by splitting off the least significant bit *)
Section Sum2.
  Context {A : Type} (zero : A) (add : A -> A -> A).
  Fixpoint sum2 (n : nat) (f : N -> A) : A :=
    match n with
    | O => f 0
    | S n' => add (sum2 n' (fun i => f (N.double i)))
                  (sum2 n' (fun i => f (N.succ_double i)))
    end.
  (** plain sequential sum over [0, len) *)
  Fixpoint sum_upto (len : nat) (f : N -> A) : A :=
    match len with
    | O => zero
    | S k => add (sum_upto k f) (f (N.of_nat k))
    end.
End Sum2.
