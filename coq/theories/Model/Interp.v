(** * Interp: the OpenQASM interpreter (src/qasm/int: mod.rs, gates.rs, macros.rs, parse.rs,
    ext_op.rs) from the AST down to the block queue, after the repairs recorded in
    known_findings.json.  The external lexer / parser (qvnt-qasm) and expression parser (meval)
    are not modelled: the model starts at the AST and at expression trees.

    Every partial Rust operation is a [Panic] value here, so that "the interpreter never
    panics" is a statement about the model rather than a convention. *)
From Coq Require Import ZArith String Ascii.
From QV Require Export Op CVReg.
Open Scope N_scope.
Open Scope string_scope.
Open Scope list_scope.

Definition ident := string.

Inductive arg :=
| Qubit (name : ident) (idx : Z)
| Register (name : ident).

Section Interp.
  Context {F : Type} (OP : ops F).
  Local Notation multi := (multi F).

  (** ** parameter expressions (what meval evaluates), as trees *)
  Inductive pexpr :=
  | PNum (x : F)
  | PVar (v : ident)
  | PNeg (a : pexpr)
  | PAdd (a b : pexpr) | PSub (a b : pexpr) | PMul (a b : pexpr) | PDiv (a b : pexpr)
  | PPow (a b : pexpr)
  | PFun (f : ident) (args : list pexpr).

  Inductive perr :=
  | UnknownVariable (v : ident)
  | FunctionError (f : ident).          (* unknown function or wrong number of arguments *)

  Inductive pres := PVal (x : F) | PErr (e : perr).

  Definition lookup {A} (k : ident) (l : list (ident * A)) : option A :=
    match find (fun p => String.eqb (fst p) k) l with Some p => Some (snd p) | None => None end.

  Definition fmax (a b : F) : F := if fltb OP a b then b else a.
  Definition fmin (a b : F) : F := if fltb OP b a then b else a.
  Definition fabs (a : F) : F := if fltb OP a (f0 OP) then fneg OP a else a.

  (** the registered functions of [EXAUSTIVE_CONTEXT] *)
  Definition apply_fun (f : ident) (xs : list F) : option F :=
    match xs with
    | [x] =>
        if String.eqb f "sqrt" then Some (fsqrt OP x)
        else if String.eqb f "exp" then Some (fexp OP x)
        else if String.eqb f "ln" then Some (fln OP x)
        else if String.eqb f "abs" then Some (fabs x)
        else if String.eqb f "floor" then Some (ffloor OP x)
        else if String.eqb f "ceil" then Some (fceil OP x)
        else if String.eqb f "round" then Some (froundf OP x)
        else if String.eqb f "max" then Some x
        else if String.eqb f "min" then Some x
        else None
    | x :: rest =>
        if String.eqb f "max" then Some (fold_left fmax rest x)
        else if String.eqb f "min" then Some (fold_left fmin rest x)
        else None
    | [] => None
    end.

  Definition pbind (r : pres) (k : F -> pres) : pres :=
    match r with PVal x => k x | PErr e => PErr e end.

  (** evaluation in a context of bound parameters (later bindings shadow earlier ones and the
      constant [pi]); operands left to right, arguments before the function *)
  Fixpoint peval (ctx : list (ident * F)) (e : pexpr) : pres :=
    match e with
    | PNum x => PVal x
    | PVar v =>
        match lookup v ctx with
        | Some x => PVal x
        | None => if String.eqb v "pi" then PVal (fpi OP) else PErr (UnknownVariable v)
        end
    | PNeg a => pbind (peval ctx a) (fun x => PVal (fneg OP x))
    | PAdd a b => pbind (peval ctx a) (fun x => pbind (peval ctx b) (fun y => PVal (fadd OP x y)))
    | PSub a b => pbind (peval ctx a) (fun x => pbind (peval ctx b) (fun y => PVal (fsub OP x y)))
    | PMul a b => pbind (peval ctx a) (fun x => pbind (peval ctx b) (fun y => PVal (fmul OP x y)))
    | PDiv a b => pbind (peval ctx a) (fun x => pbind (peval ctx b) (fun y => PVal (fdiv OP x y)))
    | PPow a b => pbind (peval ctx a) (fun x => pbind (peval ctx b) (fun y => PVal (fpow OP x y)))
    | PFun f args =>
        (fix go (l : list pexpr) (acc : list F) : pres :=
           match l with
           | [] => match apply_fun f (rev acc) with Some v => PVal v | None => PErr (FunctionError f) end
           | a :: t => pbind (peval ctx a) (fun x => go t (x :: acc))
           end) args []
    end.

  (** ** AST *)
  Inductive node :=
  | NQReg (name : ident) (size : Z)
  | NCReg (name : ident) (size : Z)
  | NBarrier (a : arg)
  | NReset (a : arg)
  | NMeasure (q c : arg)
  | NApply (name : ident) (regs : list arg) (args : list pexpr)
  | NOpaque
  | NGate (name : ident) (regs params : list ident) (body : list node)
  | NIf (creg : ident) (value : Z) (body : node).

  (** a printable tag for the payload of [DisallowedNodeInIf] / [DisallowedNodeInMacro] *)
  Definition node_tag (n : node) : N :=
    match n with
    | NQReg _ _ => 1 | NCReg _ _ => 2 | NBarrier _ => 3 | NReset _ => 4 | NMeasure _ _ => 5
    | NApply _ _ _ => 6 | NOpaque => 7 | NGate _ _ _ _ => 8 | NIf _ _ _ => 9
    end.

  Inductive error :=
  | NoQReg (name : ident)
  | NoCReg (name : ident)
  | DupQReg (name : ident) (count : N)
  | DupCReg (name : ident) (count : N)
  | IdxOutOfRange (name : ident) (idx : N)
  | UnknownGate (name : ident)
  | InvalidControlMask (ctrl act : N)
  | UnevaluatedArgument (what : ident) (e : perr)
  | WrongRegNumber (name : ident) (num : N)
  | WrongArgNumber (name : ident) (num : N)
  | UnmatchedRegSize (q c : N)
  | MacroAlreadyDefined (name : ident)
  | DisallowedNodeInIf (tag : N)
  | IdentIsTooLarge (name : ident) (len : N)
  | RegisterIsTooLarge (name : ident) (num : N)
  | NonFiniteArgument (name : ident)
  (* macros::Error *)
  | DisallowedNodeInMacro (tag : N)
  | DisallowedRegister (name : ident) (idx : N)
  | UnknownReg (name : ident)
  | UnknownArg (name : ident)
  | RecursiveMacro (name : ident).

  Inductive ires (A : Type) :=
  | IOk (a : A)
  | IErr (e : error)
  | IPanic (why : N).   (* 1 HashMap index, 2 out of fuel, 3 constructor expect(), 4 unwrap on None *)
  Arguments IOk {A}. Arguments IErr {A}. Arguments IPanic {A}.

  Definition ibind {A B} (r : ires A) (k : A -> ires B) : ires B :=
    match r with IOk a => k a | IErr e => IErr e | IPanic w => IPanic w end.

  Fixpoint imap {A B} (f : A -> ires B) (l : list A) : ires (list B) :=
    match l with
    | [] => IOk []
    | x :: t => ibind (f x) (fun y => ibind (imap f t) (fun ys => IOk (y :: ys)))
    end.

  (** ** the block queue (ext_op.rs) *)
  Inductive sep :=
  | SNop
  | SMeasure (q c : N)
  | SIfBranch (c v : N)
  | SReset (q : N).

  Record extop := mkExt { blocks : list (multi * sep); open : multi }.
  Definition ext_empty : extop := {| blocks := []; open := [] |}.

  (** [Op::push] (repaired): the gate goes to the open block, closed blocks are never extended *)
  Definition ext_push (o : extop) (g : multi) : extop :=
    {| blocks := blocks o; open := open o ++ g |}.

  (** pre-repair [Op::push]: with an empty open block the gate is merged into a preceding
      closed [Nop] block (kept for [Legacy]) *)
  Definition ext_push_legacy (o : extop) (g : multi) : extop :=
    match open o with
    | [] =>
        match rev (blocks o) with
        | (last, SNop) :: before => {| blocks := rev before ++ [(last ++ g, SNop)]; open := [] |}
        | _ => {| blocks := blocks o; open := g |}
        end
    | _ => {| blocks := blocks o; open := open o ++ g |}
    end.

  (** [Int::branch]: close the open block under [s] unless it is empty *)
  Definition ext_branch (o : extop) (s : sep) : extop :=
    match open o with
    | [] => o
    | g => {| blocks := blocks o ++ [(g, s)]; open := [] |}
    end.
  (** [Int::branch_with_id]: close the open block under [s] even when it is empty *)
  Definition ext_branch_with_id (o : extop) (s : sep) : extop :=
    {| blocks := blocks o ++ [(open o, s)]; open := [] |}.

  (** [Op::append]: the left open block is closed as a [Nop] block (merged into a trailing [Nop]
      block when there is one), then the right queue follows *)
  Definition ext_append (a b : extop) : extop :=
    let closed :=
      match open a with
      | [] => blocks a
      | g =>
          match rev (blocks a) with
          | (last, SNop) :: before => rev before ++ [(last ++ g, SNop)]
          | _ => blocks a ++ [(g, SNop)]
          end
      end in
    {| blocks := closed ++ blocks b; open := open b |}.

  (** ** gates.rs *)
  Definition lor_all (l : list N) : N := fold_left N.lor l 0.
  Definition lenN {A} (l : list A) : N := N.of_nat (length l).

  Definition of_op (o : option multi) : ires multi :=
    match o with Some m => IOk m | None => IPanic 3 end.

  Definition all_finite (xs : list F) : bool := forallb (ffinite OP) xs.

  Definition gate_any (name : ident) (mk : N -> ires multi) (regs : list N) (args : list F) : ires multi :=
    let r := lor_all regs in
    if N.eqb r 0 then IErr (WrongRegNumber name 0)
    else if negb (N.eqb (lenN args) 0) then IErr (WrongArgNumber name (lenN args))
    else mk r.
  Definition gate_2 (name : ident) (mk : N -> ires multi) (regs : list N) (args : list F) : ires multi :=
    let r := lor_all regs in
    if negb (N.eqb (popcount r) 2) then IErr (WrongRegNumber name (popcount r))
    else if negb (N.eqb (lenN args) 0) then IErr (WrongArgNumber name (lenN args))
    else mk r.
  Definition gate_r (name : ident) (k : N) (mk : F -> N -> ires multi) (regs : list N) (args : list F) : ires multi :=
    let r := lor_all regs in
    if negb (N.eqb (popcount r) k) then IErr (WrongRegNumber name (popcount r))
    else match args with
         | [a] => mk a r
         | _ => IErr (WrongArgNumber name (lenN args))
         end.
  Definition gate_u2 (name : ident) (regs : list N) (args : list F) : ires multi :=
    let r := lor_all regs in
    if negb (N.eqb (popcount r) 1) then IErr (WrongRegNumber name (popcount r))
    else match args with
         | [a; b] => of_op (op_u2 OP a b r)
         | _ => IErr (WrongArgNumber name (lenN args))
         end.
  Definition gate_u3 (name : ident) (regs : list N) (args : list F) : ires multi :=
    let r := lor_all regs in
    if negb (N.eqb (popcount r) 1) then IErr (WrongRegNumber name (popcount r))
    else match args with
         | [a; b; c] => of_op (op_u3 OP a b c r)
         | _ => IErr (WrongArgNumber name (lenN args))
         end.

  Definition is_name (s lower upper : string) : bool := String.eqb s lower || String.eqb s upper.

  (** the name table for a stem without leading [c] *)
  Definition gate_table (name : ident) (regs : list N) (args : list F) : ires multi :=
    if is_name name "x" "X" then gate_any name (fun r => IOk (op_x r)) regs args
    else if is_name name "y" "Y" then gate_any name (fun r => IOk (op_y r)) regs args
    else if is_name name "z" "Z" then gate_any name (fun r => IOk (op_z r)) regs args
    else if is_name name "s" "S" then gate_any name (fun r => IOk (op_s r)) regs args
    else if is_name name "sdg" "SDG" then gate_any name (fun r => IOk (multi_dgr OP (op_s r))) regs args
    else if is_name name "t" "T" then gate_any name (fun r => IOk (op_t r)) regs args
    else if is_name name "tdg" "TDG" then gate_any name (fun r => IOk (multi_dgr OP (op_t r))) regs args
    else if is_name name "h" "H" then gate_any name (fun r => of_op (op_h r)) regs args
    else if is_name name "qft" "QFT" then gate_any name (fun r => of_op (op_qft OP r)) regs args
    else if is_name name "rx" "RX" then gate_r name 1 (fun a r => of_op (op_rx OP a r)) regs args
    else if is_name name "ry" "RY" then gate_r name 1 (fun a r => of_op (op_ry OP a r)) regs args
    else if is_name name "rz" "RZ" then gate_r name 1 (fun a r => of_op (op_rz OP a r)) regs args
    else if is_name name "rxx" "RXX" then gate_r name 2 (fun a r => of_op (op_rxx OP a r)) regs args
    else if is_name name "ryy" "RYY" then gate_r name 2 (fun a r => of_op (op_ryy OP a r)) regs args
    else if is_name name "rzz" "RZZ" then gate_r name 2 (fun a r => of_op (op_rzz OP a r)) regs args
    else if is_name name "swap" "SWAP" then gate_2 name (fun r => of_op (op_swap OP r)) regs args
    else if is_name name "sqrt_swap" "SQRT_SWAP" then gate_2 name (fun r => of_op (op_sqrt_swap OP r)) regs args
    else if is_name name "i_swap" "I_SWAP" then gate_2 name (fun r => of_op (op_i_swap OP r)) regs args
    else if is_name name "sqrt_i_swap" "SQRT_I_SWAP" then gate_2 name (fun r => of_op (op_sqrt_i_swap OP r)) regs args
    else if is_name name "u1" "U1" then gate_r name 1 (fun a r => of_op (op_u1 OP a r)) regs args
    else if is_name name "u2" "U2" then gate_u2 name regs args
    else if is_name name "u3" "U3" then gate_u3 name regs args
    else IErr (UnknownGate name).

  Definition starts_with_c (s : string) : bool :=
    match s with
    | String a _ => Ascii.eqb a "c"%char || Ascii.eqb a "C"%char
    | EmptyString => false
    end.
  Definition tail (s : string) : string := match s with String _ t => t | EmptyString => EmptyString end.

  (** [gates::process]: a leading [c]/[C] turns the first register argument into a control
      (recursively); a controlled [u1] is a controlled phase shift *)
  Fixpoint gates_process_from (fuel : nat) (name : ident) (regs : list N) (args : list F) : ires multi :=
    match fuel with
    | O => IPanic 2
    | S fuel' =>
        if starts_with_c name then
          match regs with
          | [] => IErr (WrongRegNumber name 0)
          | ctrl :: rest =>
              let stem := tail name in
              let inner :=
                if is_name stem "u1" "U1"
                then gate_r stem 1 (fun a r => of_op (op_phase_shift OP a r)) rest args
                else gates_process_from fuel' stem rest args in
              match inner with
              | IOk o =>
                  match multi_c o ctrl with
                  | Some o' => IOk o'
                  | None => IErr (InvalidControlMask ctrl (multi_act_on o))
                  end
              | IErr (WrongRegNumber _ num) => IErr (WrongRegNumber name (1 + num))
              | IErr (WrongArgNumber _ num) => IErr (WrongArgNumber name num)
              | IErr (UnknownGate _) => IErr (UnknownGate name)
              | r => r
              end
          end
        else gate_table name regs args
    end.

  Definition gates_process (name : ident) (regs : list N) (args : list F) : ires multi :=
    if negb (all_finite args) then IErr (NonFiniteArgument name)
    else gates_process_from (S (String.length name)) name regs args.

  (** ** macros.rs *)
  Record macro := mkMacro {
    m_regs : list ident;
    m_params : list ident;
    m_body : list (ident * list arg * list pexpr);
  }.

  Definition arg_name (a : arg) : ident := match a with Qubit n _ | Register n => n end.
  Definition mem (x : ident) (l : list ident) : bool := existsb (String.eqb x) l.

  (** [Macro::new]: only gate applications on whole formal registers, every name in a parameter
      expression bound (formals are bound to a dummy value for the check) *)
  Definition macro_check_node (regs params : list ident) (n : node)
    : ires (ident * list arg * list pexpr) :=
    match n with
    | NApply name regs_a args_a =>
        ibind
          ((fix chk (l : list arg) : ires unit :=
              match l with
              | [] => IOk tt
              | Qubit nm idx :: _ => IErr (DisallowedRegister nm (Z.to_N idx))
              | Register nm :: t => if mem nm regs then chk t else IErr (UnknownReg nm)
              end) regs_a)
          (fun _ =>
             ibind
               ((fix chk (l : list pexpr) : ires unit :=
                   match l with
                   | [] => IOk tt
                   | e :: t =>
                       match peval (map (fun p => (p, f1 OP)) params) e with
                       | PErr (UnknownVariable v) => IErr (UnknownArg v)
                       | PErr (FunctionError f) => IErr (UnevaluatedArgument f (FunctionError f))
                       | PVal _ => chk t
                       end
                   end) args_a)
               (fun _ => IOk (name, regs_a, args_a)))
    | other => IErr (DisallowedNodeInMacro (node_tag other))
    end.

  Definition macro_new (regs params : list ident) (body : list node) : ires macro :=
    ibind (imap (macro_check_node regs params) body)
          (fun b => IOk {| m_regs := regs; m_params := params; m_body := b |}).

  (** [Macro::process] with the nesting-depth guard; [fuel] bounds the recursion of the model
      (exhaustion is [IPanic 2], excluded by theorem) *)
  Fixpoint macro_process (fuel : nat) (macros : list (ident * macro)) (depth : nat)
           (m : macro) (name : ident) (regs : list N) (args : list F) : ires multi :=
    match fuel with
    | O => IPanic 2
    | S fuel' =>
        if Nat.leb (length macros) depth then IErr (RecursiveMacro name)
        else if negb (Nat.eqb (length regs) (length (m_regs m))) then IErr (WrongRegNumber name (lenN regs))
        else if negb (Nat.eqb (length args) (length (m_params m))) then IErr (WrongArgNumber name (lenN args))
        else
          let rmap := combine (m_regs m) regs in
          let amap := combine (m_params m) args in
          (* HashMap built by collect(): a later duplicate key wins; [ctx.var] likewise *)
          let rlookup (k : ident) := lookup k (rev rmap) in
          (fix go (body : list (ident * list arg * list pexpr)) (acc : multi) : ires multi :=
             match body with
             | [] => IOk acc
             | (name_i, regs_i, args_i) :: rest =>
                 ibind (imap (fun a => match rlookup (arg_name a) with Some v => IOk v | None => IPanic 1 end) regs_i)
                   (fun regs_v =>
                      ibind (imap (fun e => match peval (rev amap) e with
                                            | PVal x => IOk x
                                            | PErr pe => IErr (UnevaluatedArgument name_i pe)
                                            end) args_i)
                        (fun args_v =>
                           let r :=
                             match lookup name_i macros with
                             | Some m' =>
                                 if String.eqb name name_i then IErr (RecursiveMacro name_i)
                                 else macro_process fuel' macros (S depth) m' name_i regs_v args_v
                             | None => gates_process name_i regs_v args_v
                             end in
                           ibind r (fun o => go rest (acc ++ o))))
             end) (m_body m) []
    end.

  (** ** the interpreter state *)
  Record int := mkInt {
    i_xor : bool;                          (* measurement mode: false = Set, true = Xor *)
    i_qreg : list ident;                   (* one entry per declared qubit *)
    i_creg : list ident;
    i_ops : extop;
    i_macros : list (ident * macro);
    i_asts : list (list node);             (* accepted source chunks *)
  }.
  Definition int_empty : int :=
    {| i_xor := false; i_qreg := []; i_creg := []; i_ops := ext_empty; i_macros := []; i_asts := [] |}.

  Definition set_ops (c : int) (o : extop) : int :=
    {| i_xor := i_xor c; i_qreg := i_qreg c; i_creg := i_creg c; i_ops := o; i_macros := i_macros c; i_asts := i_asts c |}.

  Definition count_name (alias : ident) (l : list ident) : N :=
    lenN (filter (String.eqb alias) l).

  Definition check_ident (alias : ident) : ires unit :=
    let len := N.of_nat (String.length alias) in
    if N.leb 32 len then IErr (IdentIsTooLarge alias len) else IOk tt.
  (** [size as N] for an [i32]: a negative size becomes a huge word *)
  Definition size_as_N (size : Z) : N := if (size <? 0)%Z then Z.to_N (2 ^ 64 + size) else Z.to_N size.
  Definition check_reg_size (alias : ident) (n : N) : ires unit :=
    if N.leb 64 n then IErr (RegisterIsTooLarge alias n) else IOk tt.

  Definition check_dup (base ch : int) (alias : ident) : ires unit :=
    let c1 := count_name alias (i_qreg base) in
    if N.ltb 0 c1 then IErr (DupQReg alias c1) else
    let c2 := count_name alias (i_creg base) in
    if N.ltb 0 c2 then IErr (DupCReg alias c2) else
    let c3 := count_name alias (i_qreg ch) in
    if N.ltb 0 c3 then IErr (DupQReg alias c3) else
    let c4 := count_name alias (i_creg ch) in
    if N.ltb 0 c4 then IErr (DupCReg alias c4) else IOk tt.

  (** [fold_idx_by_alias]: OR of [1 << idx] over the positions holding the alias *)
  Fixpoint mask_of_alias_from (l : list ident) (alias : ident) (k : N) : N :=
    match l with
    | [] => 0
    | x :: t => N.lor (if String.eqb x alias then wrap (N.shiftl 1 (k mod 64)) else 0)
                      (mask_of_alias_from t alias (N.succ k))
    end.
  Definition mask_of_alias (l : list ident) (alias : ident) : N := mask_of_alias_from l alias 0.

  Definition nth_bit (mask : N) (idx : N) : ires (option N) :=
    match bits_iter_list mask with
    (* [BitsIter::nth(idx)]: a word has at most 64 set bits; the test keeps the unary index small *)
    | Some l => IOk (if N.ltb idx 64 then nth_error l (N.to_nat idx) else None)
    | None => IPanic 2
    end.

  Definition resolve (regs : list ident) (a : arg) (missing : ident -> error) : ires N :=
    match a with
    | Qubit alias idx =>
        let mask := mask_of_alias regs alias in
        if N.eqb mask 0 then IErr (missing alias)
        else
          let i := size_as_N idx in
          ibind (nth_bit mask i) (fun o => match o with Some b => IOk b | None => IErr (IdxOutOfRange alias i) end)
    | Register alias =>
        let mask := mask_of_alias regs alias in
        if N.eqb mask 0 then IErr (missing alias) else IOk mask
    end.
  Definition get_q_idx (base ch : int) (a : arg) : ires N := resolve (i_qreg base ++ i_qreg ch) a NoQReg.
  Definition get_c_idx (base ch : int) (a : arg) : ires N := resolve (i_creg base ++ i_creg ch) a NoCReg.

  Definition MACRO_FUEL (macros : list (ident * macro)) : nat := S (S (length macros)).

  (** the total declared size must also stay addressable (repair) *)
  Definition process_qreg (base ch : int) (alias : ident) (size : Z) : ires int :=
    let n := size_as_N size in
    ibind (check_ident alias) (fun _ =>
    ibind (check_reg_size alias n) (fun _ =>
    ibind (check_reg_size alias (lenN (i_qreg base) + lenN (i_qreg ch) + n)) (fun _ =>
    ibind (check_dup base ch alias) (fun _ =>
    IOk {| i_xor := i_xor ch; i_qreg := i_qreg ch ++ repeat alias (N.to_nat n); i_creg := i_creg ch;
           i_ops := i_ops ch; i_macros := i_macros ch; i_asts := i_asts ch |})))).
  Definition process_creg (base ch : int) (alias : ident) (size : Z) : ires int :=
    let n := size_as_N size in
    ibind (check_ident alias) (fun _ =>
    ibind (check_reg_size alias n) (fun _ =>
    ibind (check_reg_size alias (lenN (i_creg base) + lenN (i_creg ch) + n)) (fun _ =>
    ibind (check_dup base ch alias) (fun _ =>
    IOk {| i_xor := i_xor ch; i_qreg := i_qreg ch; i_creg := i_creg ch ++ repeat alias (N.to_nat n);
           i_ops := i_ops ch; i_macros := i_macros ch; i_asts := i_asts ch |})))).

  Definition process_apply (base ch : int) (name : ident) (regs : list arg) (args : list pexpr) : ires int :=
    ibind (imap (get_q_idx base ch) regs) (fun regs_v =>
    ibind (imap (fun e => match peval [] e with PVal x => IOk x | PErr pe => IErr (UnevaluatedArgument name pe) end) args)
      (fun args_v =>
         (* [macros.extend(changes.macros)]: a later definition would win (there is none: duplicates are refused) *)
         let macros := i_macros base ++ i_macros ch in
         let r := match lookup name (rev macros) with
                  | Some m => macro_process (MACRO_FUEL macros) macros 0 m name regs_v args_v
                  | None => gates_process name regs_v args_v
                  end in
         ibind r (fun o => IOk (set_ops ch (ext_push (i_ops ch) o))))).

  Definition has_macro (name : ident) (c : int) : bool :=
    match lookup name (i_macros c) with Some _ => true | None => false end.

  Definition process_gate (base ch : int) (name : ident) (regs params : list ident) (body : list node) : ires int :=
    ibind (macro_new regs params body) (fun m =>
      if has_macro name base || has_macro name ch then IErr (MacroAlreadyDefined name)
      else ibind (check_ident name) (fun _ =>
        IOk {| i_xor := i_xor ch; i_qreg := i_qreg ch; i_creg := i_creg ch; i_ops := i_ops ch;
               i_macros := i_macros ch ++ [(name, m)]; i_asts := i_asts ch |})).

  Definition process_node1 (base ch : int) (n : node) : ires int :=
    match n with
    | NQReg alias size => process_qreg base ch alias size
    | NCReg alias size => process_creg base ch alias size
    | NBarrier _ => IOk ch
    | NReset a =>
        ibind (get_q_idx base ch a) (fun q => IOk (set_ops ch (ext_branch_with_id (i_ops ch) (SReset q))))
    | NMeasure q c =>
        ibind (get_q_idx base ch q) (fun qm =>
        ibind (get_c_idx base ch c) (fun cm =>
          if negb (N.eqb (popcount qm) (popcount cm)) then IErr (UnmatchedRegSize (popcount qm) (popcount cm))
          else IOk (set_ops ch (ext_branch_with_id (i_ops ch) (SMeasure qm cm)))))
    | NApply name regs args => process_apply base ch name regs args
    | NOpaque => IOk ch
    | NGate name regs params body => process_gate base ch name regs params body
    | NIf lhs rhs body =>
        match body with
        | NApply name regs args =>
            let ch1 := set_ops ch (ext_branch (i_ops ch) SNop) in
            ibind (get_c_idx base ch1 (Register lhs)) (fun val =>
            ibind (process_apply base ch1 name regs args) (fun ch2 =>
              IOk (set_ops ch2 (ext_branch (i_ops ch2) (SIfBranch val (size_as_N rhs))))))
        | other => IErr (DisallowedNodeInIf (node_tag other))
        end
    end.

  Fixpoint process_nodes (base ch : int) (nodes : list node) : ires int :=
    match nodes with
    | [] => IOk ch
    | n :: rest => ibind (process_node1 base ch n) (fun ch' => process_nodes base ch' rest)
    end.

  Definition push_ast (c : int) (ast : list node) : int :=
    {| i_xor := i_xor c; i_qreg := i_qreg c; i_creg := i_creg c; i_ops := i_ops c;
       i_macros := i_macros c; i_asts := i_asts c ++ [ast] |}.

  (** [ast_changes(&self, changes, ast)] *)
  Definition ast_changes (base ch : int) (ast : list node) : ires int :=
    ibind (process_nodes base ch ast) (fun ch' => IOk (push_ast ch' ast)).

  (** [add_ast] (repaired: works on a copy and commits on success).  Returns the result and the
      interpreter afterwards. *)
  Definition add_ast (i : int) (ast : list node) : ires unit * int :=
    match ast_changes int_empty i ast with
    | IOk i' => (IOk tt, i')
    | IErr e => (IErr e, i)
    | IPanic w => (IPanic w, i)
    end.

  (** pre-repair [add_ast]: processes straight into the live interpreter (kept for [Legacy]);
      the statements before the failing one stay *)
  Fixpoint process_nodes_partial (base ch : int) (nodes : list node) : ires unit * int :=
    match nodes with
    | [] => (IOk tt, ch)
    | n :: rest =>
        match process_node1 base ch n with
        | IOk ch' => process_nodes_partial base ch' rest
        | IErr e => (IErr e, ch)
        | IPanic w => (IPanic w, ch)
        end
    end.
  Definition add_ast_legacy (i : int) (ast : list node) : ires unit * int :=
    match process_nodes_partial int_empty i ast with
    | (IOk _, i') => (IOk tt, push_ast i' ast)
    | r => r
    end.

  Definition int_new (ast : list node) : ires int :=
    match add_ast int_empty ast with
    | (IOk _, i) => IOk i
    | (IErr e, _) => IErr e
    | (IPanic w, _) => IPanic w
    end.

  (** [append_int] (repaired: keeps the record of accepted chunks and the session's mode) *)
  Definition append_int (a b : int) : int :=
    {| i_xor := i_xor a;
       i_qreg := i_qreg a ++ i_qreg b; i_creg := i_creg a ++ i_creg b;
       i_ops := ext_append (i_ops a) (i_ops b);
       i_macros := i_macros a ++ i_macros b;
       i_asts := i_asts a ++ i_asts b |}.
  Definition prepend_int (a b : int) : int := append_int b a.
  (** pre-repair [append_int]: drops the record (kept for [Legacy]) *)
  Definition append_int_legacy (a b : int) : int :=
    {| i_xor := i_xor b;
       i_qreg := i_qreg a ++ i_qreg b; i_creg := i_creg a ++ i_creg b;
       i_ops := ext_append (i_ops a) (i_ops b);
       i_macros := i_macros a ++ i_macros b;
       i_asts := i_asts a |}.
  Definition int_xor (a : int) : int :=
    {| i_xor := true; i_qreg := i_qreg a; i_creg := i_creg a; i_ops := i_ops a;
       i_macros := i_macros a; i_asts := i_asts a |}.
End Interp.

Arguments IOk {A}. Arguments IErr {A}. Arguments IPanic {A}.
