(** * CVReg: classical and virtual registers (src/register/class.rs, virtl.rs) with the
    machine-word arithmetic written out *)
From QV Require Export Bits.
Open Scope N_scope.

(** [1usize.wrapping_shl(n as u32).wrapping_sub(1)]: the shift amount is taken mod 64 *)
Definition mask_of_num (n : N) : N := wrap (N.shiftl 1 (n mod 64) + N.ones WORD).
(** plain [(1 << n) - 1] for n < 64 *)

(** ** VReg: the list of one-hot words of a mask (via [BitsIter]); [None] = out of fuel *)
Definition vreg_of_mask (mask : N) : option (list N) := bits_iter_list (wrap mask).
Definition vreg_new (num : N) : option (list N) := vreg_of_mask (mask_of_num num).

(** [v[i]]: [None] = index out of bounds panic *)
Definition vreg_at (v : list N) (i : nat) : option N := nth_error v i.
(** [v[pred]] / [v[[i, j, ..]]] / [v[..]]: OR of the selected entries *)
Fixpoint vreg_sel_from (v : list N) (k : nat) (f : nat -> bool) : N :=
  match v with
  | [] => 0
  | w :: rest => N.lor (if f k then w else 0) (vreg_sel_from rest (S k) f)
  end.
Definition vreg_sel (v : list N) (f : nat -> bool) : N := vreg_sel_from v 0 f.
Definition vreg_list (v : list N) (l : list nat) : N := vreg_sel v (fun i => existsb (Nat.eqb i) l).
Definition vreg_all (v : list N) : N := vreg_sel v (fun _ => true).

(** [QReg::get_vreg_by(mask)] for a register with [q_mask] *)
Definition get_vreg_by (q_mask mask : N) : option (option (list N)) :=
  if negb (N.eqb (N.ldiff (wrap mask) q_mask) 0) then None else Some (vreg_of_mask mask).

(** ** CReg *)
Record creg := mkCReg { c_value : N; c_num : N; c_mask : N }.

Definition creg_with_state (n state : N) : creg :=
  let m := mask_of_num n in
  {| c_value := N.land (wrap state) m; c_num := n; c_mask := m |}.
(** pre-repair: the initial value is stored unmasked (kept for [Legacy]) *)
Definition creg_with_state_legacy (n state : N) : creg :=
  {| c_value := wrap state; c_num := n; c_mask := mask_of_num n |}.
Definition creg_new (n : N) : creg := creg_with_state n 0.

Definition creg_set (c : creg) (bit : bool) (mask : N) : creg :=
  {| c_value := if bit then N.lor (c_value c) (wrap mask) else N.ldiff (c_value c) (wrap mask);
     c_num := c_num c; c_mask := c_mask c |}.
Definition creg_xor (c : creg) (bit : bool) (mask : N) : creg :=
  {| c_value := if bit then N.lxor (c_value c) (wrap mask) else c_value c;
     c_num := c_num c; c_mask := c_mask c |}.
Definition creg_get (c : creg) : N := c_value c.
Definition creg_reset (c : creg) (st : N) : creg :=
  {| c_value := N.land (wrap st) (c_mask c); c_num := c_num c; c_mask := c_mask c |}.

(** [tensor_prod]: [self.value | other.value << (self.q_num as u8)]; a shift of 64 or more
    panics in debug builds -> [None] *)
Definition creg_mul (a b : creg) : option creg :=
  let sh := (c_num a) mod 256 in
  if N.leb 64 sh then None
  else Some (creg_with_state (c_num a + c_num b) (N.lor (c_value a) (wrap (N.shiftl (c_value b) sh)))).

(** [Debug]: one binary digit per bit of [q_mask], most significant first *)
Definition creg_debug (c : creg) : option (list bool) :=
  match bits_iter_list (c_mask c) with
  | Some ws => Some (rev (map (fun w => negb (N.eqb (N.land w (c_value c)) 0)) ws))
  | None => None
  end.

(** [get_by_mask]: the bits of [value] selected by [mask & q_mask], compacted ascending *)
Fixpoint compact_from (ws : list N) (k : N) (value : N) : N :=
  match ws with
  | [] => 0
  | w :: rest =>
      N.lor (if negb (N.eqb (N.land value w) 0) then N.shiftl 1 k else 0)
            (compact_from rest (N.succ k) value)
  end.
Definition creg_get_by_mask (c : creg) (mask : N) : option N :=
  match bits_iter_list (N.land (wrap mask) (c_mask c)) with
  | Some ws => Some (compact_from ws 0 (c_value c))
  | None => None
  end.
