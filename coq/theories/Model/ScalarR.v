(** * ScalarR: the [ops] instance at Coq's real numbers (the instance theorems
    are stated at).  Rounding does not exist here: "within rounding" in the
    properties becomes exact equality. *)
From Coq Require Import Reals ZArith.
From QV Require Import Scalar.
Open Scope R_scope.

Definition R_leb (x y : R) : bool := if Rle_dec x y then true else false.
Definition R_ltb (x y : R) : bool := if Rlt_dec x y then true else false.
Definition R_eqb (x y : R) : bool := if Req_EM_T x y then true else false.
Definition R_floor (x : R) : Z := (up x - 1)%Z.
(** [f64::round]: half away from zero *)
Definition R_round (x : R) : Z :=
  if Rle_dec 0 x then R_floor (x + / 2) else (- R_floor (- x + / 2))%Z.

(** [powf]: x^y by repeated multiplication for an integer exponent, exp (y ln x) otherwise *)
Definition R_pow (x y : R) : R :=
  if Req_EM_T y (IZR (R_floor y))
  then (if Rle_dec 0 y then x ^ Z.to_nat (R_floor y) else / x ^ Z.to_nat (- R_floor y))
  else Rpower x y.

Definition Rops : ops R :=
  {| f0 := 0; f1 := 1; f2 := 2; fhalf := / 2; fisq2 := / sqrt 2; fpi := PI;
     fadd := Rplus; fsub := Rminus; fmul := Rmult; fdiv := Rdiv; fneg := Ropp;
     fsqrt := sqrt; fcos := cos; fsin := sin;
     fleb := R_leb; fltb := R_ltb; feqb := R_eqb; fapprox := R_eqb;
     fofN := fun n => IZR (Z.of_N n);
     fround := R_round;
     ffinite := fun _ => true;
     fexp := exp; fln := ln; fpow := R_pow;
     ffloor := fun x => IZR (R_floor x);
     fceil := fun x => IZR (- R_floor (- x));
     froundf := fun x => IZR (R_round x) |}.
