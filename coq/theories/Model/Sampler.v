(** * Sampler: [rand::distributions::WeightedIndex] as used by [measure_mask]
    (external crate, modelled): cumulative weights without the last one, then
    [partition_point(|w| w <= chosen)] with [chosen] uniform in [0, total). *)
From QV Require Export Scalar.

Section Sampler.
  Context {F : Type} (OP : ops F).

  (** running sums C_0 = w_0, C_1 = w_0 + w_1, ... *)
  Fixpoint cumulative (acc : F) (w : list F) : list F :=
    match w with
    | [] => []
    | x :: t => let a := fadd OP acc x in a :: cumulative a t
    end.

  Definition total (w : list F) : F := fold_left (fadd OP) w (f0 OP).

  (** number of leading cumulative weights that are <= chosen (the list is sorted for w >= 0) *)
  Fixpoint partition_point (cum : list F) (chosen : F) : nat :=
    match cum with
    | [] => O
    | c :: t => if fleb OP c chosen then S (partition_point t chosen) else O
    end.

  (** the index selected for the uniform draw [chosen]; the last cumulative weight is dropped,
      so the last index is selected when every kept one is <= chosen *)
  Definition sample (w : list F) (chosen : F) : nat :=
    partition_point (removelast (cumulative (f0 OP) w)) chosen.

  (** [WeightedIndex::new] fails (and [measure_mask] unwraps) on an empty list, a negative or
      NaN weight, or a total that is not positive *)
  Definition weights_ok (w : list F) : bool :=
    negb (Nat.eqb (length w) 0)
    && forallb (fun x => fleb OP (f0 OP) x) w
    && fltb OP (f0 OP) (total w).
End Sampler.
