(** * Sym: the simulator driving a register through the block queue (src/qasm/sym.rs, with the
    repaired reset = measure the qubits, then flip those that read 1) *)
From QV Require Export Interp Reg.
Open Scope N_scope.

Section Sym.
  Context {F : Type} (OP : ops F).
  Variables (EPS_RESET EPS_SKIP : F).

  Record sym := mkSym {
    s_xor : bool;
    s_q : qreg F;
    s_c : creg;
    s_ops : @extop F;
  }.

  Definition sym_new (i : @int F) : sym :=
    {| s_xor := i_xor i; s_q := reg_new OP (lenN (i_qreg i)); s_c := creg_new (lenN (i_creg i)); s_ops := i_ops i |}.

  Definition sym_reset (s : sym) : sym :=
    {| s_xor := s_xor s; s_q := reg_reset OP (s_q s) 0; s_c := creg_reset (s_c s) 0; s_ops := s_ops s |}.

  (** pairwise copy of the measured bits into the classical bits, both in ascending order *)
  Fixpoint copy_bits (xor : bool) (c : creg) (value : N) (qs cs : list N) : creg :=
    match qs, cs with
    | q :: qt, cb :: ct =>
        let bit := negb (N.eqb (N.land value q) 0) in
        copy_bits xor (if xor then creg_xor c bit cb else creg_set c bit cb) value qt ct
    | _, _ => c
    end.

  Inductive sres := SOk (s : sym) (used : list N) | SPanic (why : N).

  (** one measurement inside [finish]: consumes a draw only when the mask selects a qubit of the
      register (as [measure_mask] does) *)
  Definition take_draw (r : qreg F) (mask : N) (draws : list N) : N * list N :=
    if N.eqb (N.land mask (q_mask r)) 0 then (0, draws)
    else match draws with d :: t => (d, t) | [] => (0, []) end.

  Definition apply_block (r : qreg F) (o : multi F) : qreg F := reg_apply OP r o.

  (** [finish]: the blocks in order, then the open block.  [draws] are the outcomes of the
      successive measurements (taken from the implementation by the correspondence check,
      universally quantified in the theorems). *)
  Fixpoint run_blocks (xor : bool) (r : qreg F) (c : creg) (bl : list (multi F * sep)) (draws : list N)
    : option (qreg F * creg * list N) :=
    match bl with
    | [] => Some (r, c, draws)
    | (o, s) :: rest =>
        match s with
        | SNop => run_blocks xor (apply_block r o) c rest draws
        | SMeasure qm cm =>
            let r1 := apply_block r o in
            let '(d, draws') := take_draw r1 qm draws in
            let '(r2, res) := reg_measure OP EPS_RESET EPS_SKIP r1 qm d in
            match bits_iter_list qm, bits_iter_list cm with
            | Some qs, Some cs => run_blocks xor r2 (copy_bits xor c (creg_get res) qs cs) rest draws'
            | _, _ => None
            end
        | SIfBranch cmask v =>
            match creg_get_by_mask c cmask with
            | Some got => run_blocks xor (if N.eqb got v then apply_block r o else r) c rest draws
            | None => None
            end
        | SReset qm =>
            let r1 := apply_block r o in
            let '(d, draws') := take_draw r1 qm draws in
            let '(r2, res) := reg_measure OP EPS_RESET EPS_SKIP r1 qm d in
            run_blocks xor (apply_block r2 (op_x (creg_get res))) c rest draws'
        end
    end.

  Definition sym_finish (s : sym) (draws : list N) : option sym :=
    match run_blocks (s_xor s) (s_q s) (s_c s) (blocks (s_ops s)) draws with
    | Some (r, c, _) =>
        Some {| s_xor := s_xor s; s_q := apply_block r (open (s_ops s)); s_c := c; s_ops := s_ops s |}
    | None => None
    end.

  (** pre-repair reset block: project the named qubits onto 0 and renormalise (kept for [Legacy]) *)
  Definition reset_by_mask_legacy (r : qreg F) (mask : N) : qreg F :=
    if N.eqb (N.land mask (q_mask r)) (q_mask r) then reg_reset OP r 0
    else reg_normalize OP EPS_RESET EPS_SKIP
           {| q_th := q_th r;
              q_psi := tab (length (q_psi r))
                           (fun idx => if negb (N.eqb (N.land idx mask) 0) then c0 OP else get OP (q_psi r) idx);
              q_num := q_num r; q_mask := q_mask r |}.
End Sym.
