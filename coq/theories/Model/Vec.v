(** * Vec: amplitude buffers.

    Kernels are written against the *accessor* [N -> C] of the input buffer
    (so that proofs are pointwise on functions); the executable buffers are
    lists, tied to accessors by [get]/[tab]. *)
From QV Require Export Scalar.

Section Vec.
  Context {F : Type} (OP : ops F).
  Definition vec := N -> C F.
  Definition buf := list (C F).

  Definition get (v : buf) : vec := fun i => nth (N.to_nat i) v (c0 OP).

  (** [tab len f] = every output element written exactly once from [f] *)
  Fixpoint tab_from (k : nat) (start : N) (f : vec) : buf :=
    match k with
    | O => []
    | S k' => f start :: tab_from k' (N.succ start) f
    end.
  Definition tab (len : nat) (f : vec) : buf := tab_from len 0 f.

  Definition basis (j : N) : vec := fun i => if N.eqb i j then c1 OP else c0 OP.

  Definition norm2_buf (v : buf) : F :=
    fold_left (fun acc z => fadd OP acc (cnorm2 OP z)) v (f0 OP).

  (** Σ_{i<2^n} |v i|^2 *)
  Definition norm2 (n : nat) (v : vec) : F :=
    sum2 (fadd OP) n (fun i => cnorm2 OP (v i)).
End Vec.
