(** * Spec: the documented matrices (doc tables of src/operator/mod.rs) and what
    "U on these qubits, identity elsewhere" means.  Specifications only:
    nothing here mirrors code. *)
From QV Require Export Op.

Section Spec.
  Context {F : Type} (OP : ops F).
  Local Notation C := (C F).
  Local Notation vec := (@vec F).

  (** 2x2 matrix as rows ((u00,u01),(u10,u11)); u_rc multiplies input [c] into output [r] *)
  Definition mat2 := ((C * C) * (C * C))%type.
  (** 4x4 matrix as 4 rows of 4; basis label = (bit_b, bit_a) i.e. label = bit_a + 2*bit_b *)
  Definition mat4 := list (list C).

  Definition m2_00 (U : mat2) := fst (fst U).
  Definition m2_01 (U : mat2) := snd (fst U).
  Definition m2_10 (U : mat2) := fst (snd U).
  Definition m2_11 (U : mat2) := snd (snd U).

  (** U on bit position [b], identity on all other bits *)
  Definition lift1 (U : mat2) (b : N) (psi : vec) : vec :=
    fun idx =>
      let i0 := N.clearbit idx b in
      let i1 := N.setbit idx b in
      if N.testbit idx b
      then cadd OP (cmul OP (m2_10 U) (psi i0)) (cmul OP (m2_11 U) (psi i1))
      else cadd OP (cmul OP (m2_00 U) (psi i0)) (cmul OP (m2_01 U) (psi i1)).

  Definition m4 (U : mat4) (r c : nat) : C := nth c (nth r U []) (c0 OP).

  (** index with bits [a],[b] replaced by the 2-bit label [l] (bit 0 of l -> a, bit 1 -> b) *)
  Definition put2 (idx a b : N) (l : nat) : N :=
    let i := N.clearbit (N.clearbit idx a) b in
    let i := if Nat.odd l then N.setbit i a else i in
    if Nat.odd (Nat.div2 l) then N.setbit i b else i.
  Definition label2 (idx a b : N) : nat :=
    ((if N.testbit idx a then 1 else 0) + (if N.testbit idx b then 2 else 0))%nat.

  (** U on the qubit pair (a = low label bit, b = high label bit), identity elsewhere *)
  Definition lift2 (U : mat4) (a b : N) (psi : vec) : vec :=
    fun idx =>
      let r := label2 idx a b in
      cadd OP (cadd OP (cadd OP
        (cmul OP (m4 U r 0) (psi (put2 idx a b 0)))
        (cmul OP (m4 U r 1) (psi (put2 idx a b 1))))
        (cmul OP (m4 U r 2) (psi (put2 idx a b 2))))
        (cmul OP (m4 U r 3) (psi (put2 idx a b 3))).

  (** "applies the original map where every control qubit is 1 and leaves every other basis
      state untouched" *)
  Definition ctrl_spec (c : N) (f : vec -> vec) (psi : vec) : vec :=
    fun idx => if ctrl_ok c idx then f psi idx else psi idx.

  Local Notation o := (c0 OP).
  Local Notation l := (c1 OP).
  Local Notation i := (ci OP).
  Local Notation "- x" := (cneg OP x).

  Definition doc_id : mat2 := ((l, o), (o, l)).
  Definition doc_x : mat2 := ((o, l), (l, o)).
  Definition doc_y : mat2 := ((o, - i), (i, o)).
  Definition doc_z : mat2 := ((l, o), (o, - l)).
  Definition doc_s : mat2 := ((l, o), (o, i)).
  Definition doc_sdg : mat2 := ((l, o), (o, - i)).
  (** (l+i)/sqrt 2 *)
  Definition doc_t : mat2 := ((l, o), (o, (fisq2 OP, fisq2 OP))).
  Definition doc_tdg : mat2 := ((l, o), (o, (fisq2 OP, fneg OP (fisq2 OP)))).
  Definition doc_h : mat2 :=
    (((fisq2 OP, f0 OP), (fisq2 OP, f0 OP)), ((fisq2 OP, f0 OP), (fneg OP (fisq2 OP), f0 OP))).

  Definition cosh (t : F) : F := fcos OP (fdiv OP t (f2 OP)).
  Definition sinh (t : F) : F := fsin OP (fdiv OP t (f2 OP)).
  Definition rC (x : F) : C := (x, f0 OP).
  Definition iC (x : F) : C := (f0 OP, x).

  (** RX(l) = [[cos, -i sin], [-i sin, cos]] *)
  Definition doc_rx (t : F) : mat2 :=
    ((rC (cosh t), iC (fneg OP (sinh t))), (iC (fneg OP (sinh t)), rC (cosh t))).
  (** RY(l) = [[cos, -sin], [sin, cos]] *)
  Definition doc_ry (t : F) : mat2 :=
    ((rC (cosh t), rC (fneg OP (sinh t))), (rC (sinh t), rC (cosh t))).
  (** RZ(l) = diag(e^{-il/2}, e^{il/2}) *)
  Definition doc_rz (t : F) : mat2 :=
    (((cosh t, fneg OP (sinh t)), o), (o, (cosh t, sinh t))).

  Definition doc_rxx (t : F) : mat4 :=
    let c := rC (cosh t) in let s := iC (fneg OP (sinh t)) in
    [[c; o; o; s]; [o; c; s; o]; [o; s; c; o]; [s; o; o; c]].
  Definition doc_ryy (t : F) : mat4 :=
    let c := rC (cosh t) in let s := iC (sinh t) in let ms := iC (fneg OP (sinh t)) in
    [[c; o; o; s]; [o; c; ms; o]; [o; ms; c; o]; [s; o; o; c]].
  Definition doc_rzz (t : F) : mat4 :=
    let a := (cosh t, fneg OP (sinh t)) in let b := (cosh t, sinh t) in
    [[a; o; o; o]; [o; b; o; o]; [o; o; b; o]; [o; o; o; a]].

  Definition doc_swap : mat4 := [[l; o; o; o]; [o; o; l; o]; [o; l; o; o]; [o; o; o; l]].
  Definition doc_iswap : mat4 := [[l; o; o; o]; [o; o; i; o]; [o; i; o; o]; [o; o; o; l]].
  Definition doc_iswap_dg : mat4 := [[l; o; o; o]; [o; o; - i; o]; [o; - i; o; o]; [o; o; o; l]].
  (** (l+i)/2, (l-i)/2 *)
  Definition hp : C := (fhalf OP, fhalf OP).
  Definition hm : C := (fhalf OP, fneg OP (fhalf OP)).
  Definition doc_sqrt_swap : mat4 := [[l; o; o; o]; [o; hp; hm; o]; [o; hm; hp; o]; [o; o; o; l]].
  Definition doc_sqrt_swap_dg : mat4 := [[l; o; o; o]; [o; hm; hp; o]; [o; hp; hm; o]; [o; o; o; l]].
  Definition doc_sqrt_iswap : mat4 :=
    let r := rC (fisq2 OP) in let j := iC (fisq2 OP) in
    [[l; o; o; o]; [o; r; j; o]; [o; j; r; o]; [o; o; o; l]].
  Definition doc_sqrt_iswap_dg : mat4 :=
    let r := rC (fisq2 OP) in let j := iC (fneg OP (fisq2 OP)) in
    [[l; o; o; o]; [o; r; j; o]; [o; j; r; o]; [o; o; o; l]].

  (** conjugate transpose *)
  Definition dagger2 (U : mat2) : mat2 :=
    ((cconj OP (m2_00 U), cconj OP (m2_10 U)), (cconj OP (m2_01 U), cconj OP (m2_11 U))).
End Spec.
