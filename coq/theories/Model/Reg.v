(** * Reg: the quantum register (src/register/quant.rs, after the repairs of set_num,
    measure_mask and sample_all) *)
From Coq Require Import ZArith.
From QV Require Export Op CVReg.
Open Scope N_scope.

Section Reg.
  Context {F : Type} (OP : ops F).
  Local Notation C := (C F).
  Local Notation buf := (@buf F).

  Definition MIN_BUFFER_LEN : nat := 8.

  Record qreg := mkQReg {
    q_th : N;          (* threading model: 1 = Single, k > 1 = Multi(k) *)
    q_psi : buf;       (* amplitude buffer, max(2^n, 8) cells; cells >= 2^n are padding *)
    q_num : N;
    q_mask : N;
  }.

  Definition qsize (n : N) : nat := Nat.pow 2 (N.to_nat n).
  Definition blen (n : N) : nat := Nat.max (qsize n) MIN_BUFFER_LEN.
  Definition mask_n (n : N) : N := N.ones n.

  Definition zeros (len : nat) : buf := repeat (c0 OP) len.
  (** a buffer of [len] zeros with a one at [j] (nothing when [j] is out of range) *)
  Definition one_at (len : nat) (j : N) : buf := tab len (basis OP j).

  Definition reg_with_state (n st : N) : qreg :=
    {| q_th := 1; q_psi := one_at (blen n) (N.land st (mask_n n)); q_num := n; q_mask := mask_n n |}.
  Definition reg_new (n : N) : qreg := reg_with_state n 0.

  (** [reset(i)] *)
  Definition reg_reset (r : qreg) (i : N) : qreg :=
    {| q_th := q_th r; q_psi := one_at (length (q_psi r)) (N.land (q_mask r) i);
       q_num := q_num r; q_mask := q_mask r |}.

  (** [Vec::resize(len, 0)] *)
  Definition resize (v : buf) (len : nat) : buf :=
    firstn len v ++ zeros (len - length v).

  (** [set_num] (repaired: compares before assigning, keeps the 8-entry minimum) *)
  Definition reg_set_num (r : qreg) (n : N) : qreg :=
    let shrink := N.ltb n (q_num r) in
    let r' := {| q_th := q_th r; q_psi := resize (q_psi r) (blen n); q_num := n; q_mask := mask_n n |} in
    if shrink then reg_reset r' 0 else r'.

  (** pre-repair [set_num]: [q_num] assigned before the comparison (never resets), buffer
      resized to 2^n without the minimum (kept for [Legacy]) *)
  Definition reg_set_num_legacy (r : qreg) (n : N) : qreg :=
    {| q_th := q_th r; q_psi := resize (q_psi r) (qsize n); q_num := n; q_mask := mask_n n |}.

  Definition reg_apply (r : qreg) (q : multi F) : qreg :=
    {| q_th := q_th r; q_psi := multi_apply OP q (q_psi r); q_num := q_num r; q_mask := q_mask r |}.

  (** [iter().map(norm_sqr).sum()] over the whole buffer *)
  Definition reg_absolute (r : qreg) : F := norm2_buf OP (q_psi r).

  (** [get_probabilities]: |psi_i|^2 * (1 / total), first 2^n cells *)
  Definition reg_probabilities (r : qreg) : list F :=
    let inv := fdiv OP (f1 OP) (reg_absolute r) in
    map (fun z => fmul OP (cnorm2 OP z) inv) (firstn (qsize (q_num r)) (q_psi r)).

  Definition scale_buf (v : buf) (t : F) : buf := map (fun z => cscale OP z t) v.

  Variables (EPS_RESET EPS_SKIP : F).   (* 1e-15 and 1e-9 *)

  (** [normalize] *)
  Definition reg_normalize (r : qreg) : qreg :=
    let norm := fsqrt OP (reg_absolute r) in
    if fleb OP norm EPS_RESET then reg_reset r 0
    else if fleb OP (fsub OP (f1 OP) norm) EPS_SKIP then r
    else {| q_th := q_th r; q_psi := scale_buf (q_psi r) (fdiv OP (f1 OP) norm);
            q_num := q_num r; q_mask := q_mask r |}.

  (** [collapse_mask(idy, mask)]: zero every cell with [(idx ^ idy) & mask != 0] *)
  Definition collapse_buf (v : buf) (idy mask : N) : buf :=
    tab (length v) (fun idx => if negb (N.eqb (N.land (N.lxor idx idy) mask) 0) then c0 OP else get OP v idx).

  Definition reg_collapse (r : qreg) (idy mask : N) : qreg :=
    {| q_th := q_th r; q_psi := collapse_buf (q_psi r) idy mask; q_num := q_num r; q_mask := q_mask r |}.

  (** [measure_mask(mask)] with the drawn index given (only [drawn & mask] matters).
      Returns the register and the classical result. *)
  Definition reg_measure (r : qreg) (mask drawn : N) : qreg * creg :=
    let m := N.land mask (q_mask r) in
    if N.eqb m 0 then (r, creg_new (q_num r))
    else (reg_normalize (reg_collapse r drawn m), creg_with_state (q_num r) (N.land drawn m)).

  (** pre-repair [measure_mask]: no renormalisation (kept for [Legacy]) *)
  Definition reg_measure_legacy (r : qreg) (mask drawn : N) : qreg * creg :=
    let m := N.land mask (q_mask r) in
    if N.eqb m 0 then (r, creg_new (q_num r))
    else (reg_collapse r drawn m, creg_with_state (q_num r) (N.land drawn m)).

  Definition th_and (a b : N) : N := N.max a b.

  (** [tensor_prod]: left factor in the low bits *)
  Definition reg_tensor (a b : qreg) : qreg :=
    let n := q_num a + q_num b in
    let size := N.of_nat (qsize n) in
    {| q_th := th_and (q_th a) (q_th b);
       q_psi := tab (blen n)
                    (fun idx => if N.ltb idx size
                                then cmul OP (get OP (q_psi a) (N.land idx (q_mask a)))
                                             (get OP (q_psi b) (N.land (N.shiftr idx (q_num a)) (q_mask b)))
                                else c0 OP);
       q_num := n; q_mask := mask_n n |}.

  (** ** [sample_all] (repaired), with the vector [nv_i = sqrt(p_i) * g_i] of scaled normal
      draws given *)
  Definition sum_list (l : list F) : F := fold_left (fadd OP) l (f0 OP).

  (** [x.round() as isize]: the cast saturates at the largest machine integer (only reached by shot counts of
      2^63 and more); the lower end is covered by [max(0)] *)
  Definition sat63 (z : Z) : Z := Z.min z (2 ^ 63 - 1).

  Definition raw_cells (p nv : list F) (count : N) : list N :=
    let c := fofN OP count in
    let c_sqrt := fsqrt OP c in
    let n_sum := sum_list nv in
    map (fun pn : F * F =>
           let '(pi, ni) := pn in
           let x := fadd OP (fmul OP c pi) (fmul OP c_sqrt (fsub OP ni (fmul OP n_sum pi))) in
           Z.to_N (Z.max (sat63 (fround OP x)) 0))
        (combine p nv).

  Definition sumN (l : list N) : N := fold_left N.add l 0.

  (** deficit: spread over the cells with p > 0 (in index order) *)
  Fixpoint add_deficit (cells : list N) (p : list F) (q r : N) (k : N) : list N :=
    match cells, p with
    | c :: cs, pi :: ps =>
        if fltb OP (f0 OP) pi
        then (c + q + (if N.ltb k r then 1 else 0)) :: add_deficit cs ps q r (N.succ k)
        else c :: add_deficit cs ps q r k
    | _, _ => cells
    end.

  (** surplus: round-robin over the cells, skipping empty ones ([for idx in 0..] with fuel) *)
  Fixpoint set_nth (l : list N) (i : nat) (v : N) : list N :=
    match l, i with
    | [], _ => []
    | _ :: t, O => v :: t
    | h :: t, S j => h :: set_nth t j v
    end.
  Fixpoint remove_surplus (fuel : nat) (cells : list N) (delta idx mask : N) : option (list N) :=
    match fuel with
    | O => None
    | S fuel' =>
        if N.eqb delta 0 then Some cells
        else
          let i := N.to_nat (N.land idx mask) in
          let c := nth i cells 0 in
          if N.eqb c 0 then remove_surplus fuel' cells delta (N.succ idx) mask
          else remove_surplus fuel' (set_nth cells i (c - 1)) (delta - 1) (N.succ idx) mask
    end.

  Definition count_pos (p : list F) : N :=
    fold_left (fun a pi => if fltb OP (f0 OP) pi then N.succ a else a) p 0.

  (** the correction of the rounded cells to the exact total; [None] = out of fuel in the surplus loop
      (excluded by theorem) *)
  Definition correct_cells (p : list F) (cells : list N) (count q_mask : N) : option (list N) :=
    let total := sumN cells in
    if N.ltb total count then
      let d := count - total in
      let possible := N.max (count_pos p) 1 in
      Some (add_deficit cells p (d / possible) (d mod possible) 0)
    else if N.ltb count total then
      (* every sweep over the 2^n cells removes at least one shot *)
      remove_surplus (N.to_nat ((total - count + 1) * (N.of_nat (length cells) + 1)))
                     cells (total - count) 0 q_mask
    else Some cells.

  Definition sample_cells (p nv : list F) (count q_mask : N) : option (list N) :=
    correct_cells p (raw_cells p nv count) count q_mask.

  Definition reg_sample_all (r : qreg) (count : N) (nv : list F) : option (list N) :=
    sample_cells (reg_probabilities r) nv count (q_mask r).

  (** [num_threads(k)] against the number of threads the machine offers *)
  Definition reg_num_threads (r : qreg) (k avail : N) : option qreg :=
    if N.eqb k 0 || N.ltb avail k then None
    else Some {| q_th := k; q_psi := q_psi r; q_num := q_num r; q_mask := q_mask r |}.
End Reg.

Arguments qreg F : clear implicits.
