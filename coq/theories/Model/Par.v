(** * Par: what a rayon sweep / reduction may do, abstractly.

    A parallel sweep ([for_each_par], [par_iter_mut().enumerate().for_each], a parallel
    [collect]) is *some* sequence of single-cell writes [buf[i] := f i], one per index, in an
    order and chunking chosen by the runtime, into a buffer with arbitrary initial content;
    [f] reads only the immutable input.  A parallel reduction is *some* bracketing of *some*
    ordering of the summands. *)
From QV Require Export Vec.

Section Par.
  Context {A : Type}.

  Fixpoint write (b : list A) (i : nat) (v : A) : list A :=
    match b, i with
    | [], _ => []
    | _ :: t, O => v :: t
    | h :: t, S j => h :: write t j v
    end.

  (** executing the writes of a schedule (any order; chunks are just a way of cutting it) *)
  Definition par_sweep (sched : list nat) (init : list A) (f : nat -> A) : list A :=
    fold_left (fun b i => write b i (f i)) sched init.

  Definition seq_sweep (len : nat) (f : nat -> A) : list A := map f (seq 0 len).

  (** a reduction tree over summands *)
  Inductive rtree := Leaf (x : A) | Node (l r : rtree) | Empty.
  Fixpoint flatten (t : rtree) : list A :=
    match t with Leaf x => [x] | Node l r => flatten l ++ flatten r | Empty => [] end.
  Fixpoint reduce (zero : A) (add : A -> A -> A) (t : rtree) : A :=
    match t with Leaf x => x | Node l r => add (reduce zero add l) (reduce zero add r) | Empty => zero end.
End Par.
