(** * Op: single operators (kernel + controls), products (queues), constructors
    (src/operator: mod.rs, applicable.rs, single, multi) *)
From QV Require Export Atomic.

Section Op.
  Context {F : Type} (OP : ops F).
  Local Notation C := (C F).
  Local Notation vec := (@vec F).
  Local Notation buf := (@buf F).
  Local Notation atomic := (atomic F).

  Record single := mkSingle { s_act : N; s_ctrl : N; s_func : atomic }.
  Definition multi := list single.

  (** [impl From<Op: AtomicOp> for SingleOp] *)
  Definition single_of (g : atomic) : single :=
    {| s_act := acts_on g; s_ctrl := 0; s_func := g |}.

  (** [AtomicOp::for_each] as a pointwise function of the input accessor:
      kernel where every control bit is 1 ([!idx & ctrl == 0]), copy otherwise *)
  Definition single_fn (s : single) (psi : vec) : vec :=
    fun idx =>
      if N.eqb (s_ctrl s) 0 then kernel OP (s_func s) psi idx
      else if ctrl_ok (s_ctrl s) idx then kernel OP (s_func s) psi idx
      else psi idx.

  Definition multi_fn (ops : multi) (psi : vec) : vec :=
    fold_left (fun v s => single_fn s v) ops psi.

  (** executable sweep over a buffer: every output cell written once *)
  Definition single_apply (s : single) (v : buf) : buf :=
    tab (length v) (single_fn s (get OP v)).

  (** [MultiOp::apply] with its two buffers and swaps.  [out] is the caller's
      output buffer (arbitrary content, as [set_len] leaves it); the result is
      (what ends in [psi_o], what ends in the local [psi_i]). *)
  Fixpoint pingpong (ops : multi) (psi_i psi_o : buf) : buf * buf :=
    match ops with
    | [] => (psi_i, psi_o)           (* final swap *)
    | s :: rest =>
        (* op.apply(&psi_i, psi_o): psi_o overwritten; then swap *)
        let written := tab (length psi_o) (single_fn s (get OP psi_i)) in
        pingpong rest written psi_i
    end.
  Definition multi_apply_buffers (ops : multi) (input out : buf) : buf :=
    fst (pingpong ops input out).

  (** the straightforward meaning *)
  Definition multi_apply (ops : multi) (v : buf) : buf :=
    fold_left (fun v s => single_apply s v) ops v.

  Definition single_act_on (s : single) : N := N.lor (s_act s) (s_ctrl s).
  Definition multi_act_on (ops : multi) : N :=
    fold_left (fun a s => N.lor a (single_act_on s)) ops 0.

  Definition single_dgr (s : single) : single :=
    {| s_act := s_act s; s_ctrl := s_ctrl s; s_func := atomic_dgr OP (s_func s) |}.
  Definition multi_dgr (ops : multi) : multi := rev (map single_dgr ops).

  Definition single_dgr_legacy (s : single) : single :=
    {| s_act := s_act s; s_ctrl := s_ctrl s; s_func := atomic_dgr_legacy OP (s_func s) |}.
  Definition multi_dgr_legacy (ops : multi) : multi := rev (map single_dgr_legacy ops).

  Definition single_c (s : single) (c : N) : option single :=
    if negb (N.eqb (N.land (single_act_on s) c) 0) then None
    else Some {| s_act := s_act s; s_ctrl := N.lor (s_ctrl s) c; s_func := s_func s |}.

  Definition single_c_unchecked (s : single) (c : N) : single :=
    {| s_act := s_act s; s_ctrl := N.lor (s_ctrl s) c; s_func := s_func s |}.

  Definition multi_c (ops : multi) (c : N) : option multi :=
    if negb (N.eqb (N.land (multi_act_on ops) c) 0) then None
    else Some (map (fun s => single_c_unchecked s c) ops).

  (** [impl From<SingleOp> for MultiOp]: an [Id] gate is dropped
      (name() != "Id": an uncontrolled identity kernel) *)
  Definition multi_of_single (s : single) : multi :=
    match s_func s with
    | AId => if N.eqb (s_ctrl s) 0 then [] else [s]
    | _ => [s]
    end.

  (** [single_op_checked!] *)
  Definition checked (g : atomic) : option single :=
    if is_valid OP g then Some (single_of g) else None.

  (** ** constructors of [operator/mod.rs]; [None] = the documented
      [expect("Mask should contain k bit!")] panic *)
  Definition lift (o : option single) : option multi :=
    match o with Some s => Some (multi_of_single s) | None => None end.

  Definition op_id : multi := [].
  Definition op_x (m : N) : multi := multi_of_single (single_of (AX m)).
  Definition op_y (m : N) : multi := multi_of_single (single_of (AY m)).
  Definition op_z (m : N) : multi := multi_of_single (single_of (AZ m)).
  Definition op_s (m : N) : multi := multi_of_single (single_of (AS m false)).
  Definition op_t (m : N) : multi := multi_of_single (single_of (AT m false)).
  Definition op_rx (t : F) (m : N) := lift (checked (ARX m (half_phase OP t))).
  Definition op_ry (t : F) (m : N) := lift (checked (ARY m (half_phase OP t))).
  Definition op_rz (t : F) (m : N) := lift (checked (ARZ m (half_phase OP t))).
  Definition op_rxx (t : F) (m : N) := lift (checked (ARXX m (half_phase_mul OP t))).
  Definition op_ryy (t : F) (m : N) := lift (checked (ARYY m (half_phase OP t))).
  Definition op_rzz (t : F) (m : N) := lift (checked (ARZZ m (half_phase OP t))).
  Definition op_swap (m : N) := lift (checked (ASwap m)).
  Definition op_i_swap (m : N) := lift (checked (AISwap m false)).
  Definition op_sqrt_swap (m : N) := lift (checked (ASqrtSwap m false)).
  Definition op_sqrt_i_swap (m : N) := lift (checked (ASqrtISwap m false)).

  (** multi/h.rs: the walking loop pairs up the set bits; [h2(idx.0, idx.1)]
      has the *later* bit first *)
  Fixpoint h_pairs (bits : list N) : multi :=
    match bits with
    | [] => []
    | [b] => [single_of (AH1 b)]
    | b1 :: b2 :: rest => single_of (AH2 b2 b1) :: h_pairs rest
    end.
  Definition op_h (m : N) : option multi :=
    match popcount m with
    | 0 => Some []
    | 1 => Some (multi_of_single (single_of (AH1 m)))
    | _ => match walk_bits FUEL m 1 with
           | Some bits => Some (h_pairs bits)
           | None => None            (* out of fuel: excluded by theorem *)
           end
    end.

  Definition opt_app (a b : option multi) : option multi :=
    match a, b with Some x, Some y => Some (x ++ y) | _, _ => None end.

  Definition op_u1 (lam : F) (m : N) := op_rz lam m.
  Definition op_u2 (phi lam : F) (m : N) :=
    opt_app (opt_app (op_rz lam m) (op_ry (fdiv OP (fpi OP) (f2 OP)) m)) (op_rz phi m).
  Definition op_u3 (the phi lam : F) (m : N) :=
    opt_app (opt_app (op_rz lam m) (op_ry the m)) (op_rz phi m).

  (** crate-private [phase_shift(lam, mask)] = diag(1, e^{i lam}) through the
      matrix gate (introduced by the QFT / cu1 repair) *)
  Definition op_phase_shift (lam : F) (m : N) : option multi :=
    lift (checked (AU1 m [c1 OP; c0 OP; c0 OP; from_polar1 OP lam])).

  (** [0.5f64.powi(j)] *)
  Fixpoint half_pow (j : nat) : F :=
    match j with O => f1 OP | S k => fmul OP (fhalf OP) (half_pow k) end.

  (** multi/qft.rs *)
  Definition opt_c (o : option multi) (c : N) : option multi :=
    match o with Some x => multi_c x c | None => None end.

  Fixpoint qft_rots (ctrl : N) (targets : list N) (j : nat) : option multi :=
    match targets with
    | [] => Some []
    | t :: rest =>
        opt_app (opt_c (op_phase_shift (fmul OP (fpi OP) (half_pow j)) t) ctrl)
                (qft_rots ctrl rest (S j))
    end.
  Fixpoint qft_stages (bits : list N) : option multi :=
    match bits with
    | [] => Some []
    | [b] => op_h b
    | b :: rest => opt_app (opt_app (op_h b) (qft_rots b rest 1)) (qft_stages rest)
    end.
  Definition op_qft (m : N) : option multi :=
    match popcount m with
    | 0 => Some []
    | 1 => op_h m
    | _ => qft_stages (scan64 m)
    end.

  Fixpoint swap_pairs (l : list N) (k : nat) : option multi :=
    match k with
    | O => Some []
    | S k' =>
        match l with
        | [] => Some []
        | a :: rest =>
            match rev rest with
            | [] => Some []
            | z :: mid_rev =>
                opt_app (op_swap (N.lor a z)) (swap_pairs (rev mid_rev) k')
            end
        end
    end.
  Definition op_qft_swapped (m : N) : option multi :=
    match walk_bits FUEL m 1 with
    | Some bits => opt_app (swap_pairs bits (Nat.div2 (length bits))) (op_qft m)
    | None => None
    end.

  (** [Applicable::matrix(size)]: column [j] = apply to basis [j], then transpose *)
  Definition matrix (ops : multi) (n : nat) : list (list C) :=
    let size := Nat.pow 2 n in
    let cols := map (fun j => multi_apply ops (tab size (basis OP (N.of_nat j)))) (seq 0 size) in
    map (fun i => map (fun col => nth i col (c0 OP)) cols) (seq 0 size).
End Op.

Arguments single F : clear implicits.
Arguments multi F : clear implicits.
