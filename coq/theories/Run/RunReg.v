(** entry points for the `reg` engine: a history of public operations on one register *)
From Coq Require Import Floats ZArith.
From QV Require Export Runner Reg.

Definition EPS15 : Fl := 0x1.203af9ee75616p-50%float.   (* 1e-15 *)
Definition EPS9 : Fl := 0x1.12e0be826d695p-30%float.    (* 1e-9 *)

Inductive action :=
| ANew (n : N)
| AWith (n st : N)
| ARaw (n : N) (raw : list (C Fl))
| AApply (e : fexpr)
| AMeasure (mask outcome : N)
| ATensorR (n2 : N) (raw2 : list (C Fl))     (* self * other *)
| ATensorL (n2 : N) (raw2 : list (C Fl))     (* other * self *)
| ASetNum (k : N)
| ASample (count : N) (nv : list Fl)
| AProbs
| AAbs
| ADump
| AView (mask : N)       (* get_vreg_by(mask): the view's full range, if the view exists *)
| AViewAll.             (* get_vreg()[..] and num() *)

Inductive rec :=
| RDump (n : N) (buf : list (C Fl))
| RMeas (v : N)
| RHist (cells : list N)
| RProbs (p : list Fl)
| RAbs (a : Fl)
| RView (v : option N)
| RViewAll (v : option N) (num : N)
| RStop (why : N).       (* 1 = refused .c(), 2 = constructor panic, 3 = out of fuel *)

Definition mk_raw (n : N) (raw : list (C Fl)) : qreg Fl :=
  {| q_th := 1; q_psi := raw; q_num := n; q_mask := mask_n n |}.

Fixpoint run_actions (r : qreg Fl) (acts : list action) : list rec :=
  match acts with
  | [] => []
  | a :: rest =>
      match a with
      | ANew n => run_actions (reg_new Fops n) rest
      | AWith n st => run_actions (reg_with_state Fops n st) rest
      | ARaw n raw => run_actions (mk_raw n raw) rest
      | AApply e =>
          match eval Fops e with
          | ROk q => run_actions (reg_apply Fops r q) rest
          | RRefused => [RStop 1]
          | RPanic k => [RStop (if N.eqb k 3 then 3 else 2)]
          end
      | AMeasure mask outcome =>
          let '(r', c) := reg_measure Fops EPS15 EPS9 r mask outcome in
          RMeas (creg_get c) :: run_actions r' rest
      | ATensorR n2 raw2 => run_actions (reg_tensor Fops r (mk_raw n2 raw2)) rest
      | ATensorL n2 raw2 => run_actions (reg_tensor Fops (mk_raw n2 raw2) r) rest
      | ASetNum k => run_actions (reg_set_num Fops r k) rest
      | ASample count nv =>
          match reg_sample_all Fops r count nv with
          | Some cells => RHist cells :: run_actions r rest
          | None => [RStop 3]
          end
      | AProbs => RProbs (reg_probabilities Fops r) :: run_actions r rest
      | AAbs => RAbs (reg_absolute Fops r) :: run_actions r rest
      | ADump => RDump (q_num r) (q_psi r) :: run_actions r rest
      | AView mask =>
          RView (match get_vreg_by (q_mask r) mask with Some (Some v) => Some (vreg_all v) | _ => None end)
          :: run_actions r rest
      | AViewAll =>
          RViewAll (match vreg_of_mask (q_mask r) with Some v => Some (vreg_all v) | None => None end) (q_num r)
          :: run_actions r rest
      end
  end.

Definition run_reg (acts : list action) : list rec := run_actions (reg_new Fops 0) acts.

(** `sampler` engine: index selected by WeightedIndex for the uniform draw [chosen] *)
From QV Require Import Sampler.
Definition run_wsample (w : list Fl) (chosen : Fl) : option nat :=
  if weights_ok Fops w then Some (sample Fops w chosen) else None.
