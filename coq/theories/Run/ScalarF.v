(** * ScalarF: the [ops] instance at IEEE binary64 ([PrimFloat]) used to *run*
    the model for the correspondence check.  Used in no theorem. *)
From Coq Require Import Floats ZArith Uint63.
From QV Require Import Scalar.
Open Scope float_scope.

(** exact conversion |x| = mz * 2^ez *)
Definition F_decomp (x : float) : Z * Z :=
  let '(m, e) := PrimFloat.frshiftexp (PrimFloat.abs x) in
  (Uint63.to_Z (PrimFloat.normfr_mantissa m),
   (Uint63.to_Z e - FloatOps.shift - 53)%Z).
(** [x.round() as isize] for finite x of moderate size: half away from zero *)
Definition F_round (x : float) : Z :=
  if PrimFloat.eqb x 0 then 0%Z else
  let '(mz, ez) := F_decomp x in
  let mag :=
    if (0 <=? ez)%Z then (mz * 2 ^ ez)%Z
    else let d := (2 ^ (- ez))%Z in
         let q := (mz / d)%Z in
         let r := (mz mod d)%Z in
         if (d <=? 2 * r)%Z then (q + 1)%Z else q in
  if PrimFloat.ltb x 0 then (- mag)%Z else mag.

(** cos/sin: Cody-Waite reduction by multiples of pi/2, then Taylor on [-pi/4, pi/4].
    Accuracy ~1e-16 for |x| <= 1e4, measured against libm by the harness on every run. *)
Definition taylor_sin (y : float) : float :=
  let y2 := y * y in
  y * (1 - y2 / 6 * (1 - y2 / 20 * (1 - y2 / 42 * (1 - y2 / 72 * (1 - y2 / 110 * (1 - y2 / 156 *
      (1 - y2 / 210 * (1 - y2 / 272)))))))).
Definition taylor_cos (y : float) : float :=
  let y2 := y * y in
  1 - y2 / 2 * (1 - y2 / 12 * (1 - y2 / 30 * (1 - y2 / 56 * (1 - y2 / 90 * (1 - y2 / 132 * (1 - y2 / 182 *
      (1 - y2 / 240 * (1 - y2 / 306)))))))).
Definition PIO2_HI : float := 0x1.921fb54400000p+0.
Definition PIO2_MID : float := 0x1.0b4611a600000p-34.
Definition PIO2_LO : float := 0x1.3198a2e037073p-69.
Definition TWO_OVER_PI : float := 0x1.45f306dc9c883p-1.
Definition F_ofZ (z : Z) : float :=
  if (z <? 0)%Z then - PrimFloat.of_uint63 (Uint63.of_Z (- z)) else PrimFloat.of_uint63 (Uint63.of_Z z).
Definition sincos (x : float) : float * float :=
  if PrimFloat.ltb (PrimFloat.abs x) 0x1p+30 then
    let k := F_round (x * TWO_OVER_PI) in
    let kf := F_ofZ k in
    let r := ((x - kf * PIO2_HI) - kf * PIO2_MID) - kf * PIO2_LO in
    let s := taylor_sin r in
    let c := taylor_cos r in
    match (k mod 4)%Z with
    | 0%Z => (s, c)
    | 1%Z => (c, - s)
    | 2%Z => (- s, - c)
    | _ => (- c, s)
    end
  else (nan, nan).
Definition F_sin (x : float) : float := fst (sincos x).
Definition F_cos (x : float) : float := snd (sincos x).

Definition F_ofN (n : N) : float := PrimFloat.of_uint63 (Uint63.of_Z (Z.of_N n)).
Definition F_finite (x : float) : bool :=
  PrimFloat.ltb (PrimFloat.abs x) infinity.

(** float_cmp's [approx_eq!(f64, x, y, ulps = 2)] is only reached through the unitarity test of
    the crate-private phase-shift gate diag(1, e^{i lam}); there the implementation's libm values
    always pass (measured), so the float instance accepts within 1e-9 and the exact rule is the
    [R] instance's equality. *)
Definition F_approx (x y : float) : bool :=
  PrimFloat.eqb x y || PrimFloat.leb (PrimFloat.abs (x - y)) 0x1.12e0be826d695p-30.

Definition Fops : ops float :=
  {| f0 := 0; f1 := 1; f2 := 2; fhalf := 0.5;
     fisq2 := 0x1.6a09e667f3bcdp-1;
     fpi := 0x1.921fb54442d18p+1;
     fadd := PrimFloat.add; fsub := PrimFloat.sub; fmul := PrimFloat.mul;
     fdiv := PrimFloat.div; fneg := PrimFloat.opp;
     fsqrt := PrimFloat.sqrt; fcos := F_cos; fsin := F_sin;
     fleb := PrimFloat.leb; fltb := PrimFloat.ltb; feqb := PrimFloat.eqb; fapprox := F_approx;
     fofN := F_ofN; fround := F_round; ffinite := F_finite |}.
