(** * ScalarF: the [ops] instance at IEEE binary64 ([PrimFloat]) used to *run*
    the model for the correspondence check.  Used in no theorem. *)
From Coq Require Import Floats ZArith Uint63.
From QV Require Import Scalar.
Open Scope float_scope.

(** exact conversion |x| = mz * 2^ez *)
Definition F_decomp (x : float) : Z * Z :=
  let '(m, e) := PrimFloat.frshiftexp (PrimFloat.abs x) in
  (Uint63.to_Z (PrimFloat.normfr_mantissa m),
   (Uint63.to_Z e - FloatOps.shift - 53)%Z).
(** [x.round() as isize] for finite x of moderate size: half away from zero *)
Definition F_round (x : float) : Z :=
  if PrimFloat.eqb x 0 then 0%Z else
  let '(mz, ez) := F_decomp x in
  let mag :=
    if (0 <=? ez)%Z then (mz * 2 ^ ez)%Z
    else let d := (2 ^ (- ez))%Z in
         let q := (mz / d)%Z in
         let r := (mz mod d)%Z in
         if (d <=? 2 * r)%Z then (q + 1)%Z else q in
  if PrimFloat.ltb x 0 then (- mag)%Z else mag.

(** cos/sin: Cody-Waite reduction by multiples of pi/2, then Taylor on [-pi/4, pi/4].
    Accuracy ~1e-16 for |x| <= 1e4, measured against libm by the harness on every run. *)
Definition taylor_sin (y : float) : float :=
  let y2 := y * y in
  y * (1 - y2 / 6 * (1 - y2 / 20 * (1 - y2 / 42 * (1 - y2 / 72 * (1 - y2 / 110 * (1 - y2 / 156 *
      (1 - y2 / 210 * (1 - y2 / 272)))))))).
Definition taylor_cos (y : float) : float :=
  let y2 := y * y in
  1 - y2 / 2 * (1 - y2 / 12 * (1 - y2 / 30 * (1 - y2 / 56 * (1 - y2 / 90 * (1 - y2 / 132 * (1 - y2 / 182 *
      (1 - y2 / 240 * (1 - y2 / 306)))))))).
Definition PIO2_HI : float := 0x1.921fb54400000p+0.
Definition PIO2_MID : float := 0x1.0b4611a600000p-34.
Definition PIO2_LO : float := 0x1.3198a2e037073p-69.
Definition TWO_OVER_PI : float := 0x1.45f306dc9c883p-1.
Definition F_ofZ (z : Z) : float :=
  if (z <? 0)%Z then - PrimFloat.of_uint63 (Uint63.of_Z (- z)) else PrimFloat.of_uint63 (Uint63.of_Z z).
Fixpoint pow2_pos (k : nat) (acc : float) : float :=
  match k with O => acc | S k' => pow2_pos k' (acc * 2) end.
Definition F_pow2Z (k : Z) : float :=
  if (0 <=? k)%Z then pow2_pos (Z.to_nat k) 1 else 1 / pow2_pos (Z.to_nat (- k)) 1.
(** exact argument reduction for large arguments: x = m 2^e exactly, pi to 200 bits, the remainder
    x - k pi/2 computed in integer arithmetic (2^-260 units) and converted back *)
Definition PI_Q200 : Z := 5048344754617993871973410141242436836214643421488662971535368%Z.
Definition Z_to_float_scaled (r : Z) (scale : Z) : float :=
  (* r * 2^(-scale), keeping the 62 leading bits of r *)
  let a := Z.abs r in
  let bits := Z.log2 a in
  let sh := Z.max 0 (bits - 61) in
  let top := Z.shiftr a sh in
  let v := PrimFloat.of_uint63 (Uint63.of_Z top) * F_pow2Z (sh - scale) in
  if (r <? 0)%Z then - v else v.
Definition reduce_big (x : float) : Z * float :=
  let '(mz, ez) := F_decomp x in
  let X := (mz * 2 ^ (ez + 260))%Z in              (* |x| in 2^-260 units; ez + 260 > 0 for |x| >= 1 *)
  let P := (PI_Q200 * 2 ^ 59)%Z in                 (* pi/2 in 2^-260 units *)
  let k := ((2 * X + P) / (2 * P))%Z in
  let R := (X - k * P)%Z in
  let r := Z_to_float_scaled R 260 in
  if PrimFloat.ltb x 0 then ((- k)%Z, - r) else (k, r).

Definition sincos (x : float) : float * float :=
  if PrimFloat.ltb (PrimFloat.abs x) 0x1p+60 then
    let '(k, r) :=
      if PrimFloat.ltb (PrimFloat.abs x) 0x1p+18 then
        let k := F_round (x * TWO_OVER_PI) in
        let kf := F_ofZ k in
        (k, ((x - kf * PIO2_HI) - kf * PIO2_MID) - kf * PIO2_LO)
      else reduce_big x in
    let s := taylor_sin r in
    let c := taylor_cos r in
    match (k mod 4)%Z with
    | 0%Z => (s, c)
    | 1%Z => (c, - s)
    | 2%Z => (- s, - c)
    | _ => (- c, s)
    end
  else (nan, nan).
Definition F_sin (x : float) : float := fst (sincos x).
Definition F_cos (x : float) : float := snd (sincos x).

(** [n as f64] for a machine word: exact conversion of a 63-bit integer; a 64-bit one is split into its upper 32
    bits (scaled exactly) and the rest, and the one addition rounds to nearest-even like the hardware conversion *)
Definition F_ofN (n : N) : float :=
  if (n <? 2 ^ 63)%N then PrimFloat.of_uint63 (Uint63.of_Z (Z.of_N n))
  else PrimFloat.of_uint63 (Uint63.of_Z (Z.of_N (n / 2 ^ 32))) * 0x1p+32
       + PrimFloat.of_uint63 (Uint63.of_Z (Z.of_N (n mod 2 ^ 32))).
Definition F_finite (x : float) : bool :=
  PrimFloat.ltb (PrimFloat.abs x) infinity.

(** exp / ln / powf / floor / ceil / round at binary64, accurate to ~1e-14 relative (measured
    against libm by the harness); only used to evaluate parameter expressions of QASM programs *)
Definition LN2_HI : float := 0x1.62e42fee00000p-1.
Definition LN2_LO : float := 0x1.a39ef35793c76p-33.
Definition INV_LN2 : float := 0x1.71547652b82fep+0.
Definition F_exp (x : float) : float :=
  if PrimFloat.ltb 709 x then infinity else if PrimFloat.ltb x (-745) then 0 else
  let k := F_round (x * INV_LN2) in
  let kf := F_ofZ k in
  let r := (x - kf * LN2_HI) - kf * LN2_LO in
  let t := 1 + r * (1 + r / 2 * (1 + r / 3 * (1 + r / 4 * (1 + r / 5 * (1 + r / 6 * (1 + r / 7 * (1 + r / 8 *
           (1 + r / 9 * (1 + r / 10 * (1 + r / 11 * (1 + r / 12 * (1 + r / 13)))))))))))) in
  t * F_pow2Z k.
(** ln x = e ln 2 + 2 atanh((m-1)/(m+1)) with x = m 2^e, m in [sqrt(1/2), sqrt 2) *)
Definition F_ln (x : float) : float :=
  if PrimFloat.ltb x 0 then nan else if PrimFloat.eqb x 0 then neg_infinity else
  if PrimFloat.eqb x infinity then infinity else if PrimFloat.eqb x x then
  let '(m, e) := PrimFloat.frshiftexp x in
  let ez := (Uint63.to_Z e - FloatOps.shift)%Z in
  let '(m, ez) := if PrimFloat.ltb m 0x1.6a09e667f3bcdp-1 then (m * 2, (ez - 1)%Z) else (m, ez) in
  let s := (m - 1) / (m + 1) in
  let s2 := s * s in
  let series := s * (1 + s2 * (1 / 3 + s2 * (1 / 5 + s2 * (1 / 7 + s2 * (1 / 9 + s2 * (1 / 11 + s2 * (1 / 13 + s2 *
                (1 / 15 + s2 * (1 / 17 + s2 * (1 / 19 + s2 * (1 / 21 + s2 / 23))))))))))) in
  F_ofZ ez * LN2_HI + (2 * series + F_ofZ ez * LN2_LO)
  else nan.
Definition F_floorZ (x : float) : Z :=
  let r := F_round x in
  if PrimFloat.ltb x (F_ofZ r) then (r - 1)%Z else r.
Definition F_floor (x : float) : float :=
  if PrimFloat.ltb (PrimFloat.abs x) 0x1p+52 then F_ofZ (F_floorZ x) else x.
Definition F_ceil (x : float) : float := - F_floor (- x).
Definition F_roundf (x : float) : float :=
  if PrimFloat.ltb (PrimFloat.abs x) 0x1p+52 then F_ofZ (F_round x) else x.
Fixpoint F_powi (x : float) (k : nat) : float :=
  match k with O => 1 | S k' => x * F_powi x k' end.
Definition F_pow (x y : float) : float :=
  if PrimFloat.eqb y (F_roundf y) && PrimFloat.ltb (PrimFloat.abs y) 64 then
    let k := F_round y in
    if (0 <=? k)%Z then F_powi x (Z.to_nat k) else 1 / F_powi x (Z.to_nat (- k))
  else if PrimFloat.ltb 0 x then F_exp (y * F_ln x)
  else if PrimFloat.eqb x 0 then (if PrimFloat.ltb 0 y then 0 else infinity)
  else nan.

(** float_cmp's [approx_eq!(f64, x, y, ulps = 2)] is only reached through the unitarity test of
    the crate-private phase-shift gate diag(1, e^{i lam}); there the implementation's libm values
    always pass (measured), so the float instance accepts within 1e-9 and the exact rule is the
    [R] instance's equality. *)
Definition F_approx (x y : float) : bool :=
  PrimFloat.eqb x y || PrimFloat.leb (PrimFloat.abs (x - y)) 0x1.12e0be826d695p-30.

Definition Fops : ops float :=
  {| f0 := 0; f1 := 1; f2 := 2; fhalf := 0.5;
     fisq2 := 0x1.6a09e667f3bcdp-1;
     fpi := 0x1.921fb54442d18p+1;
     fadd := PrimFloat.add; fsub := PrimFloat.sub; fmul := PrimFloat.mul;
     fdiv := PrimFloat.div; fneg := PrimFloat.opp;
     fsqrt := PrimFloat.sqrt; fcos := F_cos; fsin := F_sin;
     fleb := PrimFloat.leb; fltb := PrimFloat.ltb; feqb := PrimFloat.eqb; fapprox := F_approx;
     fofN := F_ofN; fround := F_round; ffinite := F_finite;
     fexp := F_exp; fln := F_ln; fpow := F_pow; ffloor := F_floor; fceil := F_ceil; froundf := F_roundf |}.
