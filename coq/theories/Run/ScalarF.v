(** * ScalarF: the [ops] instance at IEEE binary64 ([PrimFloat]) used to *run*
    the model for the correspondence check.  Used in no theorem. *)
From Coq Require Import Floats ZArith Uint63.
From QV Require Import Scalar.
Open Scope float_scope.

(** cos/sin: halve the argument 10 times, Taylor, double back.  Accuracy
    ~1e-12 for |x| <= 100, measured against libm by the harness on every run. *)
Definition taylor_sin (y : float) : float :=
  let y2 := y * y in
  y * (1 - y2 / 6 * (1 - y2 / 20 * (1 - y2 / 42 * (1 - y2 / 72 * (1 - y2 / 110 * (1 - y2 / 156)))))).
Definition taylor_cos (y : float) : float :=
  let y2 := y * y in
  1 - y2 / 2 * (1 - y2 / 12 * (1 - y2 / 30 * (1 - y2 / 56 * (1 - y2 / 90 * (1 - y2 / 132 * (1 - y2 / 182)))))).
Fixpoint double_angle (k : nat) (sc : float * float) : float * float :=
  match k with
  | O => sc
  | S k' => let '(s, c) := sc in double_angle k' (2 * s * c, (c - s) * (c + s))
  end.
Definition HALVINGS : nat := 10.
Definition sincos (x : float) : float * float :=
  let y := x / 1024 in
  double_angle HALVINGS (taylor_sin y, taylor_cos y).
Definition F_sin (x : float) : float := fst (sincos x).
Definition F_cos (x : float) : float := snd (sincos x).

(** exact conversion |x| = mz * 2^ez *)
Definition F_decomp (x : float) : Z * Z :=
  let '(m, e) := PrimFloat.frshiftexp (PrimFloat.abs x) in
  (Uint63.to_Z (PrimFloat.normfr_mantissa m),
   (Uint63.to_Z e - FloatOps.shift - 53)%Z).
(** [x.round() as isize] for finite x of moderate size: half away from zero *)
Definition F_round (x : float) : Z :=
  if PrimFloat.eqb x 0 then 0%Z else
  let '(mz, ez) := F_decomp x in
  let mag :=
    if (0 <=? ez)%Z then (mz * 2 ^ ez)%Z
    else let d := (2 ^ (- ez))%Z in
         let q := (mz / d)%Z in
         let r := (mz mod d)%Z in
         if (d <=? 2 * r)%Z then (q + 1)%Z else q in
  if PrimFloat.ltb x 0 then (- mag)%Z else mag.

Definition F_ofN (n : N) : float := PrimFloat.of_uint63 (Uint63.of_Z (Z.of_N n)).
Definition F_finite (x : float) : bool :=
  PrimFloat.ltb (PrimFloat.abs x) infinity.

Definition Fops : ops float :=
  {| f0 := 0; f1 := 1; f2 := 2; fhalf := 0.5;
     fisq2 := 0x1.6a09e667f3bcdp-1;
     fpi := 0x1.921fb54442d18p+1;
     fadd := PrimFloat.add; fsub := PrimFloat.sub; fmul := PrimFloat.mul;
     fdiv := PrimFloat.div; fneg := PrimFloat.opp;
     fsqrt := PrimFloat.sqrt; fcos := F_cos; fsin := F_sin;
     fleb := PrimFloat.leb; fltb := PrimFloat.ltb; feqb := PrimFloat.eqb;
     fofN := F_ofN; fround := F_round; ffinite := F_finite |}.
