(** entry point for the `conc` engine: is a recorded protocol trace accepted by the machine? *)
From QV Require Export Pool.
Definition ev_of (k : N) : ev :=
  match k with 0 => ReadAcq | 1 => ReadRel | 2 => WriteAcq | 3 => WriteRel | 4 => JobBegin | _ => JobEnd end.
(** returns (accepted, index of the first refused event, number of unfinished calls at the end) *)
Fixpoint replay (s : pstate) (trace : list (N * N * N)) (i : N) : bool * N * N :=
  match trace with
  | [] => (true, i, N.of_nat (length (filter (fun p => match c_pc (snd p) with Done => false | _ => true end) (calls s))))
  | (id, want, k) :: t =>
      match step s id want (ev_of k) with
      | Some s' => replay s' t (N.succ i)
      | None => (false, i, 0)
      end
  end.
Definition run_pool_trace (trace : list (N * N * N)) := replay pinit trace 0.
