(** entry points for the `bits` engine *)
From QV Require Export CVReg Op.

Definition run_vreg (mask : N) := vreg_of_mask mask.
Definition run_vreg_new (num : N) := vreg_new num.
Definition run_vreg_sel (mask : N) (l : list nat) :=
  match vreg_of_mask mask with Some v => Some (vreg_list v l, vreg_all v, N.of_nat (length v)) | None => None end.
Definition run_get_vreg_by (n mask : N) := get_vreg_by (mask_of_num n) mask.

Inductive cop := CSet (b : bool) (m : N) | CXor (b : bool) (m : N).
Definition run_creg (n st : N) (ops : list cop) : N * N * option (list bool) :=
  let c := fold_left (fun c o => match o with CSet b m => creg_set c b m | CXor b m => creg_xor c b m end)
                     ops (creg_with_state n st) in
  (creg_get c, c_num c, creg_debug c).
Definition run_cmul (n1 s1 n2 s2 : N) :=
  match creg_mul (creg_with_state n1 s1) (creg_with_state n2 s2) with
  | Some c => Some (c_num c, creg_get c)
  | None => None
  end.
