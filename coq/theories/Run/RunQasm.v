(** entry points for the `qasm` engine *)
From Coq Require Import Floats ZArith String.
From QV Require Export RunReg Sym.

Definition fnode := @node Fl.
Definition fint := @int Fl.

Inductive qres :=
| QErr (e : error)
| QPanic (why : N)
| QRun (class_value class_num : N) (q_num : N) (psi : list (C Fl)) (records : N)
       (q_alias c_alias : list ident) (nblocks : N).

Definition finish_int (i : fint) (draws : list N) : qres :=
  let s := sym_reset Fops (sym_new Fops i) in
  match sym_finish Fops EPS15 EPS9 s draws with
  | Some s' => QRun (creg_get (s_c s')) (c_num (s_c s')) (q_num (s_q s')) (q_psi (s_q s'))
                    (lenN (i_asts i)) (i_qreg i) (i_creg i) (lenN (blocks (i_ops i)))
  | None => QPanic 2
  end.

(** feed the chunks one by one with [add_ast] *)
Fixpoint add_chunks (i : fint) (chunks : list (list fnode)) : ires fint :=
  match chunks with
  | [] => IOk i
  | c :: rest =>
      match add_ast Fops i c with
      | (IOk _, i') => add_chunks i' rest
      | (IErr e, _) => IErr e
      | (IPanic w, _) => IPanic w
      end
  end.

(** compute each chunk's changes against the current interpreter, then append (or prepend) them *)
Fixpoint changes_chunks (prepend : bool) (i : fint) (chunks : list (list fnode)) : ires fint :=
  match chunks with
  | [] => IOk i
  | c :: rest =>
      match ast_changes Fops i (int_empty) c with
      | IOk ch => changes_chunks prepend (if prepend then prepend_int ch i else append_int i ch) rest
      | IErr e => IErr e
      | IPanic w => IPanic w
      end
  end.

Definition run_qasm (api : N) (xor : bool) (chunks : list (list fnode)) (draws : list N) : qres :=
  let r := match api with
           | 0 => add_chunks int_empty chunks
           | 1 => changes_chunks false int_empty chunks
           | _ => changes_chunks true int_empty chunks
           end in
  match r with
  | IOk i => finish_int (if xor then int_xor i else i) draws
  | IErr e => QErr e
  | IPanic w => QPanic w
  end.

(** a session for C18: chunks added with [add_ast], failures tolerated; reports the verdict of every
    chunk and the final run *)
Fixpoint session (i : fint) (chunks : list (list fnode)) (acc : list (option error)) : fint * list (option error) :=
  match chunks with
  | [] => (i, rev acc)
  | c :: rest =>
      match add_ast Fops i c with
      | (IOk _, i') => session i' rest (None :: acc)
      | (IErr e, i') => session i' rest (Some e :: acc)
      | (IPanic w, i') => session i' rest (Some (UnknownGate "PANIC") :: acc)
      end
  end.
Definition run_session (chunks : list (list fnode)) (draws : list N) : list (option error) * qres :=
  let '(i, verdicts) := session int_empty chunks [] in
  (verdicts, finish_int i draws).
(** the same from [Int::default().xor()] when [xor] *)
Definition run_session_x (xor : bool) (chunks : list (list fnode)) (draws : list N) : list (option error) * qres :=
  let '(i, verdicts) := session (if xor then int_xor int_empty else int_empty) chunks [] in
  (verdicts, finish_int i draws).
