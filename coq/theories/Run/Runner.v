(** * Runner: entry points evaluated by the correspondence check, at the
    float instance.  One function per harness case kind. *)
From Coq Require Import Floats.
From QV Require Export Expr ScalarF.

Notation Fl := PrimFloat.float.
Definition fexpr := opexpr Fl.

Definition structure (o : multi Fl) : N * N * list N :=
  (multi_act_on o, N.of_nat (length o), map (@single_act_on Fl) o).

Definition rmap {A B} (f : A -> B) (r : res A) : res B :=
  match r with ROk a => ROk (f a) | RRefused => RRefused | RPanic k => RPanic k end.

Definition run_struct (e : fexpr) := rmap structure (eval Fops e).

Definition run_matrix (n : nat) (e : fexpr) :=
  rmap (fun o => (structure o, matrix Fops o n)) (eval Fops e).

(** [SingleOp::c(m)] called on element [idx] of the queue (identity when the queue is shorter) *)
Definition run_single_c (n : nat) (idx : nat) (m : N) (e : fexpr) :=
  match eval Fops e with
  | ROk q =>
      match nth_error q idx with
      | Some s =>
          match single_c s m with
          | Some s2 => let o := multi_of_single s2 in ROk (structure o, matrix Fops o n)
          | None => RRefused
          end
      | None => ROk (structure [], matrix Fops [] n)
      end
  | RRefused => RRefused
  | RPanic k => RPanic k
  end.

(** register buffer: max(2^n, 8) cells *)
Definition buf_len (n : nat) : nat := Nat.max (Nat.pow 2 n) 8.

Definition run_apply_basis (n : nat) (j : N) (e : fexpr) :=
  rmap (fun o => multi_apply Fops o (tab (buf_len n) (basis Fops j))) (eval Fops e).

Definition run_apply_raw (raw : list (C Fl)) (e : fexpr) :=
  rmap (fun o => multi_apply Fops o raw) (eval Fops e).

Fixpoint run_apply_seq_from (v : list (C Fl)) (es : list fexpr) : res (list (C Fl)) :=
  match es with
  | [] => ROk v
  | e :: rest =>
      match eval Fops e with
      | ROk o => run_apply_seq_from (multi_apply Fops o v) rest
      | RRefused => RRefused
      | RPanic k => RPanic k
      end
  end.
Definition run_apply_seq (n : nat) (j : N) (es : list fexpr) :=
  run_apply_seq_from (tab (buf_len n) (basis Fops j)) es.

(** sparse evaluation through accessors: usable at any bit position *)
Definition run_probe (j : N) (idxs : list N) (e : fexpr) :=
  rmap (fun o => map (multi_fn Fops o (basis Fops j)) idxs) (eval Fops e).
