(** * C15 -- the quantum Fourier transform operators *)
From QV Require Import Spec Expr ScalarR Form2P DftP C15T C15T2.

Theorem C15_inverse : C15_inverse_stmt.
Proof. exact C15_inverse_proof. Qed.
Print Assumptions C15_inverse.

Theorem C15_one_bit : C15_one_bit_stmt.
Proof. exact C15_one_bit_proof. Qed.
Print Assumptions C15_one_bit.

Theorem C15_dft : C15_dft_stmt.
Proof. exact C15_dft_proof. Qed.
Print Assumptions C15_dft.

Theorem C15_dft_swapped : C15_dft_swapped_stmt.
Proof. exact C15_dft_swapped_proof. Qed.
Print Assumptions C15_dft_swapped.
