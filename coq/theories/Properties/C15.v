(** * C15 -- the quantum Fourier transform operators *)
From QV Require Import Spec Expr ScalarR C15T.

Theorem C15_inverse : C15_inverse_stmt.
Proof. exact C15_inverse_proof. Qed.
Print Assumptions C15_inverse.

Theorem C15_one_bit : C15_one_bit_stmt.
Proof. exact C15_one_bit_proof. Qed.
Print Assumptions C15_one_bit.
