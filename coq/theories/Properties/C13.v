(** * C13 -- ill-formed programs are rejected with the matching error *)
From QV Require Import Interp C13T C13T2.

Theorem C13_reject : C13_reject_stmt.
Proof. exact C13_reject_proof. Qed.
Print Assumptions C13_reject.

Theorem C13_gate_rules : C13_gate_rules_stmt.
Proof. exact C13_gate_rules_proof. Qed.
Print Assumptions C13_gate_rules.

Theorem C13_accept : C13_accept_stmt.
Proof. exact C13_accept_proof. Qed.
Print Assumptions C13_accept.
