(** * C06 -- measurement projects the state onto the returned outcome *)
From QV Require Import Reg ScalarR C06T.

Theorem C06_outcome : C06_outcome_stmt.
Proof. exact C06_outcome_proof. Qed.
Print Assumptions C06_outcome.

Theorem C06_projection : C06_projection_stmt.
Proof. exact C06_projection_proof. Qed.
Print Assumptions C06_projection.

Theorem C06_empty : C06_empty_stmt.
Proof. exact C06_empty_proof. Qed.
Print Assumptions C06_empty.

Theorem C06_repeat : C06_repeat_stmt.
Proof. exact C06_repeat_proof. Qed.
Print Assumptions C06_repeat.
