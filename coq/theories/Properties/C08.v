(** * C08 -- multi-threaded execution agrees with single-threaded under every schedule *)
From QV Require Import Par Reg ScalarR C08T Reg ScalarR RegP C05T C08T2.

Theorem C08_sweep_deterministic : C08_sweep_deterministic_stmt.
Proof. exact C08_sweep_deterministic_proof. Qed.
Print Assumptions C08_sweep_deterministic.

Theorem C08_instances : C08_instances_stmt.
Proof. exact C08_instances_proof. Qed.
Print Assumptions C08_instances.

Theorem C08_reduce : C08_reduce_stmt.
Proof. exact C08_reduce_proof. Qed.
Print Assumptions C08_reduce.

Theorem C08_num_threads : C08_num_threads_stmt.
Proof. exact C08_num_threads_proof. Qed.
Print Assumptions C08_num_threads.

Theorem C08_threads_irrelevant : C08_threads_irrelevant_stmt.
Proof. exact C08_threads_irrelevant_proof. Qed.
Print Assumptions C08_threads_irrelevant.
