(** * C20 -- bit-mask bookkeeping of virtual and classical registers *)
From QV Require Import Bits CVReg C20T.

Theorem C20_bits_iter : C20_bits_iter_stmt.
Proof. exact C20_bits_iter_proof. Qed.
Print Assumptions C20_bits_iter.

Theorem C20_vreg : C20_vreg_stmt.
Proof. exact C20_vreg_proof. Qed.
Print Assumptions C20_vreg.

Theorem C20_creg : C20_creg_stmt.
Proof. exact C20_creg_proof. Qed.
Print Assumptions C20_creg.

Theorem C20_legacy : C20_legacy_stmt.
Proof. exact C20_legacy_proof. Qed.
Print Assumptions C20_legacy.
