(** * C20 -- bit-mask bookkeeping of virtual and classical registers *)
From QV Require Import Bits CVReg C20T Reg ScalarR C05T C20T2.

Theorem C20_bits_iter : C20_bits_iter_stmt.
Proof. exact C20_bits_iter_proof. Qed.
Print Assumptions C20_bits_iter.

Theorem C20_vreg : C20_vreg_stmt.
Proof. exact C20_vreg_proof. Qed.
Print Assumptions C20_vreg.

Theorem C20_creg : C20_creg_stmt.
Proof. exact C20_creg_proof. Qed.
Print Assumptions C20_creg.

Theorem C20_legacy : C20_legacy_stmt.
Proof. exact C20_legacy_proof. Qed.
Print Assumptions C20_legacy.

Theorem C20_views_history : C20_views_history_stmt.
Proof. exact C20_views_history_proof. Qed.
Print Assumptions C20_views_history.
