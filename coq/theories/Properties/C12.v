(** * C12 -- the interpreter is total (the part a model of the AST-level pipeline can carry) *)
From QV Require Import Interp Sym ScalarR C12T C12T2.

Theorem C12_terminates : C12_terminates_stmt.
Proof. exact C12_terminates_proof. Qed.
Print Assumptions C12_terminates.

Theorem C12_no_constructor_panic : C12_no_constructor_panic_stmt.
Proof. exact C12_no_constructor_panic_proof. Qed.
Print Assumptions C12_no_constructor_panic.

Theorem C12_accepted_runs : C12_accepted_runs_stmt.
Proof. exact C12_accepted_runs_proof. Qed.
Print Assumptions C12_accepted_runs.

Theorem C12_run_total : C12_run_total_stmt.
Proof. exact C12_run_total_proof. Qed.
Print Assumptions C12_run_total.
