(** * C12 -- the interpreter is total (the part a model of the AST-level pipeline can carry) *)
From QV Require Import Interp ScalarR C12T.

Theorem C12_terminates : C12_terminates_stmt.
Proof. exact C12_terminates_proof. Qed.
Print Assumptions C12_terminates.

Theorem C12_no_constructor_panic : C12_no_constructor_panic_stmt.
Proof. exact C12_no_constructor_panic_proof. Qed.
Print Assumptions C12_no_constructor_panic.
