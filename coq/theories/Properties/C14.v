(** * C14 -- register construction, tensor product and resizing *)
From QV Require Import Reg C14T.

Theorem C14_basis : C14_basis_stmt.
Proof. exact C14_basis_proof. Qed.
Print Assumptions C14_basis.

Theorem C14_tensor : C14_tensor_stmt.
Proof. exact C14_tensor_proof. Qed.
Print Assumptions C14_tensor.

Theorem C14_resize : C14_resize_stmt.
Proof. exact C14_resize_proof. Qed.
Print Assumptions C14_resize.

Theorem C14_sizes : C14_sizes_stmt.
Proof. exact C14_sizes_proof. Qed.
Print Assumptions C14_sizes.
