(** * C07 -- measurement outcomes follow the Born rule (the part a model can carry) *)
From QV Require Import Sampler Reg ScalarR C07T.

Theorem C07_probabilities : C07_probabilities_stmt.
Proof. exact C07_probabilities_proof. Qed.
Print Assumptions C07_probabilities.

Theorem C07_sampler_interval : C07_sampler_interval_stmt.
Proof. exact C07_sampler_interval_proof. Qed.
Print Assumptions C07_sampler_interval.

Theorem C07_histogram_moments : C07_histogram_moments_stmt.
Proof. exact C07_histogram_moments_proof. Qed.
Print Assumptions C07_histogram_moments.
