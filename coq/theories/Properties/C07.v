(** * C07 -- measurement outcomes follow the Born rule (the part a model can carry) *)
From QV Require Import Sampler Reg ScalarR RegP C05T C07T C07T2.

Theorem C07_probabilities : C07_probabilities_stmt.
Proof. exact C07_probabilities_proof. Qed.
Print Assumptions C07_probabilities.

Theorem C07_sampler_interval : C07_sampler_interval_stmt.
Proof. exact C07_sampler_interval_proof. Qed.
Print Assumptions C07_sampler_interval.

Theorem C07_histogram_moments : C07_histogram_moments_stmt.
Proof. exact C07_histogram_moments_proof. Qed.
Print Assumptions C07_histogram_moments.

Theorem C07_chain : C07_chain_stmt.
Proof. exact C07_chain_proof. Qed.
Print Assumptions C07_chain.

Theorem C07_order : C07_order_stmt.
Proof. exact C07_order_proof. Qed.
Print Assumptions C07_order.

Theorem C07_total : C07_total_stmt.
Proof. exact C07_total_proof. Qed.
Print Assumptions C07_total.
