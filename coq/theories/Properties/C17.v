(** * C17 -- feeding a program in pieces *)
From QV Require Import Interp Sym C17T C17T2 C17T3 C17T4 C17T5.

Theorem C17_record : C17_record_stmt.
Proof. exact C17_record_proof. Qed.
Print Assumptions C17_record.

Theorem C17_add_chunks : C17_add_chunks_stmt.
Proof. exact C17_add_chunks_proof. Qed.
Print Assumptions C17_add_chunks.

Theorem C17_legacy : C17_legacy_stmt.
Proof. exact C17_legacy_proof. Qed.
Print Assumptions C17_legacy.

Theorem C17_changes : C17_changes_stmt.
Proof. exact C17_changes_proof. Qed.
Print Assumptions C17_changes.

Theorem C17_rerun : C17_rerun_stmt.
Proof. exact C17_rerun_proof. Qed.
Print Assumptions C17_rerun.

Theorem C17_pieces : C17_pieces_stmt.
Proof. exact C17_pieces_proof. Qed.
Print Assumptions C17_pieces.

Theorem C17_reuse : C17_reuse_stmt.
Proof. exact C17_reuse_proof. Qed.
Print Assumptions C17_reuse.

Theorem C17_reuse_unsound : C17_reuse_unsound_stmt.
Proof. exact C17_reuse_unsound_proof. Qed.
Print Assumptions C17_reuse_unsound.
