(** * C16 -- histograms: 2^n cells, exact shot total, no shots on impossible outcomes *)
From QV Require Import Reg ScalarR C16T C16T2 C16T3.

Theorem C16_histogram : C16_histogram_stmt.
Proof. exact C16_histogram_proof. Qed.
Print Assumptions C16_histogram.

Theorem C16_terminates : C16_terminates_stmt.
Proof. exact C16_terminates_proof. Qed.
Print Assumptions C16_terminates.

Theorem C16_correction : C16_correction_stmt.
Proof. exact C16_correction_proof. Qed.
Print Assumptions C16_correction.

Theorem C16_legacy : C16_legacy_stmt.
Proof. exact C16_legacy_proof. Qed.
Print Assumptions C16_legacy.
