(** * C19 -- concurrent use neither deadlocks nor changes results (the protocol part) *)
From QV Require Import Pool C19T.

Theorem C19_progress : C19_progress_stmt.
Proof. exact C19_progress_proof. Qed.
Print Assumptions C19_progress.

Theorem C19_legacy_deadlock : C19_legacy_deadlock_stmt.
Proof. exact C19_legacy_deadlock_proof. Qed.
Print Assumptions C19_legacy_deadlock.
