(** * C02 -- controlled operators act only where all control qubits are 1 *)
From QV Require Import Spec Expr ScalarR C02T C05T SupportP C02T2.

Theorem C02_semantics : C02_semantics_stmt.
Proof. exact C02_semantics_proof. Qed.
Print Assumptions C02_semantics.

Theorem C02_refusal : C02_refusal_stmt.
Proof. exact C02_refusal_proof. Qed.
Print Assumptions C02_refusal.

Theorem C02_act_on : C02_act_on_stmt.
Proof. exact C02_act_on_proof. Qed.
Print Assumptions C02_act_on.

Theorem C02_expr : C02_expr_stmt.
Proof. exact C02_expr_proof. Qed.
Print Assumptions C02_expr.

Theorem C02_support : C02_support_stmt.
Proof. exact C02_support_proof. Qed.
Print Assumptions C02_support.
