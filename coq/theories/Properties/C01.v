(** * C01 -- every built-in gate acts as its documented unitary on exactly the masked qubits.
    Statements only; each is closed by a lemma of [Proofs/]. *)
From Coq Require Import Reals.
From QV Require Import Spec Reg ScalarR RegP C14T C05T C03T Form2P LinearP C01M C01T C01T2 C09T2 C01T3.
Open Scope R_scope.

Theorem C01_single_bit : C01_single_bit_stmt.
Proof. exact C01_single_bit_proof. Qed.
Print Assumptions C01_single_bit.

Theorem C01_rot1 : C01_rot1_stmt.
Proof. exact C01_rot1_proof. Qed.
Print Assumptions C01_rot1.

Theorem C01_two_bit : C01_two_bit_stmt.
Proof. exact C01_two_bit_proof. Qed.
Print Assumptions C01_two_bit.

Theorem C01_refuse : C01_refuse_stmt.
Proof. exact C01_refuse_proof. Qed.
Print Assumptions C01_refuse.

Theorem C01_multi_bit : C01_multi_bit_stmt.
Proof. exact C01_multi_bit_proof. Qed.
Print Assumptions C01_multi_bit.

Theorem C01_multi_bit_y : C01_multi_bit_y_stmt.
Proof. exact C01_multi_bit_y_proof. Qed.
Print Assumptions C01_multi_bit_y.

Theorem C01_multi_bit_h : C01_multi_bit_h_stmt.
Proof. exact C01_multi_bit_h_proof. Qed.
Print Assumptions C01_multi_bit_h.

Theorem C01_register_path : C01_register_path_stmt.
Proof. exact C01_register_path_proof. Qed.
Print Assumptions C01_register_path.

Theorem C01_matrix : C01_matrix_stmt.
Proof. exact C01_matrix_proof. Qed.
Print Assumptions C01_matrix.

Theorem C01_u_products : C01_u_products_stmt.
Proof. exact C01_u_products_proof. Qed.
Print Assumptions C01_u_products.
