(** * C09 -- interpreter gate names *)
From QV Require Import Interp ScalarR C09T Form2P DftP C09T2 C09T3 C09T4 C09T5.

Theorem C09_table : C09_table_stmt.
Proof. exact C09_table_proof. Qed.
Print Assumptions C09_table.

Theorem C09_prefix : C09_prefix_stmt.
Proof. exact C09_prefix_proof. Qed.
Print Assumptions C09_prefix.

Theorem C09_prefix_semantics : C09_prefix_semantics_stmt.
Proof. exact C09_prefix_semantics_proof. Qed.
Print Assumptions C09_prefix_semantics.

Theorem C09_u3 : C09_u3_stmt.
Proof. exact C09_u3_proof. Qed.
Print Assumptions C09_u3.

Theorem C09_u2_u1 : C09_u2_u1_stmt.
Proof. exact C09_u2_u1_proof. Qed.
Print Assumptions C09_u2_u1.

Theorem C09_controlled : C09_controlled_stmt.
Proof. exact C09_controlled_proof. Qed.
Print Assumptions C09_controlled.

Theorem C09_controls : C09_controls_stmt.
Proof. exact C09_controls_proof. Qed.
Print Assumptions C09_controls.

Theorem C09_named_controls : C09_named_controls_stmt.
Proof. exact C09_named_controls_proof. Qed.
Print Assumptions C09_named_controls.

Theorem C09_qelib1 : C09_qelib1_stmt.
Proof. exact C09_qelib1_proof. Qed.
Print Assumptions C09_qelib1.

Theorem C09_bodies : C09_bodies_stmt.
Proof. exact C09_bodies_proof. Qed.
Print Assumptions C09_bodies.
