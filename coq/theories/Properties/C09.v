(** * C09 -- interpreter gate names *)
From QV Require Import Interp ScalarR C09T.

Theorem C09_table : C09_table_stmt.
Proof. exact C09_table_proof. Qed.
Print Assumptions C09_table.

Theorem C09_prefix : C09_prefix_stmt.
Proof. exact C09_prefix_proof. Qed.
Print Assumptions C09_prefix.

Theorem C09_prefix_semantics : C09_prefix_semantics_stmt.
Proof. exact C09_prefix_semantics_proof. Qed.
Print Assumptions C09_prefix_semantics.
