(** * C03 -- the dagger of every operator is its inverse *)
From QV Require Import Spec Expr ScalarR C03T C03T2 C03T3.

Theorem C03_product : C03_product_stmt.
Proof. exact C03_product_proof. Qed.
Print Assumptions C03_product.

Theorem C03_inverse : C03_inverse_stmt.
Proof. exact C03_inverse_proof. Qed.
Print Assumptions C03_inverse.

Theorem C03_atomic : C03_atomic_stmt.
Proof. exact C03_atomic_proof. Qed.
Print Assumptions C03_atomic.

Theorem C03_circuit : C03_circuit_stmt.
Proof. exact C03_circuit_proof. Qed.
Print Assumptions C03_circuit.

Theorem C03_adjoint : C03_adjoint_stmt.
Proof. exact C03_adjoint_proof. Qed.
Print Assumptions C03_adjoint.
