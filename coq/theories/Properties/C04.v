(** * C04 -- a product of operators acts as its factors applied in queue order *)
From QV Require Import Spec Expr ScalarR C04T C04T2.

Theorem C04_pingpong : C04_pingpong_stmt.
Proof. exact C04_pingpong_proof. Qed.
Print Assumptions C04_pingpong.

Theorem C04_assembly : C04_assembly_stmt.
Proof. exact C04_assembly_proof. Qed.
Print Assumptions C04_assembly.

Theorem C04_sequence : C04_sequence_stmt.
Proof. exact C04_sequence_proof. Qed.
Print Assumptions C04_sequence.

Theorem C04_commute : C04_commute_stmt.
Proof. exact C04_commute_proof. Qed.
Print Assumptions C04_commute.
