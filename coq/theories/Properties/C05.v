(** * C05 -- a register always holds a valid quantum state *)
From QV Require Import Reg Expr ScalarR C05T.

Theorem C05_invariant_partial : C05_invariant_partial_stmt.
Proof. exact C05_invariant_partial_proof. Qed.
Print Assumptions C05_invariant_partial.

Theorem C05_construct : C05_construct_stmt.
Proof. exact C05_construct_proof. Qed.
Print Assumptions C05_construct.

Theorem C05_probabilities : C05_probabilities_stmt.
Proof. exact C05_probabilities_proof. Qed.
Print Assumptions C05_probabilities.

Theorem C05_invariant : C05_invariant_stmt.
Proof. exact C05_invariant_proof. Qed.
Print Assumptions C05_invariant.

Theorem C05_operators : C05_operators_stmt.
Proof. exact C05_operators_proof. Qed.
Print Assumptions C05_operators.
