(** * C05 -- a register always holds a valid quantum state *)
From QV Require Import Interp Sym Reg Expr ScalarR C05T C05T2 C05T3.

Theorem C05_invariant_partial : C05_invariant_partial_stmt.
Proof. exact C05_invariant_partial_proof. Qed.
Print Assumptions C05_invariant_partial.

Theorem C05_construct : C05_construct_stmt.
Proof. exact C05_construct_proof. Qed.
Print Assumptions C05_construct.

Theorem C05_probabilities : C05_probabilities_stmt.
Proof. exact C05_probabilities_proof. Qed.
Print Assumptions C05_probabilities.

Theorem C05_invariant : C05_invariant_stmt.
Proof. exact C05_invariant_proof. Qed.
Print Assumptions C05_invariant.

Theorem C05_operators : C05_operators_stmt.
Proof. exact C05_operators_proof. Qed.
Print Assumptions C05_operators.

Theorem C05_tree : C05_tree_stmt.
Proof. exact C05_tree_proof. Qed.
Print Assumptions C05_tree.

Theorem C05_program : C05_program_stmt.
Proof. exact C05_program_proof. Qed.
Print Assumptions C05_program.

Theorem C05_session : C05_session_stmt.
Proof. exact C05_session_proof. Qed.
Print Assumptions C05_session.
