(** * C10 -- programs run in order, on the right qubits *)
From QV Require Import Interp Sym Reg C10T C10T2 C10T3.

Theorem C10_numbering : C10_numbering_stmt.
Proof. exact C10_numbering_proof. Qed.
Print Assumptions C10_numbering.

Theorem C10_in_order : C10_in_order_stmt.
Proof. exact C10_in_order_proof. Qed.
Print Assumptions C10_in_order.

Theorem C10_macro : C10_macro_stmt.
Proof. exact C10_macro_proof. Qed.
Print Assumptions C10_macro.

Theorem C10_straight_line : C10_straight_line_stmt.
Proof. exact C10_straight_line_proof. Qed.
Print Assumptions C10_straight_line.
