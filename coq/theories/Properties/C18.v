(** * C18 -- a rejected chunk leaves the interpreter session unchanged *)
From QV Require Import Interp C18T.

Theorem C18_atomic : C18_atomic_stmt.
Proof. exact C18_atomic_proof. Qed.
Print Assumptions C18_atomic.

Theorem C18_legacy : C18_legacy_stmt.
Proof. exact C18_legacy_proof. Qed.
Print Assumptions C18_legacy.
