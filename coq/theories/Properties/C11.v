(** * C11 -- measure, if, reset and barrier *)
From QV Require Import Interp Sym Reg ScalarR RegP C05T C07T2 C11T C11T2 C17T2 C11T3 C11T4.

Theorem C11_blocks : C11_blocks_stmt.
Proof. exact C11_blocks_proof. Qed.
Print Assumptions C11_blocks.

Theorem C11_if : C11_if_stmt.
Proof. exact C11_if_proof. Qed.
Print Assumptions C11_if.

Theorem C11_if_unfit : C11_if_unfit_stmt.
Proof. exact C11_if_unfit_proof. Qed.
Print Assumptions C11_if_unfit.

Theorem C11_measure : C11_measure_stmt.
Proof. exact C11_measure_proof. Qed.
Print Assumptions C11_measure.

Theorem C11_reset : C11_reset_stmt.
Proof. exact C11_reset_proof. Qed.
Print Assumptions C11_reset.

Theorem C11_reset_born : C11_reset_born_stmt.
Proof. exact C11_reset_born_proof. Qed.
Print Assumptions C11_reset_born.

Theorem C11_program : C11_program_stmt.
Proof. exact C11_program_proof. Qed.
Print Assumptions C11_program.

Theorem C11_session : C11_session_stmt.
Proof. exact C11_session_proof. Qed.
Print Assumptions C11_session.
