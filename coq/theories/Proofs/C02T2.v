(** * C02T2: the qubits an operator reports as touched lie inside the masks named when it was
    built -- targets given to the constructors and control masks -- for every expression of the
    public API (products, daggers, controls of controls, QFT, multi-bit Hadamard, ...). *)
From Coq Require Import Reals Lia.
From QV Require Import Spec Expr ScalarR BitsP OpP LocalP WfP C05T SupportP.
Open Scope N_scope.

Definition C02_support_stmt : Prop :=
  forall (e : opexpr R) (q : multi R),
    eval Rops e = ROk q ->
    inside (multi_act_on q) (masks e) /\
    Forall (fun s => inside (s_act s) (masks e) /\ inside (s_ctrl s) (masks e)) q.

Lemma C02_support_proof : C02_support_stmt.
Proof.
  intros e q H. assert (S := eval_sup e q H). split; [apply sup_act_on; exact S|].
  eapply Forall_impl; [|exact S]. intros s Hs. cbv beta in Hs. unfold single_act_on in Hs.
  apply inside_lor in Hs. exact Hs.
Qed.
