(** * VecP: buffers and accessors (generic in the scalar instance) *)
From Coq Require Import Lia.
From QV Require Import Vec BitsP.
Open Scope N_scope.

Section VecP.
  Context {F : Type} (OP : ops F).
  Local Notation vec := (@vec F).
  Local Notation buf := (@buf F).

  Lemma tab_from_length k : forall start (f : vec), length (tab_from k start f) = k.
  Proof. induction k as [|k IH]; intros; cbn [tab_from length]; [reflexivity|rewrite IH; reflexivity]. Qed.

  Lemma tab_length k (f : vec) : length (tab k f) = k.
  Proof. apply tab_from_length. Qed.

  Lemma nth_tab_from k : forall start (f : vec) (i : nat), (i < k)%nat ->
    nth i (tab_from k start f) (c0 OP) = f (start + N.of_nat i).
  Proof.
    induction k as [|k IH]; intros start f i Hi; [lia|].
    cbn [tab_from]. destruct i as [|i]; cbn [nth].
    - rewrite N.add_0_r. reflexivity.
    - rewrite IH by lia. f_equal. lia.
  Qed.

  (** every cell of [tab len f] holds [f] of its index *)
  Lemma get_tab len (f : vec) i : (N.to_nat i < len)%nat -> get OP (tab len f) i = f i.
  Proof.
    intro H. unfold get, tab. rewrite nth_tab_from by exact H. rewrite N.add_0_l, Nnat.N2Nat.id. reflexivity.
  Qed.

  Lemma get_out (v : buf) i : (length v <= N.to_nat i)%nat -> get OP v i = c0 OP.
  Proof. intro H. unfold get. apply nth_overflow. exact H. Qed.

  Lemma get_tab_out len (f : vec) i : (len <= N.to_nat i)%nat -> get OP (tab len f) i = c0 OP.
  Proof. intro H. apply get_out. rewrite tab_length. exact H. Qed.

  Lemma tab_from_ext k : forall start (f g : vec),
    (forall j, (j < k)%nat -> f (start + N.of_nat j) = g (start + N.of_nat j)) ->
    tab_from k start f = tab_from k start g.
  Proof.
    induction k as [|k IH]; intros start f g H; [reflexivity|]. cbn [tab_from]. f_equal.
    - specialize (H 0%nat). rewrite N.add_0_r in H. apply H. lia.
    - apply IH. intros j Hj. specialize (H (S j)).
      replace (N.succ start + N.of_nat j) with (start + N.of_nat (S j)) by lia. apply H. lia.
  Qed.

  Lemma tab_ext len (f g : vec) : (forall i, (N.to_nat i < len)%nat -> f i = g i) -> tab len f = tab len g.
  Proof.
    intro H. apply tab_from_ext. intros j Hj. rewrite N.add_0_l. apply H. lia.
  Qed.

  (** a buffer is determined by its length and its accessor *)
  Lemma buf_ext (u v : buf) : length u = length v ->
    (forall i, (N.to_nat i < length u)%nat -> get OP u i = get OP v i) -> u = v.
  Proof.
    intros Hl H. apply (nth_ext _ _ (c0 OP) (c0 OP) Hl). intros n Hn.
    specialize (H (N.of_nat n)). unfold get in H. rewrite Nnat.Nat2N.id in H. apply H. exact Hn.
  Qed.

  Lemma tab_get (v : buf) : tab (length v) (get OP v) = v.
  Proof.
    apply buf_ext; [apply tab_length|]. intros i Hi. rewrite tab_length in Hi. apply get_tab. exact Hi.
  Qed.
End VecP.
