(** * OpP: structural lemmas about single operators and products (any scalar instance) *)
From Coq Require Import Lia.
From QV Require Import Spec BitsP.

Section OpP.
  Context {F : Type} (OP : ops F).
  Local Notation vec := (@vec F).

  Lemma single_fn_uncontrolled (g : atomic F) (psi : vec) idx :
    single_fn OP (single_of g) psi idx = kernel OP g psi idx.
  Proof. reflexivity. Qed.

  Lemma multi_fn_nil (psi : vec) : multi_fn OP [] psi = psi.
  Proof. reflexivity. Qed.

  Lemma multi_fn_cons s q (psi : vec) : multi_fn OP (s :: q) psi = multi_fn OP q (single_fn OP s psi).
  Proof. reflexivity. Qed.

  Lemma multi_fn_app p q (psi : vec) : multi_fn OP (p ++ q) psi = multi_fn OP q (multi_fn OP p psi).
  Proof. unfold multi_fn. apply fold_left_app. Qed.

  Lemma multi_fn_one (g : atomic F) (psi : vec) idx :
    multi_fn OP (multi_of_single (single_of g)) psi idx = kernel OP g psi idx.
  Proof.
    unfold multi_of_single. destruct g; reflexivity.
  Qed.

  Lemma lift_checked_some g : is_valid OP g = true ->
    lift (checked OP g) = Some (multi_of_single (single_of g)).
  Proof. unfold lift, checked. intros ->. reflexivity. Qed.

  Lemma lift_checked_none g : is_valid OP g = false -> lift (checked OP g) = None.
  Proof. unfold lift, checked. intros ->. reflexivity. Qed.
End OpP.
