(** * C11T3: a whole accepted program -- gate statements, measurements, conditionals, resets,
    barriers, declarations and gate definitions in any interleaving -- is executed statement by
    statement, in program order.

    [stmts] lists what each statement of the program contributes (one entry per gate statement,
    measurement, conditional and reset; nothing for declarations, definitions, barriers); the
    theorem says that running the simulator on the interpreter's block queue is running that list
    from left to right: the block structure (open block, closed blocks, separators, the merging
    and closing done by [push] / [branch] / [branch_with_id]) is invisible. *)
From Coq Require Import Reals Lia String ZArith List.
From QV Require Import Interp InterpP Sym Reg ScalarR BitsIterP C17T2 C12T2.
Import ListNotations.
Open Scope N_scope.
Open Scope list_scope.

Section Program.
  Context {F : Type} (OP : ops F) (e1 e2 : F).
  Local Notation int := (@int F).
  Local Notation node := (@node F).
  Local Notation exec := (C17T2.exec OP e1 e2).
  Local Notation exec1 := (C17T2.exec1 OP e1 e2).

  (** what the statements of a program contribute, in program order; each statement is resolved
      in the interpreter state it is met in (registers declared and gates defined so far) *)
  Inductive stmts (base : int) : int -> list node -> int -> list (@item F) -> Prop :=
  | T_nil ch : stmts base ch [] ch []
  | T_apply ch name regs args ch1 o rest ch' l :
      process_apply OP base ch name regs args = IOk ch1 ->
      i_ops ch1 = ext_push (i_ops ch) o ->
      stmts base ch1 rest ch' l ->
      stmts base ch (NApply name regs args :: rest) ch' (IApply o :: l)
  | T_if ch lhs v name regs args val ch2 o ch1 rest ch' l :
      get_c_idx base ch (Register lhs) = IOk val ->
      process_apply OP base (set_ops ch (ext_branch (i_ops ch) SNop)) name regs args = IOk ch2 ->
      i_ops ch2 = ext_push (ext_branch (i_ops ch) SNop) o ->
      process_node1 OP base ch (NIf lhs v (NApply name regs args)) = IOk ch1 ->
      stmts base ch1 rest ch' l ->
      stmts base ch (NIf lhs v (NApply name regs args) :: rest) ch' (IIf o val (size_as_N v) :: l)
  | T_measure ch q c qm cm ch1 rest ch' l :
      get_q_idx base ch q = IOk qm -> get_c_idx base ch c = IOk cm -> popcount qm = popcount cm ->
      process_node1 OP base ch (NMeasure q c) = IOk ch1 ->
      stmts base ch1 rest ch' l ->
      stmts base ch (NMeasure q c :: rest) ch' (IMeas qm cm :: l)
  | T_reset ch a qm ch1 rest ch' l :
      get_q_idx base ch a = IOk qm ->
      process_node1 OP base ch (NReset a) = IOk ch1 ->
      stmts base ch1 rest ch' l ->
      stmts base ch (NReset a :: rest) ch' (IReset qm :: l)
  | T_other ch n ch1 rest ch' l :
      match n with NQReg _ _ | NCReg _ _ | NBarrier _ | NOpaque | NGate _ _ _ _ => True | _ => False end ->
      process_node1 OP base ch n = IOk ch1 -> i_ops ch1 = i_ops ch ->
      stmts base ch1 rest ch' l ->
      stmts base ch (n :: rest) ch' l.

  (** a guarded identity does nothing, whatever the classical register holds *)
  Lemma exec1_if_nil xor s c v : exec1 xor (Some s) (IIf [] c v) = Some s.
  Proof.
    destruct s as [[r cr] d]. cbn [C17T2.exec1]. unfold creg_get_by_mask. rewrite bits_iter_list_spec.
    rewrite (apply_block_nil OP). destruct (N.eqb _ v); reflexivity.
  Qed.

  Lemma exec_if_items xor s o c v : exec xor s (if_items o c v) = exec xor s [IIf o c v].
  Proof.
    destruct o as [|o0 o'].
    - cbn [if_items]. destruct s as [s|]; [|reflexivity].
      change (exec xor (Some s) [IIf [] c v]) with (exec1 xor (Some s) (IIf [] c v)).
      rewrite exec1_if_nil. reflexivity.
    - cbn [if_items].
      apply (eqv_exec OP e1 e2 xor [IIf (o0 :: o') c v; IApply []] [IIf (o0 :: o') c v] s).
      apply (eqv_app_l [IIf (o0 :: o') c v] [IApply []] []). apply eqv_drop.
  Qed.

  Lemma exec_drop_tail xor s p x : exec xor s (p ++ [x; IApply []]) = exec xor s (p ++ [x]).
  Proof.
    apply (eqv_exec OP e1 e2). apply eqv_app_l.
    apply (eqv_app_l [x] [IApply []] []). apply eqv_drop.
  Qed.

  Lemma step_eq xor s A B x l : (forall s', exec xor s' A = exec xor s' (B ++ [x])) ->
    exec xor s (A ++ l) = exec xor s (B ++ x :: l).
  Proof.
    intro H. rewrite (exec_app OP e1 e2), H, <- (exec_app OP e1 e2), <- app_assoc. reflexivity.
  Qed.

  Lemma step_tail xor s p x l : exec xor s ((p ++ [x; IApply []]) ++ l) = exec xor s (p ++ x :: l).
  Proof. rewrite (exec_app OP e1 e2), exec_drop_tail, <- (exec_app OP e1 e2), <- app_assoc. reflexivity. Qed.

  (** one statement: the flattened queue afterwards runs like the queue before followed by the
      statement's contribution *)
  Lemma stmts_trace base : forall nodes ch ch',
    process_nodes OP base ch nodes = IOk ch' ->
    exists l, stmts base ch nodes ch' l /\
              forall xor s, exec xor s (flat (i_ops ch')) = exec xor s (flat (i_ops ch) ++ l).
  Proof.
    induction nodes as [|n nodes IH]; intros ch ch' H; cbn [process_nodes] in H.
    - injection H as <-. exists []. split; [constructor|]. intros xor s. rewrite app_nil_r. reflexivity.
    - apply ibind_ok in H. destruct H as [c1 [E1 H]].
      destruct (IH c1 ch' H) as [l [Hs Hx]].
      assert (other : i_ops c1 = i_ops ch ->
                match n with NQReg _ _ | NCReg _ _ | NBarrier _ | NOpaque | NGate _ _ _ _ => True | _ => False end ->
                exists l0, stmts base ch (n :: nodes) ch' l0 /\
                  forall xor s, exec xor s (flat (i_ops ch')) = exec xor s (flat (i_ops ch) ++ l0)).
      { intros Eo Hn. exists l. split; [eapply T_other; eassumption|]. rewrite <- Eo. exact Hx. }
      destruct n as [alias size|alias size|a|a|q cc|name regs args| |name regs params body|lhs rhs body].
      + (* qreg *) apply other; [|exact I].
        cbn [process_node1] in E1. unfold process_qreg in E1.
        repeat (match type of E1 with ibind ?r _ = _ => destruct r; cbn [ibind] in E1; try discriminate end).
        injection E1 as <-. reflexivity.
      + (* creg *) apply other; [|exact I].
        cbn [process_node1] in E1. unfold process_creg in E1.
        repeat (match type of E1 with ibind ?r _ = _ => destruct r; cbn [ibind] in E1; try discriminate end).
        injection E1 as <-. reflexivity.
      + (* barrier *) apply other; [|exact I]. cbn [process_node1] in E1. injection E1 as <-. reflexivity.
      + (* reset *)
        assert (E1' := E1). cbn [process_node1] in E1'.
        apply ibind_ok in E1'. destruct E1' as [qm [Hq E1']]. injection E1' as E1'.
        exists (IReset qm :: l). split; [eapply T_reset; eassumption|].
        intros xor s. rewrite Hx, <- E1'. cbn [set_ops i_ops]. rewrite flat_bwi_reset.
        apply step_tail.
      + (* measure *)
        assert (E1' := E1). cbn [process_node1] in E1'.
        apply ibind_ok in E1'. destruct E1' as [qm [Hq E1']].
        apply ibind_ok in E1'. destruct E1' as [cm [Hc E1']].
        destruct (N.eqb_spec (popcount qm) (popcount cm)) as [Ep|Ep]; cbn [negb] in E1'; [|discriminate].
        injection E1' as E1'.
        exists (IMeas qm cm :: l). split; [eapply T_measure; eassumption|].
        intros xor s. rewrite Hx, <- E1'. cbn [set_ops i_ops]. rewrite flat_bwi_meas.
        apply step_tail.
      + (* gate statement *)
        assert (E1' := E1). cbn [process_node1] in E1'. unfold process_apply in E1'.
        apply ibind_ok in E1'. destruct E1' as [rv [_ E1']].
        apply ibind_ok in E1'. destruct E1' as [av [_ E1']].
        apply ibind_ok in E1'. destruct E1' as [o [_ E1']]. injection E1' as E1'.
        assert (Eo : i_ops c1 = ext_push (i_ops ch) o) by (rewrite <- E1'; reflexivity).
        exists (IApply o :: l). split; [eapply T_apply; eassumption|].
        intros xor s. rewrite Hx, Eo. apply step_eq. intro s'.
        apply (eqv_exec OP e1 e2). apply flat_push.
      + (* opaque *) apply other; [|exact I]. cbn [process_node1] in E1. injection E1 as <-. reflexivity.
      + (* gate definition *) apply other; [|exact I].
        cbn [process_node1] in E1. unfold process_gate in E1.
        destruct (macro_new OP regs params body); cbn [ibind] in E1; try discriminate.
        destruct (has_macro name base || has_macro name ch)%bool; [discriminate|].
        destruct (check_ident name); cbn [ibind] in E1; try discriminate.
        injection E1 as <-. reflexivity.
      + (* if *)
        assert (E1' := E1). cbn [process_node1] in E1'.
        destruct body as [| | | | |name regs args| | |]; try discriminate.
        apply ibind_ok in E1'. destruct E1' as [val [Hv E1']].
        apply ibind_ok in E1'. destruct E1' as [ch2 [H2 E1']]. injection E1' as E1'.
        assert (H2' := H2). unfold process_apply in H2'.
        apply ibind_ok in H2'. destruct H2' as [rv [_ H2']].
        apply ibind_ok in H2'. destruct H2' as [av [_ H2']].
        apply ibind_ok in H2'. destruct H2' as [o [_ H2']]. injection H2' as H2'.
        assert (Eo2 : i_ops ch2 = ext_push (ext_branch (i_ops ch) SNop) o) by (rewrite <- H2'; reflexivity).
        assert (Eo : i_ops c1 = ext_if (i_ops ch) o val (size_as_N rhs)).
        { rewrite <- E1'. cbn [set_ops i_ops]. rewrite Eo2. reflexivity. }
        exists (IIf o val (size_as_N rhs) :: l). split; [eapply T_if; eassumption|].
        intros xor s. rewrite Hx, Eo. apply step_eq. intro s'.
        rewrite (eqv_exec OP e1 e2 xor _ _ s' (flat_if (i_ops ch) o val (size_as_N rhs))).
        rewrite !(exec_app OP e1 e2). apply exec_if_items.
  Qed.

  (** the same fact from the derivation alone *)
  Lemma stmts_exec base ch nodes ch' l : stmts base ch nodes ch' l ->
    forall xor s, exec xor s (flat (i_ops ch')) = exec xor s (flat (i_ops ch) ++ l).
  Proof.
    induction 1 as [ch0|ch0 name regs args ch1 o rest ch' l0 Ha Eo _ IHs
                   |ch0 lhs v name regs args val ch2 o ch1 rest ch' l0 Hv H2 Eo2 E1 _ IHs
                   |ch0 q c qm cm ch1 rest ch' l0 Hq Hc Ep E1 _ IHs
                   |ch0 a qm ch1 rest ch' l0 Hq E1 _ IHs
                   |ch0 n ch1 rest ch' l0 Hn E1 Eo _ IHs]; intros xor0 s0.
    - rewrite app_nil_r. reflexivity.
    - rewrite IHs. rewrite Eo. apply step_eq. intro s'. apply (eqv_exec OP e1 e2). apply flat_push.
    - rewrite IHs.
      assert (Eo : i_ops ch1 = ext_if (i_ops ch0) o val (size_as_N v)).
      { cbn [process_node1] in E1.
        change (get_c_idx base (set_ops ch0 (ext_branch (i_ops ch0) SNop)) (Register lhs)) with (get_c_idx base ch0 (Register lhs)) in E1.
        rewrite Hv in E1. cbn [ibind] in E1. rewrite H2 in E1. cbn [ibind] in E1.
        injection E1 as <-. cbn [set_ops i_ops]. rewrite Eo2. reflexivity. }
      rewrite Eo. apply step_eq. intro s'.
      rewrite (eqv_exec OP e1 e2 xor0 _ _ s' (flat_if (i_ops ch0) o val (size_as_N v))).
      rewrite !(exec_app OP e1 e2). apply exec_if_items.
    - rewrite IHs.
      cbn [process_node1] in E1. rewrite Hq in E1. cbn [ibind] in E1. rewrite Hc in E1. cbn [ibind] in E1.
      rewrite Ep, N.eqb_refl in E1. cbn [negb] in E1. injection E1 as <-. cbn [set_ops i_ops].
      rewrite flat_bwi_meas. apply step_tail.
    - rewrite IHs.
      cbn [process_node1] in E1. rewrite Hq in E1. cbn [ibind] in E1. injection E1 as <-. cbn [set_ops i_ops].
      rewrite flat_bwi_reset. apply step_tail.
    - rewrite IHs. rewrite Eo. reflexivity.
  Qed.

  Lemma stmts_count base ch nodes ch' l : stmts base ch nodes ch' l ->
    length l = length (filter (fun n => match n with
                                        | NApply _ _ _ | NIf _ _ _ | NMeasure _ _ | NReset _ => true
                                        | _ => false end) nodes).
  Proof.
    induction 1 as [ch|ch name regs args ch1 o rest ch' l _ _ _ IH
                   |ch lhs v name regs args val ch2 o ch1 rest ch' l _ _ _ _ _ IH
                   |ch q c qm cm ch1 rest ch' l _ _ _ _ _ IH
                   |ch a qm ch1 rest ch' l _ _ _ IH
                   |ch n ch1 rest ch' l Hn _ _ _ IH]; cbn [filter length]; try (rewrite IH; reflexivity).
    - reflexivity.
    - destruct n; try contradiction; exact IH.
  Qed.
End Program.

(** the whole program *)
Definition C11_program_stmt : Prop :=
  forall (F : Type) (OP : ops F) (e1 e2 : F) (nodes : list (@node F)) (i : @int F),
    int_new OP nodes = IOk i ->
    exists (ch : @int F) (l : list (@item F)),
      i = push_ast ch nodes /\
      stmts OP int_empty int_empty nodes ch l /\
      length l = length (filter (fun n => match n with
                                          | NApply _ _ _ | NIf _ _ _ | NMeasure _ _ | NReset _ => true
                                          | _ => false end) nodes) /\
      forall draws,
        exists r c rest,
          C17T2.exec OP e1 e2 (i_xor i)
                     (Some (reg_new OP (lenN (i_qreg i)), creg_new (lenN (i_creg i)), draws)) l = Some (r, c, rest) /\
          sym_finish OP e1 e2 (sym_new OP i) draws =
          Some {| s_xor := i_xor i; s_q := r; s_c := c; s_ops := i_ops i |}.

Lemma C11_program_proof : C11_program_stmt.
Proof.
  intros F OP e1 e2 nodes i Hi.
  unfold int_new, add_ast, ast_changes in Hi.
  destruct (process_nodes OP int_empty int_empty nodes) as [ch| |] eqn:E; cbn [ibind] in Hi; try discriminate.
  injection Hi as <-.
  destruct (stmts_trace OP e1 e2 int_empty nodes int_empty ch E) as [l [Hs Hx]].
  exists ch, l. split; [reflexivity|]. split; [exact Hs|]. split; [exact (stmts_count OP _ _ _ _ _ Hs)|].
  intro draws.
  cbn [push_ast i_xor i_qreg i_creg i_ops].
  destruct (sym_finish_total OP e1 e2 (sym_new OP (push_ast ch nodes)) draws) as [s' Hs'].
  rewrite (sym_finish_exec OP e1 e2) in Hs'. unfold sym_new in Hs'. cbn [s_xor s_q s_c s_ops push_ast i_xor i_qreg i_creg i_ops] in Hs'.
  rewrite Hx in Hs'. rewrite (exec_app OP e1 e2) in Hs'.
  change (flat (i_ops int_empty)) with ([@IApply F []]) in Hs'.
  change (C17T2.exec OP e1 e2 (i_xor ch) (Some (reg_new OP (lenN (i_qreg ch)), creg_new (lenN (i_creg ch)), draws)) [IApply []])
    with (Some (apply_block OP (reg_new OP (lenN (i_qreg ch))) [], creg_new (lenN (i_creg ch)), draws)) in Hs'.
  rewrite (apply_block_nil OP) in Hs'.
  destruct (C17T2.exec OP e1 e2 (i_xor ch) (Some (reg_new OP (lenN (i_qreg ch)), creg_new (lenN (i_creg ch)), draws)) l)
    as [[[r c] rest]|] eqn:Ex; [|discriminate].
  exists r, c, rest. split; [reflexivity|].
  rewrite (sym_finish_exec OP e1 e2). unfold sym_new. cbn [s_xor s_q s_c s_ops push_ast i_xor i_qreg i_creg i_ops].
  rewrite Hx, (exec_app OP e1 e2).
  change (flat (i_ops int_empty)) with ([@IApply F []]).
  change (C17T2.exec OP e1 e2 (i_xor ch) (Some (reg_new OP (lenN (i_qreg ch)), creg_new (lenN (i_creg ch)), draws)) [IApply []])
    with (Some (apply_block OP (reg_new OP (lenN (i_qreg ch))) [], creg_new (lenN (i_creg ch)), draws)).
  rewrite (apply_block_nil OP), Ex. reflexivity.
Qed.

(** ** sessions: chunks added one by one (and a switch to the accumulating mode at any point)
    execute the statements of all accepted chunks, in the order they were added *)
Section Session.
  Context {F : Type} (OP : ops F) (e1 e2 : F).

  Inductive session_l : @int F -> list (@item F) -> Prop :=
  | L_empty : session_l int_empty []
  | L_add i l chunk ch lc :
      session_l i l -> process_nodes OP int_empty i chunk = IOk ch -> stmts OP int_empty i chunk ch lc ->
      session_l (push_ast ch chunk) (l ++ lc)
  | L_xor i l : session_l i l -> session_l (int_xor i) l.

  Lemma session_l_exec i l : session_l i l ->
    forall xor s, C17T2.exec OP e1 e2 xor s (flat (i_ops i)) = C17T2.exec OP e1 e2 xor s (IApply [] :: l).
  Proof.
    induction 1 as [|i l chunk ch lc _ IH Hp Hs|i l _ IH]; intros xor s.
    - reflexivity.
    - cbn [push_ast i_ops]. rewrite (stmts_exec OP e1 e2 _ _ _ _ _ Hs).
      rewrite (exec_app OP e1 e2), IH, <- (exec_app OP e1 e2). reflexivity.
    - apply IH.
  Qed.
End Session.

Definition C11_session_stmt : Prop :=
  forall (F : Type) (OP : ops F) (e1 e2 : F),
    (* every chunk accepted by [add_ast] extends the statement list of the session by its own statements *)
    (forall (i : @int F) l chunk i', session_l OP i l -> add_ast OP i chunk = (IOk tt, i') ->
       exists lc, session_l OP i' (l ++ lc) /\
                  length lc = length (filter (fun n => match n with
                                                       | NApply _ _ _ | NIf _ _ _ | NMeasure _ _ | NReset _ => true
                                                       | _ => false end) chunk)) /\
    (* and a simulator built from the session runs that list from left to right *)
    (forall (i : @int F) l, session_l OP i l -> forall draws,
       exists r c rest,
         C17T2.exec OP e1 e2 (i_xor i)
                    (Some (reg_new OP (lenN (i_qreg i)), creg_new (lenN (i_creg i)), draws)) l = Some (r, c, rest) /\
         sym_finish OP e1 e2 (sym_new OP i) draws =
         Some {| s_xor := i_xor i; s_q := r; s_c := c; s_ops := i_ops i |}).

Lemma C11_session_proof : C11_session_stmt.
Proof.
  intros F OP e1 e2. split.
  - intros i l chunk i' Hs Ha. unfold add_ast, ast_changes in Ha.
    destruct (process_nodes OP int_empty i chunk) as [ch| |] eqn:E; cbn [ibind] in Ha; try discriminate.
    injection Ha as <-.
    destruct (stmts_trace OP e1 e2 int_empty chunk i ch E) as [lc [Hst _]].
    exists lc. split; [eapply L_add; eassumption|]. exact (stmts_count OP _ _ _ _ _ Hst).
  - intros i l Hs draws.
    destruct (sym_finish_total OP e1 e2 (sym_new OP i) draws) as [s' Hs'].
    assert (Hf := sym_finish_exec OP e1 e2 (sym_new OP i) draws). rewrite Hs' in Hf.
    unfold sym_new in Hf. cbn [s_xor s_q s_c s_ops] in Hf.
    rewrite (session_l_exec OP e1 e2 i l Hs) in Hf.
    rewrite (exec_cons OP e1 e2) in Hf. cbn [C17T2.exec1] in Hf. rewrite (apply_block_nil OP) in Hf.
    destruct (C17T2.exec OP e1 e2 (i_xor i) (Some (reg_new OP (lenN (i_qreg i)), creg_new (lenN (i_creg i)), draws)) l)
      as [[[r c] rest]|] eqn:Ex; [|discriminate].
    exists r, c, rest. split; [reflexivity|]. rewrite Hs'. exact Hf.
Qed.

(** non-vacuity: a program with a gate, a register measurement, a conditional, a barrier and a reset
    is accepted, and the theorem gives it four statements *)
Definition ex_prog : list (@node R) :=
  [NQReg "q" 2%Z; NCReg "c" 2%Z; NApply "x" [Qubit "q" 0%Z] []; NMeasure (Register "q") (Register "c");
   NIf "c" 1%Z (NApply "x" [Qubit "q" 1%Z] []); NBarrier (Register "q"); NReset (Qubit "q" 0%Z)]%string.

Example C11_program_example :
  exists i ch l, int_new Rops ex_prog = IOk i /\ i = push_ast ch ex_prog /\
                 stmts Rops int_empty int_empty ex_prog ch l /\ length l = 4%nat.
Proof.
  destruct (int_new Rops ex_prog) as [i| |] eqn:E; [|vm_compute in E; discriminate|vm_compute in E; discriminate].
  destruct (C11_program_proof R Rops 0%R 0%R ex_prog i E) as [ch [l [Hi [Hs [Hl _]]]]].
  exists i, ch, l. split; [reflexivity|]. split; [exact Hi|]. split; [exact Hs|exact Hl].
Qed.
