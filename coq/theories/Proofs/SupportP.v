(** * SupportP: an operator touches only the qubits named when it was built.
    For every constructor, product, dagger and control, every element's target and control masks
    lie inside the union of the masks given to the constructors (and the control masks); for the
    interpreter: inside the union of the resolved register arguments. *)
From Coq Require Import Reals Lia String.
From QV Require Import Interp Spec Expr ScalarR BitsP BitsIterP OpP LocalP WfP C03T C03T2 C05T C09T C09T3.
Open Scope N_scope.
Open Scope list_scope.

Definition sup (M : N) (q : multi R) : Prop := Forall (fun s => inside (single_act_on s) M) q.

Lemma inside_0 M : inside 0 M.
Proof. unfold inside. apply N.ldiff_0_l. Qed.

Lemma inside_refl m : inside m m.
Proof. unfold inside. apply N.ldiff_diag. Qed.

Lemma inside_trans a b c : inside a b -> inside b c -> inside a c.
Proof.
  unfold inside. intros H1 H2. apply N.bits_inj. intro t.
  assert (X := f_equal (fun x => N.testbit x t) H1). assert (Y := f_equal (fun x => N.testbit x t) H2). cbn beta in X, Y.
  rewrite N.ldiff_spec, N.bits_0 in *.
  destruct (N.testbit a t), (N.testbit b t), (N.testbit c t); try reflexivity; discriminate.
Qed.

Lemma inside_pow2 p m : N.testbit m p = true -> inside (2 ^ p) m.
Proof.
  intro H. unfold inside. apply N.bits_inj. intro t. rewrite N.ldiff_spec, pow2_bits, N.bits_0.
  destruct (N.eqb_spec p t) as [<-|]; [rewrite H|]; reflexivity.
Qed.

Lemma inside_lor_l a b : inside a (N.lor a b).
Proof. unfold inside. apply ldiff_lor_l. Qed.
Lemma inside_lor_r a b : inside b (N.lor a b).
Proof. unfold inside. apply ldiff_lor_r. Qed.

Lemma sup_nil M : sup M [].
Proof. constructor. Qed.

Lemma sup_app M p q : sup M p -> sup M q -> sup M (p ++ q).
Proof. intros. apply Forall_app. split; assumption. Qed.

Lemma sup_mono a M q : sup a q -> inside a M -> sup M q.
Proof. intros H Ha. eapply Forall_impl; [|exact H]. intros s Hs. cbv beta in *. eapply inside_trans; eassumption. Qed.

Lemma sup_fold M (q : multi R) : sup M q -> forall a, inside a M ->
  inside (fold_left (fun a s => N.lor a (single_act_on s)) q a) M.
Proof.
  induction 1 as [|s q Hs _ IH]; intros a Ha; cbn [fold_left]; [exact Ha|].
  apply IH. apply inside_lor. split; assumption.
Qed.

Lemma sup_act_on M (q : multi R) : sup M q <-> inside (multi_act_on q) M.
Proof.
  split.
  - intro H. apply (sup_fold M q H). apply inside_0.
  - intro H. exact (proj2 (inside_fold q M 0 H)).
Qed.

Lemma sup_single_of (g : atomic R) M : inside (acts_on g) M -> sup M (multi_of_single (single_of g)).
Proof.
  intro H. unfold multi_of_single. cbn [s_func single_of s_ctrl].
  assert (X : sup M [single_of g]).
  { constructor; [|constructor]. unfold single_act_on, single_of. cbn [s_act s_ctrl]. rewrite N.lor_0_r. exact H. }
  destruct g; try exact X. cbn [N.eqb]. constructor.
Qed.

Lemma sup_lift_checked (g : atomic R) q M : lift (checked Rops g) = Some q -> inside (acts_on g) M -> sup M q.
Proof.
  unfold lift, checked. destruct (is_valid Rops g); [|discriminate]. intros H Hg. injection H as <-.
  apply sup_single_of. exact Hg.
Qed.

Lemma sup_dgr M q : sup M q -> sup M (multi_dgr Rops q).
Proof.
  intro H. unfold multi_dgr. apply Forall_rev. apply Forall_map.
  eapply Forall_impl; [|exact H]. intros s Hs. exact Hs.
Qed.

Lemma sup_c M q c q' : sup M q -> inside c M -> multi_c q c = Some q' -> sup M q'.
Proof.
  intros H Hc Hq. unfold multi_c in Hq. destruct (negb _); [discriminate|]. injection Hq as <-.
  apply Forall_map. eapply Forall_impl; [|exact H]. intros s Hs. cbv beta in *.
  unfold single_act_on, single_c_unchecked in *. cbn [s_act s_ctrl].
  rewrite N.lor_assoc. apply inside_lor. split; assumption.
Qed.

Lemma sup_opt_app M a b q : opt_app a b = Some q ->
  (forall x, a = Some x -> sup M x) -> (forall y, b = Some y -> sup M y) -> sup M q.
Proof.
  unfold opt_app. destruct a as [x|], b as [y|]; try discriminate. intros H Ha Hb.
  injection H as <-. apply sup_app; [apply Ha|apply Hb]; reflexivity.
Qed.

Lemma sup_h_pairs M : forall l, Forall (fun b => inside b M) l -> sup M (@h_pairs R l).
Proof.
  fix IH 1. intros [|a [|b l]] H; cbn [h_pairs].
  - constructor.
  - inversion H; subst. constructor; [|constructor].
    unfold single_act_on, single_of. cbn [s_act s_ctrl acts_on]. rewrite N.lor_0_r. assumption.
  - inversion H as [|x xs Ha H']; subst. inversion H' as [|y ys Hb H'']; subst.
    constructor; [|apply IH; exact H''].
    unfold single_act_on, single_of. cbn [s_act s_ctrl acts_on]. rewrite N.lor_0_r.
    apply inside_lor. split; assumption.
Qed.

Lemma scan64_inside m : Forall (fun b => inside b m) (scan64 m).
Proof.
  apply Forall_forall. intros w Hw. apply scan64_in in Hw. destruct Hw as [j [-> [_ Hb]]].
  apply inside_pow2. exact Hb.
Qed.

Lemma sup_op_h m q : @op_h R m = Some q -> sup m q.
Proof.
  unfold op_h. rewrite walk_bits_spec. destruct (popcount m) as [|[p|p|]]; intro H; injection H as <-.
  - constructor.
  - apply sup_h_pairs, scan64_inside.
  - apply sup_h_pairs, scan64_inside.
  - apply sup_single_of. apply inside_refl.
Qed.

Lemma sup_phase_shift l m q : op_phase_shift Rops l m = Some q -> sup m q.
Proof. intro H. eapply sup_lift_checked; [exact H|apply inside_refl]. Qed.

Lemma sup_qft_rots M c ts : inside c M -> Forall (fun t => inside t M) ts ->
  forall j q, qft_rots Rops c ts j = Some q -> sup M q.
Proof.
  intros Hc. induction 1 as [|t ts Ht _ IH]; intros j q H; cbn [qft_rots] in H.
  - injection H as <-. constructor.
  - eapply sup_opt_app; [exact H| |].
    + intros x Hx. unfold opt_c in Hx. destruct (op_phase_shift Rops _ t) eqn:E; [|discriminate].
      eapply sup_c; [|exact Hc|exact Hx]. eapply sup_mono; [eapply sup_phase_shift; exact E|exact Ht].
    + intros y Hy. eapply IH. exact Hy.
Qed.

Lemma sup_qft_stages M bs : Forall (fun b => inside b M) bs -> forall q, qft_stages Rops bs = Some q -> sup M q.
Proof.
  induction 1 as [|b bs Hb Hbs IH]; intros q H.
  - cbn in H. injection H as <-. constructor.
  - destruct bs as [|b2 bs].
    + cbn [qft_stages] in H. eapply sup_mono; [eapply sup_op_h; exact H|exact Hb].
    + change (qft_stages Rops (b :: b2 :: bs)) with
        (opt_app (opt_app (op_h b) (qft_rots Rops b (b2 :: bs) 1)) (qft_stages Rops (b2 :: bs))) in H.
      eapply sup_opt_app; [exact H| |].
      * intros x Hx. eapply sup_opt_app; [exact Hx| |].
        -- intros y Hy. eapply sup_mono; [eapply sup_op_h; exact Hy|exact Hb].
        -- intros y Hy. eapply sup_qft_rots; [exact Hb|exact Hbs|exact Hy].
      * intros y Hy. apply IH. exact Hy.
Qed.

Lemma sup_op_qft m q : op_qft Rops m = Some q -> sup m q.
Proof.
  unfold op_qft. destruct (popcount m) as [|[p|p|]]; intro H.
  - injection H as <-. constructor.
  - eapply sup_qft_stages; [apply scan64_inside|exact H].
  - eapply sup_qft_stages; [apply scan64_inside|exact H].
  - eapply sup_op_h. exact H.
Qed.

Lemma sup_swap_pairs M k : forall l q, Forall (fun b => inside b M) l -> swap_pairs Rops l k = Some q -> sup M q.
Proof.
  induction k as [|k IH]; intros l q Hl H; cbn [swap_pairs] in H.
  - injection H as <-. constructor.
  - destruct l as [|a rest]; [injection H as <-; constructor|].
    inversion Hl as [|x xs Ha Hrest]; subst.
    assert (Hrev : Forall (fun b => inside b M) (rev rest)) by (apply Forall_rev; exact Hrest).
    destruct (rev rest) as [|z mid]; [injection H as <-; constructor|].
    inversion Hrev as [|y ys Hz Hmid]; subst.
    eapply sup_opt_app; [exact H| |].
    + intros x Hx. unfold op_swap in Hx. eapply sup_lift_checked; [exact Hx|]. cbn [acts_on].
      apply inside_lor. split; assumption.
    + intros y Hy. eapply IH; [|exact Hy]. apply Forall_rev. exact Hmid.
Qed.

Lemma sup_op_qft_swapped m q : op_qft_swapped Rops m = Some q -> sup m q.
Proof.
  unfold op_qft_swapped. rewrite walk_bits_spec. intro H.
  eapply sup_opt_app; [exact H| |].
  - intros x Hx. eapply sup_swap_pairs; [apply scan64_inside|exact Hx].
  - intros y Hy. eapply sup_op_qft. exact Hy.
Qed.

Lemma sup_u123 M (a b c : atomic R) q :
  opt_app (opt_app (lift (checked Rops a)) (lift (checked Rops b))) (lift (checked Rops c)) = Some q ->
  inside (acts_on a) M -> inside (acts_on b) M -> inside (acts_on c) M -> sup M q.
Proof.
  intros H Ha Hb Hc. eapply sup_opt_app; [exact H| |].
  - intros x Hx. eapply sup_opt_app; [exact Hx| |]; intros y Hy; eapply sup_lift_checked; try exact Hy; assumption.
  - intros y Hy. eapply sup_lift_checked; [exact Hy|]. assumption.
Qed.

(** ** operator expressions *)
Fixpoint masks (e : opexpr R) : N :=
  match e with
  | EId => 0
  | EX m | EY m | EZ m | ES m | ET m | EH m => m
  | ERx _ m | ERy _ m | ERz _ m | ERxx _ m | ERyy _ m | ERzz _ m => m
  | ESwap m | ESqrtSwap m | EISwap m | ESqrtISwap m => m
  | EU1 _ m | EU2 _ _ m | EU3 _ _ _ m => m
  | EQft m | EQftSwapped m => m
  | EMul a b => N.lor (masks a) (masks b)
  | EDgr a => masks a
  | EC m a => N.lor m (masks a)
  end.

Lemma of_opt_ok k (o : option (multi R)) q : of_opt k o = ROk q -> o = Some q.
Proof. unfold of_opt. destruct o; intro H; [injection H as <-; reflexivity|discriminate]. Qed.

Theorem eval_sup (e : opexpr R) : forall q, eval Rops e = ROk q -> sup (masks e) q.
Proof.
  induction e; intros q H; cbn [eval masks] in *; try (apply of_opt_ok in H).
  - injection H as <-. constructor.
  - injection H as <-. apply sup_single_of, inside_refl.
  - injection H as <-. apply sup_single_of, inside_refl.
  - injection H as <-. apply sup_single_of, inside_refl.
  - injection H as <-. apply sup_single_of, inside_refl.
  - injection H as <-. apply sup_single_of, inside_refl.
  - apply sup_op_h; exact H.
  - eapply sup_lift_checked; [exact H|apply inside_refl].
  - eapply sup_lift_checked; [exact H|apply inside_refl].
  - eapply sup_lift_checked; [exact H|apply inside_refl].
  - eapply sup_lift_checked; [exact H|apply inside_refl].
  - eapply sup_lift_checked; [exact H|apply inside_refl].
  - eapply sup_lift_checked; [exact H|apply inside_refl].
  - eapply sup_lift_checked; [exact H|apply inside_refl].
  - eapply sup_lift_checked; [exact H|apply inside_refl].
  - eapply sup_lift_checked; [exact H|apply inside_refl].
  - eapply sup_lift_checked; [exact H|apply inside_refl].
  - eapply sup_lift_checked; [exact H|apply inside_refl].
  - eapply sup_u123; [exact H| | |]; apply inside_refl.
  - eapply sup_u123; [exact H| | |]; apply inside_refl.
  - apply sup_op_qft; exact H.
  - apply sup_op_qft_swapped; exact H.
  - destruct (eval Rops e1) as [x| |]; try discriminate.
    destruct (eval Rops e2) as [y| |]; try discriminate.
    injection H as <-. apply sup_app.
    + eapply sup_mono; [apply IHe1; reflexivity|apply inside_lor_l].
    + eapply sup_mono; [apply IHe2; reflexivity|apply inside_lor_r].
  - destruct (eval Rops e) as [x| |]; try discriminate. injection H as <-. apply sup_dgr, IHe. reflexivity.
  - destruct (eval Rops e) as [x| |]; try discriminate.
    destruct (multi_c x m) eqn:E; [|discriminate]. injection H as <-.
    eapply sup_c; [|apply inside_lor_l|exact E]. eapply sup_mono; [apply IHe; reflexivity|apply inside_lor_r].
Qed.

(** ** the interpreter's gate builder *)
Lemma lor_all_inside M regs : Forall (fun r => inside r M) regs -> forall a, inside a M -> inside (fold_left N.lor regs a) M.
Proof.
  induction 1 as [|r regs Hr _ IH]; intros a Ha; cbn [fold_left]; [exact Ha|].
  apply IH. apply inside_lor. split; assumption.
Qed.

Section Table.
  Variable M : N.

  Lemma gate_any_sup name mk regs args q :
    Forall (fun r => inside r M) regs ->
    (forall r q, inside r M -> mk r = IOk q -> sup M q) -> gate_any name mk regs args = IOk q -> sup M q.
  Proof.
    intros Hr Hmk. unfold gate_any. destruct (N.eqb _ 0); [discriminate|]. destruct (negb _); [discriminate|].
    apply Hmk. apply lor_all_inside; [exact Hr|apply inside_0].
  Qed.
  Lemma gate_2_sup name mk regs args q :
    Forall (fun r => inside r M) regs ->
    (forall r q, inside r M -> mk r = IOk q -> sup M q) -> gate_2 name mk regs args = IOk q -> sup M q.
  Proof.
    intros Hr Hmk. unfold gate_2. destruct (negb _); [discriminate|]. destruct (negb _); [discriminate|].
    apply Hmk. apply lor_all_inside; [exact Hr|apply inside_0].
  Qed.
  Lemma gate_r_sup name k mk regs (args : list R) q :
    Forall (fun r => inside r M) regs ->
    (forall a r q, inside r M -> mk a r = IOk q -> sup M q) -> gate_r name k mk regs args = IOk q -> sup M q.
  Proof.
    intros Hr Hmk. unfold gate_r. destruct (negb _); [discriminate|].
    destruct args as [|a [|b t]]; try discriminate. apply Hmk. apply lor_all_inside; [exact Hr|apply inside_0].
  Qed.

  Lemma gate_table_sup name regs args q :
    Forall (fun r => inside r M) regs -> gate_table Rops name regs args = IOk q -> sup M q.
  Proof.
    intro Hr. unfold gate_table.
    repeat match goal with
           | |- (if is_name name ?a ?b then _ else _) = _ -> _ => destruct (is_name name a b)
           end; try discriminate;
      first
        [ apply gate_any_sup; [exact Hr|]; intros r q0 Hin H; first
            [ injection H as <-; first [apply sup_single_of; exact Hin | apply sup_dgr, sup_single_of; exact Hin]
            | apply of_op_ok in H; eapply sup_mono; [first [exact (sup_op_h _ _ H) | exact (sup_op_qft _ _ H)]|exact Hin] ]
        | apply gate_r_sup; [exact Hr|]; intros a r q0 Hin H; apply of_op_ok in H;
          unfold op_u1, op_rx, op_ry, op_rz, op_rxx, op_ryy, op_rzz in H; eapply sup_lift_checked; [exact H|exact Hin]
        | apply gate_2_sup; [exact Hr|]; intros r q0 Hin H; apply of_op_ok in H;
          unfold op_swap, op_sqrt_swap, op_i_swap, op_sqrt_i_swap in H; eapply sup_lift_checked; [exact H|exact Hin]
        | unfold gate_u2; destruct (negb _); [discriminate|]; destruct args as [|a [|b [|c t]]]; try discriminate;
          intro H; apply of_op_ok in H; unfold op_u2, op_rz, op_ry in H;
          eapply sup_u123; [exact H|..]; cbn [acts_on]; (apply lor_all_inside; [exact Hr|apply inside_0])
        | unfold gate_u3; destruct (negb _); [discriminate|]; destruct args as [|a [|b [|c [|d t]]]]; try discriminate;
          intro H; apply of_op_ok in H; unfold op_u3, op_rz, op_ry in H;
          eapply sup_u123; [exact H|..]; cbn [acts_on]; (apply lor_all_inside; [exact Hr|apply inside_0]) ].
  Qed.

  Lemma gpf_sup fuel : forall name regs args q,
    Forall (fun r => inside r M) regs -> gates_process_from Rops fuel name regs args = IOk q -> sup M q.
  Proof.
    induction fuel as [|fuel IH]; intros name regs args q Hr H; [discriminate|].
    rewrite gpf_step in H. destruct (starts_with_c name); [|exact (gate_table_sup _ _ _ _ Hr H)].
    destruct regs as [|ctrl rest]; [discriminate|]. cbv zeta in H.
    inversion Hr as [|x xs Hc Hrest]; subst.
    match type of H with match ?inner with _ => _ end = _ => destruct inner as [o|e|w] eqn:Ei end.
    - destruct (multi_c o ctrl) as [o'|] eqn:Ec; [|discriminate]. injection H as <-.
      apply (sup_c M o ctrl o'); [|exact Hc|exact Ec].
      destruct (is_name (Interp.tail name) "u1" "U1").
      + revert Ei. apply gate_r_sup; [exact Hrest|]. intros a r q0 Hin Hq. apply of_op_ok in Hq.
        eapply sup_mono; [exact (sup_phase_shift _ _ _ Hq)|exact Hin].
      + exact (IH _ _ _ _ Hrest Ei).
    - destruct e; discriminate.
    - discriminate.
  Qed.

  Theorem gates_process_sup name regs args q :
    Forall (fun r => inside r M) regs -> gates_process Rops name regs args = IOk q -> sup M q.
  Proof. intro Hr. unfold gates_process. destruct (negb _); [discriminate|]. apply gpf_sup. exact Hr. Qed.
End Table.
