(** * Form2P: every kernel except the two-qubit Hadamard is a two-term linear form
      (K g psi) idx = A(idx & m) * psi idx + B(idx & m) * psi (idx xor m)
    whose coefficients read only the bits of idx under the gate's own mask.  Consequences:
    operators on disjoint qubits commute (C04), every kernel is linear. *)
From Coq Require Import Reals Lra Lia.
From QV Require Import Spec ScalarR BitsP BitsIterP VecP OpP LocalP C01P C03P RotP C01M C03M C03T C03T2 NormP.
Open Scope R_scope.

Notation CR := (C R).
Definition Cadd := cadd Rops.
Definition Cmul := cmul Rops.
Definition one : CR := c1 Rops.
Definition zero : CR := c0 Rops.

Ltac cx :=
  unfold Cadd, Cmul, one, zero, cadd, cmul, cneg, cconj, cscale, c0, c1, ci, re, im, iz, negz;
  cbn [fst snd f0 f1 fhalf fisq2 fadd fsub fmul fneg Rops].
Ltac cxring := cx; try (f_equal; ring).

Definition form2 (m : N) (A B : N -> CR) (f : vecR -> vecR) : Prop :=
  forall psi idx, f psi idx = Cadd (Cmul (A (N.land idx m)) (psi idx)) (Cmul (B (N.land idx m)) (psi (N.lxor idx m))).

Lemma land_xor_disj idx t m : N.land t m = 0%N -> N.land (N.lxor idx t) m = N.land idx m.
Proof.
  intro H. apply N.bits_inj. intro k. assert (X := f_equal (fun x => N.testbit x k) H). cbn beta in X.
  rewrite N.land_spec, N.bits_0 in X. rewrite !N.land_spec, N.lxor_spec.
  destruct (N.testbit idx k), (N.testbit t k), (N.testbit m k); try reflexivity; discriminate.
Qed.

Lemma rotate_as_mul z q : rotate Rops z q = Cmul (rotate Rops one q) z.
Proof.
  rewrite !rotate_mod4. destruct (q mod 4)%N as [|[[|[]|]|[|[]|]|]]; destruct z as [x y]; cxring.
Qed.

Lemma tau_as_mul z c : tau z c = Cmul (tau one c) z.
Proof.
  unfold tau. rewrite (rotate_as_mul z), (rotate_as_mul one). destruct (N.testbit c 0).
  - generalize (rotate Rops one (N.shiftr c 1)). intros [p q]. destruct z as [x y]. unfold exp_i_pi_4. cxring.
  - generalize (rotate Rops one (N.shiftr c 1)). intros [p q]. destruct z as [x y]. cxring.
Qed.

(** the coefficients, as functions of [idx & mask] *)
Definition stc (d : bool) (k : N) : N := if d then neg64 (popcount k) else popcount k.

Definition coefA (g : atomic R) (k : N) : CR :=
  match g with
  | AId => one
  | AX _ | AY _ => zero
  | AZ _ => if odd_bits k then cneg Rops one else one
  | AS _ d => rotate Rops one (stc d k)
  | AT _ d => tau one (stc d k)
  | AH1 _ => if N.eqb k 0 then (/ sqrt 2, 0) else (- / sqrt 2, 0)
  | ARX _ ph | ARXX _ ph => (fst ph, 0)
  | ARY _ ph => let ph' := if N.eqb k 0 then cconj Rops ph else ph in (fst ph', 0)
  | ARZ _ ph => if N.eqb k 0 then cconj Rops ph else ph
  | ARYY _ ph => let ph' := if odd_bits k then ph else cconj Rops ph in (fst ph', 0)
  | ARZZ _ ph => if odd_bits k then ph else cconj Rops ph
  | ASwap _ => if odd_bits k then zero else one
  | AISwap _ _ => if odd_bits k then zero else one
  | ASqrtSwap _ d => if odd_bits k then (if d then (/ 2, - / 2) else (/ 2, / 2)) else one
  | ASqrtISwap _ _ => if odd_bits k then (/ sqrt 2, 0) else one
  | AU1 _ mat => if N.eqb k 0 then mget Rops mat 0 else mget Rops mat 3
  | _ => zero
  end.

Definition coefB (g : atomic R) (k : N) : CR :=
  match g with
  | AX _ => one
  | AY m => rotate Rops one (ipv (popcount m) (N.odd (popcount k)))
  | AH1 _ => (/ sqrt 2, 0)
  | ARX _ ph | ARXX _ ph => (0, - snd ph)
  | ARY _ ph => let ph' := if N.eqb k 0 then cconj Rops ph else ph in (snd ph', 0)
  | ARYY _ ph => let ph' := if odd_bits k then ph else cconj Rops ph in (0, - snd ph')
  | ASwap _ => if odd_bits k then one else zero
  | AISwap _ d => if odd_bits k then (if d then (0, -1) else (0, 1)) else zero
  | ASqrtSwap _ d => if odd_bits k then (if d then (/ 2, / 2) else (/ 2, - / 2)) else zero
  | ASqrtISwap _ d => if odd_bits k then (if d then (0, - / sqrt 2) else (0, / sqrt 2)) else zero
  | AU1 _ mat => if N.eqb k 0 then mget Rops mat 1 else mget Rops mat 2
  | _ => zero
  end.

(** the kernels that have this form: all but H2 and the 4x4 matrix gate; U1 on one bit *)
Definition shape2 (g : atomic R) : Prop :=
  match g with
  | AH2 _ _ | AU2 _ _ _ => False
  | AU1 m _ => exists b, m = (2 ^ b)%N
  | _ => True
  end.

Lemma kernel_form2 g : shape2 g -> form2 (support g) (coefA g) (coefB g) (K g).
Proof.
  intros Hs psi idx. destruct g; cbn [shape2] in Hs; try contradiction; cbn [support acts_on kernel coefA coefB].
  - rewrite N.lxor_0_r. destruct (psi idx) as [x y]. cxring.
  - destruct (psi idx) as [x y], (psi (N.lxor idx m)) as [u v]. cxring.
  - change (if odd_bits (N.land idx m) then y_ipow m else N.lxor (y_ipow m) 2)
      with (ipv (popcount m) (N.odd (popcount (N.land idx m)))).
    rewrite rotate_as_mul. destruct (psi idx) as [x y]. generalize (psi (N.lxor idx m)). intros [u v].
    generalize (rotate Rops one (ipv (popcount m) (N.odd (popcount (N.land idx m))))). intros [p q]. cxring.
  - destruct (odd_bits (N.land idx m)); destruct (psi idx) as [x y], (psi (N.lxor idx m)) as [u v]; cxring.
  - unfold st_count. fold (stc dagger (N.land idx m)). rewrite rotate_as_mul.
    generalize (rotate Rops one (stc dagger (N.land idx m))). intros [p q].
    destruct (psi idx) as [x y], (psi (N.lxor idx m)) as [u v]. cxring.
  - change (tau (psi idx) (st_count m dagger idx) = Cadd (Cmul (tau one (stc dagger (N.land idx m))) (psi idx)) (Cmul zero (psi (N.lxor idx m)))).
    unfold st_count. fold (stc dagger (N.land idx m)). rewrite tau_as_mul.
    generalize (tau one (stc dagger (N.land idx m))). intros [p q].
    destruct (psi idx) as [x y], (psi (N.lxor idx m)) as [u v]. cxring.
  - destruct (N.eqb (N.land idx m) 0); cbn [negb]; destruct (psi idx) as [x y], (psi (N.lxor idx m)) as [u v]; cxring.
  - destruct phase as [c s]. destruct (psi idx) as [x y], (psi (N.lxor idx m)) as [u v]. cxring.
  - destruct phase as [c s]. destruct (N.eqb (N.land idx m) 0); destruct (psi idx) as [x y], (psi (N.lxor idx m)) as [u v]; cxring.
  - destruct phase as [c s]. destruct (N.eqb (N.land idx m) 0); destruct (psi idx) as [x y], (psi (N.lxor idx m)) as [u v]; cxring.
  - destruct phase as [c s]. destruct (psi idx) as [x y], (psi (N.lxor idx m)) as [u v]. cxring.
  - destruct phase as [c s]. destruct (odd_bits (N.land idx m)); destruct (psi idx) as [x y], (psi (N.lxor idx m)) as [u v]; cxring.
  - destruct phase as [c s]. destruct (odd_bits (N.land idx m)); destruct (psi idx) as [x y], (psi (N.lxor idx m)) as [u v]; cxring.
  - destruct (odd_bits (N.land idx m)); destruct (psi idx) as [x y], (psi (N.lxor idx m)) as [u v]; cxring.
  - destruct (odd_bits (N.land idx m)); [destruct dagger|]; destruct (psi idx) as [x y], (psi (N.lxor idx m)) as [u v]; cxring.
  - destruct (odd_bits (N.land idx m)); [destruct dagger|]; destruct (psi idx) as [x y], (psi (N.lxor idx m)) as [u v]; cxring.
  - destruct (odd_bits (N.land idx m)); [destruct dagger|]; destruct (psi idx) as [x y], (psi (N.lxor idx m)) as [u v]; cxring.
  - destruct Hs as [b ->]. rewrite ldiff_pow2, lor_clear_pow2, land_pow2_eq0.
    destruct (N.testbit idx b) eqn:Hb; cbn [negb].
    + rewrite (lxor_pow2_set idx b Hb), (setbit_id idx b Hb).
      generalize (mget Rops mat 2), (mget Rops mat 3), (psi (N.clearbit idx b)), (psi idx).
      intros [a1 a2] [b1 b2] [u v] [x y]. cxring.
    + rewrite (lxor_pow2_clear idx b Hb), (clearbit_id idx b Hb). unfold Cadd, Cmul. reflexivity.
Qed.

(** ** with a read mask [S] (targets and controls) wider than the flip mask [m] *)
Definition form2x (m S : N) (A B : N -> CR) (f : vecR -> vecR) : Prop :=
  forall psi idx, f psi idx = Cadd (Cmul (A (N.land idx S)) (psi idx)) (Cmul (B (N.land idx S)) (psi (N.lxor idx m))).

Lemma form2x_commute m1 S1 A1 B1 f1 m2 S2 A2 B2 f2 :
  form2x m1 S1 A1 B1 f1 -> form2x m2 S2 A2 B2 f2 ->
  N.land m1 S2 = 0%N -> N.land m2 S1 = 0%N ->
  forall psi idx, f1 (f2 psi) idx = f2 (f1 psi) idx.
Proof.
  intros F1 F2 D12 D21 psi idx.
  rewrite (F1 (f2 psi) idx), (F2 (f1 psi) idx), !F1, !F2.
  rewrite (land_xor_disj idx m1 S2 D12), (land_xor_disj idx m2 S1 D21).
  replace (N.lxor (N.lxor idx m2) m1) with (N.lxor (N.lxor idx m1) m2)
    by (rewrite !N.lxor_assoc; f_equal; apply N.lxor_comm).
  generalize (A1 (N.land idx S1)), (B1 (N.land idx S1)), (A2 (N.land idx S2)), (B2 (N.land idx S2)),
    (psi idx), (psi (N.lxor idx m1)), (psi (N.lxor idx m2)), (psi (N.lxor (N.lxor idx m1) m2)).
  intros [a1 a1'] [b1 b1'] [a2 a2'] [b2 b2'] [p p'] [q q'] [r r'] [s s']. cxring.
Qed.

Definition sA (s : single R) (k : N) : CR :=
  if ctrl_ok (s_ctrl s) k then coefA (s_func s) (N.land k (s_act s)) else one.
Definition sB (s : single R) (k : N) : CR :=
  if ctrl_ok (s_ctrl s) k then coefB (s_func s) (N.land k (s_act s)) else zero.

Lemma ctrl_ok_read c a idx : ctrl_ok c (N.land idx (N.lor a c)) = ctrl_ok c idx.
Proof.
  unfold ctrl_ok. f_equal. apply N.bits_inj. intro t. rewrite !N.ldiff_spec, N.land_spec, N.lor_spec.
  destruct (N.testbit c t), (N.testbit a t), (N.testbit idx t); reflexivity.
Qed.

Lemma land_read idx a c : N.land (N.land idx (N.lor a c)) a = N.land idx a.
Proof.
  apply N.bits_inj. intro t. rewrite !N.land_spec, N.lor_spec.
  destruct (N.testbit c t), (N.testbit a t), (N.testbit idx t); reflexivity.
Qed.

Lemma single_fn_ctrl (s : single R) psi idx :
  single_fn Rops s psi idx = if ctrl_ok (s_ctrl s) idx then K (s_func s) psi idx else psi idx.
Proof.
  unfold single_fn. destruct (N.eqb_spec (s_ctrl s) 0) as [E|E]; [|reflexivity].
  rewrite E, ctrl_ok_0. reflexivity.
Qed.

Lemma single_form2x (s : single R) : shape2 (s_func s) -> wf_single s ->
  form2x (s_act s) (single_act_on s) (sA s) (sB s) (single_fn Rops s).
Proof.
  intros Hs W psi idx. rewrite single_fn_ctrl. unfold sA, sB, single_act_on.
  rewrite ctrl_ok_read, land_read. unfold wf_single in W.
  destruct (ctrl_ok (s_ctrl s) idx).
  - rewrite W. apply (kernel_form2 (s_func s) Hs).
  - destruct (psi idx) as [x y], (psi (N.lxor idx (s_act s))) as [u v]. cxring.
Qed.

Lemma land_lor_0_l a c S : N.land (N.lor a c) S = 0%N -> N.land a S = 0%N.
Proof. intro H. rewrite N.land_lor_distr_l in H. apply N.lor_eq_0_iff in H. tauto. Qed.

Definition simple (s : single R) : Prop := shape2 (s_func s) /\ wf_single s.

Lemma simple_commute (s1 s2 : single R) : simple s1 -> simple s2 ->
  N.land (single_act_on s1) (single_act_on s2) = 0%N ->
  forall psi idx, single_fn Rops s1 (single_fn Rops s2 psi) idx = single_fn Rops s2 (single_fn Rops s1 psi) idx.
Proof.
  intros [H1 W1] [H2 W2] D.
  apply (form2x_commute _ _ _ _ _ _ _ _ _ _ (single_form2x s1 H1 W1) (single_form2x s2 H2 W2)).
  - unfold single_act_on in D at 1. apply (land_lor_0_l _ _ _ D).
  - rewrite N.land_comm in D. unfold single_act_on in D at 1. apply (land_lor_0_l _ _ _ D).
Qed.

(** ** lists of simple elements on disjoint qubits commute *)
Definition disj1 (s : single R) (q : multi R) : Prop :=
  Forall (fun t => N.land (single_act_on s) (single_act_on t) = 0%N) q.

Lemma commute_past (s : single R) (q : multi R) : simple s -> Forall simple q -> disj1 s q ->
  forall psi idx, multi_fn Rops q (single_fn Rops s psi) idx = single_fn Rops s (multi_fn Rops q psi) idx.
Proof.
  intros Hs. induction q as [|t q IH]; intros Hq Hd psi idx; [reflexivity|].
  inversion Hq as [|t0 q0 Ht Hq']; subst. inversion Hd as [|t1 q1 Dt Dq]; subst.
  rewrite !multi_fn_cons.
  rewrite (multi_fn_ext q (single_fn Rops t (single_fn Rops s psi)) (single_fn Rops s (single_fn Rops t psi)))
    by (intro i; symmetry; apply simple_commute; assumption).
  apply IH; assumption.
Qed.

Lemma simple_lists_commute (p q : multi R) : Forall simple p -> Forall simple q ->
  Forall (fun s => disj1 s q) p ->
  forall psi idx, multi_fn Rops (p ++ q) psi idx = multi_fn Rops (q ++ p) psi idx.
Proof.
  induction p as [|s p IH]; intros Hp Hq Hd psi idx.
  - rewrite app_nil_r. reflexivity.
  - inversion Hp as [|s0 p0 Hs Hp']; subst. inversion Hd as [|s1 p1 Ds Dp]; subst.
    cbn [app]. rewrite multi_fn_cons, (IH Hp' Hq Dp).
    rewrite !multi_fn_app. rewrite multi_fn_cons.
    apply multi_fn_ext. intro i. apply commute_past; assumption.
Qed.

(** ** the two-qubit Hadamard as two one-qubit Hadamards under the same controls *)
Definition expand (s : single R) : multi R :=
  match s_func s with
  | AH2 a b => [ {| s_act := b; s_ctrl := s_ctrl s; s_func := AH1 b |};
                 {| s_act := a; s_ctrl := s_ctrl s; s_func := AH1 a |} ]
  | _ => [s]
  end.

Lemma ctrl_ok_within S c i idx : within S i idx -> N.land S c = 0%N -> ctrl_ok c i = ctrl_ok c idx.
Proof.
  unfold within, ctrl_ok. intros W D. f_equal. apply N.bits_inj. intro t. rewrite !N.ldiff_spec.
  assert (X := f_equal (fun x => N.testbit x t) W). assert (Y := f_equal (fun x => N.testbit x t) D). cbn beta in X, Y.
  rewrite N.ldiff_spec, N.lxor_spec, N.bits_0 in X. rewrite N.land_spec, N.bits_0 in Y.
  destruct (N.testbit c t), (N.testbit S t), (N.testbit i t), (N.testbit idx t); try reflexivity; discriminate.
Qed.

Lemma expand_fn (s : single R) : good_single s ->
  forall psi idx, multi_fn Rops (expand s) psi idx = single_fn Rops s psi idx.
Proof.
  intros [G [W D]] psi idx. destruct s as [act ctrl g]. cbn [s_func s_act s_ctrl] in *. unfold expand. cbn [s_func s_ctrl].
  destruct G; try reflexivity.
  unfold wf_single in W. cbn [s_act s_func support acts_on] in W. subst act.
  rewrite multi_fn_cons. cbn [multi_fn fold_left]. rewrite !single_fn_ctrl. cbn [s_ctrl s_func].
  rewrite N.land_lor_distr_l in D. apply N.lor_eq_0_iff in D. destruct D as [Da Db].
  destruct (ctrl_ok ctrl idx) eqn:Hok.
  - rewrite (h2_comp a b H psi idx).
    apply (kernel_local Rops (AH1 (2 ^ a))). intros i Hw. cbn [support acts_on] in Hw.
    rewrite single_fn_ctrl. cbn [s_ctrl s_func]. rewrite (ctrl_ok_within _ _ _ _ Hw Da), Hok. reflexivity.
  - reflexivity.
Qed.

Lemma expand_simple (s : single R) : good_single s -> Forall simple (expand s).
Proof.
  intros [G [W D]]. destruct s as [act ctrl g]. cbn [s_func s_act s_ctrl] in *. unfold expand. cbn [s_func s_ctrl].
  assert (Gen : shape2 g -> Forall simple [{| s_act := act; s_ctrl := ctrl; s_func := g |}]).
  { intro Hs. constructor; [|constructor]. split; [exact Hs|exact W]. }
  destruct G; try (apply Gen; exact I); try (apply Gen; cbn [shape2]; eexists; reflexivity).
  constructor; [|constructor; [|constructor]]; (split; [exact I|reflexivity]).
Qed.

Lemma expand_inside (s : single R) T : N.land (single_act_on s) T = 0%N -> wf_single s ->
  Forall (fun t => N.land (single_act_on t) T = 0%N) (expand s).
Proof.
  intros Hd W. destruct s as [act ctrl g]. unfold expand. cbn [s_func s_ctrl].
  destruct g; try (constructor; [exact Hd|constructor]).
  unfold wf_single in W. cbn [s_act s_func support acts_on] in W. subst act.
  unfold single_act_on in *. cbn [s_act s_ctrl] in *.
  assert (P : forall x, N.land x (N.lor (N.lor a b) ctrl) = x -> N.land x T = 0%N).
  { intros x Hx. apply N.bits_inj. intro t.
    assert (X := f_equal (fun y => N.testbit y t) Hd). assert (Y := f_equal (fun y => N.testbit y t) Hx). cbn beta in X, Y.
    rewrite !N.land_spec, !N.lor_spec, ?N.bits_0 in *.
    destruct (N.testbit x t), (N.testbit a t), (N.testbit b t), (N.testbit ctrl t), (N.testbit T t); try reflexivity; discriminate. }
  constructor; [|constructor; [|constructor]]; cbn [s_act s_ctrl]; apply P; bitwise.
Qed.

Definition expand_all (q : multi R) : multi R := flat_map expand q.

Lemma expand_all_fn (q : multi R) : Forall good_single q ->
  forall psi idx, multi_fn Rops (expand_all q) psi idx = multi_fn Rops q psi idx.
Proof.
  induction q as [|s q IH]; intros G psi idx; [reflexivity|].
  inversion G as [|s0 q0 G1 G2]; subst. cbn [expand_all flat_map].
  rewrite multi_fn_app, multi_fn_cons. fold (expand_all q). rewrite (IH G2).
  apply multi_fn_ext. intro i. apply expand_fn. exact G1.
Qed.

Lemma expand_all_simple (q : multi R) : Forall good_single q -> Forall simple (expand_all q).
Proof.
  induction 1 as [|s q G _ IH]; [constructor|]. cbn [expand_all flat_map]. apply Forall_app. split; [apply expand_simple; exact G|exact IH].
Qed.
