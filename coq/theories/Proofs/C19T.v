(** * C19T: the shared-pool protocol cannot deadlock (repaired protocol), for any number of calls,
    any nesting, any thread counts and any lock-grant policy.  Axiom-free. *)
From Coq Require Import Lia.
From QV Require Import Pool.
Open Scope N_scope.

Lemma find_set_same id c l : find_call id (set_call id c l) = Some c.
Proof.
  induction l as [|[k c0] t IH]; cbn [set_call find_call]; [rewrite N.eqb_refl; reflexivity|].
  destruct (N.eqb_spec k id) as [E|E]; cbn [find_call]; [subst; rewrite N.eqb_refl; reflexivity|].
  destruct (N.eqb_spec k id); [contradiction|exact IH].
Qed.

Lemma find_set_other id id' c l : id' <> id -> find_call id' (set_call id c l) = find_call id' l.
Proof.
  intro H. induction l as [|[k c0] t IH]; cbn [set_call find_call].
  - destruct (N.eqb_spec id id'); [congruence|reflexivity].
  - destruct (N.eqb_spec k id) as [E|E]; cbn [find_call].
    + subst k. destruct (N.eqb_spec id id'); [congruence|reflexivity].
    + destruct (N.eqb_spec k id'); [reflexivity|exact IH].
Qed.

Lemma in_remove1 x id l : In x (remove1 id l) -> In x l.
Proof.
  induction l as [|y t IH]; cbn [remove1]; [tauto|].
  destruct (N.eqb_spec y id); cbn [In]; [tauto|]. intros [H|H]; [left; exact H|right; apply IH; exact H].
Qed.

Lemma in_remove1_other x id l : x <> id -> In x l -> In x (remove1 id l).
Proof.
  intro Hne. induction l as [|y t IH]; cbn [remove1 In]; [tauto|].
  destruct (N.eqb_spec y id) as [E|E]; cbn [In]; intros [H|H]; try (subst; congruence); auto.
Qed.

Lemma nodup_remove1 id l : NoDup l -> NoDup (remove1 id l) /\ ~ In id (remove1 id l).
Proof.
  induction 1 as [|y t Hy Ht IH]; cbn [remove1]; [split; [constructor|tauto]|].
  destruct (N.eqb_spec y id) as [E|E].
  - subst y. split; assumption.
  - destruct IH as [I1 I2]. split.
    + constructor; [|exact I1]. intro Hin. apply Hy. eapply in_remove1. exact Hin.
    + cbn [In]. intros [H|H]; [congruence|contradiction].
Qed.

(** the invariant: the lock's books agree with the program counters, and the lock is a lock *)
Definition Inv (s : pstate) : Prop :=
  NoDup (readers s) /\
  (forall id, In id (readers s) <-> exists c, find_call id (calls s) = Some c /\ c_pc c = Reading) /\
  (forall id, writer s = Some id <-> exists c, find_call id (calls s) = Some c /\ c_pc c = Writing) /\
  (writer s <> None -> readers s = []).

Lemma inv_init : Inv pinit.
Proof.
  unfold Inv, pinit. cbn. repeat split; try constructor; try tauto; try discriminate.
  - intros [c [H _]]. discriminate.
  - intros [c [H _]]. discriminate.
Qed.

Ltac other_call id id' :=
  destruct (N.eq_dec id' id) as [->|?]; [rewrite find_set_same|rewrite find_set_other by assumption].

Lemma step_inv s id want e s' : Inv s -> step s id want e = Some s' -> Inv s'.
Proof.
  intros [Hnd [Hr [Hw Hx]]] H. unfold step in H.
  set (c := match find_call id (calls s) with Some c => c | None => {| c_want := want; c_pc := Start |} end) in *.
  assert (Hc : forall c0, find_call id (calls s) = Some c0 -> c0 = c) by (intros c0 E; unfold c; rewrite E; reflexivity).
  assert (Hfresh : find_call id (calls s) = None -> c_pc c = Start) by (intro E; unfold c; rewrite E; reflexivity).
  assert (Hpc : forall p, p <> Start -> c_pc c = p -> find_call id (calls s) = Some c).
  { intros p Hp E. destruct (find_call id (calls s)) as [c0|] eqn:E0; [rewrite (Hc c0 eq_refl); reflexivity|].
    rewrite (Hfresh eq_refl) in E. congruence. }
  destruct (c_pc c) as [| |[|]| | | |] eqn:Epc; destruct e; try discriminate.
  - (* Start, ReadAcq *)
    destruct (writer s) eqn:Ew; [discriminate|]. injection H as <-. unfold Inv. cbn [readers writer calls].
    assert (Hnotin : ~ In id (readers s)).
    { intro Hin. apply Hr in Hin. destruct Hin as [c0 [E0 P0]]. rewrite (Hc c0 E0) in P0. congruence. }
    repeat split.
    + constructor; assumption.
    + intros [->|Hin]; [eexists; split; [apply find_set_same|reflexivity]|].
      assert (id0 <> id) by (intro; subst; contradiction).
      rewrite find_set_other by assumption. apply Hr. exact Hin.
    + intros [c0 [E0 P0]]. destruct (N.eq_dec id0 id) as [->|Hne]; [left; reflexivity|right].
      rewrite find_set_other in E0 by assumption. apply Hr. eauto.
    + discriminate.
    + intros [c0 [E0 P0]]. destruct (N.eq_dec id0 id) as [->|Hne].
      * rewrite find_set_same in E0. injection E0 as <-. discriminate.
      * rewrite find_set_other in E0 by assumption. exfalso. assert (X := proj2 (Hw id0) (ex_intro _ c0 (conj E0 P0))). rewrite ?Ew in X. discriminate X.
    + congruence.
  - (* Reading, ReadRel *)
    injection H as <-. unfold Inv. cbn [readers writer calls].
    destruct (nodup_remove1 id (readers s) Hnd) as [N1 N2]. repeat split.
    + exact N1.
    + intro Hin. assert (id0 <> id) by (intro; subst; contradiction).
      rewrite find_set_other by assumption. apply Hr. eapply in_remove1. exact Hin.
    + intros [c0 [E0 P0]]. destruct (N.eq_dec id0 id) as [->|Hne].
      * rewrite find_set_same in E0. injection E0 as <-. discriminate.
      * rewrite find_set_other in E0 by assumption. apply in_remove1_other; [exact Hne|]. apply Hr. eauto.
    + intro E0. destruct (N.eq_dec id0 id) as [->|Hne].
      * apply Hw in E0. destruct E0 as [c0 [E1 P1]]. rewrite (Hc c0 E1) in P1. congruence.
      * rewrite find_set_other by assumption. apply Hw. exact E0.
    + intros [c0 [E0 P0]]. destruct (N.eq_dec id0 id) as [->|Hne].
      * rewrite find_set_same in E0. injection E0 as <-. discriminate.
      * rewrite find_set_other in E0 by assumption. apply Hw. eauto.
    + intro E0. rewrite (Hx E0). reflexivity.
  - (* Checked true, JobBegin *)
    injection H as <-. unfold Inv. cbn [readers writer calls]. repeat split; try assumption.
    + intro Hin. assert (Hin' := Hin). apply Hr in Hin. destruct Hin as [c0 [E0 P0]].
      destruct (N.eq_dec id0 id) as [->|Hne]; [rewrite (Hc c0 E0) in P0; congruence|].
      rewrite find_set_other by assumption. eauto.
    + intros [c0 [E0 P0]]. destruct (N.eq_dec id0 id) as [->|Hne].
      * rewrite find_set_same in E0. injection E0 as <-. discriminate.
      * rewrite find_set_other in E0 by assumption. apply Hr. eauto.
    + intro E0. assert (E1 := E0). apply Hw in E0. destruct E0 as [c0 [E2 P2]].
      destruct (N.eq_dec id0 id) as [->|Hne]; [rewrite (Hc c0 E2) in P2; congruence|].
      rewrite find_set_other by assumption. eauto.
    + intros [c0 [E0 P0]]. destruct (N.eq_dec id0 id) as [->|Hne].
      * rewrite find_set_same in E0. injection E0 as <-. discriminate.
      * rewrite find_set_other in E0 by assumption. apply Hw. eauto.
  - (* Checked false, WriteAcq *)
    destruct (writer s) eqn:Ew; [discriminate|]. destruct (readers s) eqn:Er; [|discriminate].
    injection H as <-. unfold Inv. cbn [readers writer calls]. repeat split.
    + constructor.
    + intros [].
    + intros [c0 [E0 P0]]. destruct (N.eq_dec id0 id) as [->|Hne].
      * rewrite find_set_same in E0. injection E0 as <-. discriminate.
      * rewrite find_set_other in E0 by assumption. assert (X := proj2 (Hr id0) (ex_intro _ c0 (conj E0 P0))). rewrite ?Er in X. destruct X.
    + intro E0. injection E0 as <-. eexists. split; [apply find_set_same|reflexivity].
    + intros [c0 [E0 P0]]. destruct (N.eq_dec id0 id) as [->|Hne]; [reflexivity|].
      rewrite find_set_other in E0 by assumption. exfalso. assert (X := proj2 (Hw id0) (ex_intro _ c0 (conj E0 P0))). rewrite ?Ew in X. discriminate X.
  - (* Writing, WriteRel *)
    injection H as <-. unfold Inv. cbn [readers writer calls].
    assert (Hwid : writer s = Some id) by (apply Hw; exists c; split; [apply (Hpc Writing); [discriminate|reflexivity]|exact Epc]).
    repeat split; try assumption.
    + intro Hin. rewrite (Hx ltac:(congruence)) in Hin. destruct Hin.
    + intros [c0 [E0 P0]]. destruct (N.eq_dec id0 id) as [->|Hne].
      * rewrite find_set_same in E0. injection E0 as <-. discriminate.
      * rewrite find_set_other in E0 by assumption. apply Hr. eauto.
    + discriminate.
    + intros [c0 [E0 P0]]. destruct (N.eq_dec id0 id) as [->|Hne].
      * rewrite find_set_same in E0. injection E0 as <-. discriminate.
      * rewrite find_set_other in E0 by assumption. exfalso. assert (X := proj2 (Hw id0) (ex_intro _ c0 (conj E0 P0))). congruence.
    + congruence.
  - (* Ready, JobBegin *)
    injection H as <-. unfold Inv. cbn [readers writer calls]. repeat split; try assumption.
    + intro Hin. apply Hr in Hin. destruct Hin as [c0 [E0 P0]].
      destruct (N.eq_dec id0 id) as [->|Hne]; [rewrite (Hc c0 E0) in P0; congruence|].
      rewrite find_set_other by assumption. eauto.
    + intros [c0 [E0 P0]]. destruct (N.eq_dec id0 id) as [->|Hne].
      * rewrite find_set_same in E0. injection E0 as <-. discriminate.
      * rewrite find_set_other in E0 by assumption. apply Hr. eauto.
    + intro E0. apply Hw in E0. destruct E0 as [c0 [E2 P2]].
      destruct (N.eq_dec id0 id) as [->|Hne]; [rewrite (Hc c0 E2) in P2; congruence|].
      rewrite find_set_other by assumption. eauto.
    + intros [c0 [E0 P0]]. destruct (N.eq_dec id0 id) as [->|Hne].
      * rewrite find_set_same in E0. injection E0 as <-. discriminate.
      * rewrite find_set_other in E0 by assumption. apply Hw. eauto.
  - (* Running, JobEnd *)
    injection H as <-. unfold Inv. cbn [readers writer calls]. repeat split; try assumption.
    + intro Hin. apply Hr in Hin. destruct Hin as [c0 [E0 P0]].
      destruct (N.eq_dec id0 id) as [->|Hne]; [rewrite (Hc c0 E0) in P0; congruence|].
      rewrite find_set_other by assumption. eauto.
    + intros [c0 [E0 P0]]. destruct (N.eq_dec id0 id) as [->|Hne].
      * rewrite find_set_same in E0. injection E0 as <-. discriminate.
      * rewrite find_set_other in E0 by assumption. apply Hr. eauto.
    + intro E0. apply Hw in E0. destruct E0 as [c0 [E2 P2]].
      destruct (N.eq_dec id0 id) as [->|Hne]; [rewrite (Hc c0 E2) in P2; congruence|].
      rewrite find_set_other by assumption. eauto.
    + intros [c0 [E0 P0]]. destruct (N.eq_dec id0 id) as [->|Hne].
      * rewrite find_set_same in E0. injection E0 as <-. discriminate.
      * rewrite find_set_other in E0 by assumption. apply Hw. eauto.
Qed.

Lemma reachable_inv trace : forall s s', Inv s -> accepts_from s trace = Some s' -> Inv s'.
Proof.
  induction trace as [|[[id want] e] t IH]; intros s s' HI H; cbn [accepts_from] in H.
  - injection H as <-. exact HI.
  - destruct (step s id want e) as [s1|] eqn:E; [|discriminate]. eapply IH; [eapply step_inv; eassumption|exact H].
Qed.

Definition enabled (s : pstate) (id : N) (c : call) : Prop :=
  exists e s', wants c = Some e /\ step s id (c_want c) e = Some s'.

Definition holds_lock (c : call) : Prop := c_pc c = Reading \/ c_pc c = Writing.

(** progress: in every reachable state, every unfinished call can either move, or it waits for
    the lock -- and then the lock is held by a call that can move (a holder is inside a critical
    section that contains no blocking operation).  Hence no deadlock, whatever the number of
    calls, their nesting, their thread counts and the grant policy; and no call ever requests
    the lock while holding it. *)
Definition C19_progress_stmt : Prop :=
  forall (trace : list (N * N * ev)) (s : pstate),
    accepts_from pinit trace = Some s ->
    Inv s /\
    (forall id c, find_call id (calls s) = Some c -> c_pc c <> Done ->
       enabled s id c \/
       exists h ch, h <> id /\ find_call h (calls s) = Some ch /\ holds_lock ch /\ enabled s h ch) /\
    (* a fresh call can start as soon as no writer is active *)
    (forall id want, find_call id (calls s) = None -> writer s = None -> step s id want ReadAcq <> None) /\
    (* the lock is never requested by a call that holds it *)
    (forall id c, find_call id (calls s) = Some c -> holds_lock c ->
       wants c <> Some ReadAcq /\ wants c <> Some WriteAcq).

Lemma step_found s id c e : find_call id (calls s) = Some c ->
  step s id (c_want c) e =
  (let upd pc' s' := Some {| readers := readers s'; writer := writer s'; pool := pool s';
                            calls := set_call id {| c_want := c_want c; c_pc := pc' |} (calls s) |} in
   match c_pc c, e with
   | Start, ReadAcq =>
       match writer s with
       | None => upd Reading {| readers := id :: readers s; writer := None; pool := pool s; calls := calls s |}
       | Some _ => None
       end
   | Reading, ReadRel =>
       upd (Checked (pool_hit (pool s) (c_want c)))
           {| readers := remove1 id (readers s); writer := writer s; pool := pool s; calls := calls s |}
   | Checked true, JobBegin => upd Running s
   | Checked false, WriteAcq =>
       match writer s, readers s with
       | None, [] => upd Writing {| readers := []; writer := Some id; pool := pool s; calls := calls s |}
       | _, _ => None
       end
   | Writing, WriteRel =>
       let p' := if pool_hit (pool s) (c_want c) then pool s else Some (c_want c, N.succ (pool_gen (pool s))) in
       upd Ready {| readers := readers s; writer := None; pool := p'; calls := calls s |}
   | Ready, JobBegin => upd Running s
   | Running, JobEnd => upd Done s
   | _, _ => None
   end).
Proof. intro H. unfold step. rewrite H. reflexivity. Qed.

Lemma C19_progress_proof : C19_progress_stmt.
Proof.
  intros trace s Hacc. assert (HI := reachable_inv trace pinit s inv_init Hacc).
  split; [exact HI|]. destruct HI as [Hnd [Hr [Hw Hx]]]. split; [|split].
  - intros id c Hf Hdone.
    (* a lock holder can always release *)
    assert (Hrel : forall h ch, find_call h (calls s) = Some ch -> holds_lock ch -> enabled s h ch).
    { intros h ch Hh [P|P]; unfold enabled, wants; rewrite P; eexists; eexists; (split; [reflexivity|]);
        rewrite (step_found s h ch _ Hh), P; reflexivity. }
    destruct (c_pc c) eqn:Epc.
    + (* Start: needs the read lock *)
      destruct (writer s) as [w|] eqn:Ew.
      * right. destruct (proj1 (Hw w) eq_refl) as [cw [Fw Pw]]. exists w, cw. repeat split.
        -- intro E. subst w. rewrite Hf in Fw. injection Fw as <-. congruence.
        -- exact Fw.
        -- right. exact Pw.
        -- apply Hrel; [exact Fw|right; exact Pw].
      * left. unfold enabled, wants. rewrite Epc. eexists; eexists; split; [reflexivity|].
        rewrite (step_found s id c _ Hf), Epc, Ew. reflexivity.
    + left. apply Hrel; [exact Hf|left; exact Epc].
    + destruct hit.
      * left. unfold enabled, wants. rewrite Epc. eexists; eexists; split; [reflexivity|].
        rewrite (step_found s id c _ Hf), Epc. reflexivity.
      * (* needs the write lock *)
        destruct (writer s) as [w|] eqn:Ew.
        -- right. destruct (proj1 (Hw w) eq_refl) as [cw [Fw Pw]]. exists w, cw. repeat split.
           ++ intro E. subst w. rewrite Hf in Fw. injection Fw as <-. congruence.
           ++ exact Fw.
           ++ right. exact Pw.
           ++ apply Hrel; [exact Fw|right; exact Pw].
        -- destruct (readers s) as [|r rs] eqn:Er.
           ++ left. unfold enabled, wants. rewrite Epc. eexists; eexists; split; [reflexivity|].
              rewrite (step_found s id c _ Hf), Epc, Ew, Er. reflexivity.
           ++ right. destruct (proj1 (Hr r) (or_introl eq_refl)) as [cr [Fr Pr]]. exists r, cr. repeat split.
              ** intro E. subst r. rewrite Hf in Fr. injection Fr as <-. congruence.
              ** exact Fr.
              ** left. exact Pr.
              ** apply Hrel; [exact Fr|left; exact Pr].
    + left. apply Hrel; [exact Hf|right; exact Epc].
    + left. unfold enabled, wants. rewrite Epc. eexists; eexists; split; [reflexivity|].
      rewrite (step_found s id c _ Hf), Epc. reflexivity.
    + left. unfold enabled, wants. rewrite Epc. eexists; eexists; split; [reflexivity|].
      rewrite (step_found s id c _ Hf), Epc. reflexivity.
    + contradiction.
  - intros id want Hf Ew. unfold step. rewrite Hf. cbn [c_pc]. rewrite Ew. discriminate.
  - intros id c Hf [P|P]; unfold wants; rewrite P; split; discriminate.
Qed.

(** the pre-repair protocol has a reachable stuck state: a job running in the pool (holding the
    read lock) makes a nested call with another size; that call needs the write lock, which waits
    for the read lock that is only released when the job -- which waits for the nested call -- ends *)
Definition legacy_trace : list (N * N * ev) :=
  [(1, 2, ReadAcq); (1, 2, ReadRel); (1, 2, WriteAcq); (1, 2, WriteRel); (1, 2, ReadAcq); (1, 2, JobBegin);
   (2, 3, ReadAcq); (2, 3, ReadRel)].
Fixpoint laccepts_from (s : lstate) (trace : list (N * N * ev)) : option lstate :=
  match trace with
  | [] => Some s
  | (id, want, e) :: t => match lstep s id want e with Some s' => laccepts_from s' t | None => None end
  end.

Definition C19_legacy_deadlock_stmt : Prop :=
  exists s, laccepts_from {| l_readers := []; l_writer := None; l_pool := None; l_calls := [] |} legacy_trace = Some s /\
            (* the nested call 2 (wants size 3, pool has size 2) can only ask for the write lock, which is refused ... *)
            (forall e, lstep s 2 3 e <> None -> e = WriteAcq -> False) /\
            (forall e, e <> WriteAcq -> lstep s 2 3 e = None) /\
            (* ... because its parent call 1 holds the read lock while its job runs *)
            l_readers s = [1] /\ (exists c, find_lcall 1 (l_calls s) = Some c /\ lc_pc c = LRunning).

Lemma C19_legacy_deadlock_proof : C19_legacy_deadlock_stmt.
Proof.
  eexists. split; [vm_compute; reflexivity|]. repeat split.
  - intros e H ->. apply H. reflexivity.
  - intros e H. destruct e; reflexivity.
  - eexists. split; reflexivity.
Qed.
