(** * C18T: a rejected chunk leaves the interpreter session unchanged *)
From Coq Require Import Lia String ZArith.
From QV Require Import Interp InterpP.
Open Scope N_scope.
Open Scope string_scope.

(** for every scalar instance, interpreter state, chunk and error: when adding the chunk fails,
    the interpreter afterwards *is* the interpreter before (all fields), hence every continuation
    behaves as if the attempt had never happened; a crash of the model is excluded by C12 *)
Definition C18_atomic_stmt : Prop :=
  forall (F : Type) (OP : ops F) (i : @int F) (chunk : list (@node F)),
    (forall e, fst (add_ast OP i chunk) = IErr e -> snd (add_ast OP i chunk) = i) /\
    (forall e good, fst (add_ast OP i chunk) = IErr e ->
                    add_ast OP (snd (add_ast OP i chunk)) good = add_ast OP i good) /\
    (* and on success exactly the statements of the chunk have been processed, in order *)
    (fst (add_ast OP i chunk) = IOk tt ->
     exists i', process_nodes OP int_empty i chunk = IOk i' /\ snd (add_ast OP i chunk) = push_ast i' chunk).

Lemma C18_atomic_proof : C18_atomic_stmt.
Proof.
  intros F OP i chunk. unfold add_ast, ast_changes.
  destruct (process_nodes OP int_empty i chunk) as [i'|e0|w]; cbn [ibind fst snd]; repeat split;
    try discriminate; try reflexivity.
  - intros _. exists i'. split; reflexivity.
Qed.

(** the unrepaired interface kept the statements that preceded the error: a witness *)
Definition witness_session {F} : @int F :=
  {| i_xor := false; i_qreg := ["q"; "q"]; i_creg := ["c"; "c"]; i_ops := ext_empty; i_macros := []; i_asts := [] |}.
Definition witness_chunk {F} : list (@node F) :=
  [NQReg "r" 1%Z; NApply "y" [Qubit "zz" 0%Z] []].

Definition C18_legacy_stmt : Prop :=
  forall (F : Type) (OP : ops F),
    fst (add_ast_legacy OP witness_session witness_chunk) = IErr (NoQReg "zz") /\
    i_qreg (snd (add_ast_legacy OP witness_session witness_chunk)) = ["q"; "q"; "r"] /\
    i_qreg (snd (add_ast OP witness_session witness_chunk)) = ["q"; "q"].

Lemma C18_legacy_proof : C18_legacy_stmt.
Proof. intros F OP. repeat split. Qed.
