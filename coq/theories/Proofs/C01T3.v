(** * C01T3: u1 / u2 / u3 are the documented products RZ(phi) RY(theta) RZ(lambda) on the selected
    qubit (u1 = RZ, u2 = u3 at theta = pi/2) and the identity elsewhere *)
From Coq Require Import Reals Lra Lia String Ascii.
From QV Require Import Interp Spec Expr ScalarR BitsP OpP LocalP WfP C01P C03P C01M C03T Form2P C15T DftP C01T C02T C09T C09T2.
Open Scope R_scope.

Definition C01_u_products_stmt : Prop :=
  forall (t p l : R) (b : N) (psi : vecR) (idx : N),
    (exists q, op_u3 Rops t p l (2 ^ b)%N = Some q /\
               multi_fn Rops q psi idx =
               lift1 Rops (mm (mm (doc_rz Rops p) (doc_ry Rops t)) (doc_rz Rops l)) b psi idx) /\
    op_u2 Rops p l (2 ^ b)%N = op_u3 Rops (PI / 2) p l (2 ^ b)%N /\
    op_u1 Rops l (2 ^ b)%N = op_rz Rops l (2 ^ b)%N.

Lemma C01_u_products_proof : C01_u_products_stmt.
Proof.
  intros t p l b psi idx. split; [|split; reflexivity].
  eexists. split; [apply u3_built|].
  cbn [multi_fn fold_left]. rewrite single_fn_uncontrolled, k_rz.
  rewrite (lift1_ext _ b _ (lift1 Rops (doc_ry Rops t) b (lift1 Rops (doc_rz Rops l) b psi))).
  2: { intro i. rewrite single_fn_uncontrolled, k_ry. apply lift1_ext. intro j. rewrite single_fn_uncontrolled. apply k_rz. }
  rewrite !lift1_comp. reflexivity.
Qed.
