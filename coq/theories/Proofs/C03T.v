(** * C03T: the dagger of every operator is its inverse *)
From Coq Require Import Reals Lra Lia.
From QV Require Import Spec Expr ScalarR BitsP OpP LocalP WfP C01P C03P C03M.
Open Scope R_scope.

Notation MF := (multi_fn Rops).

Lemma cconj_cconj (z : C R) : cconj Rops (cconj Rops z) = z.
Proof. destruct z as [x y]. unfold cconj, re, im. cbn [fst snd fneg Rops]. f_equal. ring. Qed.

(** [g] and its dagger undo each other, in both orders *)
Definition invertible (g : atomic R) : Prop :=
  inv g (atomic_dgr Rops g) /\ inv (atomic_dgr Rops g) g.

(** the gates the public constructors build (valid masks); S and T on any machine-word mask, Y on any mask *)
Inductive good_gate : atomic R -> Prop :=
| G_Id : good_gate AId
| G_X m : good_gate (AX m)
| G_Y m : good_gate (AY m)
| G_Z m : good_gate (AZ m)
| G_S m d : (m < 2 ^ 64)%N -> good_gate (AS m d)
| G_T m d : (m < 2 ^ 64)%N -> good_gate (AT m d)
| G_H1 b : good_gate (AH1 (2 ^ b))
| G_H2 a b : a <> b -> good_gate (AH2 (2 ^ a) (2 ^ b))
| G_RX m ph : unit_phase ph -> good_gate (ARX m ph)
| G_RY b ph : unit_phase ph -> good_gate (ARY (2 ^ b) ph)
| G_RZ m ph : unit_phase ph -> good_gate (ARZ m ph)
| G_RXX m ph : unit_phase ph -> good_gate (ARXX m ph)
| G_RYY a b ph : a <> b -> unit_phase ph -> good_gate (ARYY (N.lor (2 ^ a) (2 ^ b)) ph)
| G_RZZ m ph : unit_phase ph -> good_gate (ARZZ m ph)
| G_Swap a b : a <> b -> good_gate (ASwap (N.lor (2 ^ a) (2 ^ b)))
| G_ISwap a b d : a <> b -> good_gate (AISwap (N.lor (2 ^ a) (2 ^ b)) d)
| G_SqrtSwap a b d : a <> b -> good_gate (ASqrtSwap (N.lor (2 ^ a) (2 ^ b)) d)
| G_SqrtISwap a b d : a <> b -> good_gate (ASqrtISwap (N.lor (2 ^ a) (2 ^ b)) d)
| G_Phase b ph : unit_phase ph -> good_gate (AU1 (2 ^ b) [c1 Rops; c0 Rops; c0 Rops; ph])
| G_PhaseDg b ph : unit_phase ph ->
    good_gate (AU1 (2 ^ b) (m1_dagger Rops [c1 Rops; c0 Rops; c0 Rops; ph])).

Lemma m1_dagger_phase ph :
  m1_dagger Rops (m1_dagger Rops [c1 Rops; c0 Rops; c0 Rops; ph]) = [c1 Rops; c0 Rops; c0 Rops; ph].
Proof.
  unfold m1_dagger, mget. cbn [nth]. rewrite !cconj_cconj. reflexivity.
Qed.

Lemma good_invertible g : good_gate g -> invertible g.
Proof.
  intro G. destruct G; unfold invertible; cbn [atomic_dgr].
  - split; intros psi idx; reflexivity.
  - split; apply inv_x.
  - split; apply inv_y_m.
  - split; apply inv_z.
  - split; [apply inv_s_m; assumption|]. generalize (inv_s_m m (negb d) H). rewrite negb_involutive. exact (fun x => x).
  - split; [apply inv_t_m; assumption|]. generalize (inv_t_m m (negb d) H). rewrite negb_involutive. exact (fun x => x).
  - split; apply inv_h1.
  - split; apply inv_h2; assumption.
  - split; [apply inv_rx; assumption|]. generalize (inv_rx m _ (conj_unit _ H)). rewrite cconj_cconj. exact (fun x => x).
  - split; [apply inv_ry; assumption|]. generalize (inv_ry b _ (conj_unit _ H)). rewrite cconj_cconj. exact (fun x => x).
  - split; [apply inv_rz; assumption|]. generalize (inv_rz m _ (conj_unit _ H)). rewrite cconj_cconj. exact (fun x => x).
  - split; [apply inv_rxx; assumption|]. generalize (inv_rxx m _ (conj_unit _ H)). rewrite cconj_cconj. exact (fun x => x).
  - split; [apply inv_ryy; assumption|]. generalize (inv_ryy a b H _ (conj_unit _ H0)). rewrite cconj_cconj. exact (fun x => x).
  - split; [apply inv_rzz; assumption|]. generalize (inv_rzz m _ (conj_unit _ H)). rewrite cconj_cconj. exact (fun x => x).
  - split; apply inv_swap; assumption.
  - split; [apply inv_iswap; assumption|]. generalize (inv_iswap a b H (negb d)). rewrite negb_involutive. exact (fun x => x).
  - split; [apply inv_sqrt_swap; assumption|]. generalize (inv_sqrt_swap a b H (negb d)). rewrite negb_involutive. exact (fun x => x).
  - split; [apply inv_sqrt_iswap; assumption|]. generalize (inv_sqrt_iswap a b H (negb d)). rewrite negb_involutive. exact (fun x => x).
  - split; [apply inv_phase; assumption|].
    (* dagger then the gate: the dagger matrix is diag(1, conj ph), itself a phase gate *)
    assert (E : m1_dagger Rops [c1 Rops; c0 Rops; c0 Rops; ph] = [c1 Rops; c0 Rops; c0 Rops; cconj Rops ph]).
    { unfold m1_dagger, mget. cbn [nth]. unfold cconj, c1, c0, re, im. cbn [fst snd fneg f0 f1 Rops].
      repeat f_equal; ring. }
    rewrite E. generalize (inv_phase b _ (conj_unit _ H)).
    assert (E2 : m1_dagger Rops [c1 Rops; c0 Rops; c0 Rops; cconj Rops ph] = [c1 Rops; c0 Rops; c0 Rops; ph]).
    { rewrite <- E. apply m1_dagger_phase. }
    rewrite E2. exact (fun x => x).
  - rewrite m1_dagger_phase. split; [|apply inv_phase; assumption].
    assert (E : m1_dagger Rops [c1 Rops; c0 Rops; c0 Rops; ph] = [c1 Rops; c0 Rops; c0 Rops; cconj Rops ph]).
    { unfold m1_dagger, mget. cbn [nth]. unfold cconj, c1, c0, re, im. cbn [fst snd fneg f0 f1 Rops].
      repeat f_equal; ring. }
    rewrite E. generalize (inv_phase b _ (conj_unit _ H)).
    assert (E2 : m1_dagger Rops [c1 Rops; c0 Rops; c0 Rops; cconj Rops ph] = [c1 Rops; c0 Rops; c0 Rops; ph]).
    { rewrite <- E. apply m1_dagger_phase. }
    rewrite E2. exact (fun x => x).
Qed.

(** a single operator: good kernel, recorded targets = support, controls disjoint from it *)
Definition good_single (s : single R) : Prop :=
  good_gate (s_func s) /\ wf_single s /\ N.land (s_act s) (s_ctrl s) = 0%N.

Lemma single_fn_ext s (psi psi' : vecR) idx :
  (forall i, psi i = psi' i) -> single_fn Rops s psi idx = single_fn Rops s psi' idx.
Proof.
  intro H. unfold single_fn.
  rewrite (kernel_local Rops (s_func s) psi psi' idx (fun i _ => H i)), (H idx). reflexivity.
Qed.

Lemma multi_fn_ext q : forall (psi psi' : vecR), (forall i, psi i = psi' i) ->
  forall idx, MF q psi idx = MF q psi' idx.
Proof.
  induction q as [|s q IH]; intros psi psi' H idx; [apply H|].
  rewrite !multi_fn_cons. apply IH. intro i. apply single_fn_ext. exact H.
Qed.

(** a controlled kernel and its controlled dagger undo each other *)
Lemma single_inverse (g g' : atomic R) act ctrl :
  inv g g' -> act = support g -> support g' = support g -> N.land act ctrl = 0%N ->
  forall (psi : vecR) idx,
    single_fn Rops (mkSingle act ctrl g') (single_fn Rops (mkSingle act ctrl g) psi) idx = psi idx.
Proof.
  intros Hinv Hact Hsup Hd psi idx. unfold single_fn at 1. cbn [s_ctrl s_func].
  destruct (N.eqb_spec ctrl 0) as [E|E].
  - subst ctrl. rewrite <- (Hinv psi idx). apply kernel_local. intros i _.
    unfold single_fn. cbn [s_ctrl s_func]. reflexivity.
  - destruct (ctrl_ok ctrl idx) eqn:Hok.
    + rewrite <- (Hinv psi idx). apply kernel_local. intros i Hw.
      unfold single_fn. cbn [s_ctrl s_func].
      destruct (N.eqb_spec ctrl 0); [contradiction|].
      rewrite Hsup, <- Hact in Hw.
      rewrite (within_ctrl_ok act ctrl i idx Hd Hw), Hok. reflexivity.
    + unfold single_fn. cbn [s_ctrl s_func].
      destruct (N.eqb_spec ctrl 0); [contradiction|]. rewrite Hok. reflexivity.
Qed.

Lemma good_single_inverse s : good_single s ->
  forall (psi : vecR) idx,
    single_fn Rops (single_dgr Rops s) (single_fn Rops s psi) idx = psi idx /\
    single_fn Rops s (single_fn Rops (single_dgr Rops s) psi) idx = psi idx.
Proof.
  intros [G [Hwf Hd]] psi idx. destruct s as [act ctrl g]. unfold single_dgr. cbn [s_act s_ctrl s_func] in *.
  destruct (good_invertible g G) as [I1 I2]. unfold wf_single in Hwf. cbn [s_act s_func] in Hwf. split.
  - apply single_inverse; try assumption. apply support_dgr.
  - apply (single_inverse (atomic_dgr Rops g) g act ctrl); try assumption.
    + rewrite support_dgr. exact Hwf.
    + symmetry. apply support_dgr.
Qed.

(** ** statements *)

(** the dagger of a product is the product of the daggers in reverse order *)
Definition C03_product_stmt : Prop :=
  forall (p q : multi R),
    multi_dgr Rops (p ++ q) = multi_dgr Rops q ++ multi_dgr Rops p /\
    multi_dgr Rops [] = [] /\
    length (multi_dgr Rops p) = length p /\
    multi_act_on (multi_dgr Rops p) = multi_act_on p.

Lemma fold_lor_acc (l : list N) : forall a, fold_left N.lor l a = N.lor a (fold_left N.lor l 0%N).
Proof.
  induction l as [|x l IH]; intro a; cbn [fold_left].
  - rewrite N.lor_0_r. reflexivity.
  - rewrite IH, (IH (N.lor 0 x)), N.lor_0_l, N.lor_assoc. reflexivity.
Qed.

Lemma fold_lor_perm (l : list N) : fold_left N.lor (rev l) 0%N = fold_left N.lor l 0%N.
Proof.
  induction l as [|x l IH]; [reflexivity|].
  cbn [rev fold_left]. rewrite fold_left_app. cbn [fold_left]. rewrite IH.
  rewrite (fold_lor_acc l (N.lor 0 x)), N.lor_0_l. apply N.lor_comm.
Qed.

Lemma multi_act_on_as_fold (q : multi R) :
  multi_act_on q = fold_left N.lor (map (@single_act_on R) q) 0%N.
Proof.
  unfold multi_act_on. generalize 0%N. induction q as [|s q IH]; intro a; [reflexivity|].
  cbn [fold_left map]. apply IH.
Qed.

Lemma C03_product_proof : C03_product_stmt.
Proof.
  intros p q. repeat split.
  - unfold multi_dgr. rewrite map_app, rev_app_distr. reflexivity.
  - unfold multi_dgr. rewrite rev_length, map_length. reflexivity.
  - rewrite !multi_act_on_as_fold. unfold multi_dgr. rewrite map_rev, fold_lor_perm, map_map.
    f_equal.
Qed.

(** an operator followed by its dagger (and the dagger followed by the operator) returns
    every state to itself exactly -- no residual sign or phase *)
Definition C03_inverse_stmt : Prop :=
  forall (q : multi R), Forall good_single q ->
    forall (psi : vecR) (idx : N),
      MF (q ++ multi_dgr Rops q) psi idx = psi idx /\
      MF (multi_dgr Rops q ++ q) psi idx = psi idx.

Lemma C03_inverse_proof : C03_inverse_stmt.
Proof.
  intros q. induction q as [|s q IH]; intros Hg psi idx; [split; reflexivity|].
  inversion Hg as [|s0 q0 Hs Hq]; subst. specialize (IH Hq).
  assert (Hd : multi_dgr Rops (s :: q) = multi_dgr Rops q ++ [single_dgr Rops s]) by reflexivity.
  rewrite Hd. split.
  - cbn [app]. rewrite multi_fn_cons, app_assoc, multi_fn_app. cbn [multi_fn fold_left].
    rewrite (single_fn_ext _ _ (single_fn Rops s psi)) by (intro i; apply IH).
    apply good_single_inverse. exact Hs.
  - rewrite <- app_assoc, multi_fn_app. cbn [app]. rewrite !multi_fn_cons.
    rewrite (multi_fn_ext q _ (multi_fn Rops (multi_dgr Rops q) psi)).
    + rewrite <- multi_fn_app. apply IH.
    + intro i. apply good_single_inverse. exact Hs.
Qed.

(** the hypothesis is met by every valid gate of the public gate set, controlled or not
    (S, T and Y on one bit here; the multi-bit forms are products of these) *)
Definition C03_atomic_stmt : Prop :=
  forall (g : atomic R) (ctrl : N),
    good_gate g -> N.land (support g) ctrl = 0%N ->
    good_single (mkSingle (support g) ctrl g) /\
    good_single (single_dgr Rops (mkSingle (support g) ctrl g)) /\
    (forall theta b, good_gate (ARX (2 ^ b) (half_phase Rops theta)) /\
                     good_gate (ARY (2 ^ b) (half_phase Rops theta)) /\
                     good_gate (ARZ (2 ^ b) (half_phase Rops theta)) /\
                     good_gate (AU1 (2 ^ b) [c1 Rops; c0 Rops; c0 Rops; from_polar1 Rops theta])) /\
    (forall theta a b, a <> b ->
                     good_gate (ARXX (N.lor (2 ^ a) (2 ^ b)) (half_phase_mul Rops theta)) /\
                     good_gate (ARYY (N.lor (2 ^ a) (2 ^ b)) (half_phase Rops theta)) /\
                     good_gate (ARZZ (N.lor (2 ^ a) (2 ^ b)) (half_phase Rops theta))).

Lemma good_dgr g : good_gate g -> good_gate (atomic_dgr Rops g).
Proof.
  intro G. destruct G; cbn [atomic_dgr]; try (constructor; try assumption; try apply conj_unit; assumption).
  rewrite m1_dagger_phase. constructor. assumption.
Qed.

Lemma from_polar1_unit t : unit_phase (from_polar1 Rops t).
Proof.
  unfold unit_phase, from_polar1. cbn [fst snd fcos fsin fmul f1 Rops].
  generalize (sin2_cos2 t). unfold Rsqr. lra.
Qed.

Lemma C03_atomic_proof : C03_atomic_stmt.
Proof.
  intros g ctrl G Hd. repeat split; try assumption; try reflexivity.
  - apply good_dgr. exact G.
  - unfold wf_single. cbn [s_act s_func single_dgr]. rewrite support_dgr. reflexivity.
  - constructor. apply half_phase_unit.
  - constructor. apply half_phase_unit.
  - constructor. apply half_phase_unit.
  - constructor. apply from_polar1_unit.
  - constructor. apply half_phase_mul_unit.
  - constructor; [assumption|apply half_phase_unit].
  - constructor. apply half_phase_unit.
Qed.
