(** * DftSwapP: the swap network of [qft_swapped] reverses the selected qubits, so that
    [qft_swapped] is the DFT in natural order. *)
From Coq Require Import Reals Lra Lia Sorted.
From QV Require Import Spec Expr ScalarR BitsP BitsIterP VecP OpP LocalP WfP C01P C03P RotP C01M C03M C03T C03T2 NormP Form2P C15T DftP.
Open Scope R_scope.

(** exchanging the bits at two positions of an index *)
Definition exch (a z idx : N) : N :=
  if xorb (N.testbit idx a) (N.testbit idx z) then N.lxor idx (N.lor (2 ^ a) (2 ^ z)) else idx.

Lemma exch_bit a z idx t : a <> z ->
  N.testbit (exch a z idx) t =
  if N.eqb a t then N.testbit idx z else if N.eqb z t then N.testbit idx a else N.testbit idx t.
Proof.
  intro H. unfold exch.
  assert (Hza : N.eqb z a = false) by (apply N.eqb_neq; congruence).
  assert (Haz : N.eqb a z = false) by (apply N.eqb_neq; congruence).
  destruct (N.eqb_spec a t) as [E1|E1]; [subst t; rewrite ?Hza|destruct (N.eqb_spec z t) as [E2|E2]; [subst t|]];
    destruct (N.testbit idx a) eqn:Ea, (N.testbit idx z) eqn:Ez; cbn [xorb];
    rewrite ?lxor_pair_bits, ?N.eqb_refl, ?Haz, ?Hza, ?Ea, ?Ez; cbn [orb xorb]; try reflexivity;
    try (replace (N.eqb a t) with false by (symmetry; apply N.eqb_neq; exact E1);
         replace (N.eqb z t) with false by (symmetry; apply N.eqb_neq; exact E2); cbn [orb]; apply xorb_false_r).
Qed.

Definition swapgate (a z : N) : single R := single_of (ASwap (N.lor (2 ^ a) (2 ^ z))).

Lemma swapgate_fn a z (psi : vecR) idx : a <> z -> single_fn Rops (swapgate a z) psi idx = psi (exch a z idx).
Proof.
  intro H. unfold swapgate. rewrite single_fn_uncontrolled. cbn [kernel]. rewrite (odd_bits_land_pair idx a z H).
  unfold exch. destruct (xorb _ _); reflexivity.
Qed.

Lemma op_swap_pair a z : a <> z -> op_swap Rops (N.lor (2 ^ a) (2 ^ z)) = Some [swapgate a z].
Proof.
  intro H. unfold op_swap. rewrite lift_checked_some; [reflexivity|].
  cbn [is_valid]. rewrite (popcount_pair a z H). reflexivity.
Qed.

(** the network on a list of positions, and the index permutation it performs *)
Fixpoint swap_elems (l : list N) (k : nat) : multi R :=
  match k with
  | O => []
  | S k' => match l with
            | [] => []
            | a :: rest => match rev rest with
                           | [] => []
                           | z :: mid_rev => swapgate a z :: swap_elems (rev mid_rev) k'
                           end
            end
  end.

Fixpoint swap_idx (l : list N) (k : nat) (idx : N) : N :=
  match k with
  | O => idx
  | S k' => match l with
            | [] => idx
            | a :: rest => match rev rest with
                           | [] => idx
                           | z :: mid_rev => exch a z (swap_idx (rev mid_rev) k' idx)
                           end
            end
  end.

Lemma pows_rev l : rev (pows l) = pows (rev l).
Proof. unfold pows. symmetry. apply map_rev. Qed.

Lemma swap_pairs_shape k : forall l, NoDup l -> swap_pairs Rops (pows l) k = Some (swap_elems l k).
Proof.
  induction k as [|k IH]; intros l Hnd; [reflexivity|].
  destruct l as [|a rest]; [reflexivity|]. cbn [pows map swap_pairs swap_elems].
  change (map (fun j : N => (2 ^ j)%N) rest) with (pows rest). rewrite pows_rev.
  destruct (rev rest) as [|z mid_rev] eqn:Er; [reflexivity|]. cbn [pows map].
  change (map (fun j : N => (2 ^ j)%N) mid_rev) with (pows mid_rev). rewrite pows_rev.
  assert (Hz : In z rest) by (apply in_rev; rewrite Er; left; reflexivity).
  inversion Hnd as [|a' r' Ha Hnd']; subst.
  assert (Haz : a <> z) by (intro E; subst; contradiction).
  rewrite (op_swap_pair a z Haz), IH; [reflexivity|].
  assert (Hr : NoDup (rev rest)) by (apply NoDup_rev; exact Hnd'). rewrite Er in Hr.
  inversion Hr as [|z' m' _ Hm]; subst. apply NoDup_rev. exact Hm.
Qed.

Lemma swap_elems_fn k : forall l, NoDup l -> forall (psi : vecR) idx,
  multi_fn Rops (swap_elems l k) psi idx = psi (swap_idx l k idx).
Proof.
  induction k as [|k IH]; intros l Hnd psi idx; [reflexivity|].
  destruct l as [|a rest]; [reflexivity|]. cbn [swap_elems swap_idx].
  destruct (rev rest) as [|z mid_rev] eqn:Er; [reflexivity|].
  assert (Hz : In z rest) by (apply in_rev; rewrite Er; left; reflexivity).
  inversion Hnd as [|a' r' Ha Hnd']; subst.
  assert (Haz : a <> z) by (intro E; subst; contradiction).
  assert (Hm : NoDup (rev mid_rev)).
  { assert (Hr : NoDup (rev rest)) by (apply NoDup_rev; exact Hnd'). rewrite Er in Hr.
    inversion Hr; subst. apply NoDup_rev. assumption. }
  rewrite multi_fn_cons, (IH _ Hm). apply swapgate_fn. exact Haz.
Qed.

(** the permutation reverses the bits at the listed positions and leaves every other bit alone *)
Lemma swap_idx_other k : forall l idx t, NoDup l -> ~ In t l -> N.testbit (swap_idx l k idx) t = N.testbit idx t.
Proof.
  induction k as [|k IH]; intros l idx t Hnd Hn; [reflexivity|].
  destruct l as [|a rest]; [reflexivity|]. cbn [swap_idx].
  destruct (rev rest) as [|z mid_rev] eqn:Er; [reflexivity|].
  assert (Hz : In z rest) by (apply in_rev; rewrite Er; left; reflexivity).
  inversion Hnd as [|a' r' Ha Hnd']; subst.
  assert (Haz : a <> z) by (intro E; subst; contradiction).
  assert (Hr : NoDup (rev rest)) by (apply NoDup_rev; exact Hnd'). rewrite Er in Hr. inversion Hr as [|z' m' Hzm Hm]; subst.
  rewrite exch_bit by exact Haz.
  destruct (N.eqb_spec a t) as [->|_]; [exfalso; apply Hn; left; reflexivity|].
  destruct (N.eqb_spec z t) as [->|_]; [exfalso; apply Hn; right; exact Hz|].
  apply IH; [apply NoDup_rev; exact Hm|]. intro H. apply Hn. right. apply in_rev. rewrite Er. right. apply in_rev. exact H.
Qed.

Lemma bits_app l1 l2 idx : bits (l1 ++ l2) idx = bits l1 idx ++ bits l2 idx.
Proof. unfold bits. apply map_app. Qed.

Lemma bits_ext l i j : (forall t, In t l -> N.testbit i t = N.testbit j t) -> bits l i = bits l j.
Proof. intro H. unfold bits. apply map_ext_in. intros t Ht. apply H. exact Ht. Qed.

Lemma swap_idx_bits k : forall l idx, NoDup l -> (length l = 2 * k \/ length l = S (2 * k))%nat ->
  bits l (swap_idx l k idx) = rev (bits l idx).
Proof.
  induction k as [|k IH]; intros l idx Hnd Hl.
  - destruct l as [|x [|y l]]; cbn [length] in Hl; try lia; reflexivity.
  - destruct l as [|a rest]; [cbn [length] in Hl; lia|]. cbn [swap_idx].
    destruct (rev rest) as [|z mid_rev] eqn:Er.
    { assert (rest = []) by (destruct rest; [reflexivity|]; cbn [rev] in Er; destruct (rev rest); discriminate). subst. cbn [length] in Hl. lia. }
    assert (Erest : rest = rev mid_rev ++ [z]).
    { rewrite <- (rev_involutive rest), Er. reflexivity. }
    set (mid := rev mid_rev) in *.
    inversion Hnd as [|a' r' Ha Hnd']; subst r' a'. rewrite Erest in *.
    assert (Hz : ~ In z mid /\ NoDup mid).
    { apply NoDup_remove in Hnd'. rewrite app_nil_r in Hnd'. tauto. }
    destruct Hz as [Hzm Hm].
    assert (Haz : a <> z) by (intro E; apply Ha; apply in_or_app; right; left; symmetry; exact E).
    assert (Ham : ~ In a mid) by (intro E; apply Ha; apply in_or_app; left; exact E).
    assert (Lm : (length mid = 2 * k \/ length mid = S (2 * k))%nat).
    { cbn [length] in Hl. rewrite app_length in Hl. cbn [length] in Hl. lia. }
    set (J := swap_idx mid k idx).
    change (bits (a :: mid ++ [z]) (exch a z J)) with (N.testbit (exch a z J) a :: bits (mid ++ [z]) (exch a z J)).
    change (bits (a :: mid ++ [z]) idx) with (N.testbit idx a :: bits (mid ++ [z]) idx).
    rewrite !bits_app. cbn [rev]. rewrite rev_app_distr. cbn [bits map rev app].
    rewrite !exch_bit by exact Haz. rewrite !N.eqb_refl.
    destruct (N.eqb_spec a z) as [E|_]; [contradiction|].
    assert (Jz : N.testbit J z = N.testbit idx z) by (apply swap_idx_other; assumption).
    assert (Ja : N.testbit J a = N.testbit idx a) by (apply swap_idx_other; assumption).
    rewrite Jz, Ja. f_equal. f_equal.
    rewrite <- (IH mid idx Hm Lm). fold J. apply bits_ext. intros t Ht. rewrite exch_bit by exact Haz.
    destruct (N.eqb_spec a t) as [->|_]; [contradiction|]. destruct (N.eqb_spec z t) as [->|_]; [contradiction|]. reflexivity.
Qed.

Lemma bits_eq_in l i j : bits l i = bits l j -> forall t, In t l -> N.testbit i t = N.testbit j t.
Proof.
  induction l as [|p l IH]; intros H t Ht; [destruct Ht|].
  cbn [bits map] in H. injection H as H1 H2. destruct Ht as [<-|Ht]; [exact H1|]. apply IH; assumption.
Qed.

Lemma swap_idx_dep l k xs idx : NoDup l -> length xs = length l ->
  (length l = 2 * k \/ length l = S (2 * k))%nat ->
  swap_idx l k (dep l xs idx) = dep l (rev xs) idx.
Proof.
  intros Hnd Hl Hk. apply N.bits_inj. intro t.
  destruct (in_dec N.eq_dec t l) as [Hin|Hout].
  - apply (bits_eq_in l); [|exact Hin].
    rewrite (swap_idx_bits k l _ Hnd Hk), !(dep_bits l Hnd) by (rewrite ?rev_length; exact Hl). reflexivity.
  - rewrite (swap_idx_other k l _ t Hnd Hout), !dep_other by exact Hout. reflexivity.
Qed.

(** reindexing a sum over bit strings by reversal *)
Lemma bsum_snoc k : forall g,
  bsum (S k) g = Cadd (bsum k (fun xs => g (xs ++ [false]))) (bsum k (fun xs => g (xs ++ [true]))).
Proof.
  induction k as [|k IH]; intro g; [reflexivity|].
  change (bsum (S (S k)) g) with (Cadd (bsum (S k) (fun xs => g (false :: xs))) (bsum (S k) (fun xs => g (true :: xs)))).
  rewrite (IH (fun xs => g (false :: xs))), (IH (fun xs => g (true :: xs))). cbn [bsum app]. apply Cadd_assoc4.
Qed.

Lemma bsum_rev k : forall g, bsum k (fun xs => g (rev xs)) = bsum k g.
Proof.
  induction k as [|k IH]; intro g; [reflexivity|].
  rewrite (bsum_snoc k g). cbn [bsum rev].
  rewrite (IH (fun zs => g (zs ++ [false]))), (IH (fun zs => g (zs ++ [true]))). reflexivity.
Qed.

Lemma sorted_ext (l1 : list N) : forall l2, StronglySorted N.lt l1 -> StronglySorted N.lt l2 ->
  (forall k, In k l1 <-> In k l2) -> l1 = l2.
Proof.
  induction l1 as [|a l1 IH]; intros l2 S1 S2 H.
  - destruct l2 as [|b l2]; [reflexivity|]. exfalso. apply (proj2 (H b)). left. reflexivity.
  - destruct l2 as [|b l2]; [exfalso; apply (proj1 (H a)); left; reflexivity|].
    inversion S1 as [|a' l1' S1' F1]; subst. inversion S2 as [|b' l2' S2' F2]; subst.
    rewrite Forall_forall in F1, F2.
    assert (E : a = b).
    { destruct (proj1 (H a) (or_introl eq_refl)) as [E|Hin]; [symmetry; exact E|].
      destruct (proj2 (H b) (or_introl eq_refl)) as [E|Hin2]; [exact E|].
      assert (b < a)%N by (apply F2; exact Hin). assert (a < b)%N by (apply F1; exact Hin2). lia. }
    subst b. f_equal. apply IH; try assumption. intro k. split; intro Hk.
    + destruct (proj1 (H k) (or_intror Hk)) as [E|Hin]; [|exact Hin]. subst k. assert (a < a)%N by (apply F1; exact Hk). lia.
    + destruct (proj2 (H k) (or_intror Hk)) as [E|Hin]; [|exact Hin]. subst k. assert (a < a)%N by (apply F2; exact Hk). lia.
Qed.

Lemma div2_cases n : (n = 2 * Nat.div2 n \/ n = S (2 * Nat.div2 n))%nat.
Proof.
  destruct (Nat.Even_or_Odd n) as [[h ->]|[h ->]].
  - left. rewrite Nat.div2_double. reflexivity.
  - right. replace (2 * h + 1)%nat with (S (2 * h)) by lia. rewrite Nat.div2_succ_double. reflexivity.
Qed.
