(** * C08T: results of a parallel sweep / reduction do not depend on the schedule *)
From Coq Require Import Reals Lra Lia Permutation PeanoNat.
From QV Require Import Par Reg ScalarR VecP.
Open Scope nat_scope.

Section Sweep.
  Context {A : Type}.

  Lemma write_length (b : list A) : forall i v, length (write b i v) = length b.
  Proof. induction b as [|h t IH]; intros [|i] v; cbn [write length]; try reflexivity. rewrite IH. reflexivity. Qed.

  Lemma write_nth (b : list A) : forall i v j d,
    nth j (write b i v) d = if (Nat.eqb i j && (i <? length b))%bool then v else nth j b d.
  Proof.
    induction b as [|h t IH]; intros i v j d.
    - destruct i, j; cbn [write nth length]; rewrite ?andb_false_r; reflexivity.
    - destruct i as [|i], j as [|j]; cbn [write nth length Nat.eqb]; try reflexivity.
      rewrite IH. destruct (Nat.eqb i j); cbn [andb]; [|reflexivity].
      change (S i <? S (length t)) with (i <? length t). reflexivity.
  Qed.

  Lemma par_sweep_length sched : forall (init : list A) f, length (par_sweep sched init f) = length init.
  Proof.
    induction sched as [|i s IH]; intros init f; [reflexivity|].
    cbn [par_sweep fold_left]. change (fold_left _ s ?b) with (par_sweep s b f). rewrite IH. apply write_length.
  Qed.

  (** a cell holds [f j] as soon as the schedule writes it, whatever the order and however often;
      an unwritten cell keeps its initial (arbitrary) content *)
  Lemma par_sweep_nth sched : forall (init : list A) f j d, j < length init ->
    nth j (par_sweep sched init f) d = if existsb (Nat.eqb j) sched then f j else nth j init d.
  Proof.
    induction sched as [|i s IH]; intros init f j d Hj; [reflexivity|].
    cbn [par_sweep fold_left existsb]. change (fold_left _ s ?b) with (par_sweep s b f).
    rewrite IH by (rewrite write_length; exact Hj).
    destruct (existsb (Nat.eqb j) s); [rewrite orb_true_r; reflexivity|]. rewrite orb_false_r.
    rewrite write_nth. rewrite (Nat.eqb_sym j i).
    destruct (Nat.eqb_spec i j) as [->|Hne]; cbn [andb]; [|reflexivity].
    destruct (Nat.ltb_spec j (length init)); [reflexivity|lia].
  Qed.

  Theorem sweep_deterministic (sched : list nat) (init : list A) (f : nat -> A) :
    Permutation sched (seq 0 (length init)) ->
    par_sweep sched init f = seq_sweep (length init) f.
  Proof.
    intro HP. destruct init as [|d0 init0] eqn:E.
    - apply Permutation_sym, Permutation_nil in HP. subst sched. reflexivity.
    - rewrite <- E in *. clear E init0.
      apply (nth_ext _ _ d0 d0).
      + rewrite par_sweep_length. unfold seq_sweep. rewrite map_length, seq_length. reflexivity.
      + intros j Hj. rewrite par_sweep_length in Hj. rewrite par_sweep_nth by exact Hj.
        assert (Hin : In j sched).
        { apply (Permutation_in j (Permutation_sym HP)). apply in_seq. lia. }
        assert (Hex : existsb (Nat.eqb j) sched = true).
        { apply existsb_exists. exists j. split; [exact Hin|apply Nat.eqb_refl]. }
        rewrite Hex. unfold seq_sweep.
        rewrite (nth_indep _ d0 (f 0)) by (rewrite map_length, seq_length; exact Hj).
        rewrite (map_nth f), seq_nth by exact Hj. reflexivity.
  Qed.
End Sweep.

(** the model's sweeps are sequential sweeps, so any schedule reproduces them *)
Lemma tab_from_seq {F} k : forall start (f : @vec F),
  tab_from k start f = map (fun i => f (start + N.of_nat i)%N) (seq 0 k).
Proof.
  induction k as [|k IH]; intros start f; [reflexivity|].
  cbn [tab_from seq map]. rewrite N.add_0_r. f_equal. rewrite IH, <- seq_shift, map_map.
  apply map_ext. intro i. f_equal. lia.
Qed.

Lemma tab_seq_sweep {F} len (f : @vec F) : tab len f = seq_sweep len (fun i => f (N.of_nat i)).
Proof. unfold tab, seq_sweep. rewrite tab_from_seq. apply map_ext. intro i. rewrite N.add_0_l. reflexivity. Qed.

Definition C08_sweep_deterministic_stmt : Prop :=
  forall (F : Type) (OP : ops F) (sched : list nat) (garbage : @buf F) (f : @vec F),
    Permutation sched (seq 0 (length garbage)) ->
    (* any order / chunking of the single-cell writes, into any initial buffer *)
    par_sweep sched garbage (fun i => f (N.of_nat i)) = tab (length garbage) f.

Lemma C08_sweep_deterministic_proof : C08_sweep_deterministic_stmt.
Proof.
  intros F OP sched garbage f HP. rewrite tab_seq_sweep. apply sweep_deterministic. exact HP.
Qed.

(** instances: the parallel twins of apply, collapse, tensor product and normalisation write, in
    any schedule, exactly the buffers of the sequential model *)
Definition C08_instances_stmt : Prop :=
  forall (F : Type) (OP : ops F) (sched : list nat),
    (forall (s : single F) (input out : @buf F),
        length out = length input -> Permutation sched (seq 0 (length out)) ->
        par_sweep sched out (fun i => single_fn OP s (get OP input) (N.of_nat i)) = single_apply OP s input) /\
    (forall (v out : @buf F) idy mask,
        length out = length v -> Permutation sched (seq 0 (length out)) ->
        par_sweep sched out (fun i => if negb (N.eqb (N.land (N.lxor (N.of_nat i) idy) mask) 0)
                                      then c0 OP else get OP v (N.of_nat i)) = collapse_buf OP v idy mask).

Lemma C08_instances_proof : C08_instances_stmt.
Proof.
  intros F OP sched. split.
  - intros s input out Hl HP. unfold single_apply. rewrite <- Hl.
    apply (C08_sweep_deterministic_proof F OP sched out (single_fn OP s (get OP input)) HP).
  - intros v out idy mask Hl HP. unfold collapse_buf. rewrite <- Hl.
    apply (C08_sweep_deterministic_proof F OP sched out
             (fun idx => if negb (N.eqb (N.land (N.lxor idx idy) mask) 0) then c0 OP else get OP v idx) HP).
Qed.

(** reductions: any bracketing of any ordering of the summands gives the sequential sum over R *)
Open Scope R_scope.
Fixpoint rsum (l : list R) : R := match l with [] => 0 | x :: t => x + rsum t end.

Lemma rsum_app a b : rsum (a ++ b) = rsum a + rsum b.
Proof. induction a as [|x a IH]; cbn [app rsum]; [ring|rewrite IH; ring]. Qed.

Lemma rsum_perm a b : Permutation a b -> rsum a = rsum b.
Proof. intro H. induction H; cbn [rsum]; lra. Qed.

Lemma reduce_rsum t : reduce 0 Rplus t = rsum (flatten t).
Proof. induction t as [x|l IHl r IHr|]; cbn [reduce flatten rsum]; [ring|rewrite IHl, IHr, rsum_app; ring|reflexivity]. Qed.

Lemma fold_left_rsum l : forall a, fold_left Rplus l a = a + rsum l.
Proof. induction l as [|x l IH]; intro a; cbn [fold_left rsum]; [ring|rewrite IH; ring]. Qed.

Definition C08_reduce_stmt : Prop :=
  forall (t : @rtree R) (l : list R),
    Permutation (flatten t) l ->
    reduce 0 Rplus t = fold_left Rplus l 0.

Lemma C08_reduce_proof : C08_reduce_stmt.
Proof. intros t l H. rewrite reduce_rsum, fold_left_rsum, (rsum_perm _ _ H). ring. Qed.

(** thread-count validation and model selection *)
Definition C08_num_threads_stmt : Prop :=
  forall (F : Type) (OP : ops F) (r : qreg F) (k avail : N),
    (reg_num_threads r k avail = None <-> (k = 0 \/ avail < k)%N) /\
    (forall r', reg_num_threads r k avail = Some r' ->
                q_th r' = k /\ q_psi r' = q_psi r /\ q_num r' = q_num r) /\
    (forall a b : qreg F, q_th (reg_tensor OP a b) = N.max (q_th a) (q_th b)).

Lemma C08_num_threads_proof : C08_num_threads_stmt.
Proof.
  intros F OP r k avail. unfold reg_num_threads. repeat split.
  - destruct (N.eqb_spec k 0) as [E|E], (N.ltb_spec avail k) as [L|L]; cbn [orb]; intro H; try discriminate; auto.
  - intros [H|H]; [subst k; reflexivity|].
    destruct (N.eqb_spec k 0); cbn [orb]; [reflexivity|]. rewrite (proj2 (N.ltb_lt _ _) H). reflexivity.
  - destruct (N.eqb k 0 || N.ltb avail k)%bool; [discriminate|]. injection H as <-. reflexivity.
  - destruct (N.eqb k 0 || N.ltb avail k)%bool; [discriminate|]. injection H as <-. reflexivity.
  - destruct (N.eqb k 0 || N.ltb avail k)%bool; [discriminate|]. injection H as <-. reflexivity.
Qed.
