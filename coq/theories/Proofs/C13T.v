(** * C13T: ill-formed programs are rejected with the matching error (one clause per static rule).
    All clauses hold at every scalar instance and in any interpreter state, i.e. at any statement
    position, after any number of incrementally added chunks (base = the session, ch = the chunk
    so far). *)
From Coq Require Import Lia String Ascii ZArith.
From QV Require Import Interp InterpP BitsP.
Open Scope N_scope.
Open Scope string_scope.
Open Scope list_scope.

Section Rules.
  Context {F : Type} (OP : ops F).
  Local Notation int := (@int F).
  Local Notation node := (@node F).

  Lemma mask_no_alias (l : list ident) alias : ~ In alias l -> forall k, mask_of_alias_from l alias k = 0.
  Proof.
    induction l as [|x l IH]; intros H k; [reflexivity|]. cbn [mask_of_alias_from].
    destruct (String.eqb_spec x alias) as [E|E]; [exfalso; apply H; left; exact E|].
    rewrite IH by (intro; apply H; right; assumption). reflexivity.
  Qed.

  (** undeclared register, in any argument form *)
  Lemma resolve_undeclared regs a (missing : ident -> error) :
    ~ In (arg_name a) regs -> resolve regs a missing = IErr (missing (arg_name a)).
  Proof.
    intro H. destruct a as [alias idx|alias]; cbn [resolve arg_name] in *;
      unfold mask_of_alias; rewrite mask_no_alias by exact H; reflexivity.
  Qed.

  Lemma count_name_pos alias (l : list ident) : In alias l -> 0 < count_name alias l.
  Proof.
    unfold count_name, lenN. induction l as [|x l IH]; intros H; [destruct H|].
    cbn [filter]. destruct (String.eqb_spec alias x) as [E|E]; cbn [length]; [lia|].
    destruct H as [H|H]; [congruence|]. apply IH. exact H.
  Qed.
  Lemma count_name_zero alias (l : list ident) : ~ In alias l -> count_name alias l = 0.
  Proof.
    unfold count_name, lenN. induction l as [|x l IH]; intros H; [reflexivity|].
    cbn [filter]. destruct (String.eqb_spec alias x) as [E|E]; [exfalso; apply H; left; auto|].
    apply IH. intro; apply H; right; assumption.
  Qed.
End Rules.

Definition C13_reject_stmt : Prop :=
  forall (F : Type) (OP : ops F) (base ch : @int F),
    let qregs := i_qreg base ++ i_qreg ch in
    let cregs := i_creg base ++ i_creg ch in
    (* undeclared quantum / classical register: gate application, reset, measurement, condition *)
    (forall a rest name args, ~ In (arg_name a) qregs ->
       process_node1 OP base ch (NApply name (a :: rest) args) = IErr (NoQReg (arg_name a))) /\
    (forall a, ~ In (arg_name a) qregs -> process_node1 OP base ch (NReset a) = IErr (NoQReg (arg_name a))) /\
    (forall q c, ~ In (arg_name q) qregs -> process_node1 OP base ch (NMeasure q c) = IErr (NoQReg (arg_name q))) /\
    (forall q c qm, get_q_idx base ch q = IOk qm -> ~ In (arg_name c) cregs ->
       process_node1 OP base ch (NMeasure q c) = IErr (NoCReg (arg_name c))) /\
    (forall lhs v name regs args, ~ In lhs cregs ->
       process_node1 OP base ch (NIf lhs v (NApply name regs args)) = IErr (NoCReg lhs)) /\
    (* duplicate register name (against quantum and classical registers, session and chunk) *)
    (forall alias size, (String.length alias < 32)%nat -> size_as_N size + lenN qregs < 64 ->
       In alias (i_qreg base) ->
       process_node1 OP base ch (NQReg alias size) = IErr (DupQReg alias (count_name alias (i_qreg base)))) /\
    (forall alias size, (String.length alias < 32)%nat -> size_as_N size + lenN cregs < 64 ->
       ~ In alias (i_qreg base) -> In alias (i_creg base) ->
       process_node1 OP base ch (NCReg alias size) = IErr (DupCReg alias (count_name alias (i_creg base)))) /\
    (* over-long identifier, too many (qu)bits in one register or in total *)
    (forall alias size, (32 <= String.length alias)%nat ->
       process_node1 OP base ch (NQReg alias size) = IErr (IdentIsTooLarge alias (N.of_nat (String.length alias))) /\
       process_node1 OP base ch (NCReg alias size) = IErr (IdentIsTooLarge alias (N.of_nat (String.length alias)))) /\
    (forall alias size, (String.length alias < 32)%nat -> 64 <= size_as_N size ->
       process_node1 OP base ch (NQReg alias size) = IErr (RegisterIsTooLarge alias (size_as_N size))) /\
    (forall alias size, (String.length alias < 32)%nat -> size_as_N size < 64 -> 64 <= lenN (i_qreg base) + lenN (i_qreg ch) + size_as_N size ->
       process_node1 OP base ch (NQReg alias size) =
       IErr (RegisterIsTooLarge alias (lenN (i_qreg base) + lenN (i_qreg ch) + size_as_N size))) /\
    (* measuring between registers of different sizes *)
    (forall q c qm cm, get_q_idx base ch q = IOk qm -> get_c_idx base ch c = IOk cm -> popcount qm <> popcount cm ->
       process_node1 OP base ch (NMeasure q c) = IErr (UnmatchedRegSize (popcount qm) (popcount cm))) /\
    (* a non-gate statement under if *)
    (forall lhs v body, (forall name regs args, body <> NApply name regs args) ->
       process_node1 OP base ch (NIf lhs v body) = IErr (DisallowedNodeInIf (node_tag body))) /\
    (* duplicate gate name *)
    (forall name regs params body m, macro_new OP regs params body = IOk m ->
       (has_macro name base || has_macro name ch)%bool = true ->
       process_node1 OP base ch (NGate name regs params body) = IErr (MacroAlreadyDefined name)).

Lemma lt_nat_N (n : nat) (k : N) : (n < N.to_nat k)%nat -> N.of_nat n < k.
Proof. lia. Qed.

Lemma C13_reject_proof : C13_reject_stmt.
Proof.
  intros F OP base ch qregs cregs. repeat split.
  - intros a rest name args H. cbn [process_node1]. unfold process_apply. cbn [imap].
    unfold get_q_idx at 1. fold qregs. rewrite resolve_undeclared by exact H. reflexivity.
  - intros a H. cbn [process_node1]. unfold get_q_idx. fold qregs. rewrite resolve_undeclared by exact H. reflexivity.
  - intros q c H. cbn [process_node1]. unfold get_q_idx. fold qregs. rewrite resolve_undeclared by exact H. reflexivity.
  - intros q c qm Hq H. cbn [process_node1]. rewrite Hq. cbn [ibind]. unfold get_c_idx. fold cregs.
    rewrite resolve_undeclared by exact H. reflexivity.
  - intros lhs v name regs args H. cbn [process_node1]. unfold get_c_idx. cbn [set_ops i_creg]. fold cregs.
    rewrite (resolve_undeclared cregs (Register lhs)) by exact H. reflexivity.
  - intros alias size Hl Hs Hin. cbn [process_node1]. unfold process_qreg, check_ident, check_reg_size.
    destruct (N.leb_spec 32 (N.of_nat (String.length alias))) as [L|L]; [lia|]. cbn [ibind].
    destruct (N.leb_spec 64 (size_as_N size)) as [L2|L2]; [unfold lenN in *; lia|]. cbn [ibind].
    unfold qregs, lenN in Hs. rewrite app_length in Hs.
    destruct (N.leb_spec 64 (lenN (i_qreg base) + lenN (i_qreg ch) + size_as_N size)) as [L3|L3]; [unfold lenN in *; lia|].
    cbn [ibind]. unfold check_dup. generalize (count_name_pos alias _ Hin). intro Hc.
    rewrite (proj2 (N.ltb_lt _ _) Hc). reflexivity.
  - intros alias size Hl Hs Hnq Hin. cbn [process_node1]. unfold process_creg, check_ident, check_reg_size.
    destruct (N.leb_spec 32 (N.of_nat (String.length alias))) as [L|L]; [lia|]. cbn [ibind].
    destruct (N.leb_spec 64 (size_as_N size)) as [L2|L2]; [unfold lenN in *; lia|]. cbn [ibind].
    unfold cregs, lenN in Hs. rewrite app_length in Hs.
    destruct (N.leb_spec 64 (lenN (i_creg base) + lenN (i_creg ch) + size_as_N size)) as [L3|L3]; [unfold lenN in *; lia|].
    cbn [ibind]. unfold check_dup. rewrite (count_name_zero alias _ Hnq). cbn [N.ltb N.compare].
    generalize (count_name_pos alias _ Hin). intro Hc. rewrite (proj2 (N.ltb_lt _ _) Hc). reflexivity.
  - cbn [process_node1]. unfold process_qreg, check_ident.
    destruct (N.leb_spec 32 (N.of_nat (String.length alias))) as [L|L]; [reflexivity|lia].
  - cbn [process_node1]. unfold process_creg, check_ident.
    destruct (N.leb_spec 32 (N.of_nat (String.length alias))) as [L|L]; [reflexivity|lia].
  - intros alias size Hl Hs. cbn [process_node1]. unfold process_qreg, check_ident, check_reg_size.
    destruct (N.leb_spec 32 (N.of_nat (String.length alias))) as [L|L]; [lia|]. cbn [ibind].
    destruct (N.leb_spec 64 (size_as_N size)) as [L2|L2]; [reflexivity|lia].
  - intros alias size Hl Hs Ht. cbn [process_node1]. unfold process_qreg, check_ident, check_reg_size.
    destruct (N.leb_spec 32 (N.of_nat (String.length alias))) as [L|L]; [lia|]. cbn [ibind].
    destruct (N.leb_spec 64 (size_as_N size)) as [L2|L2]; [lia|]. cbn [ibind].
    destruct (N.leb_spec 64 (lenN (i_qreg base) + lenN (i_qreg ch) + size_as_N size)) as [L3|L3]; [reflexivity|lia].
  - intros q c qm cm Hq Hc Hne. cbn [process_node1]. rewrite Hq. cbn [ibind]. rewrite Hc. cbn [ibind].
    destruct (N.eqb_spec (popcount qm) (popcount cm)); [contradiction|reflexivity].
  - intros lhs v body H. cbn [process_node1]. destruct body; try reflexivity. exfalso. eapply H. reflexivity.
  - intros name regs params body m Hm Hd. cbn [process_node1]. unfold process_gate. rewrite Hm. cbn [ibind].
    rewrite Hd. reflexivity.
Qed.

(** rules enforced by the gate table, the parameter evaluator and the gate-body validator *)
Definition C13_gate_rules_stmt : Prop :=
  forall (F : Type) (OP : ops F),
    (* unknown gate: a name that is not in the table and does not start with c / C *)
    (forall name regs args, starts_with_c name = false ->
       gate_table OP name regs args = IErr (UnknownGate name) \/
       exists lower upper, is_name name lower upper = true) /\
    (* wrong number of parameters / qubits, for each arity class *)
    (forall name k (mk : F -> N -> ires (multi F)) regs (args : list F), popcount (lor_all regs) <> k ->
       gate_r name k mk regs args = IErr (WrongRegNumber name (popcount (lor_all regs)))) /\
    (forall name k (mk : F -> N -> ires (multi F)) regs (args : list F), popcount (lor_all regs) = k -> length args <> 1%nat ->
       gate_r name k mk regs args = IErr (WrongArgNumber name (lenN args))) /\
    (forall name (mk : N -> ires (multi F)) regs (args : list F), lor_all regs <> 0 -> args <> [] ->
       gate_any name mk regs args = IErr (WrongArgNumber name (lenN args))) /\
    (forall name (mk : N -> ires (multi F)) regs (args : list F), popcount (lor_all regs) <> 2 ->
       gate_2 name mk regs args = IErr (WrongRegNumber name (popcount (lor_all regs)))) /\
    (* an unbound name / unknown function in a parameter expression *)
    (forall v, v <> "pi" -> peval OP [] (PVar v) = PErr (UnknownVariable v)) /\
    (forall f e x, peval OP [] e = PVal x -> apply_fun OP f [x] = None ->
       peval OP [] (PFun f [e]) = PErr (FunctionError f)) /\
    (* gate body: indexing, a name that is not a formal register, a non-gate statement, an unbound parameter *)
    (forall regs params name nm idx rest args,
       macro_check_node OP regs params (NApply name (Qubit nm idx :: rest) args) = IErr (DisallowedRegister nm (Z.to_N idx))) /\
    (forall regs params name nm rest args, mem nm regs = false ->
       macro_check_node OP regs params (NApply name (Register nm :: rest) args) = IErr (UnknownReg nm)) /\
    (forall regs params n, (forall name r a, n <> NApply name r a) ->
       macro_check_node OP regs params n = IErr (DisallowedNodeInMacro (node_tag n))) /\
    (forall regs params name v rest, mem v params = false -> v <> "pi" ->
       macro_check_node OP regs params (NApply name [] (PVar v :: rest)) = IErr (UnknownArg v)).

Lemma lookup_none_of_mem {A} v (params : list ident) (x : A) :
  mem v params = false -> lookup v (map (fun p => (p, x)) params) = None.
Proof.
  unfold lookup, mem. induction params as [|p l IH]; intro H; [reflexivity|].
  cbn [existsb map find fst] in *. apply Bool.orb_false_iff in H. destruct H as [H1 H2].
  rewrite String.eqb_sym, H1. apply IH. exact H2.
Qed.

Lemma C13_gate_rules_proof : C13_gate_rules_stmt.
Proof.
  intros F OP. repeat split.
  - intros name regs args Hc. unfold gate_table.
    repeat match goal with
           | |- (if is_name name ?l ?u then _ else _) = _ \/ _ =>
               destruct (is_name name l u) eqn:?; [right; exists l, u; assumption|]
           end.
    left. reflexivity.
  - intros name k mk regs args H. unfold gate_r. destruct (N.eqb_spec (popcount (lor_all regs)) k); [contradiction|reflexivity].
  - intros name k mk regs args H Ha. unfold gate_r. rewrite H, N.eqb_refl. cbn [negb].
    destruct args as [|a [|b t]]; try reflexivity. exfalso. apply Ha. reflexivity.
  - intros name mk regs args H Ha. unfold gate_any. destruct (N.eqb_spec (lor_all regs) 0); [contradiction|].
    destruct args; [contradiction|reflexivity].
  - intros name mk regs args H. unfold gate_2. destruct (N.eqb_spec (popcount (lor_all regs)) 2); [contradiction|reflexivity].
  - intros v Hv. cbn [peval lookup find]. destruct (String.eqb_spec v "pi"); [contradiction|reflexivity].
  - intros f e x He Hf. cbn [peval]. rewrite He. cbn [pbind rev app]. rewrite Hf. reflexivity.
  - intros regs params name nm rest args Hm. cbn [macro_check_node]. rewrite Hm. reflexivity.
  - intros regs params n H. destruct n; try reflexivity. exfalso. eapply H. reflexivity.
  - intros regs params name v rest Hm Hv. cbn [macro_check_node ibind peval].
    rewrite (lookup_none_of_mem v params (f1 OP) Hm).
    destruct (String.eqb_spec v "pi"); [contradiction|reflexivity].
Qed.
