(** * C09T5: qelib1.inc's bodies of [swap] and [cz] against the operators the interpreter builds.

    qelib1.inc defines  gate swap a,b { cx a,b; cx b,a; cx a,b; }  and  gate cz a,b { h b; cx a,b; h b; }.
    The interpreter builds both names natively; here the bodies, run through the interpreter's own
    [cx] and [h], are shown to be the same maps as the native operators (all states, all
    positions of the two qubits). *)
From Coq Require Import Reals Lra Lia String List.
From QV Require Import Bits Atomic Op Spec ScalarR BitsP Form2P C01P C01T Interp C09T2 C09T4.
Import ListNotations.
Open Scope N_scope.

(** the map of [cx c,t] as the interpreter builds it (C09_controlled): X on the target where the control is 1 *)
Definition cx_map (c t : N) (psi : vecR) : vecR :=
  fun idx => if N.testbit idx c then lift1 Rops (doc_x Rops) t psi idx else psi idx.

Lemma testbit_flip idx t k : N.testbit (N.lxor idx (2 ^ t)) k = xorb (N.testbit idx k) (N.eqb t k).
Proof.
  rewrite N.lxor_spec. f_equal. destruct (N.eqb_spec t k) as [->|Hn].
  - apply N.pow2_bits_true.
  - apply N.pow2_bits_false. congruence.
Qed.

Lemma cx_map_kernel c t psi idx :
  cx_map c t psi idx = if N.testbit idx c then psi (N.lxor idx (2 ^ t)) else psi idx.
Proof. unfold cx_map. rewrite <- k_x. reflexivity. Qed.

Lemma lxor_lxor_pair idx a b : N.lxor (N.lxor idx (2 ^ a)) (2 ^ b) = N.lxor idx (N.lor (2 ^ a) (2 ^ b)) \/ a = b.
Proof.
  destruct (N.eq_dec a b) as [E|Hn]; [right; exact E|left].
  apply N.bits_inj. intro k. rewrite !testbit_flip, lxor_pair_bits.
  destruct (N.testbit idx k), (N.eqb_spec a k), (N.eqb_spec b k); try reflexivity; subst; contradiction.
Qed.

Lemma swap_body a b (Hab : a <> b) (psi : vecR) idx :
  cx_map a b (cx_map b a (cx_map a b psi)) idx = K (ASwap (N.lor (2 ^ a) (2 ^ b))) psi idx.
Proof.
  assert (Hba : b <> a) by congruence.
  assert (Nab : N.eqb a b = false) by (apply N.eqb_neq; exact Hab).
  assert (Nba : N.eqb b a = false) by (apply N.eqb_neq; exact Hba).
  unfold kernel. rewrite (odd_m a b Hab).
  rewrite !cx_map_kernel, !testbit_flip.
  rewrite ?Nab, ?Nba, ?N.eqb_refl.
  destruct (N.testbit idx a) eqn:Ea, (N.testbit idx b) eqn:Eb; cbn [xorb];
    rewrite ?Ea, ?Eb; cbn [xorb]; try reflexivity.
  - apply f_equal. rewrite N.lxor_assoc, N.lxor_nilpotent, N.lxor_0_r. reflexivity.
  - apply f_equal. destruct (lxor_lxor_pair idx b a) as [E|E]; [|congruence]. rewrite E, N.lor_comm. reflexivity.
  - apply f_equal. destruct (lxor_lxor_pair idx a b) as [E|E]; [exact E|congruence].
Qed.


(** ** cz a,b { h b; cx a,b; h b; } *)
Local Open Scope R_scope.
Lemma lift1_ext2 U b (v w : vecR) idx :
  v (N.clearbit idx b) = w (N.clearbit idx b) -> v (N.setbit idx b) = w (N.setbit idx b) ->
  lift1 Rops U b v idx = lift1 Rops U b w idx.
Proof. intros H0 H1. unfold lift1. rewrite H0, H1. reflexivity. Qed.

Lemma mm_hh : mm (doc_h Rops) (doc_h Rops) = doc_id Rops.
Proof.
  assert (S2 : sqrt 2 <> 0) by (apply Rgt_not_eq, Rlt_gt, sqrt_lt_R0; lra).
  unfold mm, doc_id. unq. fin; try (field_simplify; [rewrite ?pow2_sqrt by lra; try field|exact S2]); try (field; exact S2).
Qed.

Lemma mm_hxh : mm (mm (doc_h Rops) (doc_x Rops)) (doc_h Rops) = doc_z Rops.
Proof.
  assert (S2 : sqrt 2 <> 0) by (apply Rgt_not_eq, Rlt_gt, sqrt_lt_R0; lra).
  unfold mm. unq. fin; try (field_simplify; [rewrite ?pow2_sqrt by lra; try field|exact S2]); try (field; exact S2).
Qed.

Lemma testbit_clearbit_other idx a b : a <> b -> N.testbit (N.clearbit idx b) a = N.testbit idx a.
Proof. intro H. apply N.clearbit_neq. congruence. Qed.
Lemma testbit_setbit_other idx a b : a <> b -> N.testbit (N.setbit idx b) a = N.testbit idx a.
Proof. intro H. apply N.setbit_neq. congruence. Qed.

Lemma lift1_id b (psi : vecR) idx : lift1 Rops (doc_id Rops) b psi idx = psi idx.
Proof.
  unfold lift1, doc_id, m2_00, m2_01, m2_10, m2_11. cbn [fst snd].
  destruct (N.testbit idx b) eqn:E.
  - rewrite (setbit_id idx b E). destruct (psi (N.clearbit idx b)), (psi idx). cxring.
  - rewrite (clearbit_id idx b E). destruct (psi (N.setbit idx b)), (psi idx). cxring.
Qed.

(** the body of cz: h on the target, cx, h on the target *)
Definition cz_body (a b : N) (psi : vecR) : vecR :=
  lift1 Rops (doc_h Rops) b (cx_map a b (lift1 Rops (doc_h Rops) b psi)).

Lemma cz_body_spec a b (Hab : a <> b) (psi : vecR) idx :
  cz_body a b psi idx = if N.testbit idx a then lift1 Rops (doc_z Rops) b psi idx else psi idx.
Proof.
  unfold cz_body. destruct (N.testbit idx a) eqn:Ea.
  - rewrite (lift1_ext2 (doc_h Rops) b _ (lift1 Rops (doc_x Rops) b (lift1 Rops (doc_h Rops) b psi)) idx).
    + rewrite !lift1_comp. apply lift1_ext_mat. apply mm_hxh.
    + unfold cx_map. rewrite testbit_clearbit_other by exact Hab. rewrite Ea. reflexivity.
    + unfold cx_map. rewrite testbit_setbit_other by exact Hab. rewrite Ea. reflexivity.
  - rewrite (lift1_ext2 (doc_h Rops) b _ (lift1 Rops (doc_h Rops) b psi) idx).
    + rewrite lift1_comp, mm_hh. apply lift1_id.
    + unfold cx_map. rewrite testbit_clearbit_other by exact Hab. rewrite Ea. reflexivity.
    + unfold cx_map. rewrite testbit_setbit_other by exact Hab. rewrite Ea. reflexivity.
Qed.

Local Open Scope N_scope.

Definition C09_bodies_stmt : Prop :=
  forall (a b : N), a <> b ->
    (* the interpreter's cx is [cx_map] *)
    (exists o, gates_process Rops "cx" [2 ^ a; 2 ^ b] [] = IOk o /\
       forall (psi : vecR) idx, multi_fn Rops o psi idx = cx_map a b psi idx) /\
    (* swap a,b { cx a,b; cx b,a; cx a,b; } is the native swap, i.e. the documented SWAP matrix on (a, b) *)
    (forall (psi : vecR) idx,
       cx_map a b (cx_map b a (cx_map a b psi)) idx = lift2 Rops (doc_swap Rops) a b psi idx) /\
    (exists o, op_swap Rops (N.lor (2 ^ a) (2 ^ b)) = Some o /\
       forall (psi : vecR) idx, multi_fn Rops o psi idx = cx_map a b (cx_map b a (cx_map a b psi)) idx) /\
    (* cz a,b { h b; cx a,b; h b; } is the interpreter's cz: Z on b where a is 1 *)
    (exists o, gates_process Rops "cz" [2 ^ a; 2 ^ b] [] = IOk o /\
       forall (psi : vecR) idx, multi_fn Rops o psi idx = cz_body a b psi idx).

Lemma C09_bodies_proof : C09_bodies_stmt.
Proof.
  intros a b Hab.
  destruct (C09_controlled_proof a b Hab) as [[ox [Hx Fx]] [_ [[oz [Hz Fz]] _]]].
  split; [|split; [|split]].
  - exists ox. split; [exact Hx|]. intros psi idx. rewrite Fx. reflexivity.
  - intros psi idx. rewrite swap_body by exact Hab. apply k_swap. exact Hab.
  - destruct (C01_two_bit_proof a b Hab 0%R) as [_ [_ [_ [[o [Ho Hf]] _]]]].
    exists o. split; [exact Ho|]. intros psi idx. rewrite swap_body by exact Hab.
    change (C01T.MF o psi idx) with (multi_fn Rops o psi idx) in Hf. rewrite Hf. symmetry. apply k_swap. exact Hab.
  - exists oz. split; [exact Hz|]. intros psi idx. rewrite Fz, cz_body_spec by exact Hab. reflexivity.
Qed.
