(** * C16T: histograms -- 2^n cells, exact shot total, nothing on impossible outcomes.
    Real-number instance; the scaled normal draws are arbitrary reals. *)
From Coq Require Import Reals Lra Lia ZArith.
From QV Require Import Reg ScalarR BitsP VecP C14T RegP.
Open Scope N_scope.

Lemma sumN_acc (l : list N) : forall a, fold_left N.add l a = a + sumN l.
Proof.
  unfold sumN. induction l as [|x l IH]; intro a; cbn [fold_left]; [lia|].
  rewrite IH, (IH (0 + x)). lia.
Qed.

Lemma sumN_cons x l : sumN (x :: l) = x + sumN l.
Proof. unfold sumN at 1. cbn [fold_left]. rewrite sumN_acc. lia. Qed.

(** ** the deficit branch *)
Definition posb (x : R) : bool := fltb Rops (f0 Rops) x.

Lemma count_pos_acc (p : list R) : forall a,
  fold_left (fun a pi => if fltb Rops (f0 Rops) pi then N.succ a else a) p a = a + count_pos Rops p.
Proof.
  unfold count_pos. induction p as [|x p IH]; intro a; cbn [fold_left]; [lia|].
  rewrite IH, (IH (if fltb Rops (f0 Rops) x then N.succ 0 else 0)). destruct (fltb Rops (f0 Rops) x); lia.
Qed.

Lemma count_pos_cons x p : count_pos Rops (x :: p) = (if posb x then 1 else 0) + count_pos Rops p.
Proof.
  unfold count_pos at 1. cbn [fold_left]. rewrite count_pos_acc. unfold posb. destruct (fltb Rops (f0 Rops) x); lia.
Qed.

(** how many of the counters k, k+1, .., k+P-1 are below r *)
Definition below (r k P : N) : N := N.min r (k + P) - N.min r k.

Lemma add_deficit_spec (cells : list N) : forall (p : list R) q r k,
  length cells = length p ->
  length (add_deficit Rops cells p q r k) = length cells /\
  sumN (add_deficit Rops cells p q r k) = sumN cells + q * count_pos Rops p + below r k (count_pos Rops p) /\
  (forall i, posb (nth i p 0%R) = false -> nth i (add_deficit Rops cells p q r k) 0 = nth i cells 0).
Proof.
  induction cells as [|c cells IH]; intros [|x p] q r k Hl; try discriminate.
  - cbn. unfold below. repeat split; lia.
  - cbn [add_deficit]. injection Hl as Hl. rewrite count_pos_cons. fold (posb x).
    destruct (posb x) eqn:Hx.
    + destruct (IH p q r (N.succ k) Hl) as [H1 [H2 H3]]. cbn [length]. rewrite !sumN_cons, H1, H2.
      repeat split; [|intros [|i] Hi; cbn [nth] in *; [congruence|apply H3; exact Hi]].
      unfold below. destruct (N.ltb_spec k r); lia.
    + destruct (IH p q r k Hl) as [H1 [H2 H3]]. cbn [length]. rewrite !sumN_cons, H1, H2.
      repeat split; [|intros [|i] Hi; cbn [nth] in *; [reflexivity|apply H3; exact Hi]].
      unfold below. lia.
Qed.

(** ** the surplus branch (partial correctness: whenever the loop ends within its fuel) *)
Lemma set_nth_length (l : list N) : forall i v, length (set_nth l i v) = length l.
Proof. induction l as [|h t IH]; intros [|i] v; cbn [set_nth length]; try reflexivity. rewrite IH. reflexivity. Qed.

Lemma set_nth_nth (l : list N) : forall i v j,
  nth j (set_nth l i v) 0 = if Nat.eqb i j && (i <? length l)%nat then v else nth j l 0.
Proof.
  induction l as [|h t IH]; intros i v j.
  - destruct i, j; cbn [set_nth nth length]; rewrite ?andb_false_r; reflexivity.
  - destruct i as [|i], j as [|j]; cbn [set_nth nth length Nat.eqb]; try reflexivity.
    rewrite IH. destruct (Nat.eqb i j); cbn [andb]; [|reflexivity].
    change (S i <? S (length t))%nat with (i <? length t)%nat. reflexivity.
Qed.

Lemma set_nth_sum (l : list N) : forall i v, (i < length l)%nat ->
  sumN (set_nth l i v) + nth i l 0 = sumN l + v.
Proof.
  induction l as [|h t IH]; intros [|i] v Hi; cbn [length] in Hi; try lia; cbn [set_nth nth]; rewrite !sumN_cons.
  - lia.
  - specialize (IH i v). lia.
Qed.

Lemma remove_surplus_spec fuel : forall cells delta idx mask out,
  remove_surplus fuel cells delta idx mask = Some out ->
  length out = length cells /\ sumN out + delta = sumN cells /\
  (forall j, nth j cells 0 = 0 -> nth j out 0 = 0).
Proof.
  induction fuel as [|fuel IH]; intros cells delta idx mask out H; [discriminate|].
  cbn [remove_surplus] in H. destruct (N.eqb_spec delta 0) as [E|E].
  - injection H as <-. subst delta. repeat split; auto. lia.
  - set (i := N.to_nat (N.land idx mask)) in *.
    destruct (N.eqb_spec (nth i cells 0) 0) as [Z|Z].
    + apply IH in H. exact H.
    + apply IH in H. destruct H as [H1 [H2 H3]].
      assert (Hi : (i < length cells)%nat).
      { destruct (Nat.lt_ge_cases i (length cells)); [assumption|]. rewrite nth_overflow in Z by assumption. congruence. }
      rewrite set_nth_length in H1. repeat split; [exact H1| |].
      * generalize (set_nth_sum cells i (nth i cells 0 - 1) Hi). lia.
      * intros j Hj. apply H3. rewrite set_nth_nth.
        destruct (Nat.eqb_spec i j) as [->|Hne]; cbn [andb]; [congruence|exact Hj].
Qed.

(** ** rounding of an impossible outcome's cell *)
Lemma R_round_0 : R_round 0 = 0%Z.
Proof.
  unfold R_round. destruct (Rle_dec 0 0) as [_|n]; [|exfalso; apply n; lra].
  unfold R_floor. rewrite Rplus_0_l.
  assert (E : up (/ 2) = 1%Z).
  { symmetry. apply tech_up; simpl; lra. }
  rewrite E. reflexivity.
Qed.

Lemma raw_cells_length (p nv : list R) count : length p = length nv ->
  length (raw_cells Rops p nv count) = length p.
Proof. intro H. unfold raw_cells. rewrite map_length, combine_length. lia. Qed.

Lemma raw_cells_zero (p nv : list R) count i : length p = length nv ->
  nth i p 0%R = 0%R -> nth i nv 0%R = 0%R -> nth i (raw_cells Rops p nv count) 0 = 0.
Proof.
  intros Hl Hp Hn. unfold raw_cells.
  destruct (Nat.lt_ge_cases i (length (combine p nv))) as [L|L].
  - set (f := fun pn : R * R => let '(pi, ni) := pn in _).
    rewrite (nth_indep _ 0 (f (0%R, 0%R))) by (rewrite map_length; exact L).
    rewrite (map_nth f). rewrite combine_nth by exact Hl. rewrite Hp, Hn. unfold f.
    cbn [fadd fmul fsub fround Rops].
    replace (_ + _)%R with 0%R by ring. rewrite R_round_0. reflexivity.
  - apply nth_overflow. rewrite map_length. exact L.
Qed.

Lemma count_pos_le (p : list R) : count_pos Rops p <= N.of_nat (length p).
Proof.
  induction p as [|x p IH]; [cbn; lia|]. rewrite count_pos_cons. cbn [length]. destruct (posb x); lia.
Qed.

Lemma count_pos_exists (p : list R) : (exists x, In x p /\ (0 < x)%R) -> 1 <= count_pos Rops p.
Proof.
  induction p as [|y p IH]; intros [x [Hin Hx]]; [destruct Hin|].
  rewrite count_pos_cons. destruct Hin as [->|Hin].
  - unfold posb. cbn [fltb f0 Rops]. unfold R_ltb. destruct (Rlt_dec 0 x); [lia|contradiction].
  - assert (1 <= count_pos Rops p) by (apply IH; exists x; auto). lia.
Qed.

(** ** statement *)
(** the correction alone, for *any* rounded cells (however their sum of draws was accumulated -- serially or
    by a parallel reduction): one cell per entry, exact total, zero cells stay zero *)
Definition C16_correction_stmt : Prop :=
  forall (p : list R) (raw : list N) (count q_mask : N) (cells : list N),
    length raw = length p ->
    correct_cells Rops p raw count q_mask = Some cells ->
    length cells = length p /\
    ((exists x, In x p /\ (0 < x)%R) -> sumN cells = count) /\
    (forall i, nth i p 0%R = 0%R -> nth i raw 0 = 0 -> nth i cells 0 = 0).

Lemma C16_correction_proof : C16_correction_stmt.
Proof.
  intros p raw count q_mask cells Hrl H. unfold correct_cells in H.
  destruct (N.ltb_spec (sumN raw) count) as [L|L].
  - injection H as <-.
    set (d := count - sumN raw). set (P := N.max (count_pos Rops p) 1).
    destruct (add_deficit_spec raw p (d / P) (d mod P) 0 Hrl) as [H1 [H2 H3]].
    repeat split.
    + rewrite H1. exact Hrl.
    + intro Hex. apply count_pos_exists in Hex.
      assert (HP : P = count_pos Rops p) by (unfold P; lia).
      rewrite H2. unfold below. rewrite N.add_0_l, N.min_0_r, N.sub_0_r, <- HP.
      assert (Hmod : d mod P < P) by (apply N.mod_lt; lia).
      rewrite N.min_l by lia.
      generalize (N.div_mod d P). intro Hdm. rewrite (N.mul_comm (d / P)). unfold d in *. lia.
    + intros i Hp Hn. rewrite H3; [exact Hn|].
      unfold posb. cbn [fltb f0 Rops]. unfold R_ltb. rewrite Hp. destruct (Rlt_dec 0 0); [lra|reflexivity].
  - destruct (N.ltb_spec count (sumN raw)) as [G|G].
    + apply remove_surplus_spec in H. destruct H as [H1 [H2 H3]]. repeat split.
      * rewrite H1. exact Hrl.
      * intros _. lia.
      * intros i Hp Hn. apply H3. exact Hn.
    + injection H as <-. repeat split; [exact Hrl|intros _; lia|intros i _ Hn; exact Hn].
Qed.

Definition C16_histogram_stmt : Prop :=
  forall (p nv : list R) (count q_mask : N) (cells : list N),
    length p = length nv ->
    sample_cells Rops p nv count q_mask = Some cells ->
    (* one cell per probability entry (2^n of them: C14_sizes) *)
    length cells = length p /\
    (* the cells sum to exactly the requested number of shots, as soon as some outcome is possible *)
    ((exists x, In x p /\ (0 < x)%R) -> sumN cells = count) /\
    (* an outcome of probability exactly zero (whose scaled draw sqrt(p) g is then zero) gets no shot *)
    (forall i, nth i p 0%R = 0%R -> nth i nv 0%R = 0%R -> nth i cells 0 = 0).

Lemma C16_histogram_proof : C16_histogram_stmt.
Proof.
  intros p nv count q_mask cells Hl H. unfold sample_cells in H.
  assert (Hrl : length (raw_cells Rops p nv count) = length p) by (apply raw_cells_length; exact Hl).
  destruct (C16_correction_proof p _ count q_mask cells Hrl H) as [A [B C]].
  split; [exact A|split; [exact B|]]. intros i Hp Hn. apply C; [exact Hp|]. apply raw_cells_zero; assumption.
Qed.
