(** * LinearP: every product of good elements is a linear map, hence determined by its values on
    basis states: the matrix an operator reports ([matrix n]: column j = the operator applied to
    basis state j) is the map it performs on a register. *)
From Coq Require Import Reals Lra Lia.
From QV Require Import Spec Reg ScalarR BitsP BitsIterP VecP OpP LocalP C01P C03P RotP C01M C03M C03T C03T2 RegP NormP Form2P ApplyP.
Open Scope R_scope.

Definition lin (f : vecR -> vecR) : Prop :=
  (forall (a : CR) (psi phi : vecR) idx,
     f (fun i => Cadd (Cmul a (psi i)) (phi i)) idx = Cadd (Cmul a (f psi idx)) (f phi idx)) /\
  (forall psi phi : vecR, (forall i, psi i = phi i) -> forall idx, f psi idx = f phi idx).

Lemma simple_lin (s : single R) : simple s -> lin (single_fn Rops s).
Proof.
  intros [Hs W]. split.
  - intros a psi phi idx. rewrite !(single_form2x s Hs W).
    generalize (sA s (N.land idx (single_act_on s))), (sB s (N.land idx (single_act_on s))). intros [p p'] [q q'].
    destruct a as [a a'], (psi idx) as [x x'], (phi idx) as [y y'],
             (psi (N.lxor idx (s_act s))) as [u u'], (phi (N.lxor idx (s_act s))) as [v v']. cxring.
  - intros psi phi H idx. apply single_fn_ext. exact H.
Qed.

Lemma lin_comp f g : lin f -> lin g -> lin (fun psi => g (f psi)).
Proof.
  intros [Lf Ef] [Lg Eg]. split.
  - intros a psi phi idx.
    rewrite (Eg _ (fun i => Cadd (Cmul a (f psi i)) (f phi i)) (fun i => Lf a psi phi i)). apply Lg.
  - intros psi phi H idx. apply Eg. intro i. apply Ef. exact H.
Qed.

Lemma lin_id : lin (fun psi : vecR => psi).
Proof. split; [reflexivity|]. intros psi phi H idx. apply H. Qed.

Lemma multi_simple_lin (q : multi R) : Forall simple q -> lin (multi_fn Rops q).
Proof.
  induction 1 as [|s q Hs _ IH]; [exact lin_id|].
  assert (L := lin_comp _ _ (simple_lin s Hs) IH). destruct L as [L1 L2]. split.
  - intros a psi phi idx. rewrite !multi_fn_cons. apply L1.
  - intros psi phi H idx. rewrite !multi_fn_cons. apply L2. exact H.
Qed.

Lemma good_multi_lin (q : multi R) : Forall good_single q -> lin (multi_fn Rops q).
Proof.
  intro G. destruct (multi_simple_lin (expand_all q) (expand_all_simple q G)) as [L1 L2]. split.
  - intros a psi phi idx. rewrite <- !(expand_all_fn q G). apply L1.
  - intros psi phi H idx. apply multi_fn_ext. exact H.
Qed.

(** finite sums of complex numbers over [start, start + k) *)
Fixpoint Csum (k : nat) (start : N) (g : N -> CR) : CR :=
  match k with O => zero | S k' => Cadd (g start) (Csum k' (N.succ start) g) end.

Lemma lin_zero f : lin f -> forall idx, f (fun _ => zero) idx = zero.
Proof.
  intros [L E] idx. assert (H := L (-1, 0) (fun _ => zero) (fun _ => zero) idx).
  rewrite <- (E (fun _ => zero) (fun i => Cadd (Cmul (-1, 0) zero) zero)) in H by (intro i; cxring).
  rewrite H. destruct (f (fun _ => zero) idx) as [x y]. cxring.
Qed.

Lemma lin_sum f : lin f -> forall k start (c : N -> CR) (phi : N -> vecR) idx,
  f (fun i => Csum k start (fun j => Cmul (c j) (phi j i))) idx = Csum k start (fun j => Cmul (c j) (f (phi j) idx)).
Proof.
  intros L k. induction k as [|k IH]; intros start c phi idx; cbn [Csum].
  - apply lin_zero. exact L.
  - destruct L as [L1 L2]. rewrite (L1 (c start) (phi start) _ idx). f_equal. apply IH.
Qed.

(** a function that vanishes outside [0, 2^k) is the sum of its values times basis functions *)
Lemma Csum_delta k : forall start (psi : vecR) i,
  Csum k start (fun j => Cmul (psi j) (basis Rops j i)) =
  if (N.leb start i && N.ltb i (start + N.of_nat k))%bool then psi i else zero.
Proof.
  induction k as [|k IH]; intros start psi i; cbn [Csum].
  - destruct (N.leb_spec start i), (N.ltb_spec i (start + N.of_nat 0)); cbn [andb]; try reflexivity; lia.
  - rewrite IH. unfold basis at 1.
    destruct (N.eqb_spec i start) as [E|E].
    + subst i. destruct (N.leb_spec (N.succ start) start); [lia|]. cbn [andb].
      destruct (N.leb_spec start start); [|lia]. destruct (N.ltb_spec start (start + N.of_nat (S k))); [|lia]. cbn [andb].
      destruct (psi start) as [x y]. cxring.
    + destruct (N.leb_spec (N.succ start) i), (N.ltb_spec i (N.succ start + N.of_nat k)),
        (N.leb_spec start i), (N.ltb_spec i (start + N.of_nat (S k))); cbn [andb]; try lia;
        destruct (psi start) as [x y]; try destruct (psi i) as [u v]; cxring.
Qed.

Lemma zout_decompose k (psi : vecR) : zout k psi -> forall i,
  psi i = Csum (Nat.pow 2 k) 0 (fun j => Cmul (psi j) (basis Rops j i)).
Proof.
  intros Hz i. rewrite Csum_delta, N.add_0_l, of_nat_pow2.
  destruct (N.leb_spec 0 i); [|lia]. cbn [andb].
  destruct (N.ltb_spec i (p2 k)); [reflexivity|]. apply Hz. assumption.
Qed.

(** ** the matrix of an operator *)
Definition mat_entry (q : multi R) (n : nat) (i j : N) : CR :=
  get Rops (multi_apply Rops q (tab (Nat.pow 2 n) (basis Rops j))) i.

Lemma basis_zout n j : (j < p2 n)%N -> zout n (basis Rops j).
Proof. intros Hj i Hi. unfold basis. destruct (N.eqb_spec i j); [lia|reflexivity]. Qed.

Lemma mat_entry_fn q n i j : Forall good_single q -> Forall (fun s => (single_act_on s < p2 n)%N) q -> (j < p2 n)%N ->
  mat_entry q n i j = multi_fn Rops q (basis Rops j) i.
Proof.
  intros G B Hj. unfold mat_entry. rewrite (apply_is_fn n q G B) by apply tab_length.
  apply multi_fn_ext. intro t. apply (get_tab_all _ n); [reflexivity|apply basis_zout; exact Hj].
Qed.

Theorem matrix_is_map n (q : multi R) : Forall good_single q ->
  Forall (fun s => (single_act_on s < p2 n)%N) q ->
  forall (v : bufR), length v = Nat.pow 2 n -> forall i,
    get Rops (multi_apply Rops q v) i =
    Csum (Nat.pow 2 n) 0 (fun j => Cmul (get Rops v j) (mat_entry q n i j)).
Proof.
  intros G B v Hl i. rewrite (apply_is_fn n q G B v Hl).
  assert (L := good_multi_lin q G). destruct L as [L1 L2].
  rewrite (L2 _ _ (zout_decompose n (get Rops v) (get_zout v n Hl)) i).
  rewrite (lin_sum _ (conj L1 L2)).
  (* entries for j < 2^n *)
  assert (X : forall k start, (N.to_nat start + k <= Nat.pow 2 n)%nat ->
     Csum k start (fun j => Cmul (get Rops v j) (multi_fn Rops q (basis Rops j) i)) =
     Csum k start (fun j => Cmul (get Rops v j) (mat_entry q n i j))).
  { induction k as [|k IH]; intros start Hs; cbn [Csum]; [reflexivity|].
    rewrite IH by lia. rewrite (mat_entry_fn q n i start G B) by (rewrite <- of_nat_pow2; lia). reflexivity. }
  apply X. cbn. lia.
Qed.
