(** * C10T3: a program of declarations, gate definitions, barriers and gate statements is executed
    as the product, in program order, of the operators its gate statements contribute -- each
    statement exactly once. *)
From Coq Require Import Lia String ZArith List.
From QV Require Import Interp InterpP Sym Reg.
Import ListNotations.
Open Scope list_scope.

Section Straight.
  Context {F : Type} (OP : ops F) (e1 e2 : F).
  Local Notation int := (@int F).
  Local Notation node := (@node F).

  (** statements that neither measure, reset nor test a classical register *)
  Definition plain (n : node) : Prop :=
    match n with
    | NQReg _ _ | NCReg _ _ | NBarrier _ | NOpaque | NGate _ _ _ _ | NApply _ _ _ => True
    | _ => False
    end.

  (** the operators contributed by the gate statements of a program, in program order, each by the
      interpreter state the statement is met in *)
  Inductive contributes (base : int) : int -> list node -> int -> list (multi F) -> Prop :=
  | K_nil ch : contributes base ch [] ch []
  | K_apply ch name regs args ch1 o rest ch' os :
      process_apply OP base ch name regs args = IOk ch1 ->
      i_ops ch1 = ext_push (i_ops ch) o ->
      contributes base ch1 rest ch' os ->
      contributes base ch (NApply name regs args :: rest) ch' (o :: os)
  | K_other ch n ch1 rest ch' os :
      (forall name regs args, n <> NApply name regs args) ->
      process_node1 OP base ch n = IOk ch1 -> i_ops ch1 = i_ops ch ->
      contributes base ch1 rest ch' os ->
      contributes base ch (n :: rest) ch' os.

  Lemma plain_trace base : forall nodes ch ch',
    Forall plain nodes -> process_nodes OP base ch nodes = IOk ch' ->
    exists os, contributes base ch nodes ch' os /\
               blocks (i_ops ch') = blocks (i_ops ch) /\
               open (i_ops ch') = open (i_ops ch) ++ concat os.
  Proof.
    induction nodes as [|n nodes IH]; intros ch ch' Hp H; cbn [process_nodes] in H.
    - injection H as <-. exists []. split; [constructor|]. split; [reflexivity|]. cbn [concat]. symmetry. apply app_nil_r.
    - inversion Hp as [|x xs Hn Hrest]; subst.
      destruct (process_node1 OP base ch n) as [c1| |] eqn:E1; cbn [ibind] in H; try discriminate.
      destruct (IH c1 ch' Hrest H) as [os [Hc [Hb Ho]]].
      destruct n; cbn [plain] in Hn; try contradiction.
      + (* qreg *) exists os. assert (Eo : i_ops c1 = i_ops ch).
        { cbn [process_node1] in E1. unfold process_qreg in E1.
          repeat (match type of E1 with ibind ?r _ = _ => destruct r; cbn [ibind] in E1; try discriminate end).
          injection E1 as <-. reflexivity. }
        split; [eapply K_other; try eassumption; intros; discriminate|]. rewrite <- Eo. split; assumption.
      + exists os. assert (Eo : i_ops c1 = i_ops ch).
        { cbn [process_node1] in E1. unfold process_creg in E1.
          repeat (match type of E1 with ibind ?r _ = _ => destruct r; cbn [ibind] in E1; try discriminate end).
          injection E1 as <-. reflexivity. }
        split; [eapply K_other; try eassumption; intros; discriminate|]. rewrite <- Eo. split; assumption.
      + exists os. assert (Eo : i_ops c1 = i_ops ch) by (cbn [process_node1] in E1; injection E1 as <-; reflexivity).
        split; [eapply K_other; try eassumption; intros; discriminate|]. rewrite <- Eo. split; assumption.
      + (* apply *)
        assert (E1' := E1). cbn [process_node1] in E1'. unfold process_apply in E1'.
        apply ibind_ok in E1'. destruct E1' as [rv [_ E1']].
        apply ibind_ok in E1'. destruct E1' as [av [_ E1']].
        apply ibind_ok in E1'. destruct E1' as [o [_ E1']].
        injection E1' as E1'. exists (o :: os).
        assert (Eo : i_ops c1 = ext_push (i_ops ch) o) by (rewrite <- E1'; reflexivity).
        split; [eapply K_apply; eassumption|].
        rewrite Hb, Ho, Eo. cbn [ext_push blocks open concat]. split; [reflexivity|]. rewrite app_assoc. reflexivity.
      + exists os. assert (Eo : i_ops c1 = i_ops ch) by (cbn [process_node1] in E1; injection E1 as <-; reflexivity).
        split; [eapply K_other; try eassumption; intros; discriminate|]. rewrite <- Eo. split; assumption.
      + exists os. assert (Eo : i_ops c1 = i_ops ch).
        { cbn [process_node1] in E1. unfold process_gate in E1.
          destruct (macro_new OP regs params body); cbn [ibind] in E1; try discriminate.
          destruct (has_macro name base || has_macro name ch)%bool; [discriminate|].
          destruct (check_ident name); cbn [ibind] in E1; try discriminate.
          injection E1 as <-. reflexivity. }
        split; [eapply K_other; try eassumption; intros; discriminate|]. rewrite <- Eo. split; assumption.
  Qed.

  Lemma length_contributes base ch nodes ch' os :
    contributes base ch nodes ch' os ->
    length os = length (filter (fun n => match n with NApply _ _ _ => true | _ => false end) nodes).
  Proof.
    induction 1 as [ch|ch name regs args ch1 o rest ch' os _ _ _ IH|ch n ch1 rest ch' os Hn _ _ _ IH]; cbn [filter length].
    - reflexivity.
    - rewrite IH. reflexivity.
    - destruct n; try exact IH. exfalso. eapply Hn. reflexivity.
  Qed.
End Straight.

(** the whole program: no closed blocks; the run applies the contributed operators, in program
    order, to |0...0> and touches nothing else *)
Definition C10_straight_line_stmt : Prop :=
  forall (F : Type) (OP : ops F) (e1 e2 : F) (nodes : list (@node F)) (i : @int F),
    Forall plain nodes -> int_new OP nodes = IOk i ->
    exists (ch : @int F) (os : list (multi F)),
      i = push_ast ch nodes /\
      contributes OP int_empty int_empty nodes ch os /\
      length os = length (filter (fun n => match n with NApply _ _ _ => true | _ => false end) nodes) /\
      blocks (i_ops i) = [] /\ open (i_ops i) = concat os /\
      forall draws,
        sym_finish OP e1 e2 (sym_new OP i) draws =
        Some {| s_xor := i_xor i;
                s_q := reg_apply OP (reg_new OP (lenN (i_qreg i))) (concat os);
                s_c := creg_new (lenN (i_creg i)); s_ops := i_ops i |}.

Lemma C10_straight_line_proof : C10_straight_line_stmt.
Proof.
  intros F OP e1 e2 nodes i Hp Hi.
  unfold int_new, add_ast, ast_changes in Hi.
  destruct (process_nodes OP int_empty int_empty nodes) as [ch| |] eqn:E; cbn [ibind] in Hi; try discriminate.
  injection Hi as <-.
  destruct (plain_trace OP int_empty nodes int_empty ch Hp E) as [os [Hc [Hb Ho]]].
  exists ch, os. cbn [int_empty i_ops ext_empty blocks open app] in Hb, Ho.
  cbn [push_ast i_xor i_qreg i_creg i_ops i_macros].
  split; [reflexivity|split; [exact Hc|split; [exact (length_contributes OP _ _ _ _ _ Hc)|split; [exact Hb|split; [exact Ho|]]]]].
  intro draws. unfold sym_finish, sym_new. cbn [s_xor s_q s_c s_ops push_ast i_xor i_qreg i_creg i_ops].
  rewrite Hb. cbn [run_blocks]. rewrite Ho. reflexivity.
Qed.
