(** * C01T: the C01 statements (as named propositions, so that the pin file and
    the property file share them verbatim) and their proofs from [C01P]. *)
From Coq Require Import Reals Lia.
From QV Require Import Spec ScalarR BitsP OpP C01P BitsIterP C01M.
Open Scope R_scope.

Notation MF := (multi_fn Rops).

(** one-qubit gates without parameter, on any bit position [b], any state, any index *)
Definition C01_single_bit_stmt : Prop :=
  forall (b : N) (psi : vecR) (idx : N),
    MF (op_x (2 ^ b)) psi idx = lift1 Rops (doc_x Rops) b psi idx /\
    MF (op_y (2 ^ b)) psi idx = lift1 Rops (doc_y Rops) b psi idx /\
    MF (op_z (2 ^ b)) psi idx = lift1 Rops (doc_z Rops) b psi idx /\
    MF (op_s (2 ^ b)) psi idx = lift1 Rops (doc_s Rops) b psi idx /\
    MF (multi_dgr Rops (op_s (2 ^ b))) psi idx = lift1 Rops (doc_sdg Rops) b psi idx /\
    MF (op_t (2 ^ b)) psi idx = lift1 Rops (doc_t Rops) b psi idx /\
    MF (multi_dgr Rops (op_t (2 ^ b))) psi idx = lift1 Rops (doc_tdg Rops) b psi idx /\
    (exists o, op_h (2 ^ b) = Some o /\ MF o psi idx = lift1 Rops (doc_h Rops) b psi idx).

Lemma C01_single_bit_proof : C01_single_bit_stmt.
Proof.
  intros b psi idx. repeat split.
  - unfold op_x. rewrite multi_fn_one. apply k_x.
  - unfold op_y. rewrite multi_fn_one. apply k_y.
  - unfold op_z. rewrite multi_fn_one. apply k_z.
  - unfold op_s. rewrite multi_fn_one. apply k_s.
  - apply k_sdg.
  - unfold op_t. rewrite multi_fn_one. apply k_t.
  - apply k_tdg.
  - exists (multi_of_single (single_of (AH1 (2 ^ b)))). split.
    + unfold op_h. rewrite popcount_pow2. reflexivity.
    + rewrite multi_fn_one. apply k_h.
Qed.

(** rotations: every angle (no side condition), every bit position *)
Definition C01_rot1_stmt : Prop :=
  forall (theta : R) (b : N),
    (exists o, op_rx Rops theta (2 ^ b) = Some o /\
               forall psi idx, MF o psi idx = lift1 Rops (doc_rx Rops theta) b psi idx) /\
    (exists o, op_ry Rops theta (2 ^ b) = Some o /\
               forall psi idx, MF o psi idx = lift1 Rops (doc_ry Rops theta) b psi idx) /\
    (exists o, op_rz Rops theta (2 ^ b) = Some o /\
               forall psi idx, MF o psi idx = lift1 Rops (doc_rz Rops theta) b psi idx).

Lemma valid1 b : N.eqb (popcount (2 ^ b)) 1 = true.
Proof. rewrite popcount_pow2. reflexivity. Qed.

Lemma C01_rot1_proof : C01_rot1_stmt.
Proof.
  intros theta b. repeat split.
  - eexists. split; [unfold op_rx; apply lift_checked_some; apply valid1|].
    intros. rewrite multi_fn_one. apply k_rx.
  - eexists. split; [unfold op_ry; apply lift_checked_some; apply valid1|].
    intros. rewrite multi_fn_one. apply k_ry.
  - eexists. split; [unfold op_rz; apply lift_checked_some; apply valid1|].
    intros. rewrite multi_fn_one. apply k_rz.
Qed.

(** two-qubit gates on any pair of distinct bit positions (adjacent or not) *)
Definition C01_two_bit_stmt : Prop :=
  forall (a b : N), a <> b ->
    let m := N.lor (2 ^ a) (2 ^ b) in
    forall (theta : R),
    (exists o, op_rxx Rops theta m = Some o /\
               forall psi idx, MF o psi idx = lift2 Rops (doc_rxx Rops theta) a b psi idx) /\
    (exists o, op_ryy Rops theta m = Some o /\
               forall psi idx, MF o psi idx = lift2 Rops (doc_ryy Rops theta) a b psi idx) /\
    (exists o, op_rzz Rops theta m = Some o /\
               forall psi idx, MF o psi idx = lift2 Rops (doc_rzz Rops theta) a b psi idx) /\
    (exists o, op_swap Rops m = Some o /\
               forall psi idx, MF o psi idx = lift2 Rops (doc_swap Rops) a b psi idx) /\
    (exists o, op_i_swap Rops m = Some o /\
               (forall psi idx, MF o psi idx = lift2 Rops (doc_iswap Rops) a b psi idx) /\
               (forall psi idx, MF (multi_dgr Rops o) psi idx = lift2 Rops (doc_iswap_dg Rops) a b psi idx)) /\
    (exists o, op_sqrt_swap Rops m = Some o /\
               (forall psi idx, MF o psi idx = lift2 Rops (doc_sqrt_swap Rops) a b psi idx) /\
               (forall psi idx, MF (multi_dgr Rops o) psi idx = lift2 Rops (doc_sqrt_swap_dg Rops) a b psi idx)) /\
    (exists o, op_sqrt_i_swap Rops m = Some o /\
               (forall psi idx, MF o psi idx = lift2 Rops (doc_sqrt_iswap Rops) a b psi idx) /\
               (forall psi idx, MF (multi_dgr Rops o) psi idx = lift2 Rops (doc_sqrt_iswap_dg Rops) a b psi idx)).

Lemma valid2 a b : a <> b -> N.eqb (popcount (N.lor (2 ^ a) (2 ^ b))) 2 = true.
Proof. intro H. rewrite popcount_pair by exact H. reflexivity. Qed.

Lemma C01_two_bit_proof : C01_two_bit_stmt.
Proof.
  intros a b Hab m theta. subst m. repeat split.
  - eexists. split; [unfold op_rxx; apply lift_checked_some; apply valid2; exact Hab|].
    intros. rewrite multi_fn_one. apply k_rxx. exact Hab.
  - eexists. split; [unfold op_ryy; apply lift_checked_some; apply valid2; exact Hab|].
    intros. rewrite multi_fn_one. apply k_ryy. exact Hab.
  - eexists. split; [unfold op_rzz; apply lift_checked_some; apply valid2; exact Hab|].
    intros. rewrite multi_fn_one. apply k_rzz. exact Hab.
  - eexists. split; [unfold op_swap; apply lift_checked_some; apply valid2; exact Hab|].
    intros. rewrite multi_fn_one. apply k_swap. exact Hab.
  - eexists. split; [unfold op_i_swap; apply lift_checked_some; apply valid2; exact Hab|]. split.
    + intros. rewrite multi_fn_one. apply k_iswap. exact Hab.
    + intros. apply k_iswap_dg. exact Hab.
  - eexists. split; [unfold op_sqrt_swap; apply lift_checked_some; apply valid2; exact Hab|]. split.
    + intros. rewrite multi_fn_one. apply k_sqrt_swap. exact Hab.
    + intros. apply k_sqrt_swap_dg. exact Hab.
  - eexists. split; [unfold op_sqrt_i_swap; apply lift_checked_some; apply valid2; exact Hab|]. split.
    + intros. rewrite multi_fn_one. apply k_sqrt_iswap. exact Hab.
    + intros. apply k_sqrt_iswap_dg. exact Hab.
Qed.

(** a constructor that needs exactly one (two) target qubit(s) refuses any other mask
    ([None] = the documented panic "Mask should contain k bit!"); the others always build *)
Definition C01_refuse_stmt : Prop :=
  forall (theta phi lam : R) (m : N),
    (op_rx Rops theta m = None <-> popcount m <> 1%N) /\
    (op_ry Rops theta m = None <-> popcount m <> 1%N) /\
    (op_rz Rops theta m = None <-> popcount m <> 1%N) /\
    (op_u1 Rops lam m = None <-> popcount m <> 1%N) /\
    (op_u2 Rops phi lam m = None <-> popcount m <> 1%N) /\
    (op_u3 Rops theta phi lam m = None <-> popcount m <> 1%N) /\
    (op_rxx Rops theta m = None <-> popcount m <> 2%N) /\
    (op_ryy Rops theta m = None <-> popcount m <> 2%N) /\
    (op_rzz Rops theta m = None <-> popcount m <> 2%N) /\
    (op_swap Rops m = None <-> popcount m <> 2%N) /\
    (op_sqrt_swap Rops m = None <-> popcount m <> 2%N) /\
    (op_i_swap Rops m = None <-> popcount m <> 2%N) /\
    (op_sqrt_i_swap Rops m = None <-> popcount m <> 2%N).

Lemma lift_checked_iff (g : atomic R) :
  lift (checked Rops g) = None <-> is_valid Rops g = false.
Proof.
  unfold lift, checked. destruct (is_valid Rops g); split; intro H; try reflexivity; discriminate.
Qed.

Lemma eqb_false_iff x y : N.eqb x y = false <-> x <> y.
Proof. apply N.eqb_neq. Qed.

Lemma C01_refuse_proof : C01_refuse_stmt.
Proof.
  intros theta phi lam m.
  assert (H1 : forall g, is_valid Rops g = N.eqb (popcount m) 1 ->
                         (lift (checked Rops g) = None <-> popcount m <> 1%N)).
  { intros g Hg. rewrite lift_checked_iff, Hg. apply eqb_false_iff. }
  assert (H2 : forall g, is_valid Rops g = N.eqb (popcount m) 2 ->
                         (lift (checked Rops g) = None <-> popcount m <> 2%N)).
  { intros g Hg. rewrite lift_checked_iff, Hg. apply eqb_false_iff. }
  assert (Hrz : forall t, op_rz Rops t m = None <-> popcount m <> 1%N) by (intro; apply H1; reflexivity).
  assert (Hry : forall t, op_ry Rops t m = None <-> popcount m <> 1%N) by (intro; apply H1; reflexivity).
  assert (H3 : forall t1 t2 t3,
             opt_app (opt_app (op_rz Rops t1 m) (op_ry Rops t2 m)) (op_rz Rops t3 m) = None
             <-> popcount m <> 1%N).
  { intros t1 t2 t3. split.
    - intro H. destruct (op_rz Rops t1 m) eqn:E1; [|apply Hrz in E1; exact E1].
      destruct (op_ry Rops t2 m) eqn:E2; [|apply Hry in E2; exact E2].
      destruct (op_rz Rops t3 m) eqn:E3; [|apply Hrz in E3; exact E3].
      discriminate.
    - intro H. apply (Hrz t1) in H. rewrite H. reflexivity. }
  repeat split; try (apply H1; reflexivity); try (apply H2; reflexivity);
    try apply Hrz; try apply H3.
  all: try (apply (proj1 (Hrz _))); try (apply (proj2 (Hrz _))); try (apply (proj1 (H3 _ _ _))); try (apply (proj2 (H3 _ _ _))).
Qed.

(** a several-bit mask given to a one-qubit gate means that gate on each selected qubit *)
Definition C01_multi_bit_stmt : Prop :=
  forall (bs : list N), NoDup bs ->
    forall (psi : vecR) (idx : N),
      multi_fn Rops (op_x (mask_of bs)) psi idx = lift_all (doc_x Rops) bs psi idx /\
      multi_fn Rops (op_z (mask_of bs)) psi idx = lift_all (doc_z Rops) bs psi idx /\
      multi_fn Rops (op_s (mask_of bs)) psi idx = lift_all (doc_s Rops) bs psi idx /\
      multi_fn Rops (op_t (mask_of bs)) psi idx = lift_all (doc_t Rops) bs psi idx.

Lemma C01_multi_bit_proof : C01_multi_bit_stmt.
Proof.
  intros bs Hnd psi idx. repeat split.
  - unfold op_x. rewrite multi_fn_one. apply (multi_bit AX (doc_x Rops) k_x comp_x empty_x bs Hnd).
  - unfold op_z. rewrite multi_fn_one. apply (multi_bit AZ (doc_z Rops) k_z comp_z empty_z bs Hnd).
  - unfold op_s. rewrite multi_fn_one.
    apply (multi_bit (fun m => AS m false) (doc_s Rops) k_s comp_s empty_s bs Hnd).
  - unfold op_t. rewrite multi_fn_one.
    apply (multi_bit (fun m => AT m false) (doc_t Rops) k_t comp_t empty_t bs Hnd).
Qed.

Definition C01_multi_bit_y_stmt : Prop :=
  forall (bs : list N), NoDup bs ->
    forall (psi : vecR) (idx : N),
      multi_fn Rops (op_y (mask_of bs)) psi idx = lift_all (doc_y Rops) bs psi idx.

Lemma C01_multi_bit_y_proof : C01_multi_bit_y_stmt.
Proof.
  intros bs Hnd psi idx. unfold op_y. rewrite multi_fn_one.
  apply (multi_bit AY (doc_y Rops) k_y comp_y empty_y bs Hnd).
Qed.

Definition C01_multi_bit_h_stmt : Prop :=
  forall (m : N) (q : multi R), (m < 2 ^ 64)%N -> op_h m = Some q ->
    exists bs : list N, NoDup bs /\ (forall k, In k bs <-> N.testbit m k = true) /\
      forall (psi : vecR) (idx : N), multi_fn Rops q psi idx = lift_all (doc_h Rops) bs psi idx.

Lemma C01_multi_bit_h_proof : C01_multi_bit_h_stmt.
Proof.
  intros m q Hm. unfold op_h. destruct (popcount m) as [|[p|p|]] eqn:Hp.
  - intro H. injection H as <-. apply popcount_eq0 in Hp. subst m. exists []. split; [constructor|]. split.
    + intro k. rewrite N.bits_0. cbn [In]. split; [tauto|discriminate].
    + reflexivity.
  - rewrite walk_bits_spec. intro H. injection H as <-.
    destruct (scan64_positions m) as [ps [E [Hnd Hin]]]. rewrite E. exists (rev ps). split; [|split].
    + apply NoDup_rev. exact Hnd.
    + intro k. rewrite <- in_rev, Hin. split; [tauto|]. intro Hk. split; [apply (testbit_high m k Hm Hk)|exact Hk].
    + apply h_pairs_spec. exact Hnd.
  - rewrite walk_bits_spec. intro H. injection H as <-.
    destruct (scan64_positions m) as [ps [E [Hnd Hin]]]. rewrite E. exists (rev ps). split; [|split].
    + apply NoDup_rev. exact Hnd.
    + intro k. rewrite <- in_rev, Hin. split; [tauto|]. intro Hk. split; [apply (testbit_high m k Hm Hk)|exact Hk].
    + apply h_pairs_spec. exact Hnd.
  - intro H. injection H as <-. destruct (popcount_eq1 m Hp) as [b ->]. exists [b]. split; [|split].
    + constructor; [intros []|constructor].
    + intro k. rewrite pow2_bits. cbn [In]. split.
      * intros [<-|[]]. apply N.eqb_refl.
      * intro E. apply N.eqb_eq in E. left. exact E.
    + intros psi idx. rewrite multi_fn_one. apply k_h.
Qed.
