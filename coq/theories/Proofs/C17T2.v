(** * C17T2: computing a chunk's changes against the current interpreter and appending them gives
    the same computation as interpreting the chunk in place (and hence the whole text).

    The operation queues are not syntactically equal ([Op::append] closes the open block as a
    no-op block); they are equal after flattening into items and merging adjacent plain blocks,
    which is all the runner ever sees. *)
From Coq Require Import Lia String ZArith List.
From QV Require Import Interp InterpP Sym.
Import ListNotations.
Open Scope N_scope.

Section Items.
  Context {F : Type}.
  Notation multi := (multi F).

  Inductive item :=
  | IApply (o : multi)
  | IMeas (q c : N)
  | IIf (o : multi) (c v : N)
  | IReset (q : N).

  Definition fb (b : multi * sep) : list item :=
    match snd b with
    | SNop => [IApply (fst b)]
    | SMeasure q c => [IApply (fst b); IMeas q c]
    | SIfBranch c v => [IIf (fst b) c v]
    | SReset q => [IApply (fst b); IReset q]
    end.
  Definition flatB (bl : list (multi * sep)) : list item := concat (map fb bl).
  Definition flat (o : @extop F) : list item := flatB (blocks o) ++ [IApply (open o)].

  (** merging adjacent plain blocks, dropping empty ones *)
  Definition ncons (x : item) (acc : list item) : list item :=
    match x with
    | IApply a =>
        match acc with
        | IApply b :: r => IApply (a ++ b) :: r
        | _ => match a with [] => acc | _ => IApply a :: acc end
        end
    | _ => x :: acc
    end.
  Definition norm (l : list item) : list item := fold_right ncons [] l.

  Lemma norm_app l1 l2 : norm (l1 ++ l2) = fold_right ncons (norm l2) l1.
  Proof. unfold norm. apply fold_right_app. Qed.

  Lemma ncons_merge a b r : ncons (IApply a) (ncons (IApply b) r) = ncons (IApply (a ++ b)) r.
  Proof.
    destruct r as [|[c| | |] r']; cbn [ncons].
    - destruct b as [|b0 b']; [rewrite app_nil_r; reflexivity|]. cbn [ncons].
      destruct a; reflexivity.
    - rewrite app_assoc. reflexivity.
    - destruct b as [|b0 b']; [rewrite app_nil_r; reflexivity|]. destruct a; reflexivity.
    - destruct b as [|b0 b']; [rewrite app_nil_r; reflexivity|]. destruct a; reflexivity.
    - destruct b as [|b0 b']; [rewrite app_nil_r; reflexivity|]. destruct a; reflexivity.
  Qed.

  Lemma ncons_nil r : ncons (IApply []) r = r.
  Proof. destruct r as [|[c| | |] r']; reflexivity. Qed.

  (** equivalence of item lists under any continuation *)
  Definition eqv (l1 l2 : list item) : Prop := forall t, norm (l1 ++ t) = norm (l2 ++ t).

  Lemma eqv_refl l : eqv l l. Proof. intro t. reflexivity. Qed.
  Lemma eqv_sym l1 l2 : eqv l1 l2 -> eqv l2 l1. Proof. intros H t. symmetry. apply H. Qed.
  Lemma eqv_trans l1 l2 l3 : eqv l1 l2 -> eqv l2 l3 -> eqv l1 l3.
  Proof. intros H1 H2 t. rewrite H1. apply H2. Qed.
  Lemma eqv_app_r l1 l2 s : eqv l1 l2 -> eqv (l1 ++ s) (l2 ++ s).
  Proof. intros H t. rewrite <- !app_assoc. apply H. Qed.
  Lemma eqv_app_l p l1 l2 : eqv l1 l2 -> eqv (p ++ l1) (p ++ l2).
  Proof. intros H t. rewrite <- !app_assoc, !norm_app. f_equal. rewrite <- !norm_app. apply H. Qed.

  Lemma eqv_merge a b : eqv [IApply a; IApply b] [IApply (a ++ b)].
  Proof. intro t. cbn [app]. unfold norm. cbn [fold_right]. apply ncons_merge. Qed.
  Lemma eqv_drop : eqv [IApply []] [].
  Proof. intro t. cbn [app]. unfold norm. cbn [fold_right]. apply ncons_nil. Qed.

  (** ** what the queue operations do to the flattened queue *)
  Lemma flatB_app b1 b2 : flatB (b1 ++ b2) = flatB b1 ++ flatB b2.
  Proof. unfold flatB. rewrite map_app, concat_app. reflexivity. Qed.

  Lemma flat_push (o : @extop F) g : eqv (flat (ext_push o g)) (flat o ++ [IApply g]).
  Proof.
    unfold flat, ext_push. cbn [blocks open]. rewrite <- app_assoc. apply eqv_app_l. cbn [app].
    apply eqv_sym, eqv_merge.
  Qed.

  Lemma flat_bwi_meas (o : @extop F) q c : flat (ext_branch_with_id o (SMeasure q c)) = flat o ++ [IMeas q c; IApply []].
  Proof.
    unfold flat, ext_branch_with_id. cbn [blocks open]. rewrite flatB_app. unfold flatB at 2. cbn [map concat fb fst snd app].
    rewrite <- !app_assoc. reflexivity.
  Qed.
  Lemma flat_bwi_reset (o : @extop F) q : flat (ext_branch_with_id o (SReset q)) = flat o ++ [IReset q; IApply []].
  Proof.
    unfold flat, ext_branch_with_id. cbn [blocks open]. rewrite flatB_app. unfold flatB at 2. cbn [map concat fb fst snd app].
    rewrite <- !app_assoc. reflexivity.
  Qed.

  Lemma flat_branch_nop (o : @extop F) : eqv (flat (ext_branch o SNop)) (flat o).
  Proof.
    unfold flat, ext_branch. destruct (open o) as [|g0 g'] eqn:E; [rewrite E; apply eqv_refl|].
    cbn [blocks open]. rewrite flatB_app. unfold flatB at 2. cbn [map concat fb fst snd app].
    rewrite <- app_assoc. apply eqv_app_l. cbn [app].
    eapply eqv_trans; [apply eqv_merge|]. rewrite app_nil_r. apply eqv_refl.
  Qed.

  Lemma open_branch (o : @extop F) s : open (ext_branch o s) = [].
  Proof. unfold ext_branch. destruct (open o) eqn:E; [exact E|reflexivity]. Qed.

  (** the effect of a conditional statement: close the open block, queue the gate, close it under the condition *)
  Definition ext_if (o : @extop F) (g : multi) (c v : N) : extop :=
    ext_branch (ext_push (ext_branch o SNop) g) (SIfBranch c v).
  Definition if_items (g : multi) (c v : N) : list item :=
    match g with [] => [] | _ => [IIf g c v; IApply []] end.

  Lemma flat_if (o : @extop F) g c v : eqv (flat (ext_if o g c v)) (flat o ++ if_items g c v).
  Proof.
    unfold ext_if. set (o1 := ext_branch o SNop).
    assert (H1 : eqv (flat o1) (flat o)) by apply flat_branch_nop.
    assert (O1 : open o1 = []) by apply open_branch.
    unfold ext_branch at 1. cbn [ext_push open blocks]. rewrite O1. cbn [app].
    destruct g as [|g0 g'].
    - cbn [if_items]. rewrite app_nil_r. eapply eqv_trans; [apply flat_push|]. eapply eqv_trans; [|exact H1].
      rewrite <- (app_nil_r (flat o1)) at 2. apply eqv_app_l. apply eqv_drop.
    - cbn [if_items]. unfold flat at 1. cbn [blocks open]. rewrite flatB_app. unfold flatB at 2. cbn [map concat fb fst snd app].
      rewrite <- app_assoc. cbn [app].
      (* flatB (blocks o1) ++ [IIf; IApply []]  ~  flat o1 ++ [IIf; IApply []]  ~  flat o ++ ... *)
      eapply eqv_trans; [|apply (eqv_app_r _ _ _ H1)].
      unfold flat. rewrite O1, <- app_assoc. apply eqv_app_l. cbn [app].
      apply eqv_sym. apply (eqv_app_r [IApply []] [] _ eqv_drop).
  Qed.

  (** ** [Op::append] commutes with everything that happens afterwards *)
  Lemma append_push (A o : @extop F) g : ext_push (ext_append A o) g = ext_append A (ext_push o g).
  Proof. reflexivity. Qed.
  Lemma append_bwi (A o : @extop F) s : ext_branch_with_id (ext_append A o) s = ext_append A (ext_branch_with_id o s).
  Proof. unfold ext_branch_with_id, ext_append. cbn [blocks open]. f_equal. rewrite <- app_assoc. reflexivity. Qed.
  Lemma append_branch (A o : @extop F) s : ext_branch (ext_append A o) s = ext_append A (ext_branch o s).
  Proof.
    unfold ext_branch. change (open (ext_append A o)) with (open o). destruct (open o) as [|g0 g'] eqn:E.
    - reflexivity.
    - unfold ext_append. cbn [blocks open]. f_equal. rewrite <- app_assoc. reflexivity.
  Qed.
  Lemma append_if (A o : @extop F) g c v : ext_if (ext_append A o) g c v = ext_append A (ext_if o g c v).
  Proof. unfold ext_if. rewrite append_branch, append_push, append_branch. reflexivity. Qed.

  (** appending an empty queue changes nothing the runner sees *)
  Lemma append_empty (A : @extop F) : eqv (flat (ext_append A ext_empty)) (flat A).
  Proof.
    unfold flat, ext_append, ext_empty. cbn [blocks open]. rewrite app_nil_r.
    destruct (open A) as [|g0 g'] eqn:E.
    - apply eqv_refl.
    - destruct (rev (blocks A)) as [|[last s] before] eqn:R.
      + assert (B : blocks A = []) by (destruct (blocks A); [reflexivity|]; cbn [rev] in R; destruct (rev l); discriminate).
        rewrite B. cbn [app flatB map concat fb fst snd].
        eapply eqv_trans; [apply eqv_merge|]. rewrite app_nil_r. apply eqv_refl.
      + assert (B : blocks A = rev before ++ [(last, s)]).
        { rewrite <- (rev_involutive (blocks A)), R. reflexivity. }
        rewrite B. destruct s.
        * rewrite !flatB_app. unfold flatB at 2 4. cbn [map concat fb fst snd app]. rewrite <- !app_assoc.
          apply eqv_app_l. cbn [app].
          eapply eqv_trans; [apply eqv_merge|]. rewrite app_nil_r.
          apply eqv_sym. apply eqv_merge.
        * rewrite !flatB_app. unfold flatB at 3. cbn [map concat fb fst snd app]. rewrite <- !app_assoc.
          apply eqv_app_l. apply eqv_app_l. cbn [app].
          eapply eqv_trans; [apply eqv_merge|]. rewrite app_nil_r. apply eqv_refl.
        * rewrite !flatB_app. unfold flatB at 3. cbn [map concat fb fst snd app]. rewrite <- !app_assoc.
          apply eqv_app_l. apply eqv_app_l. cbn [app].
          eapply eqv_trans; [apply eqv_merge|]. rewrite app_nil_r. apply eqv_refl.
        * rewrite !flatB_app. unfold flatB at 3. cbn [map concat fb fst snd app]. rewrite <- !app_assoc.
          apply eqv_app_l. apply eqv_app_l. cbn [app].
          eapply eqv_trans; [apply eqv_merge|]. rewrite app_nil_r. apply eqv_refl.
  Qed.
End Items.

Section Changes.
  Context {F : Type} (OP : ops F).
  Notation int := (@int F).

  (** [W] is the state of interpreting in place (base empty), [c] the changes computed against [A] *)
  Definition rel (A W c : int) : Prop :=
    i_xor W = i_xor A /\
    i_qreg W = i_qreg A ++ i_qreg c /\ i_creg W = i_creg A ++ i_creg c /\
    i_macros W = i_macros A ++ i_macros c /\
    eqv (flat (i_ops W)) (flat (ext_append (i_ops A) (i_ops c))).

  Lemma imap_ext {X Y} (f g : X -> ires Y) l : (forall x, f x = g x) -> imap f l = imap g l.
  Proof. intro H. induction l as [|x t IH]; [reflexivity|]. cbn [imap]. rewrite H, IH. reflexivity. Qed.

  Lemma lenN_app {X} (a b : list X) : lenN (a ++ b) = lenN a + lenN b.
  Proof. unfold lenN. rewrite app_length. lia. Qed.

  Lemma count_name_app alias a b : count_name alias (a ++ b) = count_name alias a + count_name alias b.
  Proof. unfold count_name. rewrite filter_app. apply lenN_app. Qed.

  Lemma lookup_app_none {X} k (a b : list (ident * X)) : lookup k a = None -> lookup k (a ++ b) = lookup k b.
  Proof.
    unfold lookup. induction a as [|p a IH]; [reflexivity|]. cbn [find app].
    match goal with |- context [if ?b then _ else _] => destruct b end; [intro H; discriminate|exact IH].
  Qed.

  Section WithRel.
    Variables A W c : int.
    Hypothesis R : rel A W c.

    Lemma q_idx_eq a : get_q_idx int_empty W a = get_q_idx A c a.
    Proof. destruct R as [_ [Hq _]]. unfold get_q_idx. cbn [i_qreg int_empty app]. rewrite Hq. reflexivity. Qed.
    Lemma c_idx_eq a : get_c_idx int_empty W a = get_c_idx A c a.
    Proof. destruct R as [_ [_ [Hc _]]]. unfold get_c_idx. cbn [i_creg int_empty app]. rewrite Hc. reflexivity. Qed.

    Lemma rel_set_ops oW oc : eqv (flat oW) (flat (ext_append (i_ops A) oc)) -> rel A (set_ops W oW) (set_ops c oc).
    Proof. destruct R as [H1 [H2 [H3 [H4 _]]]]. intro H. repeat split; assumption. Qed.

    Lemma apply_sim name regs args c' :
      process_apply OP A c name regs args = IOk c' ->
      exists W', process_apply OP int_empty W name regs args = IOk W' /\ rel A W' c'.
    Proof.
      destruct R as [H1 [H2 [H3 [H4 H5]]]]. unfold process_apply. intro H.
      rewrite (imap_ext _ _ regs q_idx_eq).
      destruct (imap (get_q_idx A c) regs) as [rv|e|w]; cbn [ibind] in *; try discriminate.
      destruct (imap _ args) as [av|e|w]; cbn [ibind] in *; try discriminate.
      cbn [i_macros int_empty app]. rewrite H4.
      destruct (match lookup name (rev (i_macros A ++ i_macros c)) with
                | Some m => macro_process OP (MACRO_FUEL (i_macros A ++ i_macros c)) (i_macros A ++ i_macros c) 0 m name rv av
                | None => gates_process OP name rv av end) as [o|e|w]; cbn [ibind] in *; try discriminate.
      injection H as <-. eexists. split; [reflexivity|]. apply rel_set_ops.
      rewrite <- append_push. eapply eqv_trans; [apply flat_push|]. eapply eqv_trans; [|apply eqv_sym, flat_push].
      apply eqv_app_r. exact H5.
    Qed.
  End WithRel.

  Lemma node_sim A W c n c' : rel A W c ->
    process_node1 OP A c n = IOk c' ->
    exists W', process_node1 OP int_empty W n = IOk W' /\ rel A W' c'.
  Proof.
    intros R H. assert (R' := R). destruct R' as [H1 [H2 [H3 [H4 H5]]]].
    destruct n as [alias size|alias size|a|a|q cc|name regs args| |name regs params body|lhs rhs body]; cbn [process_node1] in *.
    - (* qreg *)
      unfold process_qreg in *. destruct (check_ident alias); cbn [ibind] in *; try discriminate.
      destruct (check_reg_size alias (size_as_N size)); cbn [ibind] in *; try discriminate.
      change (lenN (i_qreg (@int_empty F))) with 0%N. rewrite N.add_0_l, H2, lenN_app.
      destruct (check_reg_size alias (lenN (i_qreg A) + lenN (i_qreg c) + size_as_N size)); cbn [ibind] in *; try discriminate.
      unfold check_dup in *. change (i_qreg (@int_empty F)) with (@nil ident). change (i_creg (@int_empty F)) with (@nil ident).
      change (count_name alias []) with 0%N. change (N.ltb 0 0) with false. cbv iota. rewrite ?H2, ?H3, !count_name_app.
      destruct (N.ltb_spec 0 (count_name alias (i_qreg A))) as [L1|L1]; cbn [ibind] in H; try discriminate.
      destruct (N.ltb_spec 0 (count_name alias (i_creg A))) as [L2|L2]; cbn [ibind] in H; try discriminate.
      destruct (N.ltb_spec 0 (count_name alias (i_qreg c))) as [L3|L3]; cbn [ibind] in H; try discriminate.
      destruct (N.ltb_spec 0 (count_name alias (i_creg c))) as [L4|L4]; cbn [ibind] in H; try discriminate.
      replace (count_name alias (i_qreg A) + count_name alias (i_qreg c))%N with 0%N by lia.
      replace (count_name alias (i_creg A) + count_name alias (i_creg c))%N with 0%N by lia.
      cbn [N.ltb N.compare ibind]. injection H as <-. eexists. split; [reflexivity|].
      repeat split; cbn [i_xor i_qreg i_creg i_macros i_ops]; try assumption. rewrite ?H2, <- ?app_assoc. reflexivity.
    - (* creg *)
      unfold process_creg in *. destruct (check_ident alias); cbn [ibind] in *; try discriminate.
      destruct (check_reg_size alias (size_as_N size)); cbn [ibind] in *; try discriminate.
      change (lenN (i_creg (@int_empty F))) with 0%N. rewrite N.add_0_l, H3, lenN_app.
      destruct (check_reg_size alias (lenN (i_creg A) + lenN (i_creg c) + size_as_N size)); cbn [ibind] in *; try discriminate.
      unfold check_dup in *. change (i_qreg (@int_empty F)) with (@nil ident). change (i_creg (@int_empty F)) with (@nil ident).
      change (count_name alias []) with 0%N. change (N.ltb 0 0) with false. cbv iota. rewrite ?H2, ?H3, !count_name_app.
      destruct (N.ltb_spec 0 (count_name alias (i_qreg A))) as [L1|L1]; cbn [ibind] in H; try discriminate.
      destruct (N.ltb_spec 0 (count_name alias (i_creg A))) as [L2|L2]; cbn [ibind] in H; try discriminate.
      destruct (N.ltb_spec 0 (count_name alias (i_qreg c))) as [L3|L3]; cbn [ibind] in H; try discriminate.
      destruct (N.ltb_spec 0 (count_name alias (i_creg c))) as [L4|L4]; cbn [ibind] in H; try discriminate.
      replace (count_name alias (i_qreg A) + count_name alias (i_qreg c))%N with 0%N by lia.
      replace (count_name alias (i_creg A) + count_name alias (i_creg c))%N with 0%N by lia.
      cbn [N.ltb N.compare ibind]. injection H as <-. eexists. split; [reflexivity|].
      repeat split; cbn [i_xor i_qreg i_creg i_macros i_ops]; try assumption. rewrite ?H3, <- ?app_assoc. reflexivity.
    - (* barrier *) injection H as <-. exists W. split; [reflexivity|exact R].
    - (* reset *)
      rewrite (q_idx_eq A W c R). destruct (get_q_idx A c a) as [qm|e|w]; cbn [ibind] in *; try discriminate.
      injection H as <-. eexists. split; [reflexivity|]. apply (rel_set_ops A W c R).
      rewrite <- append_bwi, !flat_bwi_reset. apply eqv_app_r. exact H5.
    - (* measure *)
      rewrite (q_idx_eq A W c R). destruct (get_q_idx A c q) as [qm|e|w]; cbn [ibind] in *; try discriminate.
      rewrite (c_idx_eq A W c R). destruct (get_c_idx A c cc) as [cm|e|w]; cbn [ibind] in *; try discriminate.
      destruct (negb (N.eqb (popcount qm) (popcount cm))); try discriminate.
      injection H as <-. eexists. split; [reflexivity|]. apply (rel_set_ops A W c R).
      rewrite <- append_bwi, !flat_bwi_meas. apply eqv_app_r. exact H5.
    - (* gate application *) apply (apply_sim A W c R). exact H.
    - (* opaque *) injection H as <-. exists W. split; [reflexivity|exact R].
    - (* gate definition *)
      unfold process_gate in *. destruct (macro_new OP regs params body) as [m|e|w]; cbn [ibind] in *; try discriminate.
      unfold has_macro in *. cbn [i_macros int_empty lookup find] in *. rewrite H4.
      destruct (lookup name (i_macros A)) eqn:LA; cbn [orb] in H; try discriminate.
      destruct (lookup name (i_macros c)) eqn:LC; cbn [orb] in H; try discriminate.
      rewrite (lookup_app_none name _ _ LA), LC. cbn [orb].
      destruct (check_ident name); cbn [ibind] in *; try discriminate.
      injection H as <-. eexists. split; [reflexivity|].
      repeat split; cbn [i_xor i_qreg i_creg i_macros i_ops]; try assumption. rewrite ?H4, <- ?app_assoc. reflexivity.
    - (* if *)
      destruct body as [| | | | |name regs args| | |]; try discriminate.
      set (W1 := set_ops W (ext_branch (i_ops W) SNop)). set (c1 := set_ops c (ext_branch (i_ops c) SNop)) in *.
      assert (R1 : rel A W1 c1).
      { apply (rel_set_ops A W c R). rewrite <- append_branch.
        eapply eqv_trans; [apply flat_branch_nop|]. eapply eqv_trans; [exact H5|]. apply eqv_sym, flat_branch_nop. }
      rewrite (c_idx_eq A W1 c1 R1). destruct (get_c_idx A c1 (Register lhs)) as [val|e|w]; cbn [ibind] in *; try discriminate.
      (* the applied gate goes to the (now empty) open block; closing it under the condition is [ext_if] *)
      unfold process_apply in *.
      rewrite (imap_ext _ _ regs (q_idx_eq A W1 c1 R1)).
      destruct (imap (get_q_idx A c1) regs) as [rv|e|w]; cbn [ibind] in *; try discriminate.
      destruct (imap _ args) as [av|e|w]; cbn [ibind] in *; try discriminate.
      cbn [i_macros int_empty app set_ops] in *. fold W1. replace (i_macros W1) with (i_macros A ++ i_macros c1) by (symmetry; apply R1).
      change (i_macros c1) with (i_macros c) in *.
      destruct (match lookup name (rev (i_macros A ++ i_macros c)) with
                | Some m => macro_process OP (MACRO_FUEL (i_macros A ++ i_macros c)) (i_macros A ++ i_macros c) 0 m name rv av
                | None => gates_process OP name rv av end) as [o|e|w]; cbn [ibind] in *; try discriminate.
      injection H as <-. eexists. split; [reflexivity|].
      destruct R as [G1 [G2 [G3 [G4 G5]]]]. repeat split; cbn [set_ops i_xor i_qreg i_creg i_macros i_ops]; try assumption.
      change (eqv (flat (ext_if (i_ops W) o val (size_as_N rhs))) (flat (ext_append (i_ops A) (ext_if (i_ops c) o val (size_as_N rhs))))).
      rewrite <- append_if. eapply eqv_trans; [apply flat_if|]. eapply eqv_trans; [|apply eqv_sym, flat_if].
      apply eqv_app_r. exact G5.
  Qed.
End Changes.

Section ChangesTheorem.
  Context {F : Type} (OP : ops F).
  Notation int := (@int F).

  Lemma nodes_sim nodes : forall (A W c c' : int), rel A W c ->
    process_nodes OP A c nodes = IOk c' ->
    exists W', process_nodes OP int_empty W nodes = IOk W' /\ rel A W' c'.
  Proof.
    induction nodes as [|n rest IH]; intros A W c c' R H; cbn [process_nodes] in *.
    - injection H as <-. exists W. split; [reflexivity|exact R].
    - apply ibind_ok in H. destruct H as [c1 [H1 H]].
      destruct (node_sim OP A W c n c1 R H1) as [W1 [E1 R1]]. rewrite E1. cbn [ibind].
      apply (IH A W1 c1 c' R1 H).
  Qed.

  Lemma rel_start (A : int) : rel A A int_empty.
  Proof.
    repeat split; cbn [int_empty i_qreg i_creg i_macros i_ops]; rewrite ?app_nil_r; try reflexivity.
    apply eqv_sym. apply append_empty.
  Qed.
End ChangesTheorem.

(** the runner sees only the merged item list: what the items do to a register *)
Section Exec.
  Context {F : Type} (OP : ops F).
  Variables (EPS_RESET EPS_SKIP : F).

  Definition st := (qreg F * creg * list N)%type.

  Definition exec1 (xor : bool) (s : option st) (it : @item F) : option st :=
    match s with
    | None => None
    | Some (r, c, draws) =>
        match it with
        | IApply o => Some (apply_block OP r o, c, draws)
        | IMeas qm cm =>
            let '(d, draws') := take_draw r qm draws in
            let '(r2, res) := reg_measure OP EPS_RESET EPS_SKIP r qm d in
            match bits_iter_list qm, bits_iter_list cm with
            | Some qs, Some cs => Some (r2, copy_bits xor c (creg_get res) qs cs, draws')
            | _, _ => None
            end
        | IIf o cmask v =>
            match creg_get_by_mask c cmask with
            | Some got => Some (if N.eqb got v then apply_block OP r o else r, c, draws)
            | None => None
            end
        | IReset qm =>
            let '(d, draws') := take_draw r qm draws in
            let '(r2, res) := reg_measure OP EPS_RESET EPS_SKIP r qm d in
            Some (apply_block OP r2 (op_x (creg_get res)), c, draws')
        end
    end.
  Definition exec (xor : bool) (s : option st) (l : list (@item F)) : option st := fold_left (exec1 xor) l s.

  Lemma exec_none xor l : exec xor None l = None.
  Proof. induction l as [|x l IH]; [reflexivity|exact IH]. Qed.

  Lemma exec_app xor s l1 l2 : exec xor s (l1 ++ l2) = exec xor (exec xor s l1) l2.
  Proof. unfold exec. apply fold_left_app. Qed.

  (** [run_blocks] is [exec] of the flattened blocks *)
  Lemma run_blocks_exec xor bl : forall r c draws,
    run_blocks OP EPS_RESET EPS_SKIP xor r c bl draws = exec xor (Some (r, c, draws)) (flatB bl).
  Proof.
    induction bl as [|[o s] rest IH]; intros r c draws; [reflexivity|].
    change (flatB ((o, s) :: rest)) with (fb (o, s) ++ flatB rest). rewrite exec_app.
    destruct s as [|qm cm|cmask v|qm]; cbn [run_blocks fb fst snd exec fold_left exec1].
    - apply IH.
    - destruct (take_draw (apply_block OP r o) qm draws) as [d draws'].
      destruct (reg_measure OP EPS_RESET EPS_SKIP (apply_block OP r o) qm d) as [r2 res].
      destruct (bits_iter_list qm), (bits_iter_list cm); try (symmetry; apply exec_none). apply IH.
    - destruct (creg_get_by_mask c cmask); [apply IH|symmetry; apply exec_none].
    - destruct (take_draw (apply_block OP r o) qm draws) as [d draws'].
      destruct (reg_measure OP EPS_RESET EPS_SKIP (apply_block OP r o) qm d) as [r2 res]. apply IH.
  Qed.
End Exec.

Section ExecNorm.
  Context {F : Type} (OP : ops F).
  Variables (EPS_RESET EPS_SKIP : F).
  Notation exec := (exec OP EPS_RESET EPS_SKIP).
  Notation exec1 := (exec1 OP EPS_RESET EPS_SKIP).

  Lemma apply_block_nil (r : qreg F) : apply_block OP r [] = r.
  Proof. destruct r. reflexivity. Qed.
  Lemma apply_block_app (r : qreg F) a b : apply_block OP r (a ++ b) = apply_block OP (apply_block OP r a) b.
  Proof. unfold apply_block, reg_apply. cbn [q_th q_psi q_num q_mask]. f_equal. unfold multi_apply. apply fold_left_app. Qed.

  Lemma exec_cons xor s x l : exec xor s (x :: l) = exec xor (exec1 xor s x) l.
  Proof. reflexivity. Qed.

  Lemma exec_ncons xor x acc : forall s, exec xor s (ncons x acc) = exec xor s (x :: acc).
  Proof.
    intro s. destruct x as [a| | |]; try reflexivity. cbn [ncons].
    destruct acc as [|[b| | |] r].
    - destruct a; [|reflexivity]. rewrite exec_cons. destruct s as [[[rg cg] dg]|]; [|reflexivity].
      cbn [exec1]. rewrite apply_block_nil. reflexivity.
    - rewrite !exec_cons. destruct s as [[[rg cg] dg]|]; [|reflexivity]. cbn [exec1]. rewrite apply_block_app. reflexivity.
    - destruct a; [|reflexivity]. rewrite (exec_cons xor s (IApply [])). destruct s as [[[rg cg] dg]|]; [|reflexivity].
      cbn [exec1]. rewrite apply_block_nil. reflexivity.
    - destruct a; [|reflexivity]. rewrite (exec_cons xor s (IApply [])). destruct s as [[[rg cg] dg]|]; [|reflexivity].
      cbn [exec1]. rewrite apply_block_nil. reflexivity.
    - destruct a; [|reflexivity]. rewrite (exec_cons xor s (IApply [])). destruct s as [[[rg cg] dg]|]; [|reflexivity].
      cbn [exec1]. rewrite apply_block_nil. reflexivity.
  Qed.

  Lemma exec_norm xor l : forall s, exec xor s (norm l) = exec xor s l.
  Proof.
    induction l as [|x l IH]; intro s; [reflexivity|].
    change (norm (x :: l)) with (ncons x (norm l)). rewrite exec_ncons, !exec_cons. apply IH.
  Qed.

  Lemma eqv_exec xor l1 l2 s : eqv l1 l2 -> exec xor s l1 = exec xor s l2.
  Proof.
    intro H. rewrite <- (exec_norm xor l1), <- (exec_norm xor l2).
    specialize (H []). rewrite !app_nil_r in H. rewrite H. reflexivity.
  Qed.

  (** [finish] = run the items of the queue *)
  Lemma sym_finish_exec (s : @sym F) draws :
    sym_finish OP EPS_RESET EPS_SKIP s draws =
    match exec (s_xor s) (Some (s_q s, s_c s, draws)) (flat (s_ops s)) with
    | Some (r, c, _) => Some {| s_xor := s_xor s; s_q := r; s_c := c; s_ops := s_ops s |}
    | None => None
    end.
  Proof.
    unfold sym_finish, flat. rewrite (run_blocks_exec OP EPS_RESET EPS_SKIP), exec_app.
    destruct (C17T2.exec OP EPS_RESET EPS_SKIP (s_xor s) (Some (s_q s, s_c s, draws)) (flatB (blocks (s_ops s)))) as [[[r c] d]|]; reflexivity.
  Qed.
End ExecNorm.

(** ** the statement *)
Definition C17_changes_stmt : Prop :=
  forall (F : Type) (OP : ops F) (A : @int F) (chunk : list (@node F)) (ch : @int F),
    (* the chunk's changes computed against the current interpreter A ... *)
    ast_changes OP A int_empty chunk = IOk ch ->
    (* ... then the chunk is also accepted in place, and appending the changes gives the same
       registers, gate definitions, mode and record, and a queue the runner cannot tell apart *)
    exists iw, ast_changes OP int_empty A chunk = IOk iw /\
      i_xor iw = i_xor (append_int A ch) /\ i_qreg iw = i_qreg (append_int A ch) /\
      i_creg iw = i_creg (append_int A ch) /\ i_macros iw = i_macros (append_int A ch) /\
      i_asts iw = i_asts (append_int A ch) /\
      forall (e1 e2 : F) (s : @sym F) (draws : list N),
        let with_ops o := {| s_xor := s_xor s; s_q := s_q s; s_c := s_c s; s_ops := o |} in
        match sym_finish OP e1 e2 (with_ops (i_ops iw)) draws, sym_finish OP e1 e2 (with_ops (i_ops (append_int A ch))) draws with
        | Some s1, Some s2 => s_q s1 = s_q s2 /\ s_c s1 = s_c s2
        | None, None => True
        | _, _ => False
        end.

Lemma C17_changes_proof : C17_changes_stmt.
Proof.
  intros F OP A chunk ch H. unfold ast_changes in *.
  apply ibind_ok in H. destruct H as [c1 [H1 H]]. injection H as <-.
  destruct (nodes_sim OP chunk A A int_empty c1 (rel_start A) H1) as [W1 [E1 R1]].
  rewrite E1. cbn [ibind]. eexists. split; [reflexivity|].
  destruct R1 as [G1 [G2 [G3 [G4 G5]]]].
  assert (M1 := process_nodes_meta OP chunk _ _ _ E1). assert (M2 := process_nodes_meta OP chunk _ _ _ H1).
  destruct M1 as [M1 _], M2 as [M2 _].
  cbn [push_ast append_int i_xor i_qreg i_creg i_macros i_asts i_ops].
  split; [exact G1|]. split; [exact G2|]. split; [exact G3|]. split; [exact G4|]. split.
  - rewrite <- M1, <- M2. reflexivity.
  - intros e1 e2 s draws. cbv zeta. rewrite !sym_finish_exec. cbn [s_xor s_q s_c s_ops].
    rewrite (eqv_exec OP e1 e2 (s_xor s) _ _ (Some (s_q s, s_c s, draws)) G5).
    destruct (exec OP e1 e2 (s_xor s) (Some (s_q s, s_c s, draws)) (flat (ext_append (i_ops A) (i_ops c1)))) as [[[r c] d]|]; [|exact I].
    cbn [s_q s_c]. split; reflexivity.
Qed.
