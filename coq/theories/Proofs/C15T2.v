(** * C15T2: [op::qft(mask)] is the discrete Fourier transform on the selected qubits, for every mask *)
From Coq Require Import Reals Lra Lia Sorted.
From QV Require Import Spec Expr ScalarR BitsP BitsIterP VecP OpP LocalP WfP C01P C03P RotP C01M C03M C03T C03T2 NormP Form2P C15T DftP DftSwapP.
Open Scope R_scope.

(** For every machine-word mask the operator [op::qft] builds acts, on every state and at every
    index, as
       (1/sqrt 2)^k * sum over x in {0,1}^k of  e^{2 pi i * y * rev(x) / 2^k} * psi (idx with x written at the selected positions)
    where p_1 < ... < p_k are exactly the set bits of the mask (lowest selected bit least
    significant), y is the value of idx on those positions, and rev(x) is x read in reverse order:
    the unitary DFT matrix with the order of the selected qubits reversed on the input side, and
    the identity on every other qubit (those bits of idx are untouched by [dep]). *)
Definition C15_dft_stmt : Prop :=
  forall (m : N) (q : multi R), (m < 2 ^ 64)%N -> op_qft Rops m = Some q ->
    exists ps : list N,
      StronglySorted N.lt ps /\ (forall k, In k ps <-> N.testbit m k = true) /\
      forall (psi : vecR) (idx : N),
        multi_fn Rops q psi idx =
        Cscale (bsum (length ps)
                  (fun xs => Cmul (cisR (2 * PI * (val (bits ps idx) * val (rev xs) / 2 ^ length xs)))
                                  (psi (dep ps xs idx))))
               (hpow (length ps)).

Lemma C15_dft_proof : C15_dft_stmt.
Proof.
  intros m q Hm. unfold op_qft. destruct (popcount m) as [|[p|p|]] eqn:Hp.
  - intro H. injection H as <-. apply popcount_eq0 in Hp. subst m. exists []. split; [constructor|]. split.
    + intro k. rewrite N.bits_0. cbn [In]. split; [tauto|discriminate].
    + intros psi idx. change (multi_fn Rops [] psi idx) with (psi idx). symmetry. apply (dft_on_nil psi idx).
  - intro H. destruct (scan64_sorted_positions m) as [ps [E [Hnd [Hs Hin]]]]. rewrite E in H.
    destruct (qft_stages_shape ps Hnd) as [q' [Hq' Hfn]]. rewrite Hq' in H. injection H as <-.
    exists ps. split; [exact Hs|]. split.
    + intro k. rewrite Hin. split; [tauto|]. intro Hk. split; [apply (testbit_high m k Hm Hk)|exact Hk].
    + intros psi idx. rewrite Hfn. apply (stages_dft ps Hnd).
  - intro H. destruct (scan64_sorted_positions m) as [ps [E [Hnd [Hs Hin]]]]. rewrite E in H.
    destruct (qft_stages_shape ps Hnd) as [q' [Hq' Hfn]]. rewrite Hq' in H. injection H as <-.
    exists ps. split; [exact Hs|]. split.
    + intro k. rewrite Hin. split; [tauto|]. intro Hk. split; [apply (testbit_high m k Hm Hk)|exact Hk].
    + intros psi idx. rewrite Hfn. apply (stages_dft ps Hnd).
  - intro H. destruct (popcount_eq1 m Hp) as [b ->]. rewrite op_h_onehot in H. injection H as <-.
    exists [b]. split; [repeat constructor|]. split.
    + intro k. rewrite pow2_bits. cbn [In]. split.
      * intros [<-|[]]. apply N.eqb_refl.
      * intro E. apply N.eqb_eq in E. left. exact E.
    + intros psi idx. apply (stages_dft [b]). constructor; [intros []|constructor].
Qed.

(** the entries have modulus (1/sqrt 2)^k and the two-bit case reads as the 4-point transform *)
Example C15_dft_two_bits :
  forall (psi : vecR) (idx : N),
    dft_on [0%N; 1%N] psi idx =
    Cscale (Cadd (Cadd (Cmul (cisR (expo (bits [0%N; 1%N] idx) [false; false])) (psi (dep [0%N; 1%N] [false; false] idx)))
                       (Cmul (cisR (expo (bits [0%N; 1%N] idx) [false; true])) (psi (dep [0%N; 1%N] [false; true] idx))))
                 (Cadd (Cmul (cisR (expo (bits [0%N; 1%N] idx) [true; false])) (psi (dep [0%N; 1%N] [true; false] idx)))
                       (Cmul (cisR (expo (bits [0%N; 1%N] idx) [true; true])) (psi (dep [0%N; 1%N] [true; true] idx)))))
           (/ sqrt 2 * (/ sqrt 2 * 1)).
Proof. intros. reflexivity. Qed.

(** [op::qft_swapped]: the same selected qubits in natural order on both sides -- the unitary DFT matrix
    F[y][z] = e^{2 pi i y z / 2^k} / sqrt(2^k) on the selected qubits, the identity on the others *)
Definition C15_dft_swapped_stmt : Prop :=
  forall (m : N) (q : multi R), (m < 2 ^ 64)%N -> op_qft_swapped Rops m = Some q ->
    exists ps : list N,
      StronglySorted N.lt ps /\ (forall k, In k ps <-> N.testbit m k = true) /\
      forall (psi : vecR) (idx : N),
        multi_fn Rops q psi idx =
        Cscale (bsum (length ps)
                  (fun zs => Cmul (cisR (2 * PI * (val (bits ps idx) * val zs / 2 ^ length zs)))
                                  (psi (dep ps zs idx))))
               (hpow (length ps)).

Lemma C15_dft_swapped_proof : C15_dft_swapped_stmt.
Proof.
  intros m q Hm. unfold op_qft_swapped. rewrite walk_bits_spec.
  destruct (scan64_sorted_positions m) as [ps [E [Hnd [Hs Hin]]]]. rewrite E.
  assert (Lp : length (pows ps) = length ps) by (unfold pows; apply map_length). rewrite Lp.
  rewrite (swap_pairs_shape _ ps Hnd).
  destruct (op_qft Rops m) as [q2|] eqn:Hq2; [|discriminate]. cbn [opt_app]. intro H. injection H as <-.
  destruct (C15_dft_proof m q2 Hm Hq2) as [ps' [Hs' [Hin' Hfn]]].
  assert (Eps : ps' = ps).
  { apply sorted_ext; try assumption. intro k. rewrite Hin', Hin. split; [|tauto].
    intro Hk. split; [apply (testbit_high m k Hm Hk)|exact Hk]. }
  subst ps'. exists ps. split; [exact Hs|]. split; [exact Hin'|].
  intros psi idx. rewrite multi_fn_app, Hfn. f_equal.
  rewrite <- (bsum_rev (length ps) (fun zs => Cmul (cisR (2 * PI * (val (bits ps idx) * val zs / 2 ^ length zs))) (psi (dep ps zs idx)))).
  apply bsum_ext. intros xs Hl. rewrite rev_length. f_equal.
  rewrite (swap_elems_fn _ ps Hnd). f_equal.
  apply swap_idx_dep; [exact Hnd|exact Hl|apply div2_cases].
Qed.
