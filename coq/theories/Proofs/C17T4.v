(** * C17T4: any number of pieces, either incremental interface, against the whole text.

    [feed_add]: the chunks are added one by one with [add_ast];
    [feed_changes]: each chunk's changes are computed against the current interpreter and appended
    ([append_int]; [prepend_int ch i] is [append_int i ch]).
    Both accept exactly when the whole text is accepted, and the interpreters they end in cannot be
    told apart by the runner from the interpreter of the whole text. *)
From Coq Require Import Lia String ZArith List.
From QV Require Import Interp InterpP Sym Reg C10T2 C17T C17T2.
Import ListNotations.
Open Scope N_scope.
Open Scope list_scope.

Section Pieces.
  Context {F : Type} (OP : ops F).
  Notation int := (@int F).
  Notation node := (@node F).

  Fixpoint feed_add (i : int) (chunks : list (list node)) : ires int :=
    match chunks with
    | [] => IOk i
    | c :: r =>
        match add_ast OP i c with
        | (IOk _, i') => feed_add i' r
        | (IErr e, _) => IErr e
        | (IPanic w, _) => IPanic w
        end
    end.

  Fixpoint feed_changes (i : int) (chunks : list (list node)) : ires int :=
    match chunks with
    | [] => IOk i
    | c :: r => ibind (ast_changes OP i int_empty c) (fun ch => feed_changes (append_int i ch) r)
    end.

  (** ** adding chunk by chunk = processing the concatenation, errors included *)
  Lemma feed_add_spec : forall chunks i,
    match feed_add i chunks with
    | IOk ik => exists w, process_nodes OP int_empty i (concat chunks) = IOk w /\ same_but_record w ik /\
                          i_asts ik = i_asts i ++ chunks
    | IErr e => process_nodes OP int_empty i (concat chunks) = IErr e
    | IPanic k => process_nodes OP int_empty i (concat chunks) = IPanic k
    end.
  Proof.
    induction chunks as [|c r IH]; intro i; cbn [feed_add concat].
    - exists i. cbn [process_nodes]. split; [reflexivity|]. split; [repeat split|]. rewrite app_nil_r. reflexivity.
    - rewrite process_nodes_app. unfold add_ast, ast_changes.
      destruct (process_nodes OP int_empty i c) as [i1|e|k] eqn:E1; cbn [ibind]; [|reflexivity|reflexivity].
      specialize (IH (push_ast i1 c)). rewrite process_nodes_push_ast in IH.
      destruct (feed_add (push_ast i1 c) r) as [ik|e|k].
      + destruct IH as [w [Hw [Hs Ha]]].
        destruct (process_nodes OP int_empty i1 (concat r)) as [w1|e|k] eqn:E2; try discriminate.
        injection Hw as <-. exists w1. split; [reflexivity|]. split.
        * destruct Hs as [S1 [S2 [S3 [S4 S5]]]]. repeat split; assumption.
        * rewrite Ha. cbn [push_ast i_asts].
          apply process_nodes_meta in E1. destruct E1 as [A1 _]. rewrite <- A1, <- app_assoc. reflexivity.
      + destruct (process_nodes OP int_empty i1 (concat r)) as [w1|e'|k]; try discriminate. exact IH.
      + destruct (process_nodes OP int_empty i1 (concat r)) as [w1|e'|k']; try discriminate. exact IH.
  Qed.

  (** ** the changes path against the in-place path: acceptance in both directions *)
  Definition agree (A : int) (ra rw : ires int) : Prop :=
    match ra, rw with
    | IOk c', IOk W' => rel A W' c'
    | IErr _, IErr _ => True
    | IPanic _, IPanic _ => True
    | _, _ => False
    end.

  Lemma agree_bind A (ra rw : ires int) (ka kw : int -> ires int) :
    agree A ra rw -> (forall c' W', rel A W' c' -> agree A (ka c') (kw W')) ->
    agree A (ibind ra ka) (ibind rw kw).
  Proof.
    intros H K. destruct ra as [c'|e|k], rw as [W'|e'|k']; cbn [agree ibind] in *; try contradiction; try exact I.
    apply K. exact H.
  Qed.

  Ltac same_head :=
    match goal with |- agree _ (ibind ?r _) (ibind ?r _) => destruct r as [?|?|?]; cbn [ibind agree]; try exact I end.

  Ltac same_head2 :=
    match goal with |- agree _ (ibind (ibind ?r _) _) (ibind (ibind ?r _) _) =>
      destruct r as [?|?|?]; cbn [ibind agree]; try exact I end.

  Lemma apply_agree A W c name regs args : rel A W c ->
    agree A (process_apply OP A c name regs args) (process_apply OP int_empty W name regs args).
  Proof.
    intro R. assert (R' := R). destruct R' as [H1 [H2 [H3 [H4 H5]]]]. unfold process_apply.
    rewrite (imap_ext _ _ regs (q_idx_eq A W c R)).
    same_head. same_head.
    cbn [i_macros int_empty app]. rewrite H4.
    same_head.
    apply (rel_set_ops A W c R).
    rewrite <- append_push. eapply eqv_trans; [apply flat_push|]. eapply eqv_trans; [|apply eqv_sym, flat_push].
    apply eqv_app_r. exact H5.
  Qed.

  Lemma agree_refl_err A (r : ires unit) (ka kw : unit -> ires int) :
    (forall u, agree A (ka u) (kw u)) -> agree A (ibind r ka) (ibind r kw).
  Proof. intro H. destruct r as [u|e|k]; cbn [ibind agree]; [apply H|exact I|exact I]. Qed.

  Lemma dup_agree A W c alias : rel A W c ->
    match check_dup A c alias, check_dup (@int_empty F) W alias with
    | IOk _, IOk _ => True | IErr _, IErr _ => True | _, _ => False end.
  Proof.
    intros [H1 [H2 [H3 _]]]. unfold check_dup.
    change (i_qreg (@int_empty F)) with (@nil ident). change (i_creg (@int_empty F)) with (@nil ident).
    change (count_name alias []) with 0%N. change (N.ltb 0 0) with false. cbv iota.
    rewrite H2, H3, !count_name_app.
    destruct (N.ltb_spec 0 (count_name alias (i_qreg A))) as [L1|L1].
    { destruct (N.ltb_spec 0 (count_name alias (i_qreg A) + count_name alias (i_qreg c))); [exact I|lia]. }
    destruct (N.ltb_spec 0 (count_name alias (i_creg A))) as [L2|L2].
    { destruct (N.ltb_spec 0 (count_name alias (i_qreg A) + count_name alias (i_qreg c))); [exact I|].
      destruct (N.ltb_spec 0 (count_name alias (i_creg A) + count_name alias (i_creg c))); [exact I|lia]. }
    destruct (N.ltb_spec 0 (count_name alias (i_qreg c))) as [L3|L3].
    { destruct (N.ltb_spec 0 (count_name alias (i_qreg A) + count_name alias (i_qreg c))); [exact I|lia]. }
    destruct (N.ltb_spec 0 (count_name alias (i_creg c))) as [L4|L4].
    { destruct (N.ltb_spec 0 (count_name alias (i_qreg A) + count_name alias (i_qreg c))); [exact I|].
      destruct (N.ltb_spec 0 (count_name alias (i_creg A) + count_name alias (i_creg c))); [exact I|lia]. }
    destruct (N.ltb_spec 0 (count_name alias (i_qreg A) + count_name alias (i_qreg c))); [lia|].
    destruct (N.ltb_spec 0 (count_name alias (i_creg A) + count_name alias (i_creg c))); [lia|exact I].
  Qed.

  Lemma node_agree A W c n : rel A W c ->
    agree A (process_node1 OP A c n) (process_node1 OP int_empty W n).
  Proof.
    intro R. assert (R' := R). destruct R' as [H1 [H2 [H3 [H4 H5]]]].
    destruct n as [alias size|alias size|a|a|q cc|name regs args| |name regs params body|lhs rhs body]; cbn [process_node1].
    - (* qreg *)
      unfold process_qreg. cbv zeta. apply agree_refl_err; intros _. apply agree_refl_err; intros _.
      change (lenN (i_qreg (@int_empty F))) with 0%N.
      replace (0 + lenN (i_qreg W) + size_as_N size) with (lenN (i_qreg A) + lenN (i_qreg c) + size_as_N size) by (rewrite H2, lenN_app; lia).
      apply agree_refl_err; intros _.
      assert (D := dup_agree A W c alias R).
      destruct (check_dup A c alias) as [u|e|k], (check_dup (@int_empty F) W alias) as [u'|e'|k']; cbn [ibind agree]; try contradiction; try exact I.
      repeat split; cbn [i_xor i_qreg i_creg i_macros i_ops]; try assumption. rewrite H2, <- app_assoc. reflexivity.
    - (* creg *)
      unfold process_creg. cbv zeta. apply agree_refl_err; intros _. apply agree_refl_err; intros _.
      change (lenN (i_creg (@int_empty F))) with 0%N.
      replace (0 + lenN (i_creg W) + size_as_N size) with (lenN (i_creg A) + lenN (i_creg c) + size_as_N size) by (rewrite H3, lenN_app; lia).
      apply agree_refl_err; intros _.
      assert (D := dup_agree A W c alias R).
      destruct (check_dup A c alias) as [u|e|k], (check_dup (@int_empty F) W alias) as [u'|e'|k']; cbn [ibind agree]; try contradiction; try exact I.
      repeat split; cbn [i_xor i_qreg i_creg i_macros i_ops]; try assumption. rewrite H3, <- app_assoc. reflexivity.
    - (* barrier *) exact R.
    - (* reset *)
      rewrite (q_idx_eq A W c R). same_head.
      apply (rel_set_ops A W c R). rewrite <- append_bwi, !flat_bwi_reset. apply eqv_app_r. exact H5.
    - (* measure *)
      rewrite (q_idx_eq A W c R). same_head. rewrite (c_idx_eq A W c R). same_head.
      match goal with |- context [negb ?b] => destruct b end; cbn [negb agree]; [|exact I].
      apply (rel_set_ops A W c R). rewrite <- append_bwi, !flat_bwi_meas. apply eqv_app_r. exact H5.
    - (* gate statement *) apply apply_agree. exact R.
    - (* opaque *) exact R.
    - (* gate definition *)
      unfold process_gate. same_head.
      unfold has_macro. cbn [i_macros int_empty lookup find]. rewrite H4.
      destruct (lookup name (i_macros A)) eqn:LA; cbn [orb].
      { rewrite lookup_app, LA. exact I. }
      rewrite (lookup_app_none name _ _ LA).
      destruct (lookup name (i_macros c)) eqn:LC; cbn [orb agree]; [exact I|].
      apply agree_refl_err; intros _.
      repeat split; cbn [i_xor i_qreg i_creg i_macros i_ops]; try assumption. rewrite ?H4, <- ?app_assoc. reflexivity.
    - (* if *)
      destruct body as [| | | | |name regs args| | |]; try exact I.
      set (W1 := set_ops W (ext_branch (i_ops W) SNop)). set (c1 := set_ops c (ext_branch (i_ops c) SNop)).
      assert (R1 : rel A W1 c1).
      { apply (rel_set_ops A W c R). rewrite <- append_branch.
        eapply eqv_trans; [apply flat_branch_nop|]. eapply eqv_trans; [exact H5|]. apply eqv_sym, flat_branch_nop. }
      rewrite (c_idx_eq A W1 c1 R1). same_head.
      unfold process_apply.
      rewrite (imap_ext _ _ regs (q_idx_eq A W1 c1 R1)).
      same_head2. same_head2.
      cbn [i_macros int_empty app set_ops]. fold W1. replace (i_macros W1) with (i_macros A ++ i_macros c1) by (symmetry; apply R1).
      change (i_macros c1) with (i_macros c).
      same_head2.
      repeat split; cbn [set_ops i_xor i_qreg i_creg i_macros i_ops]; try assumption.
      match goal with |- eqv (flat (ext_branch (ext_push _ ?o) (SIfBranch ?v ?r))) _ =>
        change (eqv (flat (ext_if (i_ops W) o v r)) (flat (ext_append (i_ops A) (ext_if (i_ops c) o v r)))) end.
      rewrite <- append_if. eapply eqv_trans; [apply flat_if|]. eapply eqv_trans; [|apply eqv_sym, flat_if].
      apply eqv_app_r. exact H5.
  Qed.

  Lemma nodes_agree nodes : forall A W c, rel A W c ->
    agree A (process_nodes OP A c nodes) (process_nodes OP int_empty W nodes).
  Proof.
    induction nodes as [|n rest IH]; intros A W c R; cbn [process_nodes].
    - exact R.
    - apply agree_bind; [apply node_agree; exact R|]. intros c' W' R'. apply IH. exact R'.
  Qed.

  (** runner-indistinguishable interpreters: same registers, definitions, mode and record; queues
      equal up to merging of adjacent plain blocks *)
  Definition sim (a b : int) : Prop :=
    i_xor a = i_xor b /\ i_qreg a = i_qreg b /\ i_creg a = i_creg b /\ i_macros a = i_macros b /\
    i_asts a = i_asts b /\ eqv (flat (i_ops a)) (flat (i_ops b)).

  Lemma sim_rel I W : sim W I -> rel I W int_empty.
  Proof.
    intros [S1 [S2 [S3 [S4 [_ S6]]]]]. repeat split; cbn [int_empty i_qreg i_creg i_macros i_ops]; rewrite ?app_nil_r; try assumption.
    eapply eqv_trans; [exact S6|]. apply eqv_sym. apply append_empty.
  Qed.

  (** one chunk: the changes path accepts exactly when the in-place path does, and the results
      cannot be told apart *)
  Lemma chunk_agree I W chunk : sim W I ->
    match ast_changes OP I int_empty chunk, add_ast OP W chunk with
    | IOk ch, (IOk _, W') => sim W' (append_int I ch)
    | IErr _, (IErr _, W') => W' = W
    | IPanic _, (IPanic _, W') => W' = W
    | _, _ => False
    end.
  Proof.
    intro S. assert (R := sim_rel I W S). unfold ast_changes, add_ast, ast_changes.
    assert (H := nodes_agree chunk I W int_empty R).
    destruct (process_nodes OP I int_empty chunk) as [c1|e|k] eqn:E1,
             (process_nodes OP int_empty W chunk) as [W1|e'|k'] eqn:E2; cbn [agree ibind] in *; try contradiction; try reflexivity.
    destruct H as [G1 [G2 [G3 [G4 G5]]]]. destruct S as [S1 [S2 [S3 [S4 [S5 S6]]]]].
    apply process_nodes_meta in E1. apply process_nodes_meta in E2. destruct E1 as [A1 _], E2 as [A2 _].
    cbn [int_empty i_asts] in A1.
    repeat split; cbn [push_ast append_int i_xor i_qreg i_creg i_macros i_asts i_ops]; try assumption.
    rewrite <- A2, <- A1, S5. reflexivity.
  Qed.

  Lemma sim_refl a : sim a a.
  Proof. repeat split. Qed.

  (** any number of chunks *)
  Lemma feed_agree : forall chunks A0 W, sim W A0 ->
    match feed_changes A0 chunks, feed_add W chunks with
    | IOk ic, IOk ik => sim ik ic
    | IErr _, IErr _ => True
    | IPanic _, IPanic _ => True
    | _, _ => False
    end.
  Proof.
    induction chunks as [|c r IH]; intros A0 W S; cbn [feed_changes feed_add].
    - exact S.
    - assert (H := chunk_agree A0 W c S).
      destruct (ast_changes OP A0 int_empty c) as [ch|e|k], (add_ast OP W c) as [[u|e'|k'] W']; cbn [ibind]; try contradiction.
      + apply IH. exact H.
      + exact I.
      + exact I.
  Qed.
End Pieces.

(** the runner cannot tell [sim]-related interpreters apart *)
Lemma sim_run {F} (OP : ops F) (e1 e2 : F) (a b : @int F) : sim a b -> forall draws,
  match sym_finish OP e1 e2 (sym_new OP a) draws, sym_finish OP e1 e2 (sym_new OP b) draws with
  | Some s1, Some s2 => s_q s1 = s_q s2 /\ s_c s1 = s_c s2 /\ s_xor s1 = s_xor s2
  | None, None => True
  | _, _ => False
  end.
Proof.
  intros [S1 [S2 [S3 [S4 [S5 S6]]]]] draws. rewrite !sym_finish_exec. unfold sym_new. cbn [s_xor s_q s_c s_ops].
  rewrite S1, S2, S3.
  rewrite (eqv_exec OP e1 e2 (i_xor b) _ _ (Some (reg_new OP (lenN (i_qreg b)), creg_new (lenN (i_creg b)), draws)) S6).
  destruct (exec OP e1 e2 (i_xor b) (Some (reg_new OP (lenN (i_qreg b)), creg_new (lenN (i_creg b)), draws)) (flat (i_ops b))) as [[[r c] d]|];
    [repeat split|exact I].
Qed.

Definition C17_pieces_stmt : Prop :=
  forall (F : Type) (OP : ops F) (i : @int F) (chunks : list (list (@node F))),
    (* adding the chunks one by one = processing the whole text in one go: same result, same error *)
    match feed_add OP i chunks with
    | IOk ik => exists w, process_nodes OP int_empty i (concat chunks) = IOk w /\ same_but_record w ik /\
                          i_asts ik = i_asts i ++ chunks
    | IErr e => process_nodes OP int_empty i (concat chunks) = IErr e
    | IPanic k => process_nodes OP int_empty i (concat chunks) = IPanic k
    end /\
    (* computing each chunk's changes against the current interpreter and appending them accepts
       exactly when adding the chunks does, and ends in an interpreter with the same registers,
       gate definitions, mode and record whose run is the same for every sequence of draws *)
    match feed_changes OP i chunks, feed_add OP i chunks with
    | IOk ic, IOk ik =>
        i_xor ik = i_xor ic /\ i_qreg ik = i_qreg ic /\ i_creg ik = i_creg ic /\ i_macros ik = i_macros ic /\
        i_asts ik = i_asts ic /\
        forall (e1 e2 : F) draws,
          match sym_finish OP e1 e2 (sym_new OP ik) draws, sym_finish OP e1 e2 (sym_new OP ic) draws with
          | Some s1, Some s2 => s_q s1 = s_q s2 /\ s_c s1 = s_c s2 /\ s_xor s1 = s_xor s2
          | None, None => True
          | _, _ => False
          end
    | IErr _, IErr _ => True
    | IPanic _, IPanic _ => True
    | _, _ => False
    end.

Lemma C17_pieces_proof : C17_pieces_stmt.
Proof.
  intros F OP i chunks. split; [apply feed_add_spec|].
  assert (H := feed_agree OP chunks i i (sim_refl i)).
  destruct (feed_changes OP i chunks) as [ic|e|k], (feed_add OP i chunks) as [ik|e'|k']; try contradiction; try exact I.
  assert (H' := H). destruct H' as [S1 [S2 [S3 [S4 [S5 S6]]]]].
  repeat (split; [assumption|]). intros e1 e2 draws. apply sim_run. exact H.
Qed.
