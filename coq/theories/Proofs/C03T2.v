(** * C03T2: every operator expression over machine-word masks builds a product of good elements,
    hence is undone by its dagger (both orders) -- controls, products, QFT and u2/u3 included. *)
From Coq Require Import Reals Lra Lia.
From QV Require Import Spec Expr ScalarR BitsP BitsIterP OpP LocalP WfP C01P C03P C01M C03M C03T.
Open Scope N_scope.

Local Notation good_multi := (Forall good_single).

(** masks of exactly two bits *)
Lemma popcount_eq2 m : popcount m = 2 -> exists a b, a <> b /\ m = N.lor (2 ^ a) (2 ^ b).
Proof.
  destruct m as [|p]; [discriminate|]. cbn [popcount]. induction p as [p IH|p IH|]; cbn [popcount_pos].
  - intro H. assert (H1 : popcount (Npos p) = 1) by (cbn [popcount]; lia).
    destruct (popcount_eq1 _ H1) as [b Hb]. exists (N.succ b), 0. split; [lia|].
    change (Npos p~1) with (N.succ_double (Npos p)). rewrite Hb.
    apply N.bits_inj. intro k. rewrite N.lor_spec, !pow2_bits, N.succ_double_spec.
    destruct (N.eq_dec k 0) as [->|Hk].
    + rewrite N.testbit_odd_0. change (0 =? 0) with true. rewrite orb_true_r. reflexivity.
    + replace k with (N.succ (N.pred k)) by lia. rewrite N.testbit_odd_succ by lia. rewrite pow2_bits.
      destruct (N.eqb_spec b (N.pred k)), (N.eqb_spec (N.succ b) (N.succ (N.pred k))), (N.eqb_spec 0 (N.succ (N.pred k))); try reflexivity; lia.
  - intro H. destruct (IH H) as [a [b [Hab E]]]. exists (N.succ a), (N.succ b). split; [lia|].
    change (Npos p~0) with (N.double (Npos p)). rewrite E.
    apply N.bits_inj. intro k. rewrite N.double_spec, N.lor_spec, !pow2_bits.
    destruct (N.eq_dec k 0) as [->|Hk].
    + rewrite N.testbit_even_0. destruct (N.eqb_spec (N.succ a) 0), (N.eqb_spec (N.succ b) 0); try reflexivity; lia.
    + replace k with (N.succ (N.pred k)) by lia. rewrite N.testbit_even_succ by lia.
      rewrite N.lor_spec, !pow2_bits.
      destruct (N.eqb_spec a (N.pred k)), (N.eqb_spec (N.succ a) (N.succ (N.pred k))),
               (N.eqb_spec b (N.pred k)), (N.eqb_spec (N.succ b) (N.succ (N.pred k))); try reflexivity; lia.
  - discriminate.
Qed.

Lemma good_single_of (g : atomic R) : good_gate g -> (forall a b u, g <> AU2 a b u) -> good_single (single_of g).
Proof.
  intros G H. split; [exact G|]. split; [apply wf_single_of; exact H|].
  unfold single_of. cbn [s_act s_ctrl]. apply N.land_0_r.
Qed.

Lemma good_multi_of_single s : good_single s -> good_multi (multi_of_single s).
Proof.
  intro H. unfold multi_of_single. destruct (s_func s); try (constructor; [exact H|constructor]).
  destruct (N.eqb (s_ctrl s) 0); constructor; [exact H|constructor].
Qed.

Ltac not_u2 := let a := fresh in let b := fresh in let u := fresh in intros a b u; discriminate.

Lemma good_one (g : atomic R) : good_gate g -> (forall a b u, g <> AU2 a b u) -> good_multi (multi_of_single (single_of g)).
Proof. intros G H. apply good_multi_of_single, good_single_of; assumption. Qed.

Lemma good_lift_checked (g : atomic R) q :
  (is_valid Rops g = true -> good_gate g) -> (forall a b u, g <> AU2 a b u) ->
  lift (checked Rops g) = Some q -> good_multi q.
Proof.
  intros HG Hg H. unfold lift, checked in H. destruct (is_valid Rops g); [|discriminate].
  injection H as <-. apply good_one; [apply HG; reflexivity|exact Hg].
Qed.

Lemma good_app p q : good_multi p -> good_multi q -> good_multi (p ++ q).
Proof. intros. apply Forall_app. split; assumption. Qed.

Lemma good_opt_app a b q : opt_app a b = Some q ->
  (forall x, a = Some x -> good_multi x) -> (forall y, b = Some y -> good_multi y) -> good_multi q.
Proof.
  unfold opt_app. destruct a as [x|], b as [y|]; try discriminate. intros H Ha Hb.
  injection H as <-. apply good_app; [apply Ha|apply Hb]; reflexivity.
Qed.

Lemma good_single_dgr s : good_single s -> good_single (single_dgr Rops s).
Proof.
  intros [G [W D]]. split; [apply good_dgr; exact G|]. split; [|exact D].
  unfold wf_single, single_dgr in *. cbn [s_act s_func]. rewrite support_dgr. exact W.
Qed.

Lemma good_multi_dgr q : good_multi q -> good_multi (multi_dgr Rops q).
Proof.
  intro H. unfold multi_dgr. apply Forall_rev. apply Forall_map.
  eapply Forall_impl; [|exact H]. intros s Hs. apply good_single_dgr. exact Hs.
Qed.

(** controls: [multi_c] checks the whole product's mask, hence each element's *)
Lemma fold_act_land (q : multi R) c : forall a,
  N.land (fold_left (fun a s => N.lor a (single_act_on s)) q a) c = 0 ->
  N.land a c = 0 /\ Forall (fun s => N.land (single_act_on s) c = 0) q.
Proof.
  induction q as [|s q IH]; intros a H; cbn [fold_left] in H.
  - split; [exact H|constructor].
  - destruct (IH _ H) as [H1 H2]. rewrite N.land_lor_distr_l in H1. apply N.lor_eq_0_iff in H1.
    destruct H1 as [Ha Hs]. split; [exact Ha|]. constructor; assumption.
Qed.

Lemma good_c q c q' : good_multi q -> multi_c q c = Some q' -> good_multi q'.
Proof.
  intros H Hc. unfold multi_c in Hc.
  destruct (N.eqb_spec (N.land (multi_act_on q) c) 0) as [E|E]; cbn [negb] in Hc; [|discriminate].
  injection Hc as <-. apply (fold_act_land q c 0) in E. destruct E as [_ E].
  apply Forall_map. rewrite Forall_forall in *. intros s Hs.
  destruct (H s Hs) as [G [W D]]. specialize (E s Hs).
  split; [exact G|]. split; [exact W|]. unfold single_c_unchecked. cbn [s_act s_ctrl].
  unfold single_act_on in E. rewrite N.land_lor_distr_l in E. apply N.lor_eq_0_iff in E. destruct E as [E1 E2].
  rewrite N.land_lor_distr_r, D, E1. reflexivity.
Qed.

(** Hadamard products *)
Lemma good_h_pairs : forall ps, NoDup ps -> good_multi (h_pairs (pows ps)).
Proof.
  fix IH 1. intros [|a [|b l]] Hnd; cbn [pows map h_pairs].
  - constructor.
  - constructor; [|constructor]. apply good_single_of; [constructor|not_u2].
  - inversion Hnd as [|a' l' Ha Hnd']; subst. inversion Hnd' as [|b' l'' Hb Hnd'']; subst.
    constructor.
    + apply good_single_of; [|not_u2]. constructor. intro E. apply Ha. left. exact E.
    + apply IH. exact Hnd''.
Qed.

Lemma good_op_h m q : m < 2 ^ 64 -> op_h m = Some q -> good_multi q.
Proof.
  intro Hm. unfold op_h. destruct (popcount m) as [|[p|p|]] eqn:Hp.
  - intro H. injection H as <-. constructor.
  - rewrite walk_bits_spec. intro H. injection H as <-.
    destruct (scan64_positions m) as [ps [E [Hnd _]]]. rewrite E. apply good_h_pairs. exact Hnd.
  - rewrite walk_bits_spec. intro H. injection H as <-.
    destruct (scan64_positions m) as [ps [E [Hnd _]]]. rewrite E. apply good_h_pairs. exact Hnd.
  - intro H. injection H as <-. destruct (popcount_eq1 m Hp) as [b ->].
    apply good_one; [constructor|not_u2].
Qed.

Lemma valid_pop1 (m : N) : N.eqb (popcount m) 1 = true -> exists b, m = 2 ^ b.
Proof. intro H. apply N.eqb_eq in H. apply popcount_eq1. exact H. Qed.
Lemma valid_pop2 (m : N) : N.eqb (popcount m) 2 = true -> exists a b, a <> b /\ m = N.lor (2 ^ a) (2 ^ b).
Proof. intro H. apply N.eqb_eq in H. apply popcount_eq2. exact H. Qed.

Lemma good_phase_shift l m q : op_phase_shift Rops l m = Some q -> good_multi q.
Proof.
  apply good_lift_checked; [|not_u2]. cbn [is_valid]. intro H. apply andb_prop in H. destruct H as [H _].
  destruct (valid_pop1 m H) as [b ->]. constructor. apply from_polar1_unit.
Qed.

Lemma good_rx t m q : op_rx Rops t m = Some q -> good_multi q.
Proof. apply good_lift_checked; [|not_u2]. intros _. constructor. apply half_phase_unit. Qed.
Lemma good_rz t m q : op_rz Rops t m = Some q -> good_multi q.
Proof. apply good_lift_checked; [|not_u2]. intros _. constructor. apply half_phase_unit. Qed.
Lemma good_ry t m q : op_ry Rops t m = Some q -> good_multi q.
Proof.
  apply good_lift_checked; [|not_u2]. cbn [is_valid]. intro H. destruct (valid_pop1 m H) as [b ->].
  constructor. apply half_phase_unit.
Qed.
Lemma good_rxx t m q : op_rxx Rops t m = Some q -> good_multi q.
Proof. apply good_lift_checked; [|not_u2]. intros _. constructor. apply half_phase_mul_unit. Qed.
Lemma good_rzz t m q : op_rzz Rops t m = Some q -> good_multi q.
Proof. apply good_lift_checked; [|not_u2]. intros _. constructor. apply half_phase_unit. Qed.
Lemma good_ryy t m q : op_ryy Rops t m = Some q -> good_multi q.
Proof.
  apply good_lift_checked; [|not_u2]. cbn [is_valid]. intro H. destruct (valid_pop2 m H) as [a [b [Hab ->]]].
  constructor; [exact Hab|apply half_phase_unit].
Qed.
Lemma good_swap m q : op_swap Rops m = Some q -> good_multi q.
Proof.
  apply good_lift_checked; [|not_u2]. cbn [is_valid]. intro H. destruct (valid_pop2 m H) as [a [b [Hab ->]]].
  constructor. exact Hab.
Qed.
Lemma good_i_swap m q : op_i_swap Rops m = Some q -> good_multi q.
Proof.
  apply good_lift_checked; [|not_u2]. cbn [is_valid]. intro H. destruct (valid_pop2 m H) as [a [b [Hab ->]]].
  constructor. exact Hab.
Qed.
Lemma good_sqrt_swap m q : op_sqrt_swap Rops m = Some q -> good_multi q.
Proof.
  apply good_lift_checked; [|not_u2]. cbn [is_valid]. intro H. destruct (valid_pop2 m H) as [a [b [Hab ->]]].
  constructor. exact Hab.
Qed.
Lemma good_sqrt_i_swap m q : op_sqrt_i_swap Rops m = Some q -> good_multi q.
Proof.
  apply good_lift_checked; [|not_u2]. cbn [is_valid]. intro H. destruct (valid_pop2 m H) as [a [b [Hab ->]]].
  constructor. exact Hab.
Qed.

Lemma good_u3 t p l m q : op_u3 Rops t p l m = Some q -> good_multi q.
Proof.
  unfold op_u3. intro H. eapply good_opt_app; [exact H| |].
  - intros x Hx. eapply good_opt_app; [exact Hx| |]; intros y Hy; [eapply good_rz|eapply good_ry]; exact Hy.
  - intros y Hy. eapply good_rz. exact Hy.
Qed.
Lemma good_u2 p l m q : op_u2 Rops p l m = Some q -> good_multi q.
Proof.
  unfold op_u2. intro H. eapply good_opt_app; [exact H| |].
  - intros x Hx. eapply good_opt_app; [exact Hx| |]; intros y Hy; [eapply good_rz|eapply good_ry]; exact Hy.
  - intros y Hy. eapply good_rz. exact Hy.
Qed.

(** QFT *)
Lemma good_qft_rots c ts : forall j q, qft_rots Rops c ts j = Some q -> good_multi q.
Proof.
  induction ts as [|t ts IH]; intros j q H; cbn [qft_rots] in H.
  - injection H as <-. constructor.
  - eapply good_opt_app; [exact H| |].
    + intros x Hx. unfold opt_c in Hx. destruct (op_phase_shift Rops _ t) eqn:E; [|discriminate].
      eapply good_c; [|exact Hx]. eapply good_phase_shift. exact E.
    + intros y Hy. eapply IH. exact Hy.
Qed.

Lemma good_qft_stages bs : Forall (fun b => b < 2 ^ 64) bs -> forall q, qft_stages Rops bs = Some q -> good_multi q.
Proof.
  induction bs as [|b bs IH]; intros Hb q H.
  - cbn in H. injection H as <-. constructor.
  - inversion Hb as [|b' bs' Hb1 Hb2]; subst. destruct bs as [|b2 bs].
    + cbn [qft_stages] in H. eapply good_op_h; [exact Hb1|exact H].
    + change (qft_stages Rops (b :: b2 :: bs)) with
        (opt_app (opt_app (op_h b) (qft_rots Rops b (b2 :: bs) 1)) (qft_stages Rops (b2 :: bs))) in H.
      eapply good_opt_app; [exact H| |].
      * intros x Hx. eapply good_opt_app; [exact Hx| |].
        -- intros y Hy. eapply good_op_h; [exact Hb1|exact Hy].
        -- intros y Hy. eapply good_qft_rots. exact Hy.
      * intros y Hy. apply IH; [exact Hb2|exact Hy].
Qed.

Lemma scan64_small m : Forall (fun b => b < 2 ^ 64) (scan64 m).
Proof.
  apply Forall_forall. intros w Hw. apply scan64_in in Hw. destruct Hw as [j [-> [Hj _]]].
  apply N.pow_lt_mono_r; [lia|exact Hj].
Qed.

Lemma good_op_qft m q : m < 2 ^ 64 -> op_qft Rops m = Some q -> good_multi q.
Proof.
  intro Hm. unfold op_qft. destruct (popcount m) as [|[p|p|]]; intro H.
  - injection H as <-. constructor.
  - eapply good_qft_stages; [apply scan64_small|exact H].
  - eapply good_qft_stages; [apply scan64_small|exact H].
  - eapply good_op_h; [exact Hm|exact H].
Qed.

Lemma good_swap_pairs k : forall l q, swap_pairs Rops l k = Some q -> good_multi q.
Proof.
  induction k as [|k IH]; intros l q H; cbn [swap_pairs] in H.
  - injection H as <-. constructor.
  - destruct l as [|a rest]; [injection H as <-; constructor|].
    destruct (rev rest) as [|z mid]; [injection H as <-; constructor|].
    eapply good_opt_app; [exact H| |].
    + intros x Hx. eapply good_swap. exact Hx.
    + intros y Hy. eapply IH. exact Hy.
Qed.

Lemma good_op_qft_swapped m q : m < 2 ^ 64 -> op_qft_swapped Rops m = Some q -> good_multi q.
Proof.
  intro Hm. unfold op_qft_swapped. destruct (walk_bits FUEL m 1); [|discriminate]. intro H.
  eapply good_opt_app; [exact H| |].
  - intros x Hx. eapply good_swap_pairs. exact Hx.
  - intros y Hy. eapply good_op_qft; [exact Hm|exact Hy].
Qed.

(** every mask written in the expression fits a machine word (as every [usize] does) *)
Fixpoint word_masks (e : opexpr R) : Prop :=
  match e with
  | EId => True
  | EX m | EY m | EZ m | ES m | ET m | EH m => m < 2 ^ 64
  | ERx _ m | ERy _ m | ERz _ m | ERxx _ m | ERyy _ m | ERzz _ m => m < 2 ^ 64
  | ESwap m | ESqrtSwap m | EISwap m | ESqrtISwap m => m < 2 ^ 64
  | EU1 _ m | EU2 _ _ m | EU3 _ _ _ m => m < 2 ^ 64
  | EQft m | EQftSwapped m => m < 2 ^ 64
  | EMul a b => word_masks a /\ word_masks b
  | EDgr a => word_masks a
  | EC m a => m < 2 ^ 64 /\ word_masks a
  end.

Theorem eval_good (e : opexpr R) : word_masks e -> forall q, eval Rops e = ROk q -> good_multi q.
Proof.
  induction e; intros W q H; cbn [eval] in H; cbn [word_masks] in W;
    try (apply wf_of_opt in H).
  - injection H as <-. constructor.
  - injection H as <-. apply good_one; [constructor|not_u2].
  - injection H as <-. apply good_one; [constructor|not_u2].
  - injection H as <-. apply good_one; [constructor|not_u2].
  - injection H as <-. apply good_one; [constructor; exact W|not_u2].
  - injection H as <-. apply good_one; [constructor; exact W|not_u2].
  - eapply good_op_h; [exact W|exact H].
  - eapply good_rx; exact H.
  - eapply good_ry; exact H.
  - eapply good_rz; exact H.
  - eapply good_rxx; exact H.
  - eapply good_ryy; exact H.
  - eapply good_rzz; exact H.
  - eapply good_swap; exact H.
  - eapply good_sqrt_swap; exact H.
  - eapply good_i_swap; exact H.
  - eapply good_sqrt_i_swap; exact H.
  - eapply good_rz; exact H.
  - eapply good_u2; exact H.
  - eapply good_u3; exact H.
  - eapply good_op_qft; [exact W|exact H].
  - eapply good_op_qft_swapped; [exact W|exact H].
  - destruct W as [W1 W2]. destruct (eval Rops e1) as [x| |]; try discriminate.
    destruct (eval Rops e2) as [y| |]; try discriminate.
    injection H as <-. apply good_app; [apply IHe1|apply IHe2]; auto.
  - destruct (eval Rops e) as [x| |]; try discriminate. injection H as <-. apply good_multi_dgr, IHe; auto.
  - destruct W as [_ W]. destruct (eval Rops e) as [x| |]; try discriminate.
    destruct (multi_c x m) eqn:E; [|discriminate]. injection H as <-.
    eapply good_c; [|exact E]. apply IHe; auto.
Qed.

(** ** the statement: every buildable operator is undone by its dagger, in both orders *)
Definition C03_circuit_stmt : Prop :=
  forall (e : opexpr R) (q : multi R),
    word_masks e -> eval Rops e = ROk q ->
    eval Rops (EDgr e) = ROk (multi_dgr Rops q) /\
    forall (psi : vecR) (idx : N),
      multi_fn Rops (q ++ multi_dgr Rops q) psi idx = psi idx /\
      multi_fn Rops (multi_dgr Rops q ++ q) psi idx = psi idx.

Lemma C03_circuit_proof : C03_circuit_stmt.
Proof.
  intros e q W H. split; [cbn [eval]; rewrite H; reflexivity|].
  apply C03_inverse_proof. apply (eval_good e W q H).
Qed.

(** the hypotheses are met by a controlled product with multi-bit S and Y (non-vacuity) *)
Example C03_circuit_applies :
  let e := EC 4 (EMul (ES 3) (EDgr (EMul (EY 3) (ET 2)))) in
  word_masks e /\ exists q, eval Rops e = ROk q /\ length q = 3%nat.
Proof.
  cbv zeta. split; [cbn [word_masks]; repeat split; reflexivity|].
  eexists. split; [reflexivity|reflexivity].
Qed.
