(** * BitsP: lemmas about masks *)
From Coq Require Import Lia.
From QV Require Import Bits.
Open Scope N_scope.

Lemma pow2_bits b k : N.testbit (2 ^ b) k = N.eqb b k.
Proof. apply N.pow2_bits_eqb. Qed.

Lemma land_pow2_eq0 idx b : N.eqb (N.land idx (2 ^ b)) 0 = negb (N.testbit idx b).
Proof.
  destruct (N.testbit idx b) eqn:H; cbn [negb].
  - apply N.eqb_neq. intro E.
    assert (X : N.testbit (N.land idx (2 ^ b)) b = false) by (rewrite E; apply N.bits_0).
    rewrite N.land_spec, H, pow2_bits, N.eqb_refl in X. discriminate.
  - apply N.eqb_eq. apply N.bits_inj. intro k.
    rewrite N.land_spec, pow2_bits, N.bits_0.
    destruct (N.eqb_spec b k); subst; [rewrite H|rewrite andb_false_r]; reflexivity.
Qed.

Lemma land_pow2_set idx b : N.testbit idx b = true -> N.land idx (2 ^ b) = 2 ^ b.
Proof.
  intro H. apply N.bits_inj. intro k. rewrite N.land_spec, pow2_bits.
  destruct (N.eqb_spec b k); subst; [rewrite H|rewrite andb_false_r]; reflexivity.
Qed.

Lemma land_pow2_clear idx b : N.testbit idx b = false -> N.land idx (2 ^ b) = 0.
Proof. intro H. apply N.eqb_eq. rewrite land_pow2_eq0, H. reflexivity. Qed.

Lemma lxor_pow2_set idx b : N.testbit idx b = true -> N.lxor idx (2 ^ b) = N.clearbit idx b.
Proof.
  intro H. apply N.bits_inj. intro k. rewrite N.lxor_spec, pow2_bits.
  destruct (N.eqb_spec b k); subst.
  - rewrite H, N.clearbit_eq. reflexivity.
  - rewrite N.clearbit_neq by congruence. apply xorb_false_r.
Qed.

Lemma lxor_pow2_clear idx b : N.testbit idx b = false -> N.lxor idx (2 ^ b) = N.setbit idx b.
Proof.
  intro H. apply N.bits_inj. intro k. rewrite N.lxor_spec, pow2_bits.
  destruct (N.eqb_spec b k); subst.
  - rewrite H, N.setbit_eq. reflexivity.
  - rewrite N.setbit_neq by congruence. apply xorb_false_r.
Qed.

Lemma setbit_id idx b : N.testbit idx b = true -> N.setbit idx b = idx.
Proof.
  intro H. apply N.bits_inj. intro k.
  destruct (N.eqb_spec b k); subst.
  - rewrite N.setbit_eq. symmetry. exact H.
  - apply N.setbit_neq. congruence.
Qed.

Lemma clearbit_id idx b : N.testbit idx b = false -> N.clearbit idx b = idx.
Proof.
  intro H. apply N.bits_inj. intro k.
  destruct (N.eqb_spec b k); subst.
  - rewrite N.clearbit_eq. symmetry. exact H.
  - apply N.clearbit_neq. congruence.
Qed.

Lemma ldiff_pow2 idx b : N.ldiff idx (2 ^ b) = N.clearbit idx b.
Proof.
  apply N.bits_inj. intro k. rewrite N.ldiff_spec, pow2_bits.
  destruct (N.eqb_spec b k); subst.
  - rewrite N.clearbit_eq. apply andb_false_r.
  - rewrite N.clearbit_neq by congruence. apply andb_true_r.
Qed.

Lemma lor_clear_pow2 idx b : N.lor (N.clearbit idx b) (2 ^ b) = N.setbit idx b.
Proof.
  apply N.bits_inj. intro k. rewrite N.lor_spec, pow2_bits.
  destruct (N.eqb_spec b k); subst.
  - rewrite N.setbit_eq. apply orb_true_r.
  - rewrite N.setbit_neq, N.clearbit_neq by congruence. apply orb_false_r.
Qed.

Lemma testbit_clearbit idx a b : N.testbit (N.clearbit idx a) b = N.testbit idx b && negb (N.eqb a b).
Proof.
  destruct (N.eqb_spec a b); subst.
  - rewrite N.clearbit_eq. symmetry. apply andb_false_r.
  - rewrite N.clearbit_neq by congruence. symmetry. apply andb_true_r.
Qed.

Lemma testbit_setbit idx a b : N.testbit (N.setbit idx a) b = N.testbit idx b || N.eqb a b.
Proof.
  destruct (N.eqb_spec a b); subst.
  - rewrite N.setbit_eq. symmetry. apply orb_true_r.
  - rewrite N.setbit_neq by congruence. symmetry. apply orb_false_r.
Qed.

(** popcount *)
Lemma popcount_pow2 b : popcount (2 ^ b) = 1.
Proof.
  induction b as [|b IH] using N.peano_ind; [reflexivity|].
  rewrite N.pow_succ_r'. destruct (2 ^ b) eqn:E; [discriminate|]. exact IH.
Qed.

Lemma popcount_0 : popcount 0 = 0.
Proof. reflexivity. Qed.

Lemma popcount_double n : popcount (N.double n) = popcount n.
Proof. destruct n; reflexivity. Qed.
Lemma popcount_succ_double n : popcount (N.succ_double n) = N.succ (popcount n).
Proof. destruct n; reflexivity. Qed.

Lemma odd_bits_land_pow2 idx b : odd_bits (N.land idx (2 ^ b)) = N.testbit idx b.
Proof.
  unfold odd_bits. destruct (N.testbit idx b) eqn:H.
  - rewrite land_pow2_set, popcount_pow2 by assumption. reflexivity.
  - rewrite land_pow2_clear by assumption. reflexivity.
Qed.

Lemma popcount_land_pow2 idx b : popcount (N.land idx (2 ^ b)) = if N.testbit idx b then 1 else 0.
Proof.
  destruct (N.testbit idx b) eqn:H.
  - rewrite land_pow2_set, popcount_pow2 by assumption. reflexivity.
  - rewrite land_pow2_clear by assumption. reflexivity.
Qed.

Lemma ctrl_ok_0 idx : ctrl_ok 0 idx = true.
Proof. unfold ctrl_ok. rewrite N.ldiff_0_l. reflexivity. Qed.

(** the control test says: every bit of [c] is set in [idx] *)
Lemma ctrl_ok_spec c idx : ctrl_ok c idx = true <-> N.land idx c = c.
Proof.
  unfold ctrl_ok. rewrite N.eqb_eq. split; intro H.
  - apply N.bits_inj. intro k. rewrite N.land_spec.
    assert (X := f_equal (fun x => N.testbit x k) H). cbn beta in X.
    rewrite N.ldiff_spec, N.bits_0 in X.
    destruct (N.testbit c k), (N.testbit idx k); try reflexivity; discriminate.
  - apply N.bits_inj. intro k. rewrite N.ldiff_spec, N.bits_0.
    assert (X := f_equal (fun x => N.testbit x k) H). cbn beta in X.
    rewrite N.land_spec in X.
    destruct (N.testbit c k), (N.testbit idx k); try reflexivity; discriminate.
Qed.

(** additivity of popcount over disjoint masks *)
Lemma popcount_pos_lor_disjoint p : forall q, Pos.land p q = 0 ->
  popcount_pos (Pos.lor p q) = popcount_pos p + popcount_pos q.
Proof.
  induction p as [p IH|p IH|]; intros [q|q|] H; cbn [Pos.lor popcount_pos]; cbn [Pos.land] in H;
    try (destruct (Pos.land p q) eqn:E; cbn in H; try discriminate; rewrite (IH q E); lia);
    try discriminate; try lia.
Qed.

Lemma popcount_lor_disjoint a b : N.land a b = 0 -> popcount (N.lor a b) = popcount a + popcount b.
Proof.
  destruct a as [|p], b as [|q]; cbn [N.lor N.land popcount]; intro H; try lia.
  apply popcount_pos_lor_disjoint. exact H.
Qed.

Lemma land_pow2_pow2 a b : a <> b -> N.land (2 ^ a) (2 ^ b) = 0.
Proof.
  intro H. apply land_pow2_clear. rewrite pow2_bits. apply N.eqb_neq. exact H.
Qed.

Lemma popcount_pair a b : a <> b -> popcount (N.lor (2 ^ a) (2 ^ b)) = 2.
Proof.
  intro H. rewrite popcount_lor_disjoint by (apply land_pow2_pow2; exact H).
  rewrite !popcount_pow2. reflexivity.
Qed.

Lemma popcount_land_pair idx a b : a <> b ->
  popcount (N.land idx (N.lor (2 ^ a) (2 ^ b))) =
  (if N.testbit idx a then 1 else 0) + (if N.testbit idx b then 1 else 0).
Proof.
  intro H. rewrite N.land_lor_distr_r.
  rewrite popcount_lor_disjoint.
  - rewrite !popcount_land_pow2. reflexivity.
  - apply N.bits_inj. intro k. rewrite !N.land_spec, !pow2_bits, N.bits_0.
    destruct (N.eqb_spec a k), (N.eqb_spec b k); subst; try congruence;
      rewrite ?andb_false_r; reflexivity.
Qed.

Lemma odd_bits_land_pair idx a b : a <> b ->
  odd_bits (N.land idx (N.lor (2 ^ a) (2 ^ b))) = xorb (N.testbit idx a) (N.testbit idx b).
Proof.
  intro H. unfold odd_bits. rewrite popcount_land_pair by exact H.
  destruct (N.testbit idx a), (N.testbit idx b); reflexivity.
Qed.

Lemma lxor_pair_bits idx a b k :
  N.testbit (N.lxor idx (N.lor (2 ^ a) (2 ^ b))) k =
  xorb (N.testbit idx k) (N.eqb a k || N.eqb b k).
Proof. rewrite N.lxor_spec, N.lor_spec, !pow2_bits. reflexivity. Qed.

Lemma clearbit_clearbit i b : N.clearbit (N.clearbit i b) b = N.clearbit i b.
Proof. apply clearbit_id. apply N.clearbit_eq. Qed.
Lemma setbit_setbit i b : N.setbit (N.setbit i b) b = N.setbit i b.
Proof. apply setbit_id. apply N.setbit_eq. Qed.
Lemma setbit_clearbit i b : N.setbit (N.clearbit i b) b = N.setbit i b.
Proof.
  apply N.bits_inj. intro k. rewrite !testbit_setbit, testbit_clearbit.
  destruct (N.eqb_spec b k); [rewrite !orb_true_r; reflexivity|]. cbn [negb]. rewrite andb_true_r. reflexivity.
Qed.
Lemma clearbit_setbit i b : N.clearbit (N.setbit i b) b = N.clearbit i b.
Proof.
  apply N.bits_inj. intro k. rewrite !testbit_clearbit, testbit_setbit.
  destruct (N.eqb_spec b k); [cbn [negb]; rewrite !andb_false_r; reflexivity|]. rewrite orb_false_r. reflexivity.
Qed.
