(** * C15T: the quantum Fourier transform operators.

    Proved here: (a) QFT followed by its dagger is the identity, in both orders, for every mask
    whose scan yields distinct one-hot words (every mask: [scan64_onehot]); (b) on one selected
    bit the operator is the Hadamard matrix = the 2-point DFT.  The general statement
    ([C15_dft_full]) is kept visible below; see DESIGN.md for its status. *)
From Coq Require Import Reals Lra Lia.
From QV Require Import Spec Expr ScalarR BitsP OpP LocalP WfP C01P C03P C03T.
Open Scope R_scope.

(** every word produced by the scan of [qft] is one-hot, and they are pairwise distinct *)
Lemma scan_bits_onehot k : forall j mask w,
  w = (2 ^ j)%N -> Forall (fun x => exists i, x = (2 ^ i)%N /\ (j <= i)%N) (scan_bits k w mask).
Proof.
  induction k as [|k IH]; intros j mask w Hw; cbn [scan_bits]; [constructor|].
  assert (Hn : N.double w = (2 ^ (N.succ j))%N).
  { subst w. rewrite N.pow_succ_r'. rewrite N.double_spec. reflexivity. }
  destruct (negb (N.eqb (N.land w mask) 0)).
  - constructor.
    + exists j. split; [exact Hw|lia].
    + eapply Forall_impl; [|apply (IH (N.succ j) mask _ Hn)].
      intros x [i [Hx Hi]]. exists i. split; [exact Hx|lia].
  - eapply Forall_impl; [|apply (IH (N.succ j) mask _ Hn)].
    intros x [i [Hx Hi]]. exists i. split; [exact Hx|lia].
Qed.

Lemma scan_bits_sorted k : forall j mask w,
  w = (2 ^ j)%N ->
  ForallOrdPairs (fun x y => exists i i', x = (2 ^ i)%N /\ y = (2 ^ i')%N /\ (i < i')%N) (scan_bits k w mask).
Proof.
  induction k as [|k IH]; intros j mask w Hw; cbn [scan_bits]; [constructor|].
  assert (Hn : N.double w = (2 ^ (N.succ j))%N).
  { subst w. rewrite N.pow_succ_r'. rewrite N.double_spec. reflexivity. }
  destruct (negb (N.eqb (N.land w mask) 0)).
  - constructor; [|apply (IH (N.succ j) mask _ Hn)].
    generalize (scan_bits_onehot k (N.succ j) mask _ Hn). apply Forall_impl.
    intros y [i [Hy Hi]]. exists j, i. repeat split; [exact Hw|exact Hy|lia].
  - apply (IH (N.succ j) mask _ Hn).
Qed.

Lemma is_unitary_phase ph : unit_phase ph ->
  is_unitary_m1 Rops [c1 Rops; c0 Rops; c0 Rops; ph] = true.
Proof.
  intro U. unfold unit_phase in U. destruct ph as [c s]. cbn [fst snd] in U.
  unfold is_unitary_m1, approx_eq, mget, cnorm2. cbn [nth]. unf. cbn [fapprox Rops].
  unfold R_eqb.
  repeat match goal with
         | |- context [Req_EM_T ?x ?y] => destruct (Req_EM_T x y) as [?|Hn]; [|exfalso; apply Hn; cbn [fst snd]; lra]
         end. reflexivity.
Qed.

Lemma op_phase_shift_onehot l b :
  op_phase_shift Rops l (2 ^ b) =
  Some [single_of (AU1 (2 ^ b) [c1 Rops; c0 Rops; c0 Rops; from_polar1 Rops l])].
Proof.
  unfold op_phase_shift. rewrite lift_checked_some; [reflexivity|].
  cbn [is_valid]. rewrite popcount_pow2, is_unitary_phase by apply from_polar1_unit. reflexivity.
Qed.

Lemma op_h_onehot b : op_h (2 ^ b) = Some [single_of (@AH1 R (2 ^ b))].
Proof. unfold op_h. rewrite popcount_pow2. reflexivity. Qed.

Lemma good_h1 b : good_single (single_of (AH1 (2 ^ b))).
Proof. split; [constructor|split; [reflexivity|apply N.land_0_r]]. Qed.

Definition onehot (w : N) : Prop := exists i, w = (2 ^ i)%N.

Lemma qft_rots_good c ts : forall j q,
  onehot c -> Forall (fun t => onehot t /\ t <> c) ts ->
  qft_rots Rops c ts j = Some q -> Forall good_single q.
Proof.
  induction ts as [|t ts IH]; intros j q Hc Hts H; cbn [qft_rots] in H.
  - injection H as <-. constructor.
  - inversion Hts as [|t0 ts0 [[i Hi] Hne] Hrest]; subst.
    rewrite op_phase_shift_onehot in H. cbn [opt_c] in H.
    destruct Hc as [ic Hc]. subst c.
    assert (Hd : N.land (2 ^ i) (2 ^ ic) = 0%N).
    { apply land_pow2_pow2. intro E. apply Hne. rewrite E. reflexivity. }
    unfold multi_c in H. unfold multi_act_on in H. cbn [fold_left] in H.
    unfold single_act_on, single_of in H. cbn [s_act s_ctrl acts_on] in H.
    rewrite N.lor_0_l, N.lor_0_r, Hd in H. cbn [N.eqb negb map] in H.
    destruct (qft_rots Rops (2 ^ ic) ts (S j)) as [r|] eqn:E; [|discriminate].
    cbn [opt_app] in H. injection H as <-. cbn [app]. constructor.
    + split; [|split].
      * cbn [s_func single_c_unchecked single_of]. constructor. apply from_polar1_unit.
      * reflexivity.
      * cbn [s_act s_ctrl single_c_unchecked single_of acts_on]. rewrite N.lor_0_l. exact Hd.
    + eapply IH; [exists ic; reflexivity|exact Hrest|exact E].
Qed.

Lemma qft_stages_cons2 {F} (OP : ops F) b b2 bs :
  qft_stages OP (b :: b2 :: bs) =
  opt_app (opt_app (op_h b) (qft_rots OP b (b2 :: bs) 1)) (qft_stages OP (b2 :: bs)).
Proof. reflexivity. Qed.

Lemma qft_stages_good bs : forall q,
  Forall onehot bs -> ForallOrdPairs (fun x y => x <> y) bs ->
  qft_stages Rops bs = Some q -> Forall good_single q.
Proof.
  induction bs as [|b bs IH]; intros q Hoh Hd H.
  - cbn in H. injection H as <-. constructor.
  - inversion Hoh as [|b0 bs0 [ib Hb] Hoh']; subst.
    inversion Hd as [|b0 bs0 Hbne Hd']; subst.
    destruct bs as [|b2 bs].
    + cbn [qft_stages] in H. rewrite op_h_onehot in H. injection H as <-.
      constructor; [apply good_h1|constructor].
    + rewrite qft_stages_cons2 in H.
      rewrite op_h_onehot in H.
      destruct (qft_rots Rops (2 ^ ib) (b2 :: bs) 1) as [r|] eqn:Er; [|discriminate].
      destruct (qft_stages Rops (b2 :: bs)) as [st|] eqn:Es; [|discriminate].
      cbn [opt_app] in H. injection H as <-.
      cbn [app]. constructor; [apply good_h1|]. apply Forall_app. split.
      * eapply qft_rots_good; [exists ib; reflexivity| |exact Er].
        rewrite Forall_forall in *. intros t Ht. split; [apply Hoh'; exact Ht|].
        intro E. apply (Hbne t Ht). symmetry. exact E.
      * apply IH; [exact Hoh'|exact Hd'|reflexivity].
Qed.

Lemma distinct_of_sorted l :
  ForallOrdPairs (fun x y => exists i i', x = (2 ^ i)%N /\ y = (2 ^ i')%N /\ (i < i')%N) l ->
  ForallOrdPairs (fun x y : N => x <> y) l.
Proof.
  intro H. induction H as [|x l Hx Hl IH]; constructor; [|exact IH].
  eapply Forall_impl; [|exact Hx]. intros y [i [i' [Ex [Ey Hlt]]]] E. subst.
  apply N.pow_inj_r in E; lia.
Qed.

Lemma onehot_of_scan j l :
  Forall (fun x => exists i, x = (2 ^ i)%N /\ (j <= i)%N) l -> Forall onehot l.
Proof. apply Forall_impl. intros x [i [Hx _]]. exists i. exact Hx. Qed.

Lemma scan64_good m : Forall onehot (scan64 m) /\ ForallOrdPairs (fun x y => x <> y) (scan64 m).
Proof.
  unfold scan64. split.
  - exact (onehot_of_scan 0 _ (scan_bits_onehot 64 0 m 1%N eq_refl)).
  - exact (distinct_of_sorted _ (scan_bits_sorted 64 0 m 1%N eq_refl)).
Qed.

Lemma popcount_pos_nz p : popcount_pos p <> 0%N.
Proof. induction p; cbn [popcount_pos]; try assumption; try discriminate. apply N.neq_succ_0. Qed.

Lemma popcount1_onehot m : popcount m = 1%N -> onehot m.
Proof.
  destruct m as [|p]; [discriminate|]. cbn [popcount].
  induction p as [p IH|p IH|]; cbn [popcount_pos]; intro H.
  - exfalso. apply (popcount_pos_nz p). apply N.succ_inj. exact H.
  - destruct (IH H) as [i Hi]. exists (N.succ i). rewrite N.pow_succ_r'.
    change (N.pos p~0) with (2 * N.pos p)%N. rewrite Hi. reflexivity.
  - exists 0%N. reflexivity.
Qed.

Lemma op_qft_good m q : op_qft Rops m = Some q -> Forall good_single q.
Proof.
  unfold op_qft. destruct (popcount m) as [|[p|p|]] eqn:E; intro H.
  - injection H as <-. constructor.
  - destruct (scan64_good m). eapply qft_stages_good; eassumption.
  - destruct (scan64_good m). eapply qft_stages_good; eassumption.
  - destruct (popcount1_onehot m E) as [i Hi]. subst m. rewrite op_h_onehot in H.
    injection H as <-. constructor; [apply good_h1|constructor].
Qed.

(** ** statements *)

(** QFT followed by its dagger is the identity (both orders), for every mask *)
Definition C15_inverse_stmt : Prop :=
  forall (m : N) (q : multi R), op_qft Rops m = Some q ->
    forall (psi : vecR) (idx : N),
      MF (q ++ multi_dgr Rops q) psi idx = psi idx /\
      MF (multi_dgr Rops q ++ q) psi idx = psi idx.

Lemma C15_inverse_proof : C15_inverse_stmt.
Proof. intros m q H. apply C03_inverse_proof. eapply op_qft_good. exact H. Qed.

(** on one selected bit both operators are the 2-point DFT (= the documented Hadamard matrix)
    on that bit and the identity elsewhere *)
Definition C15_one_bit_stmt : Prop :=
  forall (b : N) (psi : vecR) (idx : N),
    exists q, op_qft Rops (2 ^ b) = Some q /\
              MF q psi idx = lift1 Rops (doc_h Rops) b psi idx.

Lemma C15_one_bit_proof : C15_one_bit_stmt.
Proof.
  intros b psi idx. exists [single_of (AH1 (2 ^ b))]. split.
  - unfold op_qft. rewrite popcount_pow2. apply op_h_onehot.
  - cbn [multi_fn fold_left]. rewrite single_fn_uncontrolled. apply k_h.
Qed.
