(** * C03M: S, T on any machine-word mask and Y on any mask are undone by their daggers *)
From Coq Require Import Reals Lra Lia Nsatz.
From QV Require Import Spec ScalarR BitsP BitsIterP OpP LocalP C01P C03P RotP C01M.
Open Scope N_scope.

Lemma neg64_add c : c < 2 ^ 64 -> (c + neg64 c) mod 2 ^ 64 = 0.
Proof.
  intro H. unfold neg64, not64. rewrite !wrap_mod. rewrite (N.mod_small c) by exact H.
  change (N.lxor c (N.ones WORD)) with (N.lnot c 64).
  assert (L : N.lnot c 64 = N.ones 64 - c).
  { destruct (N.eq_dec c 0) as [->|Hc]; [reflexivity|].
    apply N.lnot_sub_low. apply N.log2_lt_pow2; lia. }
  rewrite L, N.ones_equiv. rewrite N.add_mod_idemp_r by (apply N.pow_nonzero; discriminate).
  replace (c + (N.pred (2 ^ 64) - c + 1)) with (1 * 2 ^ 64) by lia.
  apply N.mod_mul. apply N.pow_nonzero. discriminate.
Qed.

Lemma mod_of_mod64 x k : k <= 64 -> x mod 2 ^ 64 = 0 -> x mod 2 ^ k = 0.
Proof.
  intros Hk H. apply N.mod_divide in H; [|apply N.pow_nonzero; discriminate].
  apply N.mod_divide; [apply N.pow_nonzero; discriminate|].
  destruct H as [q ->]. exists (q * 2 ^ (64 - k)). rewrite <- N.mul_assoc, <- N.pow_add_r.
  replace (64 - k + k) with 64 by lia. reflexivity.
Qed.

Lemma popcount_le n : popcount n <= n.
Proof.
  destruct n as [|p]; [reflexivity|]. cbn [popcount].
  induction p as [p IH|p IH|]; cbn [popcount_pos]; lia.
Qed.

Lemma count_bound idx m : m < 2 ^ 64 -> popcount (N.land idx m) < 2 ^ 64.
Proof.
  intro H. apply N.le_lt_trans with (N.land idx m); [apply popcount_le|].
  apply N.le_lt_trans with m; [|exact H].
  destruct (N.le_gt_cases (N.land idx m) m) as [L|G]; [exact L|].
  exfalso. assert (E : N.land (N.land idx m) m = N.land idx m) by (rewrite <- N.land_assoc, N.land_diag; reflexivity).
  assert (S : N.ldiff (N.land idx m) m = 0).
  { apply N.bits_inj. intro k. rewrite N.ldiff_spec, N.land_spec, N.bits_0. destruct (N.testbit idx k), (N.testbit m k); reflexivity. }
  apply N.ldiff_le in S. lia.
Qed.

Section AnyMask.
  Variable m : N.

  Lemma inv_s_m d : m < 2 ^ 64 -> inv (AS m d) (AS m (negb d)).
  Proof.
    intros Hm psi idx. cbn [kernel]. rewrite rotate_add. rewrite <- (rotate_0 (psi idx)) at 2.
    apply rotate_congr. change 4 with (2 ^ 2). change (0 mod 2 ^ 2) with 0.
    apply mod_of_mod64; [lia|]. unfold st_count.
    assert (B := count_bound idx m Hm).
    destruct d; cbn [negb]; [rewrite N.add_comm|]; apply neg64_add; exact B.
  Qed.

  Lemma tau_0mod8 z c : c mod 2 ^ 3 = 0 -> tau z c = z.
  Proof.
    intro H. apply N.mod_divide in H; [|discriminate]. destruct H as [q ->].
    replace (q * 2 ^ 3) with (2 * (4 * q) + 0) by (change (2 ^ 3) with 8; lia).
    rewrite tau_spec by lia. cbn [N.eqb]. rewrite <- (rotate_0 z) at 2. apply rotate_congr.
    replace (4 * q) with (q * 4) by lia. rewrite N.mod_mul by discriminate. reflexivity.
  Qed.

  Lemma inv_t_m d : m < 2 ^ 64 -> inv (AT m d) (AT m (negb d)).
  Proof.
    intros Hm psi idx.
    change (K (AT m (negb d)) (K (AT m d) psi) idx)
      with (tau (tau (psi idx) (st_count m d idx)) (st_count m (negb d) idx)).
    rewrite tau_add. apply tau_0mod8. apply mod_of_mod64; [lia|]. unfold st_count.
    assert (B := count_bound idx m Hm).
    destruct d; cbn [negb]; [|rewrite N.add_comm]; apply neg64_add; exact B.
  Qed.

  Lemma land_flip_split idx :
    popcount (N.land (N.lxor idx m) m) + popcount (N.land idx m) = popcount m.
  Proof.
    rewrite <- popcount_lor_disjoint.
    - f_equal. apply N.bits_inj. intro k. rewrite N.lor_spec, !N.land_spec, N.lxor_spec.
      destruct (N.testbit idx k), (N.testbit m k); reflexivity.
    - apply N.bits_inj. intro k. rewrite !N.land_spec, N.lxor_spec, N.bits_0.
      destruct (N.testbit idx k), (N.testbit m k); reflexivity.
  Qed.

  Lemma ipf_self r o : r < 4 -> (ipf r o + ipf r (xorb (negb (N.odd r)) o)) mod 4 = 0.
  Proof.
    intro H. destruct r as [|[[|[]|]|[|[]|]|]]; try lia; destruct o; reflexivity.
  Qed.

  Lemma inv_y_m : inv (AY m) (AY m).
  Proof.
    intros psi idx. rewrite (k_y_ipv m), (k_y_ipv m). rewrite rotate_add.
    rewrite N.lxor_assoc, N.lxor_nilpotent, N.lxor_0_r.
    rewrite <- (rotate_0 (psi idx)) at 2. apply rotate_congr. change (0 mod 4) with 0.
    assert (E := land_flip_split idx).
    set (a := popcount (N.land (N.lxor idx m) m)) in *. set (c := popcount (N.land idx m)) in *.
    set (k := popcount m) in *.
    assert (Ho : N.odd c = xorb (negb (N.odd (N.succ k mod 4))) (N.odd a)).
    { assert (O4 : N.odd (N.succ k mod 4) = N.odd (N.succ k)).
      { rewrite (N.div_mod (N.succ k) 4) at 2 by discriminate.
        replace (4 * (N.succ k / 4)) with (2 * (2 * (N.succ k / 4))) by lia.
        rewrite N.add_comm, N.odd_add_mul_2. reflexivity. }
      rewrite O4, N.odd_succ, <- N.negb_odd, negb_involutive, <- E, N.odd_add.
      destruct (N.odd a), (N.odd c); reflexivity. }
    rewrite N.add_mod by discriminate. rewrite !ipv_mod4, Ho.
    apply ipf_self. apply N.mod_lt. discriminate.
  Qed.
End AnyMask.
