(** * NormP: every good element preserves the sum of squared moduli of a 2^n-entry buffer
    (summed unitarity).  Sums over the index cube are folded bit by bit ([csum]), which makes
    "xor with a mask is a permutation of the cube" a two-line induction. *)
From Coq Require Import Reals Lra Lia.
From QV Require Import Reg ScalarR BitsP BitsIterP VecP OpP LocalP C01P C03P RotP C01M C03M C03T RegP.
Open Scope R_scope.

Ltac bitwise :=
  let t := fresh "t" in
  apply N.bits_inj; intro t; rewrite ?N.lxor_spec, ?N.land_spec, ?N.lor_spec, ?N.ldiff_spec, ?N.bits_0;
  repeat match goal with |- context [N.testbit ?x t] => destruct (N.testbit x t) end; reflexivity.

Definition p2 (k : nat) : N := (2 ^ N.of_nat k)%N.

Fixpoint csum (n : nat) (g : N -> R) : R :=
  match n with
  | O => g 0%N
  | S k => csum k g + csum k (fun i => g (N.lxor i (p2 k)))
  end.

Lemma p2_succ k : p2 (S k) = (2 * p2 k)%N.
Proof. unfold p2. rewrite Nnat.Nat2N.inj_succ, N.pow_succ_r'. reflexivity. Qed.

Lemma p2_pos k : (0 < p2 k)%N.
Proof. unfold p2. apply N.neq_0_lt_0. apply N.pow_nonzero. discriminate. Qed.

Lemma low_testbit i k : (i < p2 k)%N -> N.testbit i (N.of_nat k) = false.
Proof. intro H. apply (testbit_lt_pow2 i (N.of_nat k) (N.of_nat k) H). lia. Qed.

Lemma lxor_p2_add i k : (i < p2 k)%N -> N.lxor i (p2 k) = (i + p2 k)%N.
Proof.
  intro H. symmetry. apply N.add_nocarry_lxor. unfold p2 in *.
  apply N.bits_inj. intro t. rewrite N.land_spec, pow2_bits, N.bits_0.
  destruct (N.eqb_spec (N.of_nat k) t) as [<-|]; [|apply andb_false_r].
  rewrite (testbit_lt_pow2 i (N.of_nat k) (N.of_nat k) H) by lia. reflexivity.
Qed.

Lemma csum_ext n : forall g h, (forall i, (i < p2 n)%N -> g i = h i) -> csum n g = csum n h.
Proof.
  induction n as [|k IH]; intros g h H; cbn [csum].
  - apply H. apply p2_pos.
  - f_equal; apply IH; intros i Hi.
    + apply H. rewrite p2_succ. lia.
    + apply H. rewrite (lxor_p2_add i k Hi), p2_succ. lia.
Qed.

Lemma csum_add n : forall g h, csum n (fun i => g i + h i) = csum n g + csum n h.
Proof. induction n as [|k IH]; intros g h; cbn [csum]; [reflexivity|]. rewrite !IH. ring. Qed.

Lemma csum_xor n : forall g m, (m < p2 n)%N -> csum n (fun i => g (N.lxor i m)) = csum n g.
Proof.
  induction n as [|k IH]; intros g m Hm; cbn [csum].
  - unfold p2 in Hm. change (2 ^ N.of_nat 0)%N with 1%N in Hm. replace m with 0%N by lia. reflexivity.
  - rewrite p2_succ in Hm. destruct (N.lt_ge_cases m (p2 k)) as [L|G].
    + rewrite (IH g m L). f_equal.
      transitivity (csum k (fun i => (fun j => g (N.lxor j (p2 k))) (N.lxor i m))).
      * apply csum_ext. intros i _. cbv beta. f_equal. bitwise.
      * apply (IH (fun j => g (N.lxor j (p2 k))) m L).
    + set (m' := (m - p2 k)%N). assert (L : (m' < p2 k)%N) by (unfold m'; lia).
      assert (E : m = N.lxor m' (p2 k)) by (rewrite (lxor_p2_add m' k L); unfold m'; lia).
      rewrite Rplus_comm. f_equal.
      * transitivity (csum k (fun i => g (N.lxor i m'))); [|apply (IH g m' L)].
        apply csum_ext. intros i _. f_equal. rewrite E. bitwise.
      * transitivity (csum k (fun i => (fun j => g (N.lxor j (p2 k))) (N.lxor i m'))).
        -- apply csum_ext. intros i _. cbv beta. f_equal. rewrite E. bitwise.
        -- apply (IH (fun j => g (N.lxor j (p2 k))) m' L).
Qed.

(** ** sums over consecutive ranges, as [tab] writes them *)
Fixpoint nsum (k : nat) (start : N) (g : N -> R) : R :=
  match k with O => 0 | S k' => g start + nsum k' (N.succ start) g end.

Lemma sumsq_tab_from k : forall start (F : vecR), sumsq (tab_from k start F) = nsum k start (fun i => n2 (F i)).
Proof. induction k as [|k IH]; intros start F; cbn [tab_from sumsq nsum]; [reflexivity|]. rewrite IH. reflexivity. Qed.

Lemma nsum_app a : forall b start g, nsum (a + b) start g = nsum a start g + nsum b (start + N.of_nat a)%N g.
Proof.
  induction a as [|a IH]; intros b start g; cbn [nsum plus].
  - rewrite N.add_0_r. ring.
  - rewrite IH. replace (N.succ start + N.of_nat a)%N with (start + N.of_nat (S a))%N by lia. ring.
Qed.

Lemma nsum_shift k : forall start d g, nsum k (start + d)%N g = nsum k start (fun i => g (i + d)%N).
Proof.
  induction k as [|k IH]; intros start d g; cbn [nsum]; [reflexivity|].
  replace (N.succ (start + d)) with (N.succ start + d)%N by lia. rewrite IH. reflexivity.
Qed.

Lemma of_nat_pow2 k : N.of_nat (Nat.pow 2 k) = p2 k.
Proof.
  induction k as [|k IH]; [reflexivity|]. rewrite p2_succ, <- IH. cbn [Nat.pow]. lia.
Qed.

Lemma nsum_cube n : forall g, nsum (Nat.pow 2 n) 0 g = csum n g.
Proof.
  induction n as [|k IH]; intro g.
  - cbn. ring.
  - replace (Nat.pow 2 (S k)) with (Nat.pow 2 k + Nat.pow 2 k)%nat by (cbn [Nat.pow]; lia).
    rewrite nsum_app. cbn [csum]. rewrite IH. f_equal.
    rewrite of_nat_pow2. rewrite (nsum_shift (Nat.pow 2 k) 0 (p2 k) g). rewrite IH.
    apply csum_ext. intros i Hi. rewrite (lxor_p2_add i k Hi). reflexivity.
Qed.

Lemma tab_get_id (v : bufR) : tab (length v) (get Rops v) = v.
Proof.
  apply (buf_ext Rops); [apply tab_length|]. intros i Hi. rewrite tab_length in Hi. apply get_tab. exact Hi.
Qed.

Lemma sumsq_tab_cube n (F : vecR) : sumsq (tab (Nat.pow 2 n) F) = csum n (fun i => n2 (F i)).
Proof. unfold tab. rewrite sumsq_tab_from. apply nsum_cube. Qed.

Lemma sumsq_cube (v : bufR) n : length v = Nat.pow 2 n -> sumsq v = csum n (fun i => n2 (get Rops v i)).
Proof. intro H. rewrite <- (tab_get_id v) at 1. rewrite H. apply sumsq_tab_cube. Qed.

(** ** norm-preserving maps on the cube *)
Definition normP (n : nat) (f : vecR -> vecR) : Prop :=
  forall psi, csum n (fun i => n2 (f psi i)) = csum n (fun i => n2 (psi i)).

Definition diagU (f : vecR -> vecR) : Prop := forall psi i, n2 (f psi i) = n2 (psi i).
Definition pairU (m : N) (f : vecR -> vecR) : Prop :=
  forall psi i, n2 (f psi i) + n2 (f psi (N.lxor i m)) = n2 (psi i) + n2 (psi (N.lxor i m)).
Definition quadU (a b : N) (f : vecR -> vecR) : Prop :=
  forall psi i,
    n2 (f psi i) + n2 (f psi (N.lxor i a)) + n2 (f psi (N.lxor i b)) + n2 (f psi (N.lxor i (N.lxor a b))) =
    n2 (psi i) + n2 (psi (N.lxor i a)) + n2 (psi (N.lxor i b)) + n2 (psi (N.lxor i (N.lxor a b))).

Lemma diagU_normP n f : diagU f -> normP n f.
Proof. intros H psi. apply csum_ext. intros i _. apply H. Qed.

Lemma pairU_normP n m f : (m < p2 n)%N -> pairU m f -> normP n f.
Proof.
  intros Hm H psi.
  assert (E : 2 * csum n (fun i => n2 (f psi i)) = 2 * csum n (fun i => n2 (psi i))); [|lra].
  replace (2 * csum n (fun i => n2 (f psi i)))
    with (csum n (fun i => n2 (f psi i)) + csum n (fun i => (fun j => n2 (f psi j)) (N.lxor i m)))
    by (rewrite (csum_xor n (fun j => n2 (f psi j)) m Hm); ring).
  replace (2 * csum n (fun i => n2 (psi i)))
    with (csum n (fun i => n2 (psi i)) + csum n (fun i => (fun j => n2 (psi j)) (N.lxor i m)))
    by (rewrite (csum_xor n (fun j => n2 (psi j)) m Hm); ring).
  rewrite <- !csum_add. apply csum_ext. intros i _. apply H.
Qed.

Lemma lxor_lt_p2 n a b : (a < p2 n)%N -> (b < p2 n)%N -> (N.lxor a b < p2 n)%N.
Proof.
  intros Ha Hb. unfold p2 in *. destruct (N.eq_dec (N.lxor a b) 0) as [->|Hne]; [apply N.neq_0_lt_0, N.pow_nonzero; discriminate|].
  apply N.log2_lt_pow2; [lia|].
  apply N.le_lt_trans with (N.max (N.log2 a) (N.log2 b)); [apply N.log2_lxor|].
  destruct (N.eq_dec a 0) as [->|Ha0]; destruct (N.eq_dec b 0) as [->|Hb0].
  - exfalso. apply Hne. reflexivity.
  - rewrite N.max_r by (cbn; lia). apply N.log2_lt_pow2; lia.
  - rewrite N.max_l by (cbn; lia). apply N.log2_lt_pow2; lia.
  - apply N.max_lub_lt; apply N.log2_lt_pow2; lia.
Qed.

Lemma quadU_normP n a b f : (a < p2 n)%N -> (b < p2 n)%N -> quadU a b f -> normP n f.
Proof.
  intros Ha Hb H psi. assert (Hab := lxor_lt_p2 n a b Ha Hb).
  assert (E : 4 * csum n (fun i => n2 (f psi i)) = 4 * csum n (fun i => n2 (psi i))); [|lra].
  assert (S4 : forall g : N -> R, 4 * csum n g =
     csum n (fun i => g i + g (N.lxor i a) + g (N.lxor i b) + g (N.lxor i (N.lxor a b)))).
  { intro g. rewrite !csum_add. rewrite (csum_xor n g a Ha), (csum_xor n g b Hb), (csum_xor n g _ Hab). ring. }
  rewrite (S4 (fun i => n2 (f psi i))), (S4 (fun i => n2 (psi i))).
  apply csum_ext. intros i _. apply H.
Qed.

(** ** the kernels *)
Lemma n2_rotate z q : n2 (rotate Rops z q) = n2 z.
Proof.
  rewrite rotate_mod4. destruct (q mod 4)%N as [|[[|[]|]|[|[]|]|]]; destruct z as [x y];
    unfold iz, negz, n2; cbn [fst snd]; ring.
Qed.

Lemma n2_cmul_unit ph z : unit_phase ph -> n2 (cmul Rops ph z) = n2 z.
Proof.
  unfold unit_phase. destruct ph as [c s], z as [x y]. unfold n2, cmul, re, im. cbn [fst snd fmul fsub fadd Rops].
  intro U. replace ((c * x - s * y) * (c * x - s * y) + (c * y + s * x) * (c * y + s * x))
    with ((c * c + s * s) * (x * x + y * y)) by ring. rewrite U. ring.
Qed.

Lemma n2_cneg z : n2 (cneg Rops z) = n2 z.
Proof. destruct z as [x y]. unfold n2, cneg, re, im. cbn [fst snd fneg Rops]. ring. Qed.

Lemma unit_e4 : unit_phase (exp_i_pi_4 Rops).
Proof. unfold unit_phase, exp_i_pi_4. cbn [fst snd fisq2 Rops]. generalize isq2_sq2. lra. Qed.

Lemma diag_pair m f : diagU f -> pairU m f.
Proof. intros H psi i. rewrite !H. reflexivity. Qed.

Definition swapU (m : N) (f : vecR -> vecR) : Prop := forall psi i, n2 (f psi i) = n2 (psi (N.lxor i m)).
Lemma swap_pair m f : swapU m f -> pairU m f.
Proof. intros H psi i. rewrite !H, lxor_twice. ring. Qed.

Lemma dU_id : diagU (K AId).
Proof. intros psi i. reflexivity. Qed.
Lemma sU_x m : swapU m (K (AX m)).
Proof. intros psi i. reflexivity. Qed.
Lemma sU_y m : swapU m (K (AY m)).
Proof. intros psi i. rewrite k_y_ipv. apply n2_rotate. Qed.
Lemma dU_z m : diagU (K (AZ m)).
Proof. intros psi i. cbn [kernel]. destruct (odd_bits _); [apply n2_cneg|reflexivity]. Qed.
Lemma dU_s m d : diagU (K (AS m d)).
Proof. intros psi i. cbn [kernel]. apply n2_rotate. Qed.
Lemma dU_t m d : diagU (K (AT m d)).
Proof.
  intros psi i. cbn [kernel]. destruct (N.testbit _ 0); [rewrite n2_cmul_unit by apply unit_e4|]; apply n2_rotate.
Qed.

Lemma conj_unit' ph : unit_phase ph -> unit_phase (cconj Rops ph).
Proof. apply conj_unit. Qed.

Lemma dU_rz m ph : unit_phase ph -> diagU (K (ARZ m ph)).
Proof.
  intros U psi i. cbn [kernel]. destruct (N.eqb _ 0); apply n2_cmul_unit; [apply conj_unit'|]; exact U.
Qed.
Lemma dU_rzz m ph : unit_phase ph -> diagU (K (ARZZ m ph)).
Proof.
  intros U psi i. cbn [kernel]. destruct (odd_bits _); apply n2_cmul_unit; [|apply conj_unit']; exact U.
Qed.

Lemma pU_rx m ph : unit_phase ph -> pairU m (K (ARX m ph)).
Proof.
  intros U psi i. unfold unit_phase in U. cbn [kernel]. rewrite lxor_twice. destruct ph as [c s]. cbn [fst snd] in U.
  destruct (psi i) as [x y], (psi (N.lxor i m)) as [u v]. unfold n2, re, im. cbn [fst snd fmul fadd fsub Rops].
  replace ((x * c + v * s) * (x * c + v * s) + (y * c - u * s) * (y * c - u * s) +
           ((u * c + y * s) * (u * c + y * s) + (v * c - x * s) * (v * c - x * s)))
    with ((c * c + s * s) * (x * x + y * y + (u * u + v * v))) by ring.
  rewrite U. ring.
Qed.
Lemma pU_rxx m ph : unit_phase ph -> pairU m (K (ARXX m ph)).
Proof. exact (pU_rx m ph). Qed.

Section OneBit.
  Variable b : N.
  Let m := (2 ^ b)%N.

  Lemma pU_h1 : pairU m (K (AH1 m)).
  Proof.
    intros psi i. unfold kernel. unfold m. rewrite land_eq0_flip, lxor_twice.
    destruct (N.eqb (N.land i (2 ^ b)) 0); cbn [negb]; unf;
      destruct (psi i) as [x y], (psi (N.lxor i (2 ^ b))) as [u v]; unfold n2; cbn [fst snd];
      generalize isq2_sq2; set (h := / sqrt 2); intro Hq;
      match goal with |- ?L = ?R => assert (E : L - R = (2 * (h * h) - 1) * (x * x + y * y + u * u + v * v)) by ring end;
      rewrite Hq in E; lra.
  Qed.

  Lemma pU_ry ph : unit_phase ph -> pairU m (K (ARY m ph)).
  Proof.
    intros U psi i. unfold unit_phase in U. unfold kernel. unfold m. rewrite land_eq0_flip, lxor_twice.
    destruct ph as [c s]. cbn [fst snd] in U.
    destruct (N.eqb (N.land i (2 ^ b)) 0); cbn [negb]; unf;
      destruct (psi i) as [x y], (psi (N.lxor i (2 ^ b))) as [u v]; unfold n2; cbn [fst snd];
      match goal with |- ?L = ?R => assert (E : L - R = (c * c + s * s - 1) * (x * x + y * y + u * u + v * v)) by ring end;
      rewrite U in E; lra.
  Qed.

  Lemma dU_phase ph : unit_phase ph -> diagU (K (AU1 m [c1 Rops; c0 Rops; c0 Rops; ph])).
  Proof.
    intros U psi i. unfold unit_phase in U. unfold kernel, mget. cbn [nth]. unfold m.
    rewrite land_pow2_eq0, negb_involutive, ldiff_pow2, lor_clear_pow2. destruct ph as [c s]. cbn [fst snd] in U.
    destruct (N.testbit i b) eqn:Hb; cbn [negb].
    - rewrite (setbit_id i b Hb). unf. destruct (psi (N.clearbit i b)) as [u v], (psi i) as [x y]. unfold n2. cbn [fst snd].
      match goal with |- ?L = ?R => assert (E : L - R = (c * c + s * s - 1) * (x * x + y * y)) by ring end. rewrite U in E. lra.
    - rewrite (clearbit_id i b Hb). unf. destruct (psi (N.setbit i b)) as [u v], (psi i) as [x y]. unfold n2. cbn [fst snd]. ring.
  Qed.

  Lemma dU_phase_dg ph : unit_phase ph -> diagU (K (AU1 m (m1_dagger Rops [c1 Rops; c0 Rops; c0 Rops; ph]))).
  Proof.
    intros U psi i. unfold unit_phase in U. unfold kernel, m1_dagger, mget. cbn [nth]. unfold m.
    rewrite land_pow2_eq0, negb_involutive, ldiff_pow2, lor_clear_pow2. destruct ph as [c s]. cbn [fst snd] in U.
    destruct (N.testbit i b) eqn:Hb; cbn [negb].
    - rewrite (setbit_id i b Hb). unf. destruct (psi (N.clearbit i b)) as [u v], (psi i) as [x y]. unfold n2. cbn [fst snd].
      match goal with |- ?L = ?R => assert (E : L - R = (c * c + s * s - 1) * (x * x + y * y)) by ring end. rewrite U in E. lra.
    - rewrite (clearbit_id i b Hb). unf. destruct (psi (N.setbit i b)) as [u v], (psi i) as [x y]. unfold n2. cbn [fst snd]. ring.
  Qed.
End OneBit.

Section TwoBits.
  Variables a b : N.
  Hypothesis Hab : a <> b.
  Local Notation m := (N.lor (2 ^ a) (2 ^ b)).

  Ltac fin_pair psi i :=
    destruct (psi i) as [x y], (psi (N.lxor i m)) as [u v]; unfold n2, re, im; cbn [fst snd fmul fadd fsub fneg fhalf fisq2 Rops].

  Lemma pU_ryy ph : unit_phase ph -> pairU m (K (ARYY m ph)).
  Proof.
    intros U psi i. unfold unit_phase in U. unfold kernel. rewrite (odd_flip_m a b Hab), lxor_twice.
    destruct ph as [c s]. cbn [fst snd] in U.
    destruct (odd_bits (N.land i m)); unfold cconj; fin_pair psi i;
      match goal with |- ?L = ?R => assert (E : L - R = (c * c + s * s - 1) * (x * x + y * y + u * u + v * v)) by ring end;
      rewrite U in E; lra.
  Qed.

  Lemma pU_swap : pairU m (K (ASwap m)).
  Proof.
    intros psi i. unfold kernel. rewrite (odd_flip_m a b Hab), lxor_twice.
    destruct (odd_bits (N.land i m)); cbv iota; ring.
  Qed.

  Lemma pU_iswap d : pairU m (K (AISwap m d)).
  Proof.
    intros psi i. unfold kernel. rewrite (odd_flip_m a b Hab), lxor_twice.
    destruct (odd_bits (N.land i m)); cbv iota; [|ring]. destruct d; fin_pair psi i; ring.
  Qed.

  Lemma pU_sqrt_swap d : pairU m (K (ASqrtSwap m d)).
  Proof.
    intros psi i. unfold kernel. rewrite (odd_flip_m a b Hab), lxor_twice.
    destruct (odd_bits (N.land i m)); cbv iota; [|ring]. destruct d; fin_pair psi i; field.
  Qed.

  Lemma pU_sqrt_iswap d : pairU m (K (ASqrtISwap m d)).
  Proof.
    intros psi i. unfold kernel. rewrite (odd_flip_m a b Hab), lxor_twice.
    destruct (odd_bits (N.land i m)); cbv iota; [|ring]. destruct d; fin_pair psi i;
      generalize isq2_sq2; set (h := / sqrt 2); intro Hq;
      match goal with |- ?L = ?R => assert (E : L - R = (2 * (h * h) - 1) * (x * x + y * y + u * u + v * v)) by ring end;
      rewrite Hq in E; lra.
  Qed.

  Lemma qU_h2 : quadU (2 ^ a) (2 ^ b) (K (AH2 (2 ^ a) (2 ^ b))).
  Proof.
    intros psi i. rewrite <- !N.lxor_assoc. unfold kernel.
    assert (Eab : forall j, N.lxor j (N.lor (2 ^ a) (2 ^ b)) = N.lxor (N.lxor j (2 ^ a)) (2 ^ b)).
    { intro j. rewrite N.lxor_assoc. f_equal. symmetry. apply N.lxor_lor. apply land_pow2_pow2. exact Hab. }
    assert (Esw : forall j, N.lxor (N.lxor j (2 ^ b)) (2 ^ a) = N.lxor (N.lxor j (2 ^ a)) (2 ^ b)).
    { intro j. rewrite !N.lxor_assoc. f_equal. apply N.lxor_comm. }
    assert (Nab : N.eqb a b = false) by (apply N.eqb_neq; congruence).
    assert (Nba : N.eqb b a = false) by (apply N.eqb_neq; congruence).
    repeat (rewrite ?Eab, ?Esw, ?lxor_twice).
    rewrite !land_pow2_eq0. repeat rewrite N.lxor_spec. rewrite !pow2_bits, !N.eqb_refl, ?Nab, ?Nba.
    set (ia := N.lxor i (2 ^ a)). set (ib := N.lxor i (2 ^ b)). set (iab := N.lxor ia (2 ^ b)).
    destruct (N.testbit i a), (N.testbit i b); cbn [negb xorb]; unf;
      destruct (psi i) as [x0 y0], (psi ia) as [x1 y1], (psi ib) as [x2 y2], (psi iab) as [x3 y3];
      unfold n2; cbn [fst snd]; field.
  Qed.
End TwoBits.

(** ** controlled elements *)
Lemma ctrl_ok_xor c m i : N.land m c = 0%N -> ctrl_ok c (N.lxor i m) = ctrl_ok c i.
Proof.
  intro H. unfold ctrl_ok. f_equal. apply N.bits_inj. intro t. rewrite !N.ldiff_spec, N.lxor_spec.
  assert (X := f_equal (fun x => N.testbit x t) H). cbn beta in X. rewrite N.land_spec, N.bits_0 in X.
  destruct (N.testbit c t), (N.testbit m t), (N.testbit i t); try reflexivity; discriminate.
Qed.

Lemma lt_p2_bits a n : (forall k, (N.of_nat n <= k)%N -> N.testbit a k = false) -> (a < p2 n)%N.
Proof.
  intro H. unfold p2. destruct (N.eq_dec a 0) as [->|Ha]; [apply N.neq_0_lt_0, N.pow_nonzero; discriminate|].
  apply N.log2_lt_pow2; [lia|]. destruct (N.lt_ge_cases (N.log2 a) (N.of_nat n)) as [L|G]; [exact L|].
  assert (B := N.bit_log2 a Ha). rewrite (H _ G) in B. discriminate.
Qed.

Lemma lor_lt_p2 a b n : (N.lor a b < p2 n)%N -> (a < p2 n)%N /\ (b < p2 n)%N.
Proof.
  intro H. split; apply lt_p2_bits; intros k Hk;
    assert (X := testbit_lt_pow2 (N.lor a b) k (N.of_nat n) H Hk); rewrite N.lor_spec in X;
    destruct (N.testbit a k), (N.testbit b k); try reflexivity; discriminate.
Qed.

Section Single.
  Variable s : single R.
  Hypothesis Hd : N.land (s_act s) (s_ctrl s) = 0%N.

  Lemma single_diag : diagU (K (s_func s)) -> diagU (single_fn Rops s).
  Proof.
    intros H psi i. unfold single_fn. destruct (N.eqb (s_ctrl s) 0); [apply H|].
    destruct (ctrl_ok _ _); [apply H|reflexivity].
  Qed.

  Lemma single_pair : pairU (s_act s) (K (s_func s)) -> pairU (s_act s) (single_fn Rops s).
  Proof.
    intros H psi i. unfold single_fn. destruct (N.eqb (s_ctrl s) 0); [apply H|].
    rewrite (ctrl_ok_xor _ _ i Hd). destruct (ctrl_ok _ _); [apply H|reflexivity].
  Qed.

  Lemma single_quad a b : s_act s = N.lor a b -> N.land a b = 0%N ->
    quadU a b (K (s_func s)) -> quadU a b (single_fn Rops s).
  Proof.
    intros Ha Hab H psi i. unfold single_fn. destruct (N.eqb (s_ctrl s) 0); [apply H|].
    rewrite Ha in Hd.
    assert (Da : N.land a (s_ctrl s) = 0%N /\ N.land b (s_ctrl s) = 0%N).
    { rewrite N.land_lor_distr_l in Hd. apply N.lor_eq_0_iff in Hd. exact Hd. }
    destruct Da as [Da Db].
    assert (Dab : N.land (N.lxor a b) (s_ctrl s) = 0%N).
    { rewrite <- (N.lxor_lor a b Hab) in Hd. exact Hd. }
    rewrite (ctrl_ok_xor _ _ i Da), (ctrl_ok_xor _ _ i Db), (ctrl_ok_xor _ _ i Dab).
    destruct (ctrl_ok _ _); [apply H|reflexivity].
  Qed.
End Single.

Theorem good_single_normP n (s : single R) :
  good_single s -> (single_act_on s < p2 n)%N -> normP n (single_fn Rops s).
Proof.
  intros [G [W D]] Hlt. unfold single_act_on in Hlt. destruct (lor_lt_p2 _ _ _ Hlt) as [Hact _].
  unfold wf_single in W.
  assert (PD : diagU (K (s_func s)) -> normP n (single_fn Rops s)).
  { intro H. apply diagU_normP. apply single_diag. exact H. }
  assert (PP : pairU (s_act s) (K (s_func s)) -> normP n (single_fn Rops s)).
  { intro H. apply (pairU_normP n (s_act s)); [exact Hact|]. apply single_pair; assumption. }
  destruct s as [act ctrl g]. cbn [s_act s_ctrl s_func] in *. subst act.
  destruct G; cbn [support acts_on] in *.
  - apply PD, dU_id.
  - apply PP, swap_pair, sU_x.
  - apply PP, swap_pair, sU_y.
  - apply PD, dU_z.
  - apply PD, dU_s.
  - apply PD, dU_t.
  - apply PP, pU_h1.
  - destruct (lor_lt_p2 _ _ _ Hact) as [Ha Hb].
    apply (quadU_normP n (2 ^ a) (2 ^ b)); [exact Ha|exact Hb|].
    apply single_quad; cbn [s_act s_ctrl s_func]; [exact D|reflexivity|apply land_pow2_pow2; assumption|apply qU_h2; assumption].
  - apply PP, pU_rx; assumption.
  - apply PP, pU_ry; assumption.
  - apply PD, dU_rz; assumption.
  - apply PP, pU_rxx; assumption.
  - apply PP, pU_ryy; assumption.
  - apply PD, dU_rzz; assumption.
  - apply PP, pU_swap; assumption.
  - apply PP, pU_iswap; assumption.
  - apply PP, pU_sqrt_swap; assumption.
  - apply PP, pU_sqrt_iswap; assumption.
  - apply PD, dU_phase; assumption.
  - apply PD, dU_phase_dg; assumption.
Qed.

(** ** buffers *)
Lemma single_apply_sumsq n (s : single R) (v : bufR) :
  good_single s -> (single_act_on s < p2 n)%N -> length v = Nat.pow 2 n ->
  sumsq (single_apply Rops s v) = sumsq v.
Proof.
  intros G Hlt Hl. unfold single_apply. rewrite Hl, sumsq_tab_cube, (sumsq_cube v n Hl).
  apply (good_single_normP n s G Hlt).
Qed.

Theorem multi_apply_sumsq n (q : multi R) : Forall good_single q ->
  Forall (fun s => (single_act_on s < p2 n)%N) q ->
  forall v : bufR, length v = Nat.pow 2 n -> sumsq (multi_apply Rops q v) = sumsq v.
Proof.
  induction q as [|s q IH]; intros G B v Hl; [reflexivity|].
  inversion G as [|s0 q0 G1 G2]; subst. inversion B as [|s1 q1 B1 B2]; subst.
  change (multi_apply Rops (s :: q) v) with (multi_apply Rops q (single_apply Rops s v)).
  rewrite (IH G2 B2); [apply (single_apply_sumsq n); assumption|].
  unfold single_apply. rewrite tab_length. exact Hl.
Qed.
