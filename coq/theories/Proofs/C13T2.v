(** * C13T2: the converse for the statement kinds whose rules are purely static -- a declaration,
    measurement, reset, barrier or gate definition that respects every rule is accepted, and has
    exactly the described effect on the interpreter; a gate application is refused only for one of
    the reasons of [C13_reject] / [C13_gate_rules] (unresolved argument, unevaluated parameter, or
    the gate builder's own refusal). *)
From Coq Require Import Lia String Ascii ZArith.
From QV Require Import Interp InterpP BitsP C13T.
Open Scope N_scope.
Open Scope string_scope.
Open Scope list_scope.

Definition C13_accept_stmt : Prop :=
  forall (F : Type) (OP : ops F) (base ch : @int F),
    let qregs := i_qreg base ++ i_qreg ch in
    let cregs := i_creg base ++ i_creg ch in
    (* declarations: a fresh short name and a size that keeps the total below 64 *)
    (forall alias size, (String.length alias < 32)%nat -> lenN qregs + size_as_N size < 64 ->
       ~ In alias qregs -> ~ In alias cregs ->
       exists ch', process_node1 OP base ch (NQReg alias size) = IOk ch' /\
                   i_qreg ch' = i_qreg ch ++ repeat alias (N.to_nat (size_as_N size)) /\ i_creg ch' = i_creg ch /\
                   i_ops ch' = i_ops ch /\ i_macros ch' = i_macros ch) /\
    (forall alias size, (String.length alias < 32)%nat -> lenN cregs + size_as_N size < 64 ->
       ~ In alias qregs -> ~ In alias cregs ->
       exists ch', process_node1 OP base ch (NCReg alias size) = IOk ch' /\
                   i_creg ch' = i_creg ch ++ repeat alias (N.to_nat (size_as_N size)) /\ i_qreg ch' = i_qreg ch /\
                   i_ops ch' = i_ops ch /\ i_macros ch' = i_macros ch) /\
    (* measurement between arguments that resolve to equally many bits; reset of a resolved argument; barrier *)
    (forall q c qm cm, get_q_idx base ch q = IOk qm -> get_c_idx base ch c = IOk cm -> popcount qm = popcount cm ->
       process_node1 OP base ch (NMeasure q c) = IOk (set_ops ch (ext_branch_with_id (i_ops ch) (SMeasure qm cm)))) /\
    (forall a qm, get_q_idx base ch a = IOk qm ->
       process_node1 OP base ch (NReset a) = IOk (set_ops ch (ext_branch_with_id (i_ops ch) (SReset qm)))) /\
    (forall l, process_node1 OP base ch (NBarrier l) = IOk ch) /\
    (* a gate definition whose body passes the body rules, under a fresh short name *)
    (forall name regs params body m, macro_new OP regs params body = IOk m ->
       (String.length name < 32)%nat -> has_macro name base = false -> has_macro name ch = false ->
       exists ch', process_node1 OP base ch (NGate name regs params body) = IOk ch' /\
                   i_macros ch' = i_macros ch ++ [(name, m)] /\ i_ops ch' = i_ops ch /\
                   i_qreg ch' = i_qreg ch /\ i_creg ch' = i_creg ch) /\
    (* a gate application fails only if an argument does not resolve, a parameter does not evaluate,
       or the (built-in or user) gate builder refuses *)
    (forall name regs args regs_v args_v,
       imap (get_q_idx base ch) regs = IOk regs_v ->
       imap (fun e => match peval OP [] e with PVal x => IOk x | PErr pe => IErr (UnevaluatedArgument name pe) end) args = IOk args_v ->
       let macros := i_macros base ++ i_macros ch in
       let built := match lookup name (rev macros) with
                    | Some m => macro_process OP (MACRO_FUEL macros) macros 0 m name regs_v args_v
                    | None => gates_process OP name regs_v args_v
                    end in
       process_node1 OP base ch (NApply name regs args) =
       match built with
       | IOk o => IOk (set_ops ch (ext_push (i_ops ch) o))
       | IErr e => IErr e
       | IPanic w => IPanic w
       end).

Lemma not_in_app {X} (x : X) a b : ~ In x (a ++ b) -> ~ In x a /\ ~ In x b.
Proof. intro H. split; intro K; apply H; apply in_or_app; [left|right]; exact K. Qed.

Lemma C13_accept_proof : C13_accept_stmt.
Proof.
  intros F OP base ch qregs cregs. split; [|split; [|split; [|split; [|split; [|split]]]]].
  - intros alias size Hl Hs Hq Hc. cbn [process_node1]. unfold process_qreg, check_ident, check_reg_size.
    unfold qregs in Hs, Hq. unfold cregs in Hc. unfold lenN in Hs. rewrite app_length in Hs.
    destruct (not_in_app _ _ _ Hq) as [Hq1 Hq2]. destruct (not_in_app _ _ _ Hc) as [Hc1 Hc2].
    destruct (N.leb_spec 32 (N.of_nat (String.length alias))) as [L|L]; [lia|]. cbn [ibind].
    destruct (N.leb_spec 64 (size_as_N size)) as [L2|L2]; [lia|]. cbn [ibind].
    destruct (N.leb_spec 64 (lenN (i_qreg base) + lenN (i_qreg ch) + size_as_N size)) as [L3|L3]; [unfold lenN in *; lia|].
    cbn [ibind]. unfold check_dup.
    rewrite (count_name_zero alias _ Hq1), (count_name_zero alias _ Hc1), (count_name_zero alias _ Hq2), (count_name_zero alias _ Hc2).
    cbn [N.ltb N.compare ibind]. eexists. split; [reflexivity|]. cbn [i_qreg i_creg i_ops i_macros]. repeat split.
  - intros alias size Hl Hs Hq Hc. cbn [process_node1]. unfold process_creg, check_ident, check_reg_size.
    unfold qregs in Hq. unfold cregs in Hs, Hc. unfold lenN in Hs. rewrite app_length in Hs.
    destruct (not_in_app _ _ _ Hq) as [Hq1 Hq2]. destruct (not_in_app _ _ _ Hc) as [Hc1 Hc2].
    destruct (N.leb_spec 32 (N.of_nat (String.length alias))) as [L|L]; [lia|]. cbn [ibind].
    destruct (N.leb_spec 64 (size_as_N size)) as [L2|L2]; [lia|]. cbn [ibind].
    destruct (N.leb_spec 64 (lenN (i_creg base) + lenN (i_creg ch) + size_as_N size)) as [L3|L3]; [unfold lenN in *; lia|].
    cbn [ibind]. unfold check_dup.
    rewrite (count_name_zero alias _ Hq1), (count_name_zero alias _ Hc1), (count_name_zero alias _ Hq2), (count_name_zero alias _ Hc2).
    cbn [N.ltb N.compare ibind]. eexists. split; [reflexivity|]. cbn [i_qreg i_creg i_ops i_macros]. repeat split.
  - intros q c qm cm Hq Hc He. cbn [process_node1]. rewrite Hq. cbn [ibind]. rewrite Hc. cbn [ibind].
    rewrite He, N.eqb_refl. reflexivity.
  - intros a qm Hq. cbn [process_node1]. rewrite Hq. reflexivity.
  - intro l. reflexivity.
  - intros name regs params body m Hm Hl H1 H2. cbn [process_node1]. unfold process_gate. rewrite Hm. cbn [ibind].
    rewrite H1, H2. cbn [orb]. unfold check_ident.
    destruct (N.leb_spec 32 (N.of_nat (String.length name))) as [L|L]; [lia|]. cbn [ibind].
    eexists. split; [reflexivity|]. cbn [i_qreg i_creg i_ops i_macros]. repeat split.
  - intros name regs args regs_v args_v Hr Ha macros built. cbn [process_node1]. unfold process_apply.
    rewrite Hr. cbn [ibind]. rewrite Ha. cbn [ibind]. fold macros. fold built. destruct built; reflexivity.
Qed.
