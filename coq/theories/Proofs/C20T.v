(** * C20T: bit-mask bookkeeping of virtual and classical registers (axiom-free, over [N] with
    the 64-bit machine word explicit) *)
From Coq Require Import Lia Sorted.
From QV Require Import Bits BitsP BitsIterP CVReg.
Open Scope N_scope.

(** ** the iterator and the walking loops *)
Definition C20_bits_iter_stmt : Prop :=
  forall mask : N,
    (* terminates (never out of fuel) and yields the scan of positions 0..63 *)
    bits_iter_list mask = Some (scan64 mask) /\
    walk_bits FUEL mask 1 = Some (scan64 mask) /\
    (* which is exactly the set bits of the word ... *)
    (forall w, In w (scan64 mask) <-> exists j, w = 2 ^ j /\ j < 64 /\ N.testbit mask j = true) /\
    (* ... in ascending order *)
    StronglySorted N.lt (scan64 mask).

Lemma C20_bits_iter_proof : C20_bits_iter_stmt.
Proof.
  intro mask. split; [apply bits_iter_list_spec|]. split; [apply walk_bits_spec|].
  split; [intro w; apply scan64_in|apply scan64_sorted].
Qed.

(** ** virtual registers *)
Definition C20_vreg_stmt : Prop :=
  forall (mask q_mask : N),
    (* a virtual register lists the set bits of the (machine-word) mask, ascending *)
    vreg_of_mask mask = Some (scan64 (wrap mask)) /\
    (* indexing by a predicate / list / full range is the OR of the selected entries *)
    (forall v f, vreg_sel v f = lor_list (map snd (filter (fun p => f (fst p)) (combine (seq 0 (length v)) v)))) /\
    (forall v, vreg_all v = lor_list v) /\
    (* a view of a quantum register exists exactly when the mask lies inside the register *)
    (get_vreg_by q_mask mask = None <-> N.ldiff (wrap mask) q_mask <> 0).

Lemma lor_list_acc l : forall a, fold_left N.lor l a = N.lor a (lor_list l).
Proof.
  unfold lor_list. induction l as [|x l IH]; intro a; cbn [fold_left].
  - rewrite N.lor_0_r. reflexivity.
  - rewrite IH, (IH (N.lor 0 x)), N.lor_0_l, N.lor_assoc. reflexivity.
Qed.

Lemma lor_list_cons x l : lor_list (x :: l) = N.lor x (lor_list l).
Proof. unfold lor_list at 1. cbn [fold_left]. rewrite lor_list_acc, N.lor_0_l. reflexivity. Qed.

Lemma vreg_sel_from_spec v : forall k f,
  vreg_sel_from v k f = lor_list (map snd (filter (fun p => f (fst p)) (combine (seq k (length v)) v))).
Proof.
  induction v as [|w v IH]; intros k f; [reflexivity|].
  cbn [vreg_sel_from length seq combine filter fst]. rewrite IH.
  destruct (f k); cbn [map snd].
  - rewrite lor_list_cons. reflexivity.
  - apply N.lor_0_l.
Qed.

Lemma C20_vreg_proof : C20_vreg_stmt.
Proof.
  intros mask q_mask. repeat split.
  - unfold vreg_of_mask. apply bits_iter_list_spec.
  - intros v f. apply vreg_sel_from_spec.
  - intro v. unfold vreg_all, vreg_sel. rewrite vreg_sel_from_spec.
    f_equal. generalize 0%nat. induction v as [|w v IH]; intro k; [reflexivity|].
    cbn [length seq combine filter map snd]. f_equal. apply IH.
  - unfold get_vreg_by. destruct (N.eqb_spec (N.ldiff (wrap mask) q_mask) 0) as [E|E]; cbn [negb];
      intro H; [discriminate|exact E].
  - unfold get_vreg_by. destruct (N.eqb_spec (N.ldiff (wrap mask) q_mask) 0) as [E|E]; cbn [negb];
      intro H; [contradiction|reflexivity].
Qed.

(** ** classical registers *)
Lemma mask_of_num_small n : n < 64 -> mask_of_num n = N.ones n.
Proof.
  intro H. unfold mask_of_num. rewrite N.mod_small by exact H.
  rewrite wrap_mod, N.shiftl_1_l. unfold WORD. rewrite !N.ones_equiv.
  assert (H1 : 2 ^ n < 2 ^ 64) by (apply N.pow_lt_mono_r; lia).
  assert (H2 : 0 < 2 ^ n) by (apply N.neq_0_lt_0, N.pow_nonzero; discriminate).
  replace (2 ^ n + N.pred (2 ^ 64)) with (N.pred (2 ^ n) + 1 * 2 ^ 64) by lia.
  rewrite N.mod_add by (apply N.pow_nonzero; discriminate).
  apply N.mod_small. lia.
Qed.

Definition C20_creg_stmt : Prop :=
  forall (n : N), n < 64 ->
    forall (st : N),
    let c := creg_with_state n st in
    (* the value is always below 2^n, whatever initial value was asked for *)
    creg_get c = (st mod 2 ^ 64) mod 2 ^ n /\ creg_get c < 2 ^ n /\
    (* set / xor change exactly the given bits *)
    (forall c0 b m k, N.testbit (creg_get (creg_set c0 b m)) k =
                      if N.testbit (wrap m) k then b else N.testbit (creg_get c0) k) /\
    (forall c0 b m k, N.testbit (creg_get (creg_xor c0 b m)) k =
                      xorb (N.testbit (creg_get c0) k) (b && N.testbit (wrap m) k)) /\
    (* and keep the value inside the register when the mask is *)
    (forall c0 b m, creg_get c0 < 2 ^ n -> m < 2 ^ n ->
                    creg_get (creg_set c0 b m) < 2 ^ n /\ creg_get (creg_xor c0 b m) < 2 ^ n) /\
    (* the product concatenates: left factor in the low bits, sizes add *)
    (forall n2 st2, n + n2 < 64 ->
       exists c', creg_mul c (creg_with_state n2 st2) = Some c' /\
                  c_num c' = n + n2 /\
                  creg_get c' = creg_get c + 2 ^ n * creg_get (creg_with_state n2 st2)).

Lemma lt_pow2_bits x n : x < 2 ^ n <-> (forall k, n <= k -> N.testbit x k = false).
Proof.
  split.
  - intros H k Hk. eapply testbit_lt_pow2; eassumption.
  - intro H. destruct (N.eq_dec x 0) as [->|Hx]; [apply N.neq_0_lt_0, N.pow_nonzero; discriminate|].
    apply N.log2_lt_pow2; [lia|].
    destruct (N.lt_ge_cases (N.log2 x) n) as [L|L]; [exact L|].
    specialize (H (N.log2 x) L). rewrite N.bit_log2 in H by exact Hx. discriminate.
Qed.

Lemma C20_creg_proof : C20_creg_stmt.
Proof.
  intros n Hn st c. subst c.
  assert (Hv : creg_get (creg_with_state n st) = (st mod 2 ^ 64) mod 2 ^ n).
  { unfold creg_get, creg_with_state. cbn [c_value]. rewrite mask_of_num_small by exact Hn.
    rewrite N.land_ones, wrap_mod. reflexivity. }
  repeat split.
  - exact Hv.
  - rewrite Hv. apply N.mod_lt. apply N.pow_nonzero. discriminate.
  - intros c0 b m k. unfold creg_get, creg_set. cbn [c_value].
    destruct b; [rewrite N.lor_spec|rewrite N.ldiff_spec]; destruct (N.testbit (wrap m) k), (N.testbit (c_value c0) k); reflexivity.
  - intros c0 b m k. unfold creg_get, creg_xor. cbn [c_value].
    destruct b; [rewrite N.lxor_spec|]; destruct (N.testbit (wrap m) k), (N.testbit (c_value c0) k); reflexivity.
  - unfold creg_get, creg_set in *. cbn [c_value]. apply lt_pow2_bits. intros k Hk.
    assert (Hm : N.testbit (wrap m) k = false).
    { unfold wrap. rewrite N.land_spec. rewrite (proj1 (lt_pow2_bits m n) H0 k Hk). reflexivity. }
    destruct b; [rewrite N.lor_spec|rewrite N.ldiff_spec]; rewrite Hm, (proj1 (lt_pow2_bits _ n) H k Hk); reflexivity.
  - unfold creg_get, creg_xor in *. cbn [c_value]. apply lt_pow2_bits. intros k Hk.
    assert (Hm : N.testbit (wrap m) k = false).
    { unfold wrap. rewrite N.land_spec. rewrite (proj1 (lt_pow2_bits m n) H0 k Hk). reflexivity. }
    destruct b; [rewrite N.lxor_spec, Hm|]; rewrite (proj1 (lt_pow2_bits _ n) H k Hk); reflexivity.
  - intros n2 st2 Hs.
    assert (Hn2 : n2 < 64) by lia.
    set (a := creg_with_state n st). set (b := creg_with_state n2 st2).
    assert (Ha : creg_get a < 2 ^ n) by (unfold a; rewrite Hv; apply N.mod_lt, N.pow_nonzero; discriminate).
    assert (Hb : creg_get b < 2 ^ n2).
    { unfold b, creg_get, creg_with_state. cbn [c_value]. rewrite mask_of_num_small by exact Hn2.
      rewrite N.land_ones. apply N.mod_lt, N.pow_nonzero. discriminate. }
    unfold creg_mul. change (c_num a) with n. change (c_num b) with n2.
    rewrite (N.mod_small n 256) by lia.
    destruct (N.leb_spec 64 n) as [L|L]; [lia|].
    eexists. split; [reflexivity|]. split; [reflexivity|].
    unfold creg_get in *. unfold creg_with_state at 1. cbn [c_value].
    rewrite mask_of_num_small by exact Hs.
    assert (Hsh : N.shiftl (c_value b) n < 2 ^ (n + n2)).
    { rewrite N.shiftl_mul_pow2, N.pow_add_r, N.mul_comm. apply N.mul_lt_mono_pos_l; [|exact Hb].
      apply N.neq_0_lt_0, N.pow_nonzero. discriminate. }
    assert (Hw : wrap (N.shiftl (c_value b) n) = N.shiftl (c_value b) n).
    { rewrite wrap_mod. apply N.mod_small. eapply N.lt_trans; [exact Hsh|]. apply N.pow_lt_mono_r; lia. }
    rewrite Hw.
    assert (Hdis : N.land (c_value a) (N.shiftl (c_value b) n) = 0).
    { apply N.bits_inj. intro k. rewrite N.land_spec, N.bits_0.
      destruct (N.lt_ge_cases k n) as [Lk|Lk].
      - rewrite N.shiftl_spec_low by exact Lk. apply andb_false_r.
      - rewrite (proj1 (lt_pow2_bits _ n) Ha k Lk). reflexivity. }
    rewrite <- N.lxor_lor by exact Hdis. rewrite <- N.add_nocarry_lxor by exact Hdis.
    assert (Hsum : c_value a + N.shiftl (c_value b) n < 2 ^ (n + n2)).
    { rewrite N.shiftl_mul_pow2, N.pow_add_r.
      assert (c_value b + 1 <= 2 ^ n2) by lia.
      assert (2 ^ n * (c_value b + 1) <= 2 ^ n * 2 ^ n2) by (apply N.mul_le_mono_l; assumption). lia. }
    rewrite wrap_mod, N.mod_small by (eapply N.lt_trans; [exact Hsum|]; apply N.pow_lt_mono_r; lia).
    rewrite N.land_ones, N.mod_small by exact Hsum.
    rewrite N.shiftl_mul_pow2. lia.
Qed.

(** ** what the unrepaired code did (witnesses) *)
Definition C20_legacy_stmt : Prop :=
  (* with the top bit set the old iterator reaches pos = 0, a state that never yields and never stops *)
  (forall fuel, bits_iter_next_legacy fuel {| bi_bits := 2 ^ 63; bi_pos := 0 |} = OutOfFuel) /\
  bits_iter_list_legacy (2 ^ 63) = None /\
  (* the old constructor kept bits beyond the register *)
  creg_get (creg_with_state_legacy 4 255) = 255.

Lemma C20_legacy_proof : C20_legacy_stmt.
Proof.
  split; [|split].
  - intro fuel. apply legacy_stuck. discriminate.
  - vm_compute. reflexivity.
  - reflexivity.
Qed.
