(** * C11T: measure, if, reset and barrier *)
From Coq Require Import Reals Lra Lia String Ascii ZArith.
From QV Require Import Interp InterpP Sym Reg ScalarR BitsP BitsIterP VecP C14T C20T RegP C06T.
Open Scope N_scope.
Open Scope list_scope.

(** ** how the statements are laid out in the block queue (any scalar instance) *)
Definition C11_blocks_stmt : Prop :=
  forall (F : Type) (OP : ops F) (base ch : @int F),
    (* barrier changes nothing *)
    (forall a, process_node1 OP base ch (NBarrier a) = IOk ch) /\
    (* a guarded gate sits alone in its own block, closed under the condition, wherever it stands:
       whatever was open before is closed as an unconditional block first *)
    (forall lhs v name regs args ch', process_node1 OP base ch (NIf lhs v (NApply name regs args)) = IOk ch' ->
       exists val o,
         get_c_idx base ch (Register lhs) = IOk val /\
         let before := ext_branch (i_ops ch) SNop in
         open before = [] /\
         (open (i_ops ch) = [] -> blocks before = blocks (i_ops ch)) /\
         (open (i_ops ch) <> [] -> blocks before = blocks (i_ops ch) ++ [(open (i_ops ch), SNop)]) /\
         (o <> [] -> blocks (i_ops ch') = blocks before ++ [(o, SIfBranch val (size_as_N v))] /\ open (i_ops ch') = []) /\
         (o = [] -> i_ops ch' = before)) /\
    (* measure and reset close the open block (even when empty) under their separator *)
    (forall q c ch', process_node1 OP base ch (NMeasure q c) = IOk ch' ->
       exists qm cm, get_q_idx base ch q = IOk qm /\ get_c_idx base ch c = IOk cm /\ popcount qm = popcount cm /\
                     blocks (i_ops ch') = blocks (i_ops ch) ++ [(open (i_ops ch), SMeasure qm cm)] /\ open (i_ops ch') = []) /\
    (forall a ch', process_node1 OP base ch (NReset a) = IOk ch' ->
       exists qm, get_q_idx base ch a = IOk qm /\
                  blocks (i_ops ch') = blocks (i_ops ch) ++ [(open (i_ops ch), SReset qm)] /\ open (i_ops ch') = []).

Lemma ext_branch_open {F} (o : @extop F) s : open (ext_branch o s) = [].
Proof. unfold ext_branch. destruct (open o) eqn:E; [exact E|reflexivity]. Qed.

Lemma C11_blocks_proof : C11_blocks_stmt.
Proof.
  intros F OP base ch. repeat split.
  - intros lhs v name regs args ch' H. cbn [process_node1] in H.
    apply ibind_ok in H. destruct H as [val [Hv H]]. apply ibind_ok in H. destruct H as [ch2 [H2 H]].
    injection H as <-.
    unfold process_apply in H2.
    apply ibind_ok in H2. destruct H2 as [rv [_ H2]]. apply ibind_ok in H2. destruct H2 as [av [_ H2]].
    apply ibind_ok in H2. destruct H2 as [o [_ H2]]. injection H2 as <-.
    exists val, o. split; [exact Hv|]. cbv zeta. split; [apply ext_branch_open|]. repeat split.
    + intro E. unfold ext_branch. rewrite E. reflexivity.
    + intro E. unfold ext_branch. destruct (open (i_ops ch)); [contradiction|reflexivity].
    + cbn [set_ops i_ops]. unfold ext_branch at 1. cbn [ext_push open blocks]. rewrite ext_branch_open. cbn [app].
      destruct o; [contradiction|]. reflexivity.
    + cbn [set_ops i_ops]. unfold ext_branch at 1. cbn [ext_push open blocks]. rewrite ext_branch_open. cbn [app].
      destruct o; [contradiction|]. reflexivity.
    + intros ->. cbn [set_ops i_ops]. unfold ext_branch at 1. cbn [ext_push open blocks]. rewrite ext_branch_open. cbn [app].
      destruct (ext_branch (i_ops ch) SNop) as [bl op] eqn:E.
      assert (Ho : op = []) by (generalize (ext_branch_open (i_ops ch) SNop); rewrite E; exact (fun x => x)).
      subst op. reflexivity.
  - intros q c ch' H. cbn [process_node1] in H.
    apply ibind_ok in H. destruct H as [qm [Hq H]]. apply ibind_ok in H. destruct H as [cm [Hc H]].
    destruct (N.eqb_spec (popcount qm) (popcount cm)) as [E|E]; cbn [negb] in H; [|discriminate].
    injection H as <-. exists qm, cm. repeat split; assumption.
  - intros a ch' H. cbn [process_node1] in H.
    apply ibind_ok in H. destruct H as [qm [Hq H]]. injection H as <-. exists qm. repeat split; assumption.
Qed.

(** ** what the blocks do when executed (real instance) *)
Notation run := (run_blocks Rops E15 E9).

(** a guarded block is executed exactly when the register's bits, compacted in ascending order,
    equal the value; an unconditional block always; nothing else happens to the state *)
Definition C11_if_stmt : Prop :=
  forall xor (r : qreg R) (c : creg) o cmask v rest draws got,
    creg_get_by_mask c cmask = Some got ->
    run xor r c ((o, SIfBranch cmask v) :: rest) draws =
    run xor (if N.eqb got v then reg_apply Rops r o else r) c rest draws /\
    run xor r c ((o, SNop) :: rest) draws = run xor (reg_apply Rops r o) c rest draws.

Lemma C11_if_proof : C11_if_stmt.
Proof. intros xor r c o cmask v rest draws got H. cbn [run_blocks]. rewrite H. split; reflexivity. Qed.

(** measure: each measured qubit's outcome goes to the paired classical bit (overwritten, or
    XOR-ed in the accumulate mode); every other classical bit is left alone *)
Definition C11_measure_stmt : Prop :=
  forall (c : creg) (value q cb : N) (qs cs : list N),
    (* one pair *)
    (forall k, N.testbit (creg_get (copy_bits false c value [q] [cb])) k =
               if N.testbit (wrap cb) k then negb (N.eqb (N.land value q) 0) else N.testbit (creg_get c) k) /\
    (forall k, N.testbit (creg_get (copy_bits true c value [q] [cb])) k =
               xorb (N.testbit (creg_get c) k) (negb (N.eqb (N.land value q) 0) && N.testbit (wrap cb) k)) /\
    (* any number of pairs: bits outside the paired classical bits are unchanged, in both modes *)
    (forall xor k, (forall x, In x cs -> N.testbit (wrap x) k = false) ->
               N.testbit (creg_get (copy_bits xor c value qs cs)) k = N.testbit (creg_get c) k).

Lemma C11_measure_proof : C11_measure_stmt.
Proof.
  intros c value q cb qs cs. destruct (C20_creg_proof 0 ltac:(lia) 0) as [_ [_ [Hset [Hxor _]]]].
  repeat split.
  - intro k. cbn [copy_bits]. apply Hset.
  - intro k. cbn [copy_bits]. apply Hxor.
  - intros xor k. revert c qs. induction cs as [|x cs IH]; intros c qs H.
    + destruct qs; reflexivity.
    + destruct qs as [|q0 qs]; [reflexivity|]. cbn [copy_bits].
      rewrite IH by (intros y Hy; apply H; right; exact Hy).
      destruct xor; [rewrite Hxor|rewrite Hset]; rewrite (H x (or_introl eq_refl)); [|reflexivity].
      rewrite Bool.andb_false_r. apply Bool.xorb_false_r.
Qed.

(** reset: after the block the named qubits are in |0>: every amplitude whose index has one of
    them set is exactly zero (for outcomes above normalize's reset threshold) *)
Definition C11_reset_stmt : Prop :=
  forall (r : qreg R) (qm drawn : N),
    shaped r -> q_num r < 64 -> drawn < 2 ^ 64 ->
    let m := N.land qm (q_mask r) in
    m <> 0 ->
    (E15 < sqrt (reg_absolute Rops (reg_collapse Rops r drawn m)))%R ->
    let '(r2, res) := reg_measure Rops E15 E9 r qm drawn in
    let r3 := reg_apply Rops r2 (op_x (creg_get res)) in
    q_num r3 = q_num r /\
    forall idx, N.land idx m <> 0 -> get Rops (q_psi r3) idx = c0 Rops.

Lemma land_lxor_sub idx d m : N.land (N.lxor (N.lxor idx (N.land d m)) d) m = N.land idx m.
Proof.
  apply N.bits_inj. intro k. rewrite !N.land_spec, !N.lxor_spec, N.land_spec.
  destruct (N.testbit idx k), (N.testbit d k), (N.testbit m k); reflexivity.
Qed.

Lemma C11_reset_proof : C11_reset_stmt.
Proof.
  intros r qm drawn Hs Hn Hd m Hm Hnd.
  destruct (reg_measure Rops E15 E9 r qm drawn) as [r2 res] eqn:E.
  assert (Hproj := C06_projection_proof r qm drawn Hm Hnd). cbv zeta in Hproj. rewrite E in Hproj. cbn [fst] in Hproj.
  destruct Hproj as [Hnum [Hlen [t [Ht Hget]]]]. fold m in Hget.
  assert (Hout := C06_outcome_proof r qm drawn). cbv zeta in Hout. rewrite E in Hout. cbn [snd] in Hout.
  destruct Hout as [_ Hval]. destruct Hs as [Hl Hmask]. specialize (Hval Hn Hd Hmask). fold m in Hval.
  split; [cbn [reg_apply q_num]; exact Hnum|].
  intros idx Hidx. cbn [reg_apply q_psi]. rewrite Hval.
  unfold op_x, multi_of_single. cbn [single_of s_func multi_apply fold_left].
  unfold single_apply. cbn [s_ctrl s_func single_of single_fn N.eqb kernel].
  destruct (Nat.ltb_spec (N.to_nat idx) (length (q_psi r2))) as [L|L].
  - rewrite get_tab by exact L. unfold single_fn, single_of. cbn [s_ctrl s_func N.eqb kernel].
    rewrite Hget. unfold consistent. rewrite land_lxor_sub.
    destruct (N.eqb_spec (N.land idx m) 0); [contradiction|reflexivity].
  - apply get_tab_out. exact L.
Qed.
