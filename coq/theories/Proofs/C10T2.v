(** * C10T2: a call of a user-defined gate is the expansion of its body, formal qubits and
    parameters replaced by the actual ones -- also when nested and when a definition shadows a
    built-in name *)
From Coq Require Import Lia String Ascii ZArith List.
From QV Require Import Interp.
Import ListNotations.
Open Scope string_scope.
Open Scope list_scope.

Section C10T2.
  Context {F : Type} (OP : ops F).
  Local Notation multi := (multi F).
  Local Notation macro := (@macro F).
  Local Notation pexpr := (@pexpr F).
  Local Notation item := (ident * list arg * list pexpr)%type.

  (** ** the reference notion of substitution *)

  (** the actual standing at the position of the formal [k] *)
  Fixpoint actual_of {A} (formals : list ident) (actuals : list A) (k : ident) : option A :=
    match formals, actuals with
    | f :: fs, a :: rest => if String.eqb f k then Some a else actual_of fs rest k
    | _, _ => None
    end.

  (** the expression with every formal parameter replaced by the actual value *)
  Fixpoint psubst (fp : list ident) (ap : list F) (e : pexpr) : pexpr :=
    match e with
    | PNum x => PNum x
    | PVar v => match actual_of fp ap v with Some x => PNum x | None => PVar v end
    | PNeg a => PNeg (psubst fp ap a)
    | PAdd a b => PAdd (psubst fp ap a) (psubst fp ap b)
    | PSub a b => PSub (psubst fp ap a) (psubst fp ap b)
    | PMul a b => PMul (psubst fp ap a) (psubst fp ap b)
    | PDiv a b => PDiv (psubst fp ap a) (psubst fp ap b)
    | PPow a b => PPow (psubst fp ap a) (psubst fp ap b)
    | PFun f args => PFun f (map (psubst fp ap) args)
    end.

  (** [expands macros name regs args o]: the gate [name] applied to the qubit masks [regs] with the
      parameter values [args] is the operator queue [o] -- a built-in gate when no definition of
      that name exists, else the concatenation, in body order, of the expansions of the body's
      statements with formals replaced by actuals *)
  Inductive expands (macros : list (ident * macro)) : ident -> list N -> list F -> multi -> Prop :=
  | X_builtin name regs args o :
      lookup name macros = None -> gates_process OP name regs args = IOk o ->
      expands macros name regs args o
  | X_macro name m regs args o :
      lookup name macros = Some m ->
      length regs = length (m_regs m) -> length args = length (m_params m) ->
      expands_body macros (m_regs m) regs (m_params m) args (m_body m) o ->
      expands macros name regs args o
  with expands_body (macros : list (ident * macro))
       : list ident -> list N -> list ident -> list F -> list item -> multi -> Prop :=
  | XB_nil fr ar fp ap : expands_body macros fr ar fp ap [] []
  | XB_cons fr ar fp ap name_i regs_i args_i rest regs_v args_v o os :
      Forall2 (fun a v => actual_of fr ar (arg_name a) = Some v) regs_i regs_v ->
      Forall2 (fun e x => peval OP [] (psubst fp ap e) = PVal x) args_i args_v ->
      expands macros name_i regs_v args_v o ->
      expands_body macros fr ar fp ap rest os ->
      expands_body macros fr ar fp ap ((name_i, regs_i, args_i) :: rest) (o ++ os).

  (** ** lookups *)

  Lemma lookup_nil {A} k : @lookup A k [] = None.
  Proof. reflexivity. Qed.

  Lemma lookup_cons {A} k k' (v : A) l :
    lookup k ((k', v) :: l) = if String.eqb k' k then Some v else lookup k l.
  Proof. unfold lookup. cbn [find fst snd]. destruct (String.eqb k' k); reflexivity. Qed.

  Lemma lookup_app {A} k (l1 l2 : list (ident * A)) :
    lookup k (l1 ++ l2) = match lookup k l1 with Some v => Some v | None => lookup k l2 end.
  Proof.
    induction l1 as [|[k' v] l1 IH]; [reflexivity|].
    cbn [app]. rewrite !lookup_cons. destruct (String.eqb k' k); [reflexivity|exact IH].
  Qed.

  Lemma lookup_none_notin {A} k (l : list (ident * A)) : lookup k l = None -> ~ In k (map fst l).
  Proof.
    induction l as [|[k' v] l IH]; intros H Hin; [exact Hin|].
    rewrite lookup_cons in H. destruct (String.eqb_spec k' k) as [E|E]; [discriminate|].
    cbn [map fst In] in Hin. destruct Hin as [E'|Hin]; [contradiction|]. exact (IH H Hin).
  Qed.

  Lemma lookup_notin_none {A} k (l : list (ident * A)) : ~ In k (map fst l) -> lookup k l = None.
  Proof.
    induction l as [|[k' v] l IH]; intro H; [reflexivity|].
    rewrite lookup_cons. cbn [map fst In] in H.
    destruct (String.eqb_spec k' k) as [E|E]; [exfalso; apply H; left; exact E|].
    apply IH. intro Hin. apply H. right. exact Hin.
  Qed.

  (** with distinct keys the table may be read from either end *)
  Lemma lookup_rev_nodup {A} k (l : list (ident * A)) : NoDup (map fst l) -> lookup k (rev l) = lookup k l.
  Proof.
    induction l as [|[k' v] l IH]; intro Hnd; [reflexivity|].
    cbn [map fst] in Hnd. inversion Hnd as [|x xs Hnotin Hnd']; subst.
    cbn [rev]. rewrite lookup_app, lookup_cons, IH by exact Hnd'.
    destruct (String.eqb_spec k' k) as [E|E].
    - subst k'. rewrite (lookup_notin_none k l Hnotin). rewrite lookup_cons, String.eqb_refl. reflexivity.
    - rewrite lookup_cons. destruct (String.eqb_spec k' k); [contradiction|].
      rewrite lookup_nil. destruct (lookup k l); reflexivity.
  Qed.

  Lemma lookup_combine {A} (fs : list ident) (xs : list A) k : lookup k (combine fs xs) = actual_of fs xs k.
  Proof.
    revert xs. induction fs as [|f fs IH]; intros [|x xs]; try reflexivity.
    cbn [combine actual_of]. rewrite lookup_cons. destruct (String.eqb f k); [reflexivity|apply IH].
  Qed.

  Lemma map_fst_combine {A} (fs : list ident) (xs : list A) : length fs = length xs -> map fst (combine fs xs) = fs.
  Proof.
    revert xs. induction fs as [|f fs IH]; intros [|x xs] H; try reflexivity; try discriminate.
    cbn [combine map fst]. f_equal. apply IH. cbn [length] in H. lia.
  Qed.

  Lemma lookup_rev_combine {A} (fs : list ident) (xs : list A) k :
    NoDup fs -> length xs = length fs -> lookup k (rev (combine fs xs)) = actual_of fs xs k.
  Proof.
    intros Hnd Hlen. rewrite lookup_rev_nodup; [apply lookup_combine|].
    rewrite map_fst_combine by (symmetry; exact Hlen). exact Hnd.
  Qed.

  (** ** expressions: evaluating under the bindings = evaluating the substituted expression *)

  Section PexprInd.
    Variable P : pexpr -> Prop.
    Hypothesis Hnum : forall x, P (PNum x).
    Hypothesis Hvar : forall v, P (PVar v).
    Hypothesis Hneg : forall a, P a -> P (PNeg a).
    Hypothesis Hadd : forall a b, P a -> P b -> P (PAdd a b).
    Hypothesis Hsub : forall a b, P a -> P b -> P (PSub a b).
    Hypothesis Hmul : forall a b, P a -> P b -> P (PMul a b).
    Hypothesis Hdiv : forall a b, P a -> P b -> P (PDiv a b).
    Hypothesis Hpow : forall a b, P a -> P b -> P (PPow a b).
    Hypothesis Hfun : forall f args, Forall P args -> P (PFun f args).

    Fixpoint pexpr_ind2 (e : pexpr) : P e :=
      match e with
      | PNum x => Hnum x
      | PVar v => Hvar v
      | PNeg a => Hneg a (pexpr_ind2 a)
      | PAdd a b => Hadd a b (pexpr_ind2 a) (pexpr_ind2 b)
      | PSub a b => Hsub a b (pexpr_ind2 a) (pexpr_ind2 b)
      | PMul a b => Hmul a b (pexpr_ind2 a) (pexpr_ind2 b)
      | PDiv a b => Hdiv a b (pexpr_ind2 a) (pexpr_ind2 b)
      | PPow a b => Hpow a b (pexpr_ind2 a) (pexpr_ind2 b)
      | PFun f args =>
          Hfun f args ((fix go (l : list pexpr) : Forall P l :=
                          match l with
                          | [] => Forall_nil P
                          | x :: t => Forall_cons x (pexpr_ind2 x) (go t)
                          end) args)
      end.
  End PexprInd.

  Lemma peval_subst (ctx : list (ident * F)) fp ap :
    (forall k, lookup k ctx = actual_of fp ap k) ->
    forall e, peval OP ctx e = peval OP [] (psubst fp ap e).
  Proof.
    intros Hctx e. induction e as [x|v|a IHa|a b IHa IHb|a b IHa IHb|a b IHa IHb|a b IHa IHb|a b IHa IHb|f args IH]
      using pexpr_ind2;
      cbn [psubst peval]; try (rewrite ?IHa, ?IHb; reflexivity).
    - rewrite Hctx. destruct (actual_of fp ap v); [reflexivity|].
      cbn [peval]. rewrite lookup_nil. reflexivity.
    - generalize (@nil F) as acc. induction IH as [|a args Ha _ IHargs]; intro acc; [reflexivity|].
      cbn [map]. rewrite Ha. destruct (peval OP [] (psubst fp ap a)); cbn [pbind]; [apply IHargs|reflexivity].
  Qed.

  (** ** [imap] results *)

  Lemma imap_ok {A B} (f : A -> ires B) l vs : imap f l = IOk vs -> Forall2 (fun a v => f a = IOk v) l vs.
  Proof.
    revert vs. induction l as [|a l IH]; intros vs H; cbn [imap] in H.
    - injection H as <-. constructor.
    - destruct (f a) as [v|e|w] eqn:Ea; cbn [ibind] in H; try discriminate.
      destruct (imap f l) as [vs'|e|w]; cbn [ibind] in H; try discriminate.
      injection H as <-. constructor; [exact Ea|apply IH; reflexivity].
  Qed.

  Lemma Forall2_impl {A B} (P Q : A -> B -> Prop) l1 l2 :
    (forall a b, P a b -> Q a b) -> Forall2 P l1 l2 -> Forall2 Q l1 l2.
  Proof. intros H H2. induction H2; constructor; auto. Qed.

  (** ** soundness of [macro_process] *)

  Definition wf_formals (macros : list (ident * macro)) : Prop :=
    forall name m, lookup name macros = Some m -> NoDup (m_regs m) /\ NoDup (m_params m).

  Lemma macro_process_sound :
    forall fuel macros, wf_formals macros ->
    forall depth m name regs args o,
      lookup name macros = Some m ->
      macro_process OP fuel macros depth m name regs args = IOk o ->
      expands macros name regs args o.
  Proof.
    induction fuel as [|fuel IH]; intros macros Hwf depth m name regs args o Hm H; [discriminate|].
    cbn [macro_process] in H.
    destruct (Nat.leb (length macros) depth); [discriminate|].
    destruct (Nat.eqb_spec (length regs) (length (m_regs m))) as [Hr|]; cbn [negb] in H; [|discriminate].
    destruct (Nat.eqb_spec (length args) (length (m_params m))) as [Ha|]; cbn [negb] in H; [|discriminate].
    destruct (Hwf name m Hm) as [Hndr Hndp].
    apply (X_macro macros name m regs args o Hm Hr Ha).
    assert (G : forall body acc o',
              (fix go (body : list item) (acc : multi) {struct body} : ires multi :=
                 match body with
                 | [] => IOk acc
                 | (name_i, regs_i, args_i) :: rest =>
                     ibind (imap (fun a => match lookup (arg_name a) (rev (combine (m_regs m) regs)) with
                                           | Some v => IOk v | None => IPanic 1 end) regs_i)
                       (fun regs_v =>
                          ibind (imap (fun e => match peval OP (rev (combine (m_params m) args)) e with
                                                | PVal x => IOk x
                                                | PErr pe => IErr (UnevaluatedArgument name_i pe)
                                                end) args_i)
                            (fun args_v =>
                               ibind
                                 match lookup name_i macros with
                                 | Some m' =>
                                     if String.eqb name name_i then IErr (RecursiveMacro name_i)
                                     else macro_process OP fuel macros (S depth) m' name_i regs_v args_v
                                 | None => gates_process OP name_i regs_v args_v
                                 end (fun o0 => go rest (acc ++ o0))))
                 end) body acc = IOk o' ->
              exists os, o' = acc ++ os /\
                         expands_body macros (m_regs m) regs (m_params m) args body os).
    { induction body as [|[[name_i regs_i] args_i] rest IHb]; intros acc o' Hgo.
      - injection Hgo as <-. exists []. split; [symmetry; apply app_nil_r|constructor].
      - match type of Hgo with ibind ?r _ = _ => destruct r as [regs_v|e|w] eqn:Er end; cbn [ibind] in Hgo; try discriminate.
        match type of Hgo with ibind ?r _ = _ => destruct r as [args_v|e|w] eqn:Ea' end; cbn [ibind] in Hgo; try discriminate.
        match type of Hgo with ibind ?r _ = _ => destruct r as [o0|e|w] eqn:Eo end; cbn [ibind] in Hgo; try discriminate.
        destruct (IHb _ _ Hgo) as [os [-> Hos]].
        exists (o0 ++ os). split; [symmetry; apply app_assoc|].
        apply XB_cons with (regs_v := regs_v) (args_v := args_v).
        + apply imap_ok in Er. revert Er. apply Forall2_impl. intros a v Hv.
          rewrite lookup_rev_combine in Hv by (exact Hndr || exact Hr).
          destruct (actual_of (m_regs m) regs (arg_name a)); [|discriminate]. injection Hv as <-. reflexivity.
        + apply imap_ok in Ea'. revert Ea'. apply Forall2_impl. intros e x Hx.
          rewrite (peval_subst _ (m_params m) args) in Hx
            by (intro k; apply lookup_rev_combine; [exact Hndp|exact Ha]).
          destruct (peval OP [] (psubst (m_params m) args e)); [|discriminate]. injection Hx as <-. reflexivity.
        + destruct (lookup name_i macros) as [m'|] eqn:Em'.
          * destruct (String.eqb name name_i); [discriminate|].
            exact (IH macros Hwf (S depth) m' name_i regs_v args_v o0 Em' Eo).
          * apply X_builtin; assumption.
        + exact Hos. }
    destruct (G _ _ _ H) as [os [-> Hos]]. exact Hos.
  Qed.

  (** ** the statement level: a gate statement naming a defined gate pushes exactly the expansion *)

  Definition C10_macro_body (base ch : @int F) (name : ident) (regs : list arg) (args : list pexpr) (ch' : @int F) : Prop :=
    let macros := i_macros base ++ i_macros ch in
    exists regs_v args_v o,
      Forall2 (fun a v => get_q_idx base ch a = IOk v) regs regs_v /\
      Forall2 (fun e x => peval OP [] e = PVal x) args args_v /\
      expands macros name regs_v args_v o /\
      ch' = set_ops ch (ext_push (i_ops ch) o).

  Lemma process_apply_expands (base ch ch' : @int F) name regs args :
    NoDup (map fst (i_macros base ++ i_macros ch)) -> wf_formals (i_macros base ++ i_macros ch) ->
    process_apply OP base ch name regs args = IOk ch' ->
    C10_macro_body base ch name regs args ch'.
  Proof.
    intros Hnd Hwf H. unfold process_apply in H.
    destruct (imap (get_q_idx base ch) regs) as [regs_v|e|w] eqn:Er; cbn [ibind] in H; try discriminate.
    match type of H with ibind ?r _ = _ => destruct r as [args_v|e|w] eqn:Ea end; cbn [ibind] in H; try discriminate.
    match type of H with ibind ?r _ = _ => destruct r as [o|e|w] eqn:Eo end; cbn [ibind] in H; try discriminate.
    injection H as <-. exists regs_v, args_v, o. repeat split.
    - apply imap_ok. exact Er.
    - apply imap_ok in Ea. revert Ea. apply Forall2_impl. intros e x Hx.
      destruct (peval OP [] e); [|discriminate]. injection Hx as <-. reflexivity.
    - rewrite lookup_rev_nodup in Eo by exact Hnd.
      destruct (lookup name (i_macros base ++ i_macros ch)) as [m|] eqn:Em.
      + exact (macro_process_sound _ _ Hwf 0%nat m name regs_v args_v o Em Eo).
      + apply X_builtin; assumption.
  Qed.
  Lemma NoDup_app_one {A} (l : list A) x : NoDup l -> ~ In x l -> NoDup (l ++ [x]).
  Proof.
    intros Hnd Hx. induction l as [|y l IH]; cbn [app]; [constructor; [intros []|constructor]|].
    inversion Hnd as [|z zs Hy Hnd']; subst. constructor.
    - rewrite in_app_iff. intros [Hin|[->|[]]]; [exact (Hy Hin)|apply Hx; left; reflexivity].
    - apply IH; [exact Hnd'|]. intro Hin. apply Hx. right. exact Hin.
  Qed.

  (** ** the hypotheses are session invariants: a gate name is defined at most once (a duplicate
      definition is refused), and a table of definitions with distinct formals stays one as long as
      the added definitions have distinct formals *)

  Definition distinct_formals (n : @node F) : Prop :=
    match n with NGate _ regs params _ => NoDup regs /\ NoDup params | _ => True end.

  Definition table_ok (macros : list (ident * macro)) : Prop := NoDup (map fst macros) /\ wf_formals macros.

  Lemma macro_new_formals regs params body m : macro_new OP regs params body = IOk m -> m_regs m = regs /\ m_params m = params.
  Proof.
    unfold macro_new. destruct (imap _ body); cbn [ibind]; try discriminate.
    intro H. injection H as <-. split; reflexivity.
  Qed.

  Lemma process_apply_macros base ch name regs args ch' :
    process_apply OP base ch name regs args = IOk ch' -> i_macros ch' = i_macros ch.
  Proof.
    unfold process_apply.
    destruct (imap (get_q_idx base ch) regs); cbn [ibind]; try discriminate.
    match goal with |- ibind ?r _ = _ -> _ => destruct r end; cbn [ibind]; try discriminate.
    match goal with |- ibind ?r _ = _ -> _ => destruct r end; cbn [ibind]; try discriminate.
    intro H. injection H as <-. reflexivity.
  Qed.

  Lemma table_ok_step base ch n ch' :
    distinct_formals n ->
    table_ok (i_macros base ++ i_macros ch) ->
    process_node1 OP base ch n = IOk ch' ->
    table_ok (i_macros base ++ i_macros ch').
  Proof.
    intros Hn Hok H. destruct n; cbn [process_node1] in H.
    - unfold process_qreg in H. repeat (match type of H with ibind ?r _ = _ => destruct r; cbn [ibind] in H; try discriminate end).
      injection H as <-. exact Hok.
    - unfold process_creg in H. repeat (match type of H with ibind ?r _ = _ => destruct r; cbn [ibind] in H; try discriminate end).
      injection H as <-. exact Hok.
    - injection H as <-. exact Hok.
    - destruct (get_q_idx base ch a); cbn [ibind] in H; try discriminate. injection H as <-. exact Hok.
    - destruct (get_q_idx base ch q); cbn [ibind] in H; try discriminate.
      destruct (get_c_idx base ch c); cbn [ibind] in H; try discriminate.
      destruct (negb _); [discriminate|]. injection H as <-. exact Hok.
    - rewrite (process_apply_macros _ _ _ _ _ _ H). exact Hok.
    - injection H as <-. exact Hok.
    - unfold process_gate in H.
      destruct (macro_new OP regs params body) as [m| |] eqn:Em; cbn [ibind] in H; try discriminate.
      destruct (has_macro name base) eqn:Hb; cbn [orb] in H; [discriminate|].
      destruct (has_macro name ch) eqn:Hc; [discriminate|].
      destruct (check_ident name); cbn [ibind] in H; try discriminate.
      injection H as <-. cbn [i_macros].
      unfold has_macro in Hb, Hc.
      destruct (lookup name (i_macros base)) eqn:Lb; [discriminate|].
      destruct (lookup name (i_macros ch)) eqn:Lc; [discriminate|].
      destruct Hok as [Hnd Hwf]. rewrite app_assoc. split.
      + rewrite map_app. cbn [map fst]. apply NoDup_app_one; [exact Hnd|].
        apply lookup_none_notin. rewrite lookup_app, Lb. exact Lc.
      + intros k m' Hk. rewrite lookup_app in Hk.
        destruct (lookup k (i_macros base ++ i_macros ch)) eqn:Lk.
        * injection Hk as <-. exact (Hwf k _ Lk).
        * rewrite lookup_cons, lookup_nil in Hk. destruct (String.eqb name k); [|discriminate].
          injection Hk as <-. destruct (macro_new_formals _ _ _ _ Em) as [-> ->]. exact Hn.
    - destruct n; try discriminate.
      match type of H with ibind ?r _ = _ => destruct r; cbn [ibind] in H; try discriminate end.
      match type of H with ibind ?r _ = _ => destruct r as [c2| |] eqn:E2; cbn [ibind] in H; try discriminate end.
      injection H as <-. cbn [set_ops i_macros].
      rewrite (process_apply_macros _ _ _ _ _ _ E2). exact Hok.
  Qed.

  Lemma table_ok_nodes base nodes : forall ch ch',
    Forall distinct_formals nodes ->
    table_ok (i_macros base ++ i_macros ch) ->
    process_nodes OP base ch nodes = IOk ch' ->
    table_ok (i_macros base ++ i_macros ch').
  Proof.
    induction nodes as [|n nodes IH]; intros ch ch' Hall Hok H; cbn [process_nodes] in H.
    - injection H as <-. exact Hok.
    - inversion Hall as [|x xs Hn Hrest]; subst.
      destruct (process_node1 OP base ch n) as [c1| |] eqn:E1; cbn [ibind] in H; try discriminate.
      exact (IH c1 ch' Hrest (table_ok_step base ch n c1 Hn Hok E1) H).
  Qed.
End C10T2.

(** the table invariant of a session: gate names are defined once (a duplicate is refused) *)
Definition C10_macro_stmt : Prop :=
  forall (F : Type) (OP : ops F),
    (* in a session whose gate table holds each name once, with distinct formals, a gate statement
       that is accepted pushes exactly the expansion of the named gate on the resolved arguments *)
    (forall (base ch ch' : @int F) (name : ident) (regs : list arg) (args : list (@pexpr F)),
       table_ok (i_macros base ++ i_macros ch) ->
       process_apply OP base ch name regs args = IOk ch' ->
       C10_macro_body OP base ch name regs args ch') /\
    (* and every session reached by accepted statements whose gate definitions have distinct formals
       has such a table (duplicate gate names are refused) *)
    (forall (base ch ch' : @int F) (nodes : list (@node F)),
       Forall distinct_formals nodes ->
       table_ok (i_macros base ++ i_macros ch) ->
       process_nodes OP base ch nodes = IOk ch' ->
       table_ok (i_macros base ++ i_macros ch')) /\
    table_ok (i_macros (@int_empty F) ++ i_macros (@int_empty F)).

Lemma C10_macro_proof : C10_macro_stmt.
Proof.
  intros F OP. split; [|split].
  - intros base ch ch' name regs args [Hnd Hwf]. apply process_apply_expands; assumption.
  - intros base ch ch' nodes. apply table_ok_nodes.
  - split; [constructor|]. intros k m H. discriminate.
Qed.

(** the hypotheses are satisfiable: a user gate [x] that shadows the built-in (defined as [h]), called
    from a second user gate with permuted formals and a parameter expression *)
From Coq Require Import Reals.
From QV Require Import ScalarR.

Definition ex_mx : @macro R := {| m_regs := ["a"]; m_params := []; m_body := [("h", [Register "a"], [])] |}.
Definition ex_mg : @macro R :=
  {| m_regs := ["p"; "q"]; m_params := ["t"];
     m_body := [("x", [Register "q"], []); ("rz", [Register "p"], [PMul (PVar "t") (PNum 2%R)])] |}.
Definition ex_table := [("x", ex_mx); ("g", ex_mg)].

Example C10_macro_example (theta : R) :
  table_ok ex_table /\
  exists o_h o_rz,
    gates_process Rops "h" [2%N] [] = IOk o_h /\
    gates_process Rops "rz" [1%N] [(theta * 2)%R] = IOk o_rz /\
    macro_process Rops (MACRO_FUEL ex_table) ex_table 0 ex_mg "g" [1%N; 2%N] [theta] = IOk (o_h ++ o_rz) /\
    expands Rops ex_table "g" [1%N; 2%N] [theta] (o_h ++ o_rz).
Proof.
  assert (Hok : table_ok ex_table).
  { split.
    - cbn. repeat constructor; cbn; intuition discriminate.
    - intros k m H. unfold ex_table in H. rewrite !lookup_cons, lookup_nil in H.
      destruct (String.eqb "x" k); [injection H as <-; split; repeat constructor; cbn; intuition discriminate|].
      destruct (String.eqb "g" k); [injection H as <-; split; repeat constructor; cbn; intuition discriminate|discriminate]. }
  split; [exact Hok|].
  assert (E : exists o_h o_rz,
             gates_process Rops "h" [2%N] [] = IOk o_h /\
             gates_process Rops "rz" [1%N] [(theta * 2)%R] = IOk o_rz /\
             macro_process Rops (MACRO_FUEL ex_table) ex_table 0 ex_mg "g" [1%N; 2%N] [theta] = IOk (o_h ++ o_rz)).
  { do 2 eexists. split; [|split]; lazy; reflexivity. }
  destruct E as [o_h [o_rz [Eh [Erz Em]]]]. exists o_h, o_rz. repeat split; try assumption.
  apply (macro_process_sound Rops _ ex_table (proj2 Hok) 0%nat ex_mg "g" _ _ _ eq_refl Em).
Qed.
