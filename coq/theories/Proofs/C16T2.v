(** * C16T2: the surplus loop of the histogram sampler terminates.

    [remove_surplus] walks the cells cyclically ([idx & mask]) and takes one shot from every
    non-empty cell it meets until the surplus is gone.  With 2^n cells and mask 2^n - 1 every
    window of 2^n consecutive steps visits every cell, so a non-empty cell is met within 2^n
    steps as long as shots are left: the model's fuel is never exhausted. *)
From Coq Require Import Reals Lra Lia ZArith.
From QV Require Import Reg ScalarR BitsP VecP C14T RegP C16T.
Open Scope N_scope.

Section Cyclic.
  Variable n : nat.
  Let L : N := 2 ^ N.of_nat n.
  Let len : nat := Nat.pow 2 n.
  Let mask : N := N.ones (N.of_nat n).

  Lemma L_len : N.of_nat len = L.
  Proof. unfold L, len. induction n as [|k IH]; [reflexivity|]. rewrite Nnat.Nat2N.inj_succ, N.pow_succ_r', <- IH. cbn [Nat.pow]. lia. Qed.

  Lemma L_pos : 0 < L.
  Proof. unfold L. apply N.neq_0_lt_0. apply N.pow_nonzero. discriminate. Qed.

  Definition pos (s : N) (i : nat) : nat := N.to_nat (N.land (s + N.of_nat i) mask).

  Lemma pos_mod s i : pos s i = N.to_nat ((s + N.of_nat i) mod L).
  Proof. unfold pos, mask, L. rewrite N.land_ones. reflexivity. Qed.

  (** every cell is visited within a window of [len] steps *)
  Lemma cover s t : (t < len)%nat -> exists i, (i < len)%nat /\ pos s i = t.
  Proof.
    intro Ht. assert (HL := L_pos). assert (HT : N.of_nat t < L) by (rewrite <- L_len; lia).
    set (S := s mod L). assert (HS : S < L) by (apply N.mod_lt; lia).
    exists (N.to_nat ((N.of_nat t + L - S) mod L)). split.
    - assert (H : (N.of_nat t + L - S) mod L < L) by (apply N.mod_lt; lia). assert (E := L_len). lia.
    - rewrite pos_mod, Nnat.N2Nat.id.
      rewrite N.add_mod_idemp_r by lia.
      assert (D := N.div_mod s L ltac:(lia)). fold S in D.
      replace (s + (N.of_nat t + L - S)) with (N.of_nat t + (s / L + 1) * L) by nia.
      rewrite N.mod_add by lia. rewrite N.mod_small by exact HT. apply Nnat.Nat2N.id.
  Qed.

  Lemma sumN_zero (l : list N) : (forall t, (t < length l)%nat -> nth t l 0 = 0) -> sumN l = 0.
  Proof.
    induction l as [|x l IH]; intro H; [reflexivity|]. rewrite sumN_cons.
    assert (H0 := H 0%nat). cbn [nth length] in H0. rewrite H0 by lia. rewrite IH; [reflexivity|].
    intros t Ht. apply (H (S t)). cbn [length]. lia.
  Qed.

  Lemma window_zero cells s : length cells = len ->
    (forall i, (i < len)%nat -> nth (pos s i) cells 0 = 0) -> sumN cells = 0.
  Proof.
    intros Hl H. apply sumN_zero. intros t Ht. rewrite Hl in Ht.
    destruct (cover s t Ht) as [i [Hi <-]]. apply H. exact Hi.
  Qed.

  Lemma surplus_terminates : forall fuel cells delta s j,
    length cells = len -> delta <= sumN cells ->
    (forall i, (i < j)%nat -> nth (pos s i) cells 0 = 0) ->
    (N.to_nat delta * len + (len - j) < fuel)%nat ->
    exists out, remove_surplus fuel cells delta (s + N.of_nat j) mask = Some out.
  Proof.
    induction fuel as [|fuel IH]; intros cells delta s j Hl Hd Hz Hf; [lia|].
    cbn [remove_surplus]. destruct (N.eqb_spec delta 0) as [E|E]; [eexists; reflexivity|].
    fold (pos s j).
    assert (Hj : (j < len)%nat).
    { destruct (Nat.lt_ge_cases j len) as [Lt|Ge]; [exact Lt|]. exfalso.
      assert (Z := window_zero cells s Hl (fun i Hi => Hz i ltac:(lia))). lia. }
    destruct (N.eqb_spec (nth (pos s j) cells 0) 0) as [Z|Z].
    - replace (N.succ (s + N.of_nat j)) with (s + N.of_nat (S j)) by lia.
      apply IH; try assumption.
      + intros i Hi. destruct (Nat.eq_dec i j) as [->|Hne]; [exact Z|apply Hz; lia].
      + lia.
    - assert (Hi : (pos s j < length cells)%nat).
      { destruct (Nat.lt_ge_cases (pos s j) (length cells)); [assumption|]. rewrite nth_overflow in Z by assumption. congruence. }
      replace (N.succ (s + N.of_nat j)) with ((s + N.of_nat (S j)) + N.of_nat 0) by lia.
      apply IH.
      + rewrite set_nth_length. exact Hl.
      + generalize (set_nth_sum cells (pos s j) (nth (pos s j) cells 0 - 1) Hi). lia.
      + intros i Hi0. lia.
      + assert (N.to_nat (delta - 1) = N.to_nat delta - 1)%nat by lia.
        assert (1 <= N.to_nat delta)%nat by lia. nia.
  Qed.
End Cyclic.

(** the histogram sampler never runs out of fuel on a 2^n-cell register -- for the cells the model
    rounds, and for any other 2^n rounded cells (a parallel reduction may round the sum of draws differently) *)
Definition C16_terminates_stmt : Prop :=
  forall (n : nat) (p : list R) (count : N),
    length p = Nat.pow 2 n ->
    (forall nv, length p = length nv ->
       exists cells, sample_cells Rops p nv count (N.ones (N.of_nat n)) = Some cells) /\
    (forall raw, length raw = Nat.pow 2 n ->
       exists cells, correct_cells Rops p raw count (N.ones (N.of_nat n)) = Some cells).

Lemma C16_terminates_proof : C16_terminates_stmt.
Proof.
  intros n p count Hp.
  assert (G : forall raw, length raw = Nat.pow 2 n ->
                exists cells, correct_cells Rops p raw count (N.ones (N.of_nat n)) = Some cells).
  { intros raw Hrl. unfold correct_cells.
    destruct (N.ltb (sumN raw) count); [eexists; reflexivity|].
    destruct (N.ltb_spec count (sumN raw)) as [Lt|Ge]; [|eexists; reflexivity].
    apply (surplus_terminates n _ raw (sumN raw - count) 0 0%nat); try assumption; try lia. }
  split; [|exact G].
  intros nv Hl. unfold sample_cells. apply G. rewrite raw_cells_length by exact Hl. exact Hp.
Qed.
