(** * C16T3: shot counts of 2^63 and more.

    The model computes the rounding error of the histogram ("cells sum minus shots") exactly; the
    code computed it as [sum as isize - count as isize], which overflows the signed machine word
    -- a panic in every build with overflow checks -- as soon as one of the two no longer fits
    63 bits.  The repaired code uses 128-bit integers, in which the difference of two machine
    words always fits; the model additionally carries the saturating cast of [x.round() as isize]. *)
From Coq Require Import ZArith Lia.
From QV Require Import Bits Reg.
Open Scope Z_scope.

(** [n as isize] (two's complement reinterpretation of a machine word) *)
Definition i64_of (n : N) : Z :=
  let z := Z.of_N (N.modulo n (2 ^ 64)) in if z <? 2 ^ 63 then z else z - 2 ^ 64.

(** [a as isize - b as isize] with overflow checks: [None] = the panic *)
Definition delta_checked (total count : N) : option Z :=
  let d := i64_of total - i64_of count in
  if (- 2 ^ 63 <=? d) && (d <? 2 ^ 63) then Some d else None.

Definition C16_legacy_stmt : Prop :=
  (* pre-repair: one shot more or less than the signed word holds, and the subtraction panics *)
  delta_checked (2 ^ 63) (2 ^ 63 - 1) = None /\
  delta_checked (2 ^ 63 - 5) (2 ^ 63) = None /\
  (* below 2^63 the signed arithmetic was exact *)
  (forall total count : N, (total < 2 ^ 63)%N -> (count < 2 ^ 63)%N ->
     delta_checked total count = Some (Z.of_N total - Z.of_N count)) /\
  (* repaired: the difference of any two machine words fits 128 bits (no check can fire) *)
  (forall total count : N, (total < 2 ^ 64)%N -> (count < 2 ^ 64)%N ->
     - 2 ^ 127 <= Z.of_N total - Z.of_N count < 2 ^ 127) /\
  (* the saturating cast is the identity on every value a count below 2^63 can produce *)
  (forall z : Z, z < 2 ^ 63 -> sat63 z = z).

Lemma C16_legacy_proof : C16_legacy_stmt.
Proof.
  split; [vm_compute; reflexivity|]. split; [vm_compute; reflexivity|]. split; [|split].
  - intros total count Ht Hc. unfold delta_checked, i64_of.
    rewrite !N.mod_small by lia.
    assert (H1 : Z.of_N total < 2 ^ 63) by lia. assert (H2 : Z.of_N count < 2 ^ 63) by lia.
    destruct (Z.ltb_spec (Z.of_N total) (2 ^ 63)); [|lia]. destruct (Z.ltb_spec (Z.of_N count) (2 ^ 63)); [|lia].
    destruct (Z.leb_spec (- 2 ^ 63) (Z.of_N total - Z.of_N count)); [|lia].
    destruct (Z.ltb_spec (Z.of_N total - Z.of_N count) (2 ^ 63)); [reflexivity|lia].
  - intros total count Ht Hc. lia.
  - intros z Hz. unfold sat63. apply Z.min_l. lia.
Qed.
