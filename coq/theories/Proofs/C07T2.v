(** * C07T2: the Born rule chains -- after a measurement of mask A with outcome a, the probability
    of outcome b on mask B is W(a,b) / W(a), W = summed squared moduli of the consistent basis
    states of the state before; hence the joint distribution does not depend on the order in which
    qubits are measured and equals that of one measurement of both masks. *)
From Coq Require Import Reals Lra Lia.
From QV Require Import Reg ScalarR BitsP VecP C14T RegP C06T NormP C05T.
Open Scope R_scope.

Lemma nsum_ext k : forall start g h, (forall i, (start <= i)%N -> (N.to_nat i < N.to_nat start + k)%nat -> g i = h i) ->
  nsum k start g = nsum k start h.
Proof.
  induction k as [|k IH]; intros start g h H; cbn [nsum]; [reflexivity|].
  rewrite (H start) by lia. f_equal. apply IH. intros i H1 H2. apply H; lia.
Qed.

Lemma nsum_scal k : forall start g c, nsum k start (fun i => c * g i) = c * nsum k start g.
Proof. induction k as [|k IH]; intros start g c; cbn [nsum]; [ring|]. rewrite IH. ring. Qed.

(** weight of the cells selected by [P] *)
Definition wsum (v : bufR) (P : N -> bool) : R :=
  nsum (length v) 0 (fun i => if P i then n2 (get Rops v i) else 0).

Lemma sumsq_wsum (v : bufR) : sumsq v = wsum v (fun _ => true).
Proof.
  unfold wsum. rewrite <- (tab_get_id v) at 1. unfold tab. rewrite sumsq_tab_from. reflexivity.
Qed.

Definition agrees (mask val i : N) : bool := N.eqb (N.land i mask) val.

(** the Born probability of reading [val] on [mask] *)
Definition born (v : bufR) (mask val : N) : R := wsum v (agrees mask val) / sumsq v.

Lemma collapse_cond i idy m : negb (N.eqb (N.land (N.lxor i idy) m) 0) = negb (agrees m (N.land idy m) i).
Proof.
  unfold agrees. f_equal.
  destruct (N.eqb_spec (N.land (N.lxor i idy) m) 0) as [E|E]; destruct (N.eqb_spec (N.land i m) (N.land idy m)) as [F|F]; try reflexivity.
  - exfalso. apply F. apply N.bits_inj. intro t. assert (X := f_equal (fun x => N.testbit x t) E). cbn beta in X.
    rewrite N.land_spec, N.lxor_spec, N.bits_0 in X. rewrite !N.land_spec.
    destruct (N.testbit i t), (N.testbit idy t), (N.testbit m t); try reflexivity; discriminate.
  - exfalso. apply E. apply N.bits_inj. intro t. assert (X := f_equal (fun x => N.testbit x t) F). cbn beta in X.
    rewrite !N.land_spec in X. rewrite N.land_spec, N.lxor_spec, N.bits_0.
    destruct (N.testbit i t), (N.testbit idy t), (N.testbit m t); try reflexivity; discriminate.
Qed.

Lemma n2_c0 : n2 (c0 Rops) = 0.
Proof. unfold n2, c0. cbn. ring. Qed.

Lemma n2_cscale z t : n2 (cscale Rops z t) = t * t * n2 z.
Proof. destruct z as [x y]. unfold n2, cscale, re, im. cbn [fst snd fmul Rops]. ring. Qed.

(** weights after collapse + rescaling *)
Lemma wsum_measured (v : bufR) idy m t (P : N -> bool) :
  wsum (scale_buf Rops (collapse_buf Rops v idy m) t) P =
  t * t * wsum v (fun i => agrees m (N.land idy m) i && P i)%bool.
Proof.
  unfold wsum. rewrite scale_length, collapse_length, <- nsum_scal. apply nsum_ext. intros i _ _.
  rewrite scale_get, collapse_get, collapse_cond.
  destruct (agrees m (N.land idy m) i), (P i); cbn [negb andb]; rewrite ?n2_cscale, ?n2_c0; ring.
Qed.

Definition C07_chain_stmt : Prop :=
  forall (r : qreg R) (A B drawn b : N),
    let A' := N.land A (q_mask r) in
    let a := N.land drawn A' in
    A' <> 0%N ->
    E15 < norm (reg_collapse Rops r drawn A') ->
    let r' := fst (reg_measure Rops E15 E9 r A drawn) in
    (* the outcome read is [a]; the weight of [a] is positive; afterwards the probability of
       [b] on [B] is the weight of (a and b) over the weight of a *)
    0 < wsum (q_psi r) (agrees A' a) /\
    born (q_psi r') B b * wsum (q_psi r) (agrees A' a) =
      wsum (q_psi r) (fun i => agrees A' a i && agrees B b i)%bool /\
    (* probability 1 of reading [a] again *)
    born (q_psi r') A' a = 1.

Lemma C07_chain_proof : C07_chain_stmt.
Proof.
  intros r A B drawn b A' a HA Hthr r'.
  assert (Hm : r' = reg_normalize Rops E15 E9 (reg_collapse Rops r drawn A')).
  { unfold r', reg_measure. fold A'. destruct (N.eqb_spec A' 0); [contradiction|reflexivity]. }
  destruct (normalize_spec (reg_collapse Rops r drawn A') Hthr) as [t [Ht [Hp _]]].
  rewrite <- Hm in Hp. cbn [reg_collapse q_psi] in Hp.
  set (v := q_psi r) in *.
  assert (Wa : sumsq (collapse_buf Rops v drawn A') = wsum v (agrees A' a)).
  { rewrite sumsq_wsum. unfold wsum. rewrite collapse_length. apply nsum_ext. intros i _ _.
    rewrite collapse_get, collapse_cond. fold a. destruct (agrees A' a i); cbn [negb]; [reflexivity|apply n2_c0]. }
  assert (Wpos : 0 < wsum v (agrees A' a)).
  { rewrite <- Wa. unfold norm, reg_absolute in Hthr. rewrite norm2_buf_sumsq in Hthr. cbn [reg_collapse q_psi] in Hthr. fold v in Hthr.
    destruct (Rle_lt_dec (sumsq (collapse_buf Rops v drawn A')) 0) as [L|L]; [|exact L].
    rewrite sqrt_neg_0 in Hthr by exact L. unfold E15 in Hthr.
    assert (0 < / 10 ^ 15) by (apply Rinv_0_lt_compat; lra). lra. }
  assert (Tot : sumsq (q_psi r') = t * t * wsum v (agrees A' a)).
  { rewrite Hp, sumsq_wsum, wsum_measured. f_equal. apply nsum_ext. intros i _ _. fold a.
    rewrite andb_true_r. reflexivity. }
  assert (Tpos : t * t <> 0) by nra.
  split; [exact Wpos|]. split.
  - unfold born. rewrite Tot, Hp, wsum_measured. fold a. field. split; lra.
  - unfold born. rewrite Tot, Hp, wsum_measured. fold a.
    replace (wsum v (fun i => agrees A' a i && agrees A' a i)%bool) with (wsum v (agrees A' a)).
    + field. split; lra.
    + apply nsum_ext. intros i _ _. destruct (agrees A' a i); reflexivity.
Qed.

(** one measurement of both masks reads the same joint weight, in either order *)
Definition C07_order_stmt : Prop :=
  forall (v : bufR) (A B a b : N),
    N.land A B = 0%N -> N.land a A = a -> N.land b B = b ->
    wsum v (fun i => agrees A a i && agrees B b i)%bool = wsum v (agrees (N.lor A B) (N.lor a b)) /\
    wsum v (fun i => agrees A a i && agrees B b i)%bool = wsum v (fun i => agrees B b i && agrees A a i)%bool.

Lemma C07_order_proof : C07_order_stmt.
Proof.
  intros v A B a b D Ha Hb. split; apply nsum_ext; intros i _ _.
  - assert (E : (agrees A a i && agrees B b i)%bool = agrees (N.lor A B) (N.lor a b) i); [|rewrite E; reflexivity].
    unfold agrees.
    destruct (N.eqb_spec (N.land i A) a) as [E1|E1]; destruct (N.eqb_spec (N.land i B) b) as [E2|E2]; cbn [andb];
      destruct (N.eqb_spec (N.land i (N.lor A B)) (N.lor a b)) as [E3|E3]; try reflexivity; exfalso.
    + apply E3. rewrite N.land_lor_distr_r, E1, E2. reflexivity.
    + apply E2. apply N.bits_inj. intro t.
      assert (X := f_equal (fun x => N.testbit x t) E3). assert (Y := f_equal (fun x => N.testbit x t) D).
      assert (Z := f_equal (fun x => N.testbit x t) Ha). assert (W := f_equal (fun x => N.testbit x t) Hb). cbn beta in X, Y, Z, W.
      rewrite !N.land_spec, !N.lor_spec, ?N.bits_0 in *.
      destruct (N.testbit i t), (N.testbit A t), (N.testbit B t), (N.testbit a t), (N.testbit b t); try reflexivity; discriminate.
    + apply E1. apply N.bits_inj. intro t.
      assert (X := f_equal (fun x => N.testbit x t) E3). assert (Y := f_equal (fun x => N.testbit x t) D).
      assert (Z := f_equal (fun x => N.testbit x t) Ha). assert (W := f_equal (fun x => N.testbit x t) Hb). cbn beta in X, Y, Z, W.
      rewrite !N.land_spec, !N.lor_spec, ?N.bits_0 in *.
      destruct (N.testbit i t), (N.testbit A t), (N.testbit B t), (N.testbit a t), (N.testbit b t); try reflexivity; discriminate.
    + apply E1. apply N.bits_inj. intro t.
      assert (X := f_equal (fun x => N.testbit x t) E3). assert (Y := f_equal (fun x => N.testbit x t) D).
      assert (Z := f_equal (fun x => N.testbit x t) Ha). assert (W := f_equal (fun x => N.testbit x t) Hb). cbn beta in X, Y, Z, W.
      rewrite !N.land_spec, !N.lor_spec, ?N.bits_0 in *.
      destruct (N.testbit i t), (N.testbit A t), (N.testbit B t), (N.testbit a t), (N.testbit b t); try reflexivity; discriminate.
  - rewrite andb_comm. reflexivity.
Qed.

(** ** total probability: summing the joint weight over all outcomes of one mask gives the marginal of the other,
    so a measurement (or a reset) whose outcome is not looked at does not change the statistics of the other qubits *)
Lemma nsum_add k : forall start g h, nsum k start (fun i => g i + h i) = nsum k start g + nsum k start h.
Proof. induction k as [|k IH]; intros start g h; cbn [nsum]; [ring|]. rewrite IH. ring. Qed.

Lemma nsum_zero k : forall start, nsum k start (fun _ => 0) = 0.
Proof. induction k as [|k IH]; intro start; cbn [nsum]; [reflexivity|]. rewrite IH. ring. Qed.

Lemma nsum_swap k1 : forall s1 k2 s2 (g : N -> N -> R),
  nsum k1 s1 (fun a => nsum k2 s2 (fun i => g a i)) = nsum k2 s2 (fun i => nsum k1 s1 (fun a => g a i)).
Proof.
  induction k1 as [|k1 IH]; intros s1 k2 s2 g; cbn [nsum].
  - symmetry. apply nsum_zero.
  - rewrite IH, <- nsum_add. reflexivity.
Qed.

Lemma nsum_pick k : forall start c x, (start <= c)%N -> (N.to_nat c < N.to_nat start + k)%nat ->
  nsum k start (fun a => if N.eqb c a then x else 0) = x.
Proof.
  induction k as [|k IH]; intros start c x H1 H2; [lia|]. cbn [nsum].
  destruct (N.eqb_spec c start) as [E|E].
  - subst c. rewrite (nsum_ext k (N.succ start) _ (fun _ => 0)); [rewrite nsum_zero; ring|].
    intros i Hi _. destruct (N.eqb_spec start i); [lia|reflexivity].
  - rewrite IH by lia. ring.
Qed.

Definition C07_total_stmt : Prop :=
  forall (v : bufR) (A B b : N) (n : nat),
    (A < 2 ^ N.of_nat n)%N ->
    nsum (Nat.pow 2 n) 0 (fun a => wsum v (fun i => agrees A a i && agrees B b i)%bool) = wsum v (agrees B b).

Lemma C07_total_proof : C07_total_stmt.
Proof.
  intros v A B b n HA. unfold wsum. rewrite nsum_swap. apply nsum_ext. intros i _ _.
  unfold agrees.
  rewrite (nsum_ext _ 0 _ (fun a => if N.eqb (N.land i A) a then (if N.eqb (N.land i B) b then n2 (get Rops v i) else 0) else 0)).
  - apply nsum_pick; [lia|].
    assert (H : (N.land i A < 2 ^ N.of_nat n)%N).
    { apply N.le_lt_trans with A; [|exact HA].
      destruct (N.le_gt_cases (N.land i A) A) as [L|G]; [exact L|]. exfalso.
      assert (S : N.ldiff (N.land i A) A = 0%N).
      { apply N.bits_inj. intro t. rewrite N.ldiff_spec, N.land_spec, N.bits_0. destruct (N.testbit i t), (N.testbit A t); reflexivity. }
      apply N.ldiff_le in S. lia. }
    change (2 ^ N.of_nat n)%N with (p2 n) in H. rewrite <- (of_nat_pow2 n) in H. lia.
  - intros a _ _. destruct (N.eqb (N.land i A) a), (N.eqb (N.land i B) b); reflexivity.
Qed.
