(** * C09T3: any number of leading c -- the first arguments are controls of the remaining gate.
    ccx = Toffoli, cswap = Fredkin, crz / cu3 = the rotation products under the control, cu1 =
    the controlled phase diag(1,1,1,e^{i lambda}). *)
From Coq Require Import Reals Lra Lia String Ascii.
From QV Require Import Interp Spec Expr ScalarR BitsP OpP LocalP WfP C01P C03P C01M C03T Form2P C15T DftP C01T C02T C09T C09T2.
Open Scope N_scope.
Open Scope string_scope.

(** ** every operator the name table builds is well formed *)
Ltac nu2 := let a := fresh in let b := fresh in let u := fresh in intros a b u; discriminate.
Section Wf.
  Context {F : Type} (OP : ops F).
  Local Notation wf_multi := (Forall (@wf_single F)).

  Lemma of_op_ok (o : option (multi F)) q : of_op o = IOk q -> o = Some q.
  Proof. destruct o; intro H; [injection H as <-; reflexivity|discriminate]. Qed.

  Lemma gate_any_wf name mk regs args q :
    (forall r q, mk r = IOk q -> wf_multi q) -> gate_any name mk regs args = IOk q -> wf_multi q.
  Proof.
    intros Hmk. unfold gate_any. destruct (N.eqb _ 0); [discriminate|]. destruct (negb _); [discriminate|]. apply Hmk.
  Qed.
  Lemma gate_2_wf name mk regs args q :
    (forall r q, mk r = IOk q -> wf_multi q) -> gate_2 name mk regs args = IOk q -> wf_multi q.
  Proof.
    intros Hmk. unfold gate_2. destruct (negb _); [discriminate|]. destruct (negb _); [discriminate|]. apply Hmk.
  Qed.
  Lemma gate_r_wf name k mk regs args q :
    (forall a r q, mk a r = IOk q -> wf_multi q) -> gate_r name k mk regs args = IOk q -> wf_multi q.
  Proof.
    intros Hmk. unfold gate_r. destruct (negb _); [discriminate|].
    destruct args as [|a [|b t]]; try discriminate. apply Hmk.
  Qed.

  Lemma gate_table_wf name regs args q : gate_table OP name regs args = IOk q -> wf_multi q.
  Proof.
    unfold gate_table.
    repeat match goal with
           | |- (if is_name name ?a ?b then _ else _) = _ -> _ => destruct (is_name name a b)
           end; try discriminate;
      first
        [ apply gate_any_wf; intros r q0 H; first
            [ injection H as <-; first [apply wf_one; nu2 | apply wf_dgr, wf_one; nu2]
            | apply of_op_ok in H; first [exact (wf_op_h _ _ H) | exact (wf_op_qft OP _ _ H)] ]
        | apply gate_r_wf; intros a r q0 H; apply of_op_ok in H;
          unfold op_u1, op_rx, op_ry, op_rz, op_rxx, op_ryy, op_rzz in H; eapply wf_lift_checked; [|exact H]; nu2
        | apply gate_2_wf; intros r q0 H; apply of_op_ok in H;
          unfold op_swap, op_sqrt_swap, op_i_swap, op_sqrt_i_swap in H; eapply wf_lift_checked; [|exact H]; nu2
        | unfold gate_u2; destruct (negb _); [discriminate|]; destruct args as [|a [|b [|c t]]]; try discriminate;
          intro H; apply of_op_ok in H; unfold op_u2, op_rz, op_ry in H; eapply wf_u123; [exact H|nu2..]
        | unfold gate_u3; destruct (negb _); [discriminate|]; destruct args as [|a [|b [|c [|d t]]]]; try discriminate;
          intro H; apply of_op_ok in H; unfold op_u3, op_rz, op_ry in H; eapply wf_u123; [exact H|nu2..] ].
  Qed.

  Lemma gpf_wf fuel : forall name regs args q,
    gates_process_from OP fuel name regs args = IOk q -> wf_multi q.
  Proof.
    induction fuel as [|fuel IH]; intros name regs args q H; [discriminate|].
    rewrite gpf_step in H. destruct (starts_with_c name); [|exact (gate_table_wf _ _ _ _ H)].
    destruct regs as [|ctrl rest]; [discriminate|]. cbv zeta in H.
    match type of H with match ?inner with _ => _ end = _ => destruct inner as [o|e|w] eqn:Ei end.
    - destruct (multi_c o ctrl) as [o'|] eqn:Ec; [|discriminate]. injection H as <-.
      apply (wf_c o ctrl o'); [|exact Ec].
      destruct (is_name (Interp.tail name) "u1" "U1").
      + revert Ei. apply gate_r_wf. intros a r q0 Hq. apply of_op_ok in Hq. exact (wf_phase_shift OP _ _ _ Hq).
      + exact (IH _ _ _ _ Ei).
    - destruct e; discriminate.
    - discriminate.
  Qed.

  Lemma gates_process_wf name regs args q : gates_process OP name regs args = IOk q -> wf_multi q.
  Proof. unfold gates_process. destruct (negb _); [discriminate|]. apply gpf_wf. Qed.
End Wf.

(** ** any number of leading c *)
Fixpoint cprefix (k : nat) (stem : string) : string :=
  match k with O => stem | S k' => String "c"%char (cprefix k' stem) end.

(** the controls are disjoint from the gate's qubits and from each other *)
Fixpoint ctrls_ok (a : N) (cs : list N) : Prop :=
  match cs with
  | [] => True
  | c :: r => N.land a c = 0 /\ Forall (fun d => N.land d c = 0) r /\ ctrls_ok a r
  end.

Lemma is_name_c s : is_name (String "c"%char s) "u1" "U1" = false.
Proof. reflexivity. Qed.

Lemma cprefix_not_u1 k stem : is_name stem "u1" "U1" = false -> is_name (cprefix k stem) "u1" "U1" = false.
Proof. destruct k; [exact (fun H => H)|intros _; apply is_name_c]. Qed.

Lemma act_on_c_sub (o o' : multi R) c x :
  multi_c o c = Some o' -> N.land (multi_act_on o) x = 0 -> N.land c x = 0 -> N.land (multi_act_on o') x = 0.
Proof.
  intros Hc Ho Hx. destruct o as [|s o].
  - unfold multi_c in Hc. destruct (negb _); [discriminate|]. injection Hc as <-. reflexivity.
  - destruct (C02_act_on_proof (s :: o) o' c Hc) as [Hact _]. rewrite Hact by discriminate.
    rewrite N.land_lor_distr_l, Ho, Hx. reflexivity.
Qed.

Lemma controls_sem (stem : string) (rest : list N) (args : list R) (o : multi R) :
  is_name stem "u1" "U1" = false ->
  gates_process Rops stem rest args = IOk o ->
  forall ctrls, ctrls_ok (multi_act_on o) ctrls ->
  exists o', gates_process Rops (cprefix (length ctrls) stem) (ctrls ++ rest)%list args = IOk o' /\
             (forall x, N.land (multi_act_on o) x = 0 -> Forall (fun c => N.land c x = 0) ctrls ->
                        N.land (multi_act_on o') x = 0) /\
             forall (psi : @vec R) idx,
               multi_fn Rops o' psi idx =
               if forallb (fun c => ctrl_ok c idx) ctrls then multi_fn Rops o psi idx else psi idx.
Proof.
  intros Hu1 Ho. induction ctrls as [|c cs IH]; intro Hok.
  - exists o. split; [exact Ho|]. split; [intros x Hx _; exact Hx|]. intros psi idx. reflexivity.
  - destruct Hok as [Hac [Hcs Hok]]. destruct (IH Hok) as [o1 [Ho1 [Hsub Hfn1]]].
    assert (Hd : N.land (multi_act_on o1) c = 0) by (apply Hsub; assumption).
    destruct (C09_prefix_semantics_proof (cprefix (length cs) stem) c (cs ++ rest)%list args o1
                (cprefix_not_u1 _ _ Hu1) Ho1 (gates_process_wf Rops _ _ _ _ Ho1) Hd) as [o' [Ho' Hfn]].
    exists o'. split; [exact Ho'|]. split.
    + intros x Hx Hall. inversion Hall as [|y ys Hcx Hrest]; subst.
      (* o' = multi_c o1 c *)
      assert (Hfin : all_finite Rops args = true) by (unfold all_finite; apply forallb_forall; intros ? _; reflexivity).
      destruct (C09_prefix_proof R Rops (cprefix (length cs) stem) c (cs ++ rest)%list args Hfin (cprefix_not_u1 _ _ Hu1)) as [Hp _].
      specialize (Hp (String "c"%char (cprefix (length cs) stem)) (or_introl eq_refl)).
      cbn [cprefix length app] in Ho'. rewrite Hp, Ho1 in Ho'.
      destruct (multi_c o1 c) as [o2|] eqn:Ec; [|discriminate]. injection Ho' as <-.
      apply (act_on_c_sub o1 o2 c x Ec); [apply Hsub; assumption|exact Hcx].
    + intros psi idx. rewrite Hfn. cbn [forallb]. destruct (ctrl_ok c idx); cbn [andb]; [apply Hfn1|reflexivity].
Qed.

Definition C09_controls_stmt : Prop :=
  forall (stem : string) (rest ctrls : list N) (args : list R) (o : multi R),
    is_name stem "u1" "U1" = false ->
    gates_process Rops stem rest args = IOk o ->
    ctrls_ok (multi_act_on o) ctrls ->
    exists o', gates_process Rops (cprefix (length ctrls) stem) (ctrls ++ rest)%list args = IOk o' /\
               forall (psi : @vec R) idx,
                 multi_fn Rops o' psi idx =
                 if forallb (fun c => ctrl_ok c idx) ctrls then multi_fn Rops o psi idx else psi idx.

Lemma C09_controls_proof : C09_controls_stmt.
Proof.
  intros stem rest ctrls args o Hu1 Ho Hok.
  destruct (controls_sem stem rest args o Hu1 Ho ctrls Hok) as [o' [H1 [_ H2]]]. exists o'. split; assumption.
Qed.

(** ** the named multi-controlled gates of qelib1.inc *)
Open Scope R_scope.

Lemma gp_base (stem : string) (regs : list N) (args : list R) (o : multi R) :
  starts_with_c stem = false -> gate_table Rops stem regs args = IOk o ->
  gates_process Rops stem regs args = IOk o.
Proof.
  intros Hs H. unfold gates_process.
  assert (Hfin : all_finite Rops args = true) by (unfold all_finite; apply forallb_forall; intros ? _; reflexivity).
  rewrite Hfin. cbn [negb]. rewrite gpf_step, Hs. exact H.
Qed.

Lemma act_on_single (g : atomic R) : (forall a b u, g <> AU2 a b u) ->
  multi_act_on (multi_of_single (single_of g)) = acts_on g \/ multi_act_on (multi_of_single (single_of g)) = 0%N.
Proof.
  intro H. unfold multi_of_single. cbn [s_func single_of s_ctrl].
  destruct g; cbn [N.eqb];
    try (left; unfold multi_act_on; cbn [fold_left]; unfold single_act_on, single_of; cbn [s_act s_ctrl];
         rewrite N.lor_0_l, N.lor_0_r; reflexivity).
  right. reflexivity.
Qed.

Lemma ctrls_ok_one a c : N.land a c = 0%N -> ctrls_ok a [c].
Proof. intro H. split; [exact H|split; [constructor|exact I]]. Qed.

Lemma single_disjoint (g : atomic R) c : (forall a b u, g <> AU2 a b u) -> N.land (acts_on g) c = 0%N ->
  N.land (multi_act_on (multi_of_single (single_of g))) c = 0%N.
Proof. intros Hg H. destruct (act_on_single g Hg) as [-> | ->]; [exact H|reflexivity]. Qed.

Definition C09_named_controls_stmt : Prop :=
  forall (c1 c2 t : N), c1 <> c2 -> c1 <> t -> c2 <> t ->
    (* ccx: Toffoli *)
    (exists o', gates_process Rops "ccx" [(2 ^ c1)%N; (2 ^ c2)%N; (2 ^ t)%N] [] = IOk o' /\
       forall (psi : vecR) idx, multi_fn Rops o' psi idx =
         if (N.testbit idx c1 && N.testbit idx c2)%bool then lift1 Rops (doc_x Rops) t psi idx else psi idx) /\
    (* cswap: Fredkin *)
    (exists o', gates_process Rops "cswap" [(2 ^ c1)%N; (2 ^ c2)%N; (2 ^ t)%N] [] = IOk o' /\
       forall (psi : vecR) idx, multi_fn Rops o' psi idx =
         if N.testbit idx c1 then lift2 Rops (doc_swap Rops) c2 t psi idx else psi idx) /\
    (* crz: RZ(lambda) under the control, no stray phase on the control *)
    (forall lam, exists o', gates_process Rops "crz" [(2 ^ c1)%N; (2 ^ t)%N] [lam] = IOk o' /\
       forall (psi : vecR) idx, multi_fn Rops o' psi idx =
         if N.testbit idx c1 then lift1 Rops (doc_rz Rops lam) t psi idx else psi idx) /\
    (* cu3: e^{-i(phi+lambda)/2} U(theta,phi,lambda) under the control (qelib1's cu3 body) *)
    (forall th ph lam, exists o', gates_process Rops "cu3" [(2 ^ c1)%N; (2 ^ t)%N] [th; ph; lam] = IOk o' /\
       forall (psi : vecR) idx, multi_fn Rops o' psi idx =
         if N.testbit idx c1 then Cmul (cisR (- ((ph + lam) / 2))) (lift1 Rops (qelib_u th ph lam) t psi idx) else psi idx) /\
    (* cu1: the controlled phase diag(1,1,1,e^{i lambda}) *)
    (forall lam, exists o', gates_process Rops "cu1" [(2 ^ c1)%N; (2 ^ t)%N] [lam] = IOk o' /\
       forall (psi : vecR) idx, multi_fn Rops o' psi idx =
         if (N.testbit idx c1 && N.testbit idx t)%bool then Cmul (cisR lam) (psi idx) else psi idx).

Lemma C09_named_controls_proof : C09_named_controls_stmt.
Proof.
  intros c1 c2 t H12 H1t H2t.
  assert (Hm : (2 ^ t)%N <> 0%N) by (apply N.pow_nonzero; discriminate).
  assert (E0 : N.eqb (2 ^ t) 0 = false) by (apply N.eqb_neq; exact Hm).
  split; [|split; [|split; [|split]]].
  - (* ccx *)
    assert (Ho : gates_process Rops "x" [(2 ^ t)%N] [] = IOk (op_x (2 ^ t))).
    { apply gp_base; [reflexivity|]. cbn. unfold gate_any. rewrite lor_all_1, E0. reflexivity. }
    assert (Hok : ctrls_ok (multi_act_on (@op_x R (2 ^ t))) [(2 ^ c1)%N; (2 ^ c2)%N]).
    { destruct (act_on_single (AX (2 ^ t))) as [E|E]; [intros ? ? ?; discriminate| |];
        unfold op_x; rewrite E; cbn [ctrls_ok acts_on];
        repeat split; try constructor; try constructor;
        try (apply land_pow2_pow2; congruence); reflexivity. }
    destruct (C09_controls_proof "x" [(2 ^ t)%N] [(2 ^ c1)%N; (2 ^ c2)%N] [] _ eq_refl Ho Hok) as [o' [Ho' Hfn]].
    exists o'. split; [exact Ho'|]. intros psi idx. rewrite Hfn. cbn [forallb]. rewrite !ctrl_ok_pow2, Bool.andb_true_r.
    destruct (N.testbit idx c1 && N.testbit idx c2)%bool; [|reflexivity].
    unfold op_x. rewrite multi_fn_one. apply k_x.
  - (* cswap *)
    set (m := N.lor (2 ^ c2) (2 ^ t)).
    assert (Ho : gates_process Rops "swap" [(2 ^ c2)%N; (2 ^ t)%N] [] = IOk (multi_of_single (single_of (ASwap m)))).
    { apply gp_base; [reflexivity|]. cbn. unfold gate_2, lor_all. cbn [fold_left]. rewrite N.lor_0_l.
      fold m. unfold m at 1. rewrite popcount_pair by exact H2t. cbn [N.eqb Pos.eqb negb lenN length N.of_nat].
      unfold op_swap. rewrite lift_checked_some; [reflexivity|].
      cbn [is_valid]. fold m. unfold m. rewrite popcount_pair by exact H2t. reflexivity. }
    assert (Hok : ctrls_ok (multi_act_on (multi_of_single (single_of (@ASwap R m)))) [(2 ^ c1)%N]).
    { apply ctrls_ok_one, single_disjoint; [intros ? ? ?; discriminate|]. cbn [acts_on].
      unfold m. rewrite N.land_lor_distr_l, !land_pow2_pow2 by congruence. reflexivity. }
    destruct (C09_controls_proof "swap" [(2 ^ c2)%N; (2 ^ t)%N] [(2 ^ c1)%N] [] _ eq_refl Ho Hok) as [o' [Ho' Hfn]].
    exists o'. split; [exact Ho'|]. intros psi idx. rewrite Hfn. cbn [forallb]. rewrite !ctrl_ok_pow2, Bool.andb_true_r.
    destruct (N.testbit idx c1); [|reflexivity]. rewrite multi_fn_one. apply k_swap. exact H2t.
  - (* crz *)
    intro lam.
    assert (Ho : gates_process Rops "rz" [(2 ^ t)%N] [lam] = IOk (multi_of_single (single_of (ARZ (2 ^ t) (half_phase Rops lam))))).
    { apply gp_base; [reflexivity|]. cbn. unfold gate_r. rewrite lor_all_1, popcount_pow2. cbn [N.eqb Pos.eqb negb].
      unfold op_rz. rewrite lift_checked_some by apply valid1. reflexivity. }
    assert (Hok : ctrls_ok (multi_act_on (multi_of_single (single_of (ARZ (2 ^ t) (half_phase Rops lam))))) [(2 ^ c1)%N]).
    { apply ctrls_ok_one, single_disjoint; [intros ? ? ?; discriminate|]. cbn [acts_on]. apply land_pow2_pow2; congruence. }
    destruct (C09_controls_proof "rz" [(2 ^ t)%N] [(2 ^ c1)%N] [lam] _ eq_refl Ho Hok) as [o' [Ho' Hfn]].
    exists o'. split; [exact Ho'|]. intros psi idx. rewrite Hfn. cbn [forallb]. rewrite !ctrl_ok_pow2, Bool.andb_true_r.
    destruct (N.testbit idx c1); [|reflexivity]. rewrite multi_fn_one. apply k_rz.
  - (* cu3 *)
    intros th ph lam.
    destruct (C09_u3_proof th ph lam t (fun _ => (0, 0)) 0%N) as [q [Hq [_ _]]].
    assert (Hq' := Hq).
    unfold gates_process in Hq'. cbn [all_finite forallb ffinite Rops andb negb String.length] in Hq'.
    unfold gates_process_from in Hq'. cbn in Hq'. unfold gate_u3 in Hq'. rewrite lor_all_1, popcount_pow2 in Hq'.
    cbn [N.eqb Pos.eqb negb] in Hq'. rewrite u3_built in Hq'. cbn [of_op] in Hq'. injection Hq' as Eq.
    assert (Hact : N.land (multi_act_on q) (2 ^ c1) = 0%N).
    { rewrite <- Eq. unfold multi_act_on. cbn [fold_left]. unfold single_act_on, single_of. cbn [s_act s_ctrl acts_on].
      rewrite !N.lor_0_l, !N.lor_0_r, !N.lor_diag. apply land_pow2_pow2; congruence. }
    assert (Hok : ctrls_ok (multi_act_on q) [(2 ^ c1)%N]) by (apply ctrls_ok_one; exact Hact).
    destruct (C09_controls_proof "u3" [(2 ^ t)%N] [(2 ^ c1)%N] [th; ph; lam] q eq_refl Hq Hok) as [o' [Ho' Hfn]].
    exists o'. split; [exact Ho'|]. intros psi idx. rewrite Hfn. cbn [forallb]. rewrite !ctrl_ok_pow2, Bool.andb_true_r.
    destruct (N.testbit idx c1); [|reflexivity].
    destruct (C09_u3_proof th ph lam t psi idx) as [q2 [Hq2 [_ Hf2]]]. rewrite Hq in Hq2. injection Hq2 as <-. exact Hf2.
  - (* cu1 *)
    intro lam.
    assert (Hfin : all_finite Rops (@nil R) = true) by reflexivity.
    destruct (C09_prefix_proof R Rops "x" (2 ^ c1)%N [(2 ^ t)%N] [] Hfin eq_refl) as [_ Hp].
    specialize (Hp lam (2 ^ t)%N eq_refl (popcount_pow2 t)).
    assert (Hc := cphase_built c1 t lam H1t). unfold opt_c in Hc.
    destruct (op_phase_shift Rops lam (2 ^ t)) as [o|]; [|discriminate]. rewrite Hc in Hp.
    exists [cphase c1 t lam]. split; [exact Hp|]. intros psi idx.
    cbn [multi_fn fold_left]. apply cphase_fn.
Qed.
