(** * C14T: register construction, tensor product and resizing are exact and size-consistent.
    Everything here holds at every scalar instance (no arithmetic law is used), hence also at
    the binary64 instance the model is run at. *)
From Coq Require Import Lia PeanoNat Arith.
From QV Require Import Reg BitsP VecP.
Open Scope N_scope.

Section C14.
  Context {F : Type} (OP : ops F).
  Local Notation buf := (@buf F).

  Lemma qsize_spec n : N.of_nat (qsize n) = 2 ^ n.
  Proof.
    unfold qsize. rewrite Nnat.Nat2N.inj_pow, Nnat.N2Nat.id. reflexivity.
  Qed.

  Lemma qsize_le_blen n : (qsize n <= blen n)%nat.
  Proof. unfold blen. apply Nat.le_max_l. Qed.

  Lemma lt_qsize i n : i < 2 ^ n <-> (N.to_nat i < qsize n)%nat.
  Proof. rewrite <- qsize_spec. lia. Qed.

  (** the register invariants that do not involve arithmetic *)
  Definition shaped (r : qreg F) : Prop :=
    length (q_psi r) = blen (q_num r) /\ q_mask r = mask_n (q_num r).

  Lemma one_at_get len j i :
    get OP (one_at OP len j) i = if N.eqb i j && (N.to_nat i <? len)%nat then c1 OP else c0 OP.
  Proof.
    unfold one_at. destruct (Nat.ltb_spec (N.to_nat i) len) as [L|L].
    - rewrite get_tab by exact L. unfold basis. rewrite andb_true_r. reflexivity.
    - rewrite get_tab_out by exact L. rewrite andb_false_r. reflexivity.
  Qed.

  Lemma one_at_length len j : length (one_at OP len j) = len.
  Proof. apply tab_length. Qed.

  Lemma with_state_spec n st :
    let r := reg_with_state OP n st in
    shaped r /\ q_num r = n /\
    forall i, get OP (q_psi r) i = if N.eqb i (st mod 2 ^ n) then c1 OP else c0 OP.
  Proof.
    cbn zeta. unfold reg_with_state, shaped. cbn [q_psi q_num q_mask]. repeat split.
    - apply tab_length.
    - intro i. rewrite one_at_get. unfold mask_n. rewrite N.land_ones.
      destruct (N.eqb_spec i (st mod 2 ^ n)) as [E|E]; [|reflexivity].
      assert (H : i < 2 ^ n) by (subst i; apply N.mod_lt, N.pow_nonzero; discriminate).
      apply lt_qsize in H. generalize (qsize_le_blen n). intro.
      destruct (Nat.ltb_spec (N.to_nat i) (blen n)); [reflexivity|lia].
  Qed.

  Lemma tensor_spec (a b : qreg F) :
    let r := reg_tensor OP a b in
    shaped r /\ q_num r = q_num a + q_num b /\ q_th r = N.max (q_th a) (q_th b) /\
    (forall idx, idx < 2 ^ (q_num a + q_num b) ->
       get OP (q_psi r) idx =
       cmul OP (get OP (q_psi a) (N.land idx (q_mask a)))
               (get OP (q_psi b) (N.land (N.shiftr idx (q_num a)) (q_mask b)))) /\
    (forall idx, 2 ^ (q_num a + q_num b) <= idx -> get OP (q_psi r) idx = c0 OP).
  Proof.
    cbn zeta. unfold reg_tensor, shaped. cbn [q_psi q_num q_mask q_th]. repeat split.
    - apply tab_length.
    - intros idx H. assert (H' := H). apply lt_qsize in H'.
      rewrite get_tab by (generalize (qsize_le_blen (q_num a + q_num b)); lia).
      rewrite qsize_spec. rewrite (proj2 (N.ltb_lt _ _) H). reflexivity.
    - intros idx H.
      destruct (Nat.ltb_spec (N.to_nat idx) (blen (q_num a + q_num b))) as [L|L].
      + rewrite get_tab by exact L. rewrite qsize_spec.
        destruct (N.ltb_spec idx (2 ^ (q_num a + q_num b))); [lia|reflexivity].
      + apply get_tab_out. exact L.
  Qed.

  Lemma firstn_all2 (v : buf) len : (length v <= len)%nat -> firstn len v = v.
  Proof. apply firstn_all2. Qed.

  Lemma get_app_zeros (v : buf) k i : get OP (v ++ zeros OP k) i = get OP v i.
  Proof.
    unfold get. destruct (Nat.ltb_spec (N.to_nat i) (length v)) as [L|L].
    - apply app_nth1. exact L.
    - rewrite app_nth2 by exact L. rewrite (nth_overflow v) by exact L.
      unfold zeros. destruct (Nat.ltb_spec (N.to_nat i - length v) k) as [L2|L2].
      + apply nth_repeat.
      + apply nth_overflow. rewrite repeat_length. exact L2.
  Qed.

  Lemma blen_mono n k : n <= k -> (blen n <= blen k)%nat.
  Proof.
    intro H. unfold blen, qsize. apply Nat.max_le_compat_r. apply Nat.pow_le_mono_r; lia.
  Qed.

  Lemma set_num_grow (r : qreg F) k : shaped r -> q_num r <= k ->
    let r' := reg_set_num OP r k in
    shaped r' /\ q_num r' = k /\ forall i, get OP (q_psi r') i = get OP (q_psi r) i.
  Proof.
    intros [Hl Hm] Hk. cbn zeta. unfold reg_set_num.
    destruct (N.ltb_spec k (q_num r)) as [L|L]; [lia|].
    unfold shaped. cbn [q_psi q_num q_mask]. assert (Hb := blen_mono _ _ Hk).
    unfold resize. rewrite firstn_all2 by lia. repeat split.
    - rewrite app_length. unfold zeros. rewrite repeat_length. lia.
    - intro i. apply get_app_zeros.
  Qed.

  Lemma set_num_shrink (r : qreg F) k : k < q_num r ->
    let r' := reg_set_num OP r k in
    shaped r' /\ q_num r' = k /\
    forall i, get OP (q_psi r') i = if N.eqb i 0 then c1 OP else c0 OP.
  Proof.
    intros Hk. cbn zeta. unfold reg_set_num. rewrite (proj2 (N.ltb_lt _ _) Hk).
    unfold reg_reset, shaped. cbn [q_psi q_num q_mask].
    assert (Hlen : length (resize OP (q_psi r) (blen k)) = blen k).
    { unfold resize. rewrite app_length, firstn_length. unfold zeros. rewrite repeat_length. lia. }
    repeat split.
    - rewrite one_at_length. exact Hlen.
    - intro i. rewrite one_at_get, Hlen, N.land_0_r.
      destruct (N.eqb_spec i 0) as [->|E]; [|reflexivity].
      unfold blen, MIN_BUFFER_LEN. destruct (Nat.ltb_spec (N.to_nat 0) (Nat.max (qsize k) 8)); [reflexivity|lia].
  Qed.

  Lemma probabilities_length (r : qreg F) : shaped r ->
    length (reg_probabilities OP r) = qsize (q_num r).
  Proof.
    intros [Hl _]. unfold reg_probabilities. rewrite map_length, firstn_length, Hl.
    generalize (qsize_le_blen (q_num r)). lia.
  Qed.
End C14.

(** ** statements (for every scalar instance [F], [OP]) *)

Definition C14_basis_stmt : Prop :=
  forall (F : Type) (OP : ops F) (n st : N),
    let r := reg_with_state OP n st in
    shaped r /\ q_num r = n /\
    forall i, get OP (q_psi r) i = if N.eqb i (st mod 2 ^ n) then c1 OP else c0 OP.

Lemma C14_basis_proof : C14_basis_stmt.
Proof. intros F OP n st. apply with_state_spec. Qed.

Definition C14_tensor_stmt : Prop :=
  forall (F : Type) (OP : ops F) (a b : qreg F),
    let r := reg_tensor OP a b in
    shaped r /\ q_num r = q_num a + q_num b /\ q_th r = N.max (q_th a) (q_th b) /\
    (forall idx, idx < 2 ^ (q_num a + q_num b) ->
       get OP (q_psi r) idx =
       cmul OP (get OP (q_psi a) (N.land idx (q_mask a)))
               (get OP (q_psi b) (N.land (N.shiftr idx (q_num a)) (q_mask b)))) /\
    (forall idx, 2 ^ (q_num a + q_num b) <= idx -> get OP (q_psi r) idx = c0 OP).

Lemma C14_tensor_proof : C14_tensor_stmt.
Proof. intros F OP a b. apply tensor_spec. Qed.

Definition C14_resize_stmt : Prop :=
  forall (F : Type) (OP : ops F) (r : qreg F) (k : N), shaped r ->
    let r' := reg_set_num OP r k in
    shaped r' /\ q_num r' = k /\
    (q_num r <= k -> forall i, get OP (q_psi r') i = get OP (q_psi r) i) /\
    (k < q_num r -> forall i, get OP (q_psi r') i = if N.eqb i 0 then c1 OP else c0 OP).

Lemma C14_resize_proof : C14_resize_stmt.
Proof.
  intros F OP r k Hs. cbn zeta. destruct (N.le_gt_cases (q_num r) k) as [L|L].
  - destruct (set_num_grow OP r k Hs L) as [H1 [H2 H3]].
    split; [exact H1|split; [exact H2|split; [intros _; exact H3|intro; lia]]].
  - destruct (set_num_shrink OP r k L) as [H1 [H2 H3]].
    split; [exact H1|split; [exact H2|split; [intro; lia|intros _; exact H3]]].
Qed.

Definition C14_sizes_stmt : Prop :=
  forall (F : Type) (OP : ops F) (r : qreg F), shaped r ->
    length (reg_probabilities OP r) = qsize (q_num r) /\
    N.of_nat (qsize (q_num r)) = 2 ^ q_num r /\
    length (q_psi r) = Nat.max (qsize (q_num r)) 8 /\
    (forall q, shaped (reg_apply OP r q) /\ q_num (reg_apply OP r q) = q_num r).

Lemma multi_apply_length' {F} (OP : ops F) q : forall (v : @buf F), length (multi_apply OP q v) = length v.
Proof.
  induction q as [|s q IH]; intro v; [reflexivity|].
  cbn [multi_apply fold_left]. change (fold_left _ q ?x) with (multi_apply OP q x).
  rewrite IH. apply tab_length.
Qed.

Lemma C14_sizes_proof : C14_sizes_stmt.
Proof.
  intros F OP r Hs. repeat split.
  - apply probabilities_length. exact Hs.
  - apply qsize_spec.
  - apply Hs.
  - unfold reg_apply. cbn [q_psi q_num]. rewrite multi_apply_length'. apply Hs.
  - apply Hs.
Qed.
