(** * C04T2: operators on disjoint qubits commute *)
From Coq Require Import Reals Lra Lia.
From QV Require Import Spec ScalarR BitsP BitsIterP VecP OpP LocalP C01P C03P RotP C01M C03M C03T C03T2 NormP Form2P.
Open Scope R_scope.

(** ** the statement: products on disjoint qubits commute *)
Definition C04_commute_stmt : Prop :=
  forall (p q : multi R), Forall good_single p -> Forall good_single q ->
    N.land (multi_act_on p) (multi_act_on q) = 0%N ->
    forall (psi : vecR) (idx : N), multi_fn Rops (p ++ q) psi idx = multi_fn Rops (q ++ p) psi idx.

Lemma good_wf (q : multi R) : Forall good_single q -> Forall (@wf_single R) q.
Proof. intro H. eapply Forall_impl; [|exact H]. intros s [_ [W _]]. exact W. Qed.

Lemma C04_commute_proof : C04_commute_stmt.
Proof.
  intros p q Gp Gq D psi idx.
  rewrite <- (expand_all_fn (p ++ q)) by (apply Forall_app; split; assumption).
  rewrite <- (expand_all_fn (q ++ p)) by (apply Forall_app; split; assumption).
  unfold expand_all. rewrite !flat_map_app.
  apply simple_lists_commute; try (apply expand_all_simple; assumption).
  (* every expanded element of p is disjoint from every expanded element of q *)
  apply (fold_act_land p (multi_act_on q) 0%N) in D. destruct D as [_ Dp].
  assert (Wp := good_wf p Gp). assert (Wq := good_wf q Gq).
  clear Gp Gq. induction p as [|s p IH]; [constructor|].
  inversion Dp as [|s0 p0 Ds Dp']; subst. inversion Wp as [|s1 p1 Ws Wp']; subst.
  cbn [flat_map]. apply Forall_app. split; [|apply IH; assumption].
  assert (E1 := expand_inside s (multi_act_on q) Ds Ws).
  eapply Forall_impl; [|exact E1]. intros t Ht. cbv beta in Ht. unfold disj1.
  rewrite N.land_comm in Ht. apply (fold_act_land q (single_act_on t) 0%N) in Ht. destruct Ht as [_ Hq].
  clear - Hq Wq. induction q as [|u q IHq]; [constructor|].
  inversion Hq as [|u0 q0 Du Dq]; subst. inversion Wq as [|u1 q1 Wu Wq']; subst.
  cbn [flat_map]. apply Forall_app. split; [|apply IHq; assumption].
  assert (E2 := expand_inside u (single_act_on t) Du Wu).
  eapply Forall_impl; [|exact E2]. intros v Hv. cbv beta in Hv. rewrite N.land_comm. exact Hv.
Qed.
