(** * C06T: measurement projects the state onto the returned outcome *)
From Coq Require Import Reals Lra Lia.
From QV Require Import Reg ScalarR BitsP BitsIterP VecP C14T C20T RegP.
Open Scope R_scope.

Notation measure := (reg_measure Rops E15 E9).

(** index [i] agrees with the outcome on the measured bits *)
Definition consistent (i drawn m : N) : bool := N.eqb (N.land (N.lxor i drawn) m) 0.

(** the returned value uses only measured bit positions that exist in the register *)
Definition C06_outcome_stmt : Prop :=
  forall (r : qreg R) (mask drawn : N),
    let m := N.land mask (q_mask r) in
    let c := snd (measure r mask drawn) in
    N.ldiff (creg_get c) m = 0%N /\
    (q_num r < 64 -> drawn < 2 ^ 64 -> q_mask r = mask_n (q_num r) -> creg_get c = N.land drawn m)%N.

Lemma land_ldiff_0 a b c : N.ldiff (N.land (N.land a b) c) b = 0%N.
Proof.
  apply N.bits_inj. intro k. rewrite N.ldiff_spec, !N.land_spec, N.bits_0.
  destruct (N.testbit a k), (N.testbit b k), (N.testbit c k); reflexivity.
Qed.

Lemma C06_outcome_proof : C06_outcome_stmt.
Proof.
  intros r mask drawn m c. subst c. unfold reg_measure. fold m.
  destruct (N.eqb_spec m 0) as [E|E]; cbn [snd]; split.
  - unfold creg_new, creg_with_state, creg_get. cbn [c_value]. rewrite N.land_0_l. apply N.ldiff_0_l.
  - intros. unfold creg_new, creg_with_state, creg_get. cbn [c_value]. rewrite E, N.land_0_r, N.land_0_l. reflexivity.
  - unfold creg_with_state, creg_get. cbn [c_value].
    apply N.bits_inj. intro k. rewrite N.ldiff_spec, !N.land_spec, N.bits_0. unfold wrap. rewrite !N.land_spec.
    destruct (N.testbit drawn k), (N.testbit m k); cbn [andb negb]; rewrite ?andb_false_r; reflexivity.
  - intros Hn Hd Hm. unfold creg_with_state, creg_get. cbn [c_value].
    rewrite (mask_of_num_small _ Hn).
    assert (Hw : wrap (N.land drawn m) = N.land drawn m).
    { rewrite wrap_mod. apply N.mod_small. eapply N.le_lt_trans; [|exact Hd].
      apply N.ldiff_le. apply N.bits_inj. intro k. rewrite N.ldiff_spec, N.land_spec, N.bits_0.
      destruct (N.testbit drawn k), (N.testbit m k); reflexivity. }
    rewrite Hw. unfold m. rewrite Hm. unfold mask_n.
    apply N.bits_inj. intro k. rewrite !N.land_spec.
    destruct (N.testbit drawn k), (N.testbit mask k), (N.testbit (N.ones (q_num r)) k); reflexivity.
Qed.

(** projection: every amplitude inconsistent with the outcome is exactly zero, the consistent
    ones are the old ones times one common positive real (ratios and phases kept) *)
Definition C06_projection_stmt : Prop :=
  forall (r : qreg R) (mask drawn : N),
    let m := N.land mask (q_mask r) in
    m <> 0%N ->
    E15 < sqrt (reg_absolute Rops (reg_collapse Rops r drawn m)) ->
    let r' := fst (measure r mask drawn) in
    q_num r' = q_num r /\ length (q_psi r') = length (q_psi r) /\
    exists t, 0 < t /\
      forall i, get Rops (q_psi r') i =
                if consistent i drawn m then cscale Rops (get Rops (q_psi r) i) t else c0 Rops.

Lemma C06_projection_proof : C06_projection_stmt.
Proof.
  intros r mask drawn m Hm Hn r'. subst r'. unfold reg_measure. fold m.
  destruct (N.eqb_spec m 0) as [E|_]; [contradiction|]. cbn [fst].
  destruct (normalize_spec (reg_collapse Rops r drawn m) Hn) as [t [Ht [Hp [Hq [_ _]]]]].
  rewrite Hp, Hq. cbn [reg_collapse q_psi q_num]. repeat split.
  - rewrite scale_length. apply collapse_length.
  - exists t. split; [exact Ht|]. intro i. rewrite scale_get, collapse_get. unfold consistent.
    destruct (N.eqb (N.land (N.lxor i drawn) m) 0); cbn [negb]; [reflexivity|].
    unfold cscale, c0, re, im. cbn [fst snd fmul f0 Rops]. f_equal; ring.
Qed.

(** measuring an empty set (or only bits beyond the register) changes nothing *)
Definition C06_empty_stmt : Prop :=
  forall (r : qreg R) (mask drawn : N),
    N.land mask (q_mask r) = 0%N ->
    fst (measure r mask drawn) = r /\ creg_get (snd (measure r mask drawn)) = 0%N.

Lemma C06_empty_proof : C06_empty_stmt.
Proof.
  intros r mask drawn H. unfold reg_measure. rewrite H. cbn [N.eqb fst snd]. split; [reflexivity|].
  unfold creg_new, creg_with_state, creg_get. cbn [c_value]. apply N.land_0_l.
Qed.

(** repeatability: in the post-measurement state every index that can still be drawn (non-zero
    amplitude) agrees with the outcome on the measured bits, so measuring the same qubits again
    returns the same value *)
Definition C06_repeat_stmt : Prop :=
  forall (r : qreg R) (mask drawn drawn2 : N),
    let m := N.land mask (q_mask r) in
    m <> 0%N ->
    E15 < sqrt (reg_absolute Rops (reg_collapse Rops r drawn m)) ->
    let r' := fst (measure r mask drawn) in
    get Rops (q_psi r') drawn2 <> c0 Rops ->
    N.land drawn2 m = N.land drawn m.

Lemma C06_repeat_proof : C06_repeat_stmt.
Proof.
  intros r mask drawn drawn2 m Hm Hn r' Hnz.
  destruct (C06_projection_proof r mask drawn Hm Hn) as [_ [_ [t [_ Hget]]]].
  fold m in Hget. subst r'. rewrite Hget in Hnz. unfold consistent in Hnz.
  destruct (N.eqb_spec (N.land (N.lxor drawn2 drawn) m) 0) as [E|E]; [|contradiction].
  apply N.bits_inj. intro k. assert (X := f_equal (fun x => N.testbit x k) E). cbn beta in X.
  rewrite N.land_spec, N.lxor_spec, N.bits_0 in X. rewrite !N.land_spec.
  destruct (N.testbit drawn2 k), (N.testbit drawn k), (N.testbit m k); try reflexivity; discriminate.
Qed.
