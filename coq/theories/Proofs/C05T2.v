(** * C05T2: the invariant over tree-shaped histories -- registers built by constructors, steps
    (apply / measure / set_num) and tensor products of registers with histories of their own.
    Adds "no amplitude lies outside the register's 2^n states" (the padding cells of the 8-entry
    minimum buffer stay exactly zero) and the norm of a tensor product (the product of the norms). *)
From Coq Require Import Reals Lra Lia.
From QV Require Import Reg Expr ScalarR BitsP BitsIterP VecP OpP C14T RegP C06T C03T C03T2 NormP Form2P ApplyP C05T.
Open Scope R_scope.

(** ** padding: cells at and above 2^n are zero *)
Definition padz (r : qreg R) : Prop := zout (N.to_nat (q_num r)) (get Rops (q_psi r)).

Lemma p2_to_nat n : p2 (N.to_nat n) = (2 ^ n)%N.
Proof. unfold p2. rewrite Nnat.N2Nat.id. reflexivity. Qed.

Lemma padz_with_state n st : padz (reg_with_state Rops n st).
Proof.
  intros i Hi. destruct (with_state_spec Rops n st) as [_ [Hn Hg]]. rewrite Hn, p2_to_nat in Hi.
  rewrite Hg. destruct (N.eqb_spec i (st mod 2 ^ n)) as [E|E]; [|reflexivity].
  exfalso. assert (st mod 2 ^ n < 2 ^ n)%N by (apply N.mod_lt, N.pow_nonzero; discriminate). lia.
Qed.

Lemma multi_good_zout k (q : multi R) : forall psi, Forall good_single q ->
  Forall (fun s => (single_act_on s < p2 k)%N) q -> zout k psi -> zout k (multi_fn Rops q psi).
Proof.
  induction q as [|s q IH]; intros psi G B Hz; [exact Hz|].
  inversion G; subst. inversion B; subst. rewrite multi_fn_cons. apply IH; try assumption.
  apply good_zout; assumption.
Qed.

Lemma inside_bounds (q : multi R) n k : inside (multi_act_on q) (N.ones n) -> (N.to_nat n <= k)%nat ->
  Forall (fun s => (single_act_on s < p2 k)%N) q.
Proof.
  intros Hin Hk. apply (inside_fold q _ 0%N) in Hin. destruct Hin as [_ Hin].
  eapply Forall_impl; [|exact Hin]. intros s Hs. cbv beta in Hs.
  apply (inside_ones_lt _ n); [exact Hs|exact Hk].
Qed.

Lemma padz_apply (r : qreg R) (q : multi R) :
  shaped r -> padz r -> Forall good_single q -> inside (multi_act_on q) (q_mask r) ->
  padz (reg_apply Rops r q).
Proof.
  intros [Hl Hm] Hp G Hin. rewrite Hm in Hin. unfold mask_n in Hin.
  intros i Hi. cbn [reg_apply q_psi q_num] in *.
  rewrite (apply_is_fn (Nat.max (N.to_nat (q_num r)) 3) q G).
  - apply (multi_good_zout (N.to_nat (q_num r)) q _ G); [|exact Hp|exact Hi].
    apply (inside_bounds q (q_num r)); [exact Hin|lia].
  - apply (inside_bounds q (q_num r)); [exact Hin|lia].
  - rewrite Hl. apply blen_pow2.
Qed.

Lemma cscale_zero t : cscale Rops (c0 Rops) t = c0 Rops.
Proof. unfold cscale, c0, re, im. cbn [fst snd fmul f0 Rops]. f_equal; ring. Qed.

Lemma padz_reset (r : qreg R) : padz (reg_reset Rops r 0).
Proof.
  intros i Hi. unfold reg_reset in *. cbn [q_psi q_num] in *. rewrite one_at_get, N.land_0_r.
  destruct (N.eqb_spec i 0) as [->|]; [|reflexivity]. exfalso. generalize (p2_pos (N.to_nat (q_num r))). lia.
Qed.

Lemma padz_normalize (r : qreg R) : padz r -> padz (reg_normalize Rops E15 E9 r).
Proof.
  intro Hp. unfold reg_normalize. destruct (fleb Rops _ E15); [apply padz_reset|].
  destruct (fleb Rops _ E9); [exact Hp|].
  intros i Hi. cbn [q_psi q_num] in *. rewrite scale_get, (Hp i Hi). apply cscale_zero.
Qed.

Lemma padz_measure (r : qreg R) mask drawn : padz r -> padz (fst (reg_measure Rops E15 E9 r mask drawn)).
Proof.
  intro Hp. unfold reg_measure. destruct (N.eqb _ 0); cbn [fst]; [exact Hp|].
  apply padz_normalize. intros i Hi. cbn [reg_collapse q_psi q_num] in *. rewrite collapse_get.
  destruct (negb _); [reflexivity|exact (Hp i Hi)].
Qed.

Lemma get_firstn (v : bufR) len i : get Rops (firstn len v) i = if (N.to_nat i <? len)%nat then get Rops v i else c0 Rops.
Proof.
  unfold get. destruct (Nat.ltb_spec (N.to_nat i) len) as [L|L].
  - revert v len L. generalize (N.to_nat i) as k. induction k as [|k IH]; intros v len L; destruct v as [|x v], len as [|len]; cbn; try reflexivity; try lia.
    apply IH. lia.
  - apply nth_overflow. rewrite firstn_length. lia.
Qed.

Lemma padz_set_num (r : qreg R) k : shaped r -> padz r -> padz (reg_set_num Rops r k).
Proof.
  intros Hs Hp. unfold reg_set_num. destruct (N.ltb_spec k (q_num r)) as [L|L].
  - apply padz_reset.
  - intros i Hi. cbn [q_psi q_num] in *. unfold resize. rewrite get_app_zeros, get_firstn.
    destruct (N.to_nat i <? blen k)%nat; [|reflexivity]. apply Hp.
    rewrite p2_to_nat in *. assert (2 ^ q_num r <= 2 ^ k)%N by (apply N.pow_le_mono_r; lia). lia.
Qed.

Lemma padz_tensor (a b : qreg R) : padz (reg_tensor Rops a b).
Proof.
  intros i Hi. destruct (tensor_spec Rops a b) as [_ [Hn [_ [_ Hz]]]]. rewrite Hn, p2_to_nat in Hi. apply Hz. exact Hi.
Qed.

(** ** sums over the cube: dropping zero upper halves, and splitting into low and high parts *)
Lemma csum_zero n : forall g, (forall i, g i = 0) -> csum n g = 0.
Proof.
  induction n as [|n IH]; intros g Hg; cbn [csum]; [apply Hg|].
  rewrite (IH g Hg), (IH _ (fun i => Hg _)). ring.
Qed.

Lemma csum_pad n d : forall g, (forall i, (p2 n <= i)%N -> g i = 0) -> csum (d + n) g = csum n g.
Proof.
  induction d as [|d IH]; intros g Hg; [reflexivity|].
  cbn [Nat.add csum]. rewrite (IH g Hg).
  rewrite (csum_ext (d + n) _ (fun _ => 0)); [rewrite (csum_zero (d + n) (fun _ => 0)) by (intro; reflexivity); ring|].
  intros i Hi. apply Hg. rewrite lxor_p2_add by exact Hi.
  assert (p2 n <= p2 (d + n))%N by (unfold p2; apply N.pow_le_mono_r; lia). lia.
Qed.

Lemma csum_scal n c : forall g, csum n (fun i => c * g i) = c * csum n g.
Proof. induction n as [|n IH]; intro g; cbn [csum]; [reflexivity|]. rewrite !IH. ring. Qed.

Lemma lt_p2_mono a b i : (a <= b)%nat -> (i < p2 a)%N -> (i < p2 b)%N.
Proof. intros H Hi. assert (p2 a <= p2 b)%N by (unfold p2; apply N.pow_le_mono_r; lia). lia. Qed.

(** Sum_{idx < 2^(na+nb)} A(idx mod 2^na) B(idx / 2^na) = (Sum A)(Sum B) *)
Lemma csum_prod na (A : N -> R) : forall nb (B : N -> R),
  csum (nb + na) (fun idx => A (N.land idx (N.ones (N.of_nat na))) * B (N.shiftr idx (N.of_nat na))) =
  csum na A * csum nb B.
Proof.
  induction nb as [|nb IH]; intro B.
  - cbn [Nat.add csum]. rewrite Rmult_comm, <- csum_scal.
    apply csum_ext. intros i Hi. unfold p2 in Hi.
    rewrite N.land_ones, N.mod_small by exact Hi. rewrite N.shiftr_div_pow2, N.div_small by exact Hi. ring.
  - cbn [Nat.add csum]. rewrite IH.
    rewrite (csum_ext (nb + na) _
               (fun idx => A (N.land idx (N.ones (N.of_nat na))) * B (N.lxor (N.shiftr idx (N.of_nat na)) (p2 nb)))).
    + rewrite (IH (fun h => B (N.lxor h (p2 nb)))). ring.
    + intros i Hi. f_equal; f_equal.
      * (* the low part does not see the flipped top bit *)
        apply N.bits_inj. intro t. rewrite !N.land_spec, N.lxor_spec. unfold p2. rewrite pow2_bits.
        destruct (N.ltb_spec t (N.of_nat na)) as [L|G].
        -- destruct (N.eqb_spec (N.of_nat (nb + na)) t); [lia|]. rewrite Bool.xorb_false_r. reflexivity.
        -- rewrite N.ones_spec_high by lia. rewrite !Bool.andb_false_r. reflexivity.
      * apply N.bits_inj. intro t. rewrite N.shiftr_spec', !N.lxor_spec, N.shiftr_spec'. unfold p2. rewrite !pow2_bits.
        f_equal. destruct (N.eqb_spec (N.of_nat (nb + na)) (t + N.of_nat na)), (N.eqb_spec (N.of_nat nb) t); try reflexivity; lia.
Qed.

(** ** the norm of a tensor product *)
Lemma sumsq_padz (r : qreg R) : shaped r -> padz r ->
  sumsq (q_psi r) = csum (N.to_nat (q_num r)) (fun i => n2 (get Rops (q_psi r) i)).
Proof.
  intros [Hl _] Hp. rewrite (sumsq_cube (q_psi r) (Nat.max (N.to_nat (q_num r)) 3)) by (rewrite Hl; apply blen_pow2).
  replace (Nat.max (N.to_nat (q_num r)) 3) with ((Nat.max (N.to_nat (q_num r)) 3 - N.to_nat (q_num r)) + N.to_nat (q_num r))%nat by lia.
  apply csum_pad. intros i Hi. rewrite (Hp i Hi). unfold n2, c0. cbn [fst snd f0 Rops]. ring.
Qed.

Lemma n2_cmul a b : n2 (cmul Rops a b) = n2 a * n2 b.
Proof. destruct a, b. unfold n2, cmul, re, im. cbn [fst snd fmul fsub fadd Rops]. ring. Qed.

Lemma tensor_sumsq (a b : qreg R) : shaped a -> padz a -> shaped b -> padz b ->
  sumsq (q_psi (reg_tensor Rops a b)) = sumsq (q_psi a) * sumsq (q_psi b).
Proof.
  intros Sa Pa Sb Pb.
  destruct (tensor_spec Rops a b) as [St [Hn [_ [Hg _]]]].
  rewrite (sumsq_padz _ St (padz_tensor a b)), (sumsq_padz a Sa Pa), (sumsq_padz b Sb Pb), Hn.
  rewrite Nnat.N2Nat.inj_add, Nat.add_comm.
  rewrite <- (csum_prod (N.to_nat (q_num a)) _ (N.to_nat (q_num b))).
  apply csum_ext. intros i Hi.
  rewrite Hg.
  2: { unfold p2 in Hi. rewrite Nnat.Nat2N.inj_add, !Nnat.N2Nat.id, N.add_comm in Hi. exact Hi. }
  rewrite n2_cmul. destruct Sa as [_ ->], Sb as [_ Mb]. unfold mask_n. rewrite !Nnat.N2Nat.id. f_equal.
  rewrite Mb. unfold mask_n. f_equal. f_equal. rewrite N.land_ones. apply N.mod_small.
  (* the high part of an index below 2^(na+nb) is below 2^nb *)
  rewrite N.shiftr_div_pow2. apply N.div_lt_upper_bound; [apply N.pow_nonzero; discriminate|].
  unfold p2 in Hi. rewrite Nnat.Nat2N.inj_add, !Nnat.N2Nat.id in Hi. rewrite <- N.pow_add_r, N.add_comm. exact Hi.
Qed.

(** ** the invariant with a band that widens by one tolerance per tensor factor *)
Definition InvK (k : nat) (r : qreg R) : Prop :=
  shaped r /\ padz r /\ (1 - E9) ^ k <= norm r <= 1.

Lemma band_pos : 0 < 1 - E9 < 1.
Proof. generalize E9_pos E15_lt_band. unfold E15. intros. assert (0 < / 10 ^ 15) by (apply Rinv_0_lt_compat; lra). lra. Qed.


Lemma pow_band_le k : 0 < (1 - E9) ^ k <= 1.
Proof.
  induction k as [|k [IH1 IH2]]; cbn [pow]; [lra|]. destruct band_pos as [H0 H1]. split.
  - apply Rmult_lt_0_compat; assumption.
  - assert ((1 - E9) * (1 - E9) ^ k <= 1 * 1) by (apply Rmult_le_compat; lra). lra.
Qed.

Lemma pow_band_mono j k : (j <= k)%nat -> (1 - E9) ^ k <= (1 - E9) ^ j.
Proof.
  intro H. replace k with (j + (k - j))%nat by lia. rewrite pow_add.
  destruct (pow_band_le j) as [A _]. destruct (pow_band_le (k - j)) as [_ B].
  assert ((1 - E9) ^ j * (1 - E9) ^ (k - j) <= (1 - E9) ^ j * 1) by (apply Rmult_le_compat_l; lra). lra.
Qed.

Lemma InvK_of_Inv r : Inv r -> padz r -> InvK 1 r.
Proof. intros [Hs Hn] Hp. split; [exact Hs|split; [exact Hp|]]. cbn [pow]. rewrite Rmult_1_r. exact Hn. Qed.

Lemma measure_inv' r mask drawn :
  shaped r -> norm r <= 1 ->
  (N.land mask (q_mask r) <> 0%N -> E15 < norm (reg_collapse Rops r drawn (N.land mask (q_mask r)))) ->
  N.land mask (q_mask r) <> 0%N ->
  Inv (fst (reg_measure Rops E15 E9 r mask drawn)).
Proof.
  intros Hs Hn Hnd E. unfold reg_measure.
  destruct (N.eqb_spec (N.land mask (q_mask r)) 0) as [E'|_]; [contradiction|]. cbn [fst].
  specialize (Hnd E). set (rc := reg_collapse Rops r drawn (N.land mask (q_mask r))) in *.
  assert (Hle : norm rc <= norm r).
  { unfold norm, reg_absolute. rewrite !norm2_buf_sumsq. apply sqrt_le_1_alt. apply sumsq_collapse_le. }
  destruct (normalize_spec rc Hnd) as [t [Ht [Hp [Hq [Hm [H1 H2]]]]]].
  split.
  - destruct Hs as [Hl Hmask]. split; [rewrite Hp, Hq, scale_length; unfold rc; cbn [reg_collapse q_psi q_num]; rewrite collapse_length; exact Hl|].
    rewrite Hm, Hq. exact Hmask.
  - unfold norm at 1 2. unfold reg_absolute. rewrite norm2_buf_sumsq, Hp, sumsq_scale.
    fold (norm rc) in *. unfold norm in Hnd, Hle, H1, H2, Hn. unfold reg_absolute in Hnd, Hle, H1, H2, Hn.
    rewrite ?norm2_buf_sumsq in Hnd, Hle, H1, H2, Hn.
    set (s := sumsq (q_psi rc)) in *.
    assert (Hs0 : 0 <= s) by apply sumsq_nonneg.
    destruct (Rle_dec (1 - sqrt s) E9) as [B|B].
    + rewrite (H1 B). replace (1 * 1 * s) with s by ring. rewrite norm2_buf_sumsq in Hle. lra.
    + rewrite (H2 B).
      assert (Hpos : 0 < sqrt s) by (generalize E15_lt_band E9_pos; unfold E15 in *; lra).
      replace (/ sqrt s * / sqrt s * s) with 1.
      * rewrite sqrt_1. generalize E9_pos. lra.
      * rewrite <- (sqrt_sqrt s Hs0) at 3. field. lra.
Qed.

(** a collapsed state at or below the reset threshold is replaced by |0...0>: the invariant needs no
    hypothesis about the outcome *)
Lemma measure_inv_any r mask drawn :
  shaped r -> norm r <= 1 -> N.land mask (q_mask r) <> 0%N ->
  Inv (fst (reg_measure Rops E15 E9 r mask drawn)).
Proof.
  intros Hs Hn E.
  set (rc := reg_collapse Rops r drawn (N.land mask (q_mask r))).
  destruct (Rle_dec (norm rc) E15) as [L|L].
  - unfold reg_measure. destruct (N.eqb_spec (N.land mask (q_mask r)) 0) as [E'|_]; [contradiction|]. cbn [fst].
    fold rc. unfold reg_normalize. cbn [fsqrt fleb Rops]. unfold R_leb. fold (norm rc).
    destruct (Rle_dec (norm rc) E15) as [_|N]; [|contradiction].
    assert (Hl : length (q_psi rc) = blen (q_num r)) by (unfold rc; cbn [reg_collapse q_psi]; rewrite collapse_length; exact (proj1 Hs)).
    apply Inv_of_norm1.
    + split; cbn [reg_reset q_psi q_num q_mask]; [rewrite one_at_length; exact Hl|exact (proj2 Hs)].
    + cbn [reg_reset q_psi]. apply sumsq_one_at. rewrite N.land_0_r, Hl.
      unfold blen, MIN_BUFFER_LEN. change (N.to_nat 0) with 0%nat. lia.
  - apply measure_inv'; try assumption. intros _. fold rc. lra.
Qed.

(** side conditions of one step: only that an applied operator is a product of good elements
    addressed to qubits the register has *)
Definition admissible_g (r : qreg R) (a : act) : Prop :=
  match a with
  | Apply q => Forall good_single q /\ inside (multi_act_on q) (q_mask r)
  | _ => True
  end.

Lemma stepK k r a : (1 <= k)%nat -> InvK k r -> admissible_g r a -> InvK k (step r a).
Proof.
  intros Hk [Hs [Hp Hn]] Ha. destruct a as [q|mask drawn|j]; cbn [step admissible_g] in *.
  - destruct Ha as [G Hin]. split; [|split].
    + destruct Hs as [Hl Hm]. split; cbn [reg_apply q_psi q_num q_mask]; [rewrite multi_apply_length'; exact Hl|exact Hm].
    + apply padz_apply; assumption.
    + unfold norm, reg_absolute in *. rewrite norm2_buf_sumsq in *. cbn [reg_apply q_psi].
      rewrite (apply_keeps_sumsq r q Hs G Hin). exact Hn.
  - destruct (N.eq_dec (N.land mask (q_mask r)) 0) as [E|E].
    + unfold reg_measure. rewrite (proj2 (N.eqb_eq _ _) E). cbn [fst]. split; [exact Hs|split; assumption].
    + destruct (measure_inv_any r mask drawn Hs (proj2 Hn) E) as [Hs' Hn'].
      split; [exact Hs'|split; [apply padz_measure; exact Hp|]].
      split; [|exact (proj2 Hn')]. destruct k as [|k]; [lia|].
      apply Rle_trans with (1 - E9); [|exact (proj1 Hn')].
      replace (1 - E9) with ((1 - E9) ^ 1) at 2 by (cbn [pow]; ring). apply pow_band_mono. lia.
  - split; [|split].
    + destruct (N.le_gt_cases (q_num r) j) as [L|L]; [exact (proj1 (set_num_grow Rops r j Hs L))|exact (proj1 (set_num_shrink Rops r j L))].
    + apply padz_set_num; assumption.
    + (* growing keeps the norm, shrinking resets to norm 1 *)
      destruct (N.le_gt_cases (q_num r) j) as [L|L].
      * unfold norm, reg_absolute in *. rewrite norm2_buf_sumsq in *.
        unfold reg_set_num. destruct (N.ltb_spec j (q_num r)); [lia|]. cbn [q_psi].
        unfold resize. destruct Hs as [Hl _]. rewrite firstn_all2 by (generalize (blen_mono _ _ L); lia).
        rewrite sumsq_app, sumsq_zeros, Rplus_0_r. exact Hn.
      * assert (E1 : norm (reg_set_num Rops r j) = 1).
        { apply norm_of_sumsq1. unfold reg_set_num. rewrite (proj2 (N.ltb_lt _ _) L). unfold reg_reset. cbn [q_psi].
          apply sumsq_one_at. rewrite N.land_0_r.
          unfold resize. rewrite app_length, firstn_length. unfold zeros. rewrite repeat_length.
          unfold blen, MIN_BUFFER_LEN. change (N.to_nat 0) with 0%nat. lia. }
        rewrite E1. destruct (pow_band_le k). lra.
Qed.

Lemma tensorK j k a b : InvK j a -> InvK k b -> InvK (j + k) (reg_tensor Rops a b).
Proof.
  intros [Sa [Pa Na]] [Sb [Pb Nb]]. split; [exact (proj1 (tensor_spec Rops a b))|split; [apply padz_tensor|]].
  assert (E : norm (reg_tensor Rops a b) = norm a * norm b).
  { unfold norm, reg_absolute. rewrite !norm2_buf_sumsq, tensor_sumsq by assumption. apply sqrt_mult; apply sumsq_nonneg. }
  rewrite E, pow_add.
  destruct (pow_band_le j) as [J0 _]. destruct (pow_band_le k) as [K0 _]. split.
  - apply Rmult_le_compat; lra.
  - assert (norm a * norm b <= 1 * 1) by (apply Rmult_le_compat; lra). lra.
Qed.

(** ** tree-shaped histories *)
Inductive build :=
| BNew (n st : N)
| BStep (b : build) (a : act)
| BTensor (x y : build).

Fixpoint run (b : build) : qreg R :=
  match b with
  | BNew n st => reg_with_state Rops n st
  | BStep b a => step (run b) a
  | BTensor x y => reg_tensor Rops (run x) (run y)
  end.

Fixpoint leaves (b : build) : nat :=
  match b with BNew _ _ => 1 | BStep b _ => leaves b | BTensor x y => leaves x + leaves y end.

Fixpoint build_ok (b : build) : Prop :=
  match b with
  | BNew _ _ => True
  | BStep b a => build_ok b /\ admissible_g (run b) a
  | BTensor x y => build_ok x /\ build_ok y
  end.

Definition C05_tree_stmt : Prop :=
  forall b : build, build_ok b ->
    let r := run b in
    shaped r /\
    (* no amplitude outside the register's 2^n states *)
    (forall i, (2 ^ q_num r <= i)%N -> get Rops (q_psi r) i = c0 Rops) /\
    (* the norm stays within one normalisation tolerance per tensor factor of 1, never above *)
    1 - INR (leaves b) * E9 <= norm r <= 1.

Lemma bernoulli k : 1 - INR k * E9 <= (1 - E9) ^ k.
Proof.
  induction k as [|k IH]; [cbn; lra|]. rewrite S_INR. cbn [pow].
  destruct band_pos as [B0 B1]. destruct (pow_band_le k) as [P0 P1]. generalize E9_pos. intro.
  assert (0 <= INR k) by apply pos_INR.
  destruct (Rle_dec 0 (1 - INR k * E9)) as [Hp|Hn].
  - assert ((1 - E9) * (1 - INR k * E9) <= (1 - E9) * (1 - E9) ^ k) by (apply Rmult_le_compat_l; lra).
    assert (0 <= INR k * E9 * E9) by (apply Rmult_le_pos; [apply Rmult_le_pos|]; lra). nra.
  - assert (0 < (1 - E9) * (1 - E9) ^ k) by (apply Rmult_lt_0_compat; lra). nra.
Qed.

Lemma leaves_pos b : (1 <= leaves b)%nat.
Proof. induction b; cbn [leaves]; lia. Qed.

Lemma run_invK b : build_ok b -> InvK (leaves b) (run b).
Proof.
  induction b as [n st|b IH a|x IHx y IHy]; cbn [build_ok run leaves].
  - intros _. apply InvK_of_Inv; [apply with_state_inv|apply padz_with_state].
  - intros [Hb Ha]. apply stepK; [apply leaves_pos|apply IH; exact Hb|exact Ha].
  - intros [Hx Hy]. apply tensorK; [apply IHx|apply IHy]; assumption.
Qed.

Lemma C05_tree_proof : C05_tree_stmt.
Proof.
  intros b Hb r. destruct (run_invK b Hb) as [Hs [Hp [Hn1 Hn2]]]. fold r in Hs, Hp, Hn1, Hn2.
  split; [exact Hs|split].
  - intros i Hi. apply Hp. rewrite p2_to_nat. exact Hi.
  - split; [|exact Hn2]. apply Rle_trans with ((1 - E9) ^ leaves b); [apply bernoulli|exact Hn1].
Qed.
