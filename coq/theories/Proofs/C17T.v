(** * C17T: feeding a program in pieces *)
From Coq Require Import Lia String ZArith.
From QV Require Import Interp InterpP.
Open Scope N_scope.

(** the record of accepted chunks: every accepted chunk exactly once, in order, whichever
    incremental interface was used; nothing is recorded for a rejected chunk *)
Definition C17_record_stmt : Prop :=
  forall (F : Type) (OP : ops F) (i : @int F) (chunk : list (@node F)),
    (* add_ast *)
    (fst (add_ast OP i chunk) = IOk tt -> i_asts (snd (add_ast OP i chunk)) = i_asts i ++ [chunk]) /\
    (forall e, fst (add_ast OP i chunk) = IErr e -> i_asts (snd (add_ast OP i chunk)) = i_asts i) /\
    (* ast_changes against the current interpreter, then append_int / prepend_int *)
    (forall ch, ast_changes OP i int_empty chunk = IOk ch ->
                i_asts (append_int i ch) = i_asts i ++ [chunk] /\
                i_asts (prepend_int ch i) = i_asts i ++ [chunk] /\
                i_xor (append_int i ch) = i_xor i).

Lemma C17_record_proof : C17_record_stmt.
Proof.
  intros F OP i chunk. repeat split.
  - unfold add_ast, ast_changes. destruct (process_nodes OP int_empty i chunk) as [i'|e|w] eqn:E; cbn [ibind fst snd];
      intro H; try discriminate.
    apply process_nodes_meta in E. destruct E as [E _]. cbn [push_ast i_asts]. rewrite E. reflexivity.
  - intros e. unfold add_ast, ast_changes. destruct (process_nodes OP int_empty i chunk); cbn [ibind fst snd];
      intro H; try discriminate. reflexivity.
  - unfold ast_changes in H. destruct (process_nodes OP i int_empty chunk) as [c'|e|w] eqn:E; cbn [ibind] in H; try discriminate.
    injection H as <-. apply process_nodes_meta in E. destruct E as [E _].
    cbn [append_int push_ast i_asts]. rewrite <- E. reflexivity.
  - unfold ast_changes in H. destruct (process_nodes OP i int_empty chunk) as [c'|e|w] eqn:E; cbn [ibind] in H; try discriminate.
    injection H as <-. apply process_nodes_meta in E. destruct E as [E _].
    unfold prepend_int. cbn [append_int push_ast i_asts]. rewrite <- E. reflexivity.
Qed.

(** add_ast chunk by chunk = add_ast of the whole text: the interpreters agree in every field but the
    record (which lists the pieces).  Earlier declarations and gate definitions are visible to
    later chunks because the later chunk is processed in the state the earlier one left. *)
Definition same_but_record {F} (a b : @int F) : Prop :=
  i_xor a = i_xor b /\ i_qreg a = i_qreg b /\ i_creg a = i_creg b /\ i_ops a = i_ops b /\ i_macros a = i_macros b.

Definition C17_add_chunks_stmt : Prop :=
  forall (F : Type) (OP : ops F) (i : @int F) (p1 p2 : list (@node F)) (i1 i2 : @int F),
    add_ast OP i p1 = (IOk tt, i1) -> add_ast OP i1 p2 = (IOk tt, i2) ->
    exists iw, add_ast OP i (p1 ++ p2) = (IOk tt, iw) /\ same_but_record iw i2 /\
               i_asts iw = i_asts i ++ [p1 ++ p2] /\ i_asts i2 = i_asts i ++ [p1; p2].

(** processing does not look at the record *)
Lemma process_node1_push_ast {F} (OP : ops F) base ch n a :
  process_node1 OP base (push_ast ch a) n =
  match process_node1 OP base ch n with IOk c => IOk (push_ast c a) | IErr e => IErr e | IPanic w => IPanic w end.
Proof.
  assert (Hq : forall b x, get_q_idx b (push_ast ch a) x = get_q_idx b ch x) by reflexivity.
  assert (Hc : forall b x, get_c_idx b (push_ast ch a) x = get_c_idx b ch x) by reflexivity.
  assert (Hap : forall c name regs args,
             process_apply OP base (push_ast c a) name regs args =
             match process_apply OP base c name regs args with
             | IOk c' => IOk (push_ast c' a) | IErr e => IErr e | IPanic w => IPanic w end).
  { intros c name regs args. unfold process_apply.
    change (get_q_idx base (push_ast c a)) with (get_q_idx base c).
    destruct (imap (get_q_idx base c) regs) as [rv|e|w]; cbn [ibind]; try reflexivity.
    destruct (imap _ args) as [av|e|w]; cbn [ibind]; try reflexivity.
    change (i_macros (push_ast c a)) with (i_macros c).
    destruct (match lookup name (rev (i_macros base ++ i_macros c)) with
              | Some m => _ | None => _ end) as [o|e|w]; cbn [ibind]; reflexivity. }
  destruct n as [alias size|alias size|x|x|q c|name regs args| |name regs params body|lhs rhs body]; cbn [process_node1].
  - unfold process_qreg. change (check_dup base (push_ast ch a) alias) with (check_dup base ch alias).
    change (i_qreg (push_ast ch a)) with (i_qreg ch).
    destruct (check_ident alias); cbn [ibind]; try reflexivity.
    destruct (check_reg_size alias (size_as_N size)); cbn [ibind]; try reflexivity.
    destruct (check_reg_size alias _); cbn [ibind]; try reflexivity.
    destruct (check_dup base ch alias); cbn [ibind]; reflexivity.
  - unfold process_creg. change (check_dup base (push_ast ch a) alias) with (check_dup base ch alias).
    change (i_creg (push_ast ch a)) with (i_creg ch).
    destruct (check_ident alias); cbn [ibind]; try reflexivity.
    destruct (check_reg_size alias (size_as_N size)); cbn [ibind]; try reflexivity.
    destruct (check_reg_size alias _); cbn [ibind]; try reflexivity.
    destruct (check_dup base ch alias); cbn [ibind]; reflexivity.
  - reflexivity.
  - rewrite Hq. destruct (get_q_idx base ch x); cbn [ibind]; reflexivity.
  - rewrite Hq, Hc. destruct (get_q_idx base ch q); cbn [ibind]; try reflexivity.
    destruct (get_c_idx base ch c); cbn [ibind]; try reflexivity.
    destruct (negb _); reflexivity.
  - apply Hap.
  - reflexivity.
  - unfold process_gate. destruct (macro_new OP regs params body); cbn [ibind]; try reflexivity.
    change (has_macro name (push_ast ch a)) with (has_macro name ch).
    destruct (has_macro name base || has_macro name ch)%bool; try reflexivity.
    destruct (check_ident name); cbn [ibind]; reflexivity.
  - destruct body; try reflexivity.
    change (set_ops (push_ast ch a) (ext_branch (i_ops (push_ast ch a)) SNop))
      with (push_ast (set_ops ch (ext_branch (i_ops ch) SNop)) a).
    rewrite Hc0 || idtac.
    change (get_c_idx base (push_ast (set_ops ch (ext_branch (i_ops ch) SNop)) a) (Register lhs))
      with (get_c_idx base (set_ops ch (ext_branch (i_ops ch) SNop)) (Register lhs)).
    destruct (get_c_idx base (set_ops ch (ext_branch (i_ops ch) SNop)) (Register lhs)); cbn [ibind]; try reflexivity.
    rewrite Hap. destruct (process_apply OP base (set_ops ch (ext_branch (i_ops ch) SNop)) name regs args); cbn [ibind]; reflexivity.
Qed.

Lemma process_nodes_push_ast {F} (OP : ops F) nodes : forall base ch a,
  process_nodes OP base (push_ast ch a) nodes =
  match process_nodes OP base ch nodes with IOk c => IOk (push_ast c a) | IErr e => IErr e | IPanic w => IPanic w end.
Proof.
  induction nodes as [|n rest IH]; intros base ch a; cbn [process_nodes]; [reflexivity|].
  rewrite process_node1_push_ast. destruct (process_node1 OP base ch n); cbn [ibind]; try reflexivity. apply IH.
Qed.

Lemma C17_add_chunks_proof : C17_add_chunks_stmt.
Proof.
  intros F OP i p1 p2 i1 i2 H1 H2. unfold add_ast, ast_changes in *.
  destruct (process_nodes OP int_empty i p1) as [c1|e|w] eqn:E1; cbn [ibind] in H1; try discriminate.
  injection H1 as <-.
  rewrite process_nodes_push_ast in H2.
  destruct (process_nodes OP int_empty c1 p2) as [c2|e|w] eqn:E2; cbn [ibind] in H2; try discriminate.
  injection H2 as <-.
  rewrite process_nodes_app, E1. cbn [ibind]. rewrite E2. cbn [ibind].
  eexists. split; [reflexivity|]. split; [|split].
  - repeat split.
  - apply process_nodes_meta in E1. apply process_nodes_meta in E2. destruct E1 as [A1 _], E2 as [A2 _].
    cbn [push_ast i_asts]. rewrite <- A2, <- A1. reflexivity.
  - apply process_nodes_meta in E1. apply process_nodes_meta in E2. destruct E1 as [A1 _], E2 as [A2 _].
    cbn [push_ast i_asts]. rewrite <- A2, <- A1. rewrite <- app_assoc. reflexivity.
Qed.

(** pre-repair append_int dropped the record: witness *)
Definition C17_legacy_stmt : Prop :=
  forall (F : Type) (OP : ops F),
    let i := @int_empty F in
    let chunk := [@NQReg F "q"%string 1%Z] in
    exists ch, ast_changes OP i int_empty chunk = IOk ch /\
               i_asts (append_int_legacy i ch) = [] /\ i_asts (append_int i ch) = [chunk].

Lemma C17_legacy_proof : C17_legacy_stmt.
Proof. intros F OP i chunk. eexists. repeat split. Qed.
