(** * C04T: a product acts as its factors applied in queue order *)
From Coq Require Import Reals Lia.
From QV Require Import Spec Expr ScalarR BitsP OpP.

Section C04.
  Context {F : Type} (OP : ops F).
  Local Notation vec := (@vec F).
  Local Notation buf := (@buf F).

  Lemma tab_from_length k : forall start (f : vec), length (tab_from k start f) = k.
  Proof. induction k as [|k IH]; intros; cbn [tab_from length]; [reflexivity|rewrite IH; reflexivity]. Qed.

  Lemma tab_length k (f : vec) : length (tab k f) = k.
  Proof. apply tab_from_length. Qed.

  Lemma single_apply_length s (v : buf) : length (single_apply OP s v) = length v.
  Proof. apply tab_length. Qed.

  Lemma multi_apply_length q : forall (v : buf), length (multi_apply OP q v) = length v.
  Proof.
    induction q as [|s q IH]; intro v; [reflexivity|].
    cbn [multi_apply fold_left]. change (fold_left _ q ?x) with (multi_apply OP q x).
    rewrite IH. apply single_apply_length.
  Qed.

  (** the two-buffer ping-pong of [MultiOp::apply], whatever the output buffer held *)
  Lemma pingpong_spec q : forall (input out : buf), length out = length input ->
    fst (pingpong OP q input out) = multi_apply OP q input.
  Proof.
    induction q as [|s q IH]; intros input out Hlen; [reflexivity|].
    cbn [pingpong]. rewrite IH by (rewrite tab_length; symmetry; exact Hlen).
    rewrite Hlen. reflexivity.
  Qed.
End C04.

Notation MF := (multi_fn Rops).

(** [MultiOp::apply] = successive application of the elements, for every queue (empty, odd,
    even length) and *any* initial content of the output buffer (it is left uninitialised by
    the callers) *)
Definition C04_pingpong_stmt : Prop :=
  forall (q : multi R) (input garbage : @buf R),
    length garbage = length input ->
    multi_apply_buffers Rops q input garbage =
    fold_left (fun v s => single_apply Rops s v) q input.

Lemma C04_pingpong_proof : C04_pingpong_stmt.
Proof. intros q input garbage H. apply (pingpong_spec Rops q input garbage H). Qed.

(** however a product is assembled ([*], [*=], [append], [push_back] all denote queue
    concatenation in [eval]), it acts as the left operand followed by the right one; the
    identity is neutral on both sides; a dropped [Id] gate contributes nothing *)
Definition C04_assembly_stmt : Prop :=
  forall (a b : opexpr R) (qa qb : multi R),
    eval Rops a = ROk qa -> eval Rops b = ROk qb ->
    eval Rops (EMul a b) = ROk (qa ++ qb) /\
    (forall psi idx, MF (qa ++ qb) psi idx = MF qb (MF qa psi) idx) /\
    eval Rops (EMul EId a) = ROk qa /\
    (exists q, eval Rops (EMul a EId) = ROk q /\ forall psi idx, MF q psi idx = MF qa psi idx) /\
    multi_of_single (single_of (@AId R)) = [] /\
    (forall (q1 q2 q3 : multi R) psi idx, MF ((q1 ++ q2) ++ q3) psi idx = MF (q1 ++ (q2 ++ q3)) psi idx).

Lemma C04_assembly_proof : C04_assembly_stmt.
Proof.
  intros a b qa qb Ha Hb. repeat split.
  - cbn [eval]. rewrite Ha, Hb. reflexivity.
  - intros. rewrite multi_fn_app. reflexivity.
  - cbn [eval]. rewrite Ha. reflexivity.
  - exists (qa ++ []). split; [cbn [eval]; rewrite Ha; reflexivity|].
    intros. rewrite app_nil_r. reflexivity.
  - intros. rewrite <- app_assoc. reflexivity.
Qed.

(** a sequence of products applied one after another = one product of the concatenation *)
Definition C04_sequence_stmt : Prop :=
  forall (qs : list (multi R)) (psi : @vec R) (idx : N),
    fold_left (fun v q => MF q v) qs psi idx = MF (concat qs) psi idx.

Lemma C04_sequence_proof : C04_sequence_stmt.
Proof.
  intros qs. induction qs as [|q qs IH]; intros psi idx; [reflexivity|].
  cbn [fold_left concat]. rewrite IH, multi_fn_app. reflexivity.
Qed.
