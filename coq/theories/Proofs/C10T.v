(** * C10T: declared (qu)bits are numbered in declaration order, distinct ones never share a bit,
    and every gate statement contributes its operator once, at the end of the open block *)
From Coq Require Import Lia String Ascii ZArith Sorted.
From QV Require Import Interp InterpP BitsP BitsIterP.
Open Scope N_scope.
Open Scope string_scope.
Open Scope list_scope.

Lemma wrap_shiftl1 k : k < 64 -> wrap (N.shiftl 1 (k mod 64)) = 2 ^ k.
Proof.
  intro H. rewrite N.mod_small by exact H. rewrite N.shiftl_1_l, wrap_mod.
  apply N.mod_small. apply N.pow_lt_mono_r; lia.
Qed.

(** bit k of a register's mask is set exactly when the k-th declared (qu)bit belongs to it *)
Lemma mask_of_alias_from_bit (l : list ident) alias : forall s k,
  s + N.of_nat (length l) <= 64 ->
  N.testbit (mask_of_alias_from l alias s) k =
  (N.leb s k && N.ltb k (s + N.of_nat (length l)) && String.eqb (nth (N.to_nat (k - s)) l "") alias)%bool.
Proof.
  induction l as [|x l IH]; intros s k Hlen.
  - cbn [mask_of_alias_from length]. rewrite N.bits_0.
    destruct (N.leb_spec s k), (N.ltb_spec k (s + N.of_nat 0)); cbn [andb]; try reflexivity; lia.
  - cbn [mask_of_alias_from length] in *. rewrite N.lor_spec, IH by lia.
    assert (Hs : s < 64) by lia.
    destruct (N.eq_dec k s) as [->|Hne].
    + rewrite N.sub_diag. cbn [N.to_nat nth].
      destruct (N.leb_spec s s); [|lia]. destruct (N.ltb_spec s (s + N.of_nat (S (length l)))); [|lia].
      destruct (N.leb_spec (N.succ s) s); [lia|]. cbn [andb]. rewrite Bool.orb_false_r.
      destruct (String.eqb_spec x alias).
      * rewrite wrap_shiftl1 by exact Hs. rewrite N.pow2_bits_true. reflexivity.
      * apply N.bits_0.
    + assert (Hb : N.testbit (if String.eqb x alias then wrap (N.shiftl 1 (s mod 64)) else 0) k = false).
      { destruct (String.eqb x alias); [|apply N.bits_0]. rewrite wrap_shiftl1 by exact Hs.
        apply N.pow2_bits_false. congruence. }
      rewrite Hb. cbn [orb].
      destruct (N.leb_spec (N.succ s) k), (N.leb_spec s k),
        (N.ltb_spec k (N.succ s + N.of_nat (length l))), (N.ltb_spec k (s + N.of_nat (S (length l))));
        cbn [andb]; try reflexivity; try lia.
      replace (N.to_nat (k - s)) with (S (N.to_nat (k - N.succ s))) by lia. reflexivity.
Qed.

Lemma scan_bits_length k : forall w mask, (length (scan_bits k w mask) <= k)%nat.
Proof.
  induction k as [|k IH]; intros w mask; cbn [scan_bits]; [apply le_n|].
  destruct (negb (N.eqb (N.land w mask) 0)); cbn [length]; specialize (IH (N.double w) mask); lia.
Qed.

Lemma nth_bit_spec mask i : nth_bit mask i = IOk (nth_error (scan64 mask) (N.to_nat i)).
Proof.
  unfold nth_bit. rewrite bits_iter_list_spec. destruct (N.ltb_spec i 64) as [L|L]; [reflexivity|].
  f_equal. symmetry. apply nth_error_None. unfold scan64.
  assert (H := scan_bits_length 64 1 mask). lia.
Qed.

Lemma resolve_qubit_spec regs alias idx missing b :
  resolve regs (Qubit alias idx) missing = IOk b ->
  mask_of_alias regs alias <> 0 /\
  nth_error (scan64 (mask_of_alias regs alias)) (N.to_nat (size_as_N idx)) = Some b.
Proof.
  cbn [resolve]. destruct (N.eqb_spec (mask_of_alias regs alias) 0) as [E|E]; [discriminate|].
  rewrite nth_bit_spec. cbn [ibind].
  destruct (nth_error (scan64 (mask_of_alias regs alias)) (N.to_nat (size_as_N idx))); [|discriminate].
  intro H. injection H as <-. split; [exact E|reflexivity].
Qed.

Definition C10_numbering_stmt : Prop :=
  forall (regs : list ident), (length regs <= 64)%nat ->
    (* the k-th declared (qu)bit is bit k of its register's mask *)
    (forall alias k, N.testbit (mask_of_alias regs alias) k =
                     (N.ltb k (N.of_nat (length regs)) && String.eqb (nth (N.to_nat k) regs "") alias)%bool) /\
    (* masks of different registers are disjoint *)
    (forall a1 a2, a1 <> a2 -> N.land (mask_of_alias regs a1) (mask_of_alias regs a2) = 0) /\
    (* an indexed argument resolves to one bit of its register, different indices to different bits *)
    (forall alias idx missing b, resolve regs (Qubit alias idx) missing = IOk b ->
       exists p, b = 2 ^ p /\ p < 64 /\ N.testbit (mask_of_alias regs alias) p = true) /\
    (forall alias i1 i2 missing b1 b2, i1 <> i2 -> (0 <= i1)%Z -> (0 <= i2)%Z ->
       resolve regs (Qubit alias i1) missing = IOk b1 -> resolve regs (Qubit alias i2) missing = IOk b2 -> b1 <> b2) /\
    (* a whole-register argument resolves to the register's mask *)
    (forall alias missing m, resolve regs (Register alias) missing = IOk m -> m = mask_of_alias regs alias /\ m <> 0).

Lemma sorted_nodup (l : list N) : StronglySorted N.lt l -> NoDup l.
Proof.
  induction 1 as [|x l Hs IH Hall]; constructor; [|exact IH].
  intro Hin. rewrite Forall_forall in Hall. specialize (Hall x Hin). lia.
Qed.

Lemma C10_numbering_proof : C10_numbering_stmt.
Proof.
  intros regs Hlen.
  assert (Hbit : forall alias k, N.testbit (mask_of_alias regs alias) k =
                     (N.ltb k (N.of_nat (length regs)) && String.eqb (nth (N.to_nat k) regs "") alias)%bool).
  { intros alias k. unfold mask_of_alias. rewrite mask_of_alias_from_bit by lia.
    rewrite N.sub_0_r, N.add_0_l. destruct (N.leb_spec 0 k); [reflexivity|lia]. }
  split; [exact Hbit|]. split; [|split; [|split]].
  - intros a1 a2 Hne. apply N.bits_inj. intro k. rewrite N.land_spec, !Hbit, N.bits_0.
    destruct (N.ltb k (N.of_nat (length regs))); cbn [andb]; [|reflexivity].
    destruct (String.eqb_spec (nth (N.to_nat k) regs "") a1), (String.eqb_spec (nth (N.to_nat k) regs "") a2);
      try reflexivity. congruence.
  - intros alias idx missing b H. apply resolve_qubit_spec in H. destruct H as [_ E].
    apply nth_error_In in E. apply scan64_in in E. destruct E as [j [E1 [E2 E3]]].
    exists j. auto.
  - intros alias i1 i2 missing b1 b2 Hne H1 H2 R1 R2.
    apply resolve_qubit_spec in R1. apply resolve_qubit_spec in R2. destruct R1 as [_ E1], R2 as [_ E2].
    intro Heq. subst b2.
    assert (Hnd := sorted_nodup _ (scan64_sorted (mask_of_alias regs alias))).
    assert (Hi : N.to_nat (size_as_N i1) = N.to_nat (size_as_N i2)).
    { eapply (proj1 (NoDup_nth_error _) Hnd); [apply nth_error_Some; rewrite E1; discriminate|congruence]. }
    unfold size_as_N in Hi. destruct (Z.ltb_spec i1 0), (Z.ltb_spec i2 0); try lia.
  - intros alias missing m H. cbn [resolve] in H.
    destruct (N.eqb_spec (mask_of_alias regs alias) 0) as [E|E]; [discriminate|]. injection H as <-. split; [reflexivity|exact E].
Qed.

(** every gate statement contributes its operator exactly once, at the end of the open block, and
    touches nothing else; statements are processed in program order ([process_nodes_app]) *)
Definition C10_in_order_stmt : Prop :=
  forall (F : Type) (OP : ops F) (base ch ch' : @int F) name regs args,
    process_apply OP base ch name regs args = IOk ch' ->
    (exists o, i_ops ch' = ext_push (i_ops ch) o /\ blocks (i_ops ch') = blocks (i_ops ch) /\
               open (i_ops ch') = open (i_ops ch) ++ o) /\
    i_qreg ch' = i_qreg ch /\ i_creg ch' = i_creg ch /\ i_macros ch' = i_macros ch /\
    (forall p1 p2 c0, process_nodes OP base c0 (p1 ++ p2) =
                      ibind (process_nodes OP base c0 p1) (fun c1 => process_nodes OP base c1 p2)).

Lemma C10_in_order_proof : C10_in_order_stmt.
Proof.
  intros F OP base ch ch' name regs args H. unfold process_apply in H.
  apply ibind_ok in H. destruct H as [rv [_ H]].
  apply ibind_ok in H. destruct H as [av [_ H]].
  apply ibind_ok in H. destruct H as [o [_ H]].
  injection H as <-. repeat split.
  - exists o. repeat split.
  - intros. apply process_nodes_app.
Qed.
