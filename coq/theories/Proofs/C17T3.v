(** * C17T3: re-running a simulator reproduces the run from |0...0>.
    After any run, [reset] puts the simulator back into exactly the state [Sym::new] builds from the
    interpreter: same register frame (threading model, buffer length, size, mask) holding |0...0>,
    classical register cleared, same queue, same mode -- so a second [finish] is the first one
    again (for the same outcomes). *)
From Coq Require Import Lia String ZArith List.
From QV Require Import Interp Sym Reg VecP C14T.
Import ListNotations.
Open Scope N_scope.

Section Rerun.
  Context {F : Type} (OP : ops F) (e1 e2 : F).

  Definition same_frame (r r' : qreg F) : Prop :=
    q_th r' = q_th r /\ length (q_psi r') = length (q_psi r) /\ q_num r' = q_num r /\ q_mask r' = q_mask r.

  Lemma same_frame_refl r : same_frame r r.
  Proof. repeat split. Qed.

  Lemma same_frame_trans a b c : same_frame a b -> same_frame b c -> same_frame a c.
  Proof. intros [A1 [A2 [A3 A4]]] [B1 [B2 [B3 B4]]]. repeat split; congruence. Qed.

  Lemma apply_frame r q : same_frame r (reg_apply OP r q).
  Proof. repeat split. cbn [reg_apply q_psi]. apply multi_apply_length'. Qed.

  Lemma normalize_frame r : same_frame r (reg_normalize OP e1 e2 r).
  Proof.
    unfold reg_normalize. destruct (fleb OP _ e1).
    - repeat split. cbn [reg_reset q_psi]. apply one_at_length.
    - destruct (fleb OP _ e2); [apply same_frame_refl|]. repeat split. cbn [q_psi]. unfold scale_buf. apply map_length.
  Qed.

  Lemma measure_frame r mask d : same_frame r (fst (reg_measure OP e1 e2 r mask d)).
  Proof.
    unfold reg_measure. destruct (N.eqb _ 0); cbn [fst]; [apply same_frame_refl|].
    eapply same_frame_trans; [|apply normalize_frame]. repeat split. cbn [reg_collapse q_psi]. unfold collapse_buf. apply tab_length.
  Qed.

  Definition same_cframe (c c' : creg) : Prop := c_num c' = c_num c /\ c_mask c' = c_mask c.

  Lemma copy_bits_frame xor : forall qs cs c value, same_cframe c (copy_bits xor c value qs cs).
  Proof.
    induction qs as [|q qs IH]; intros cs c value; [split; reflexivity|].
    destruct cs as [|cb cs]; [split; reflexivity|]. cbn [copy_bits].
    destruct (IH cs (if xor then creg_xor c (negb (N.eqb (N.land value q) 0)) cb else creg_set c (negb (N.eqb (N.land value q) 0)) cb) value) as [A B].
    split; [rewrite A|rewrite B]; destruct xor; reflexivity.
  Qed.

  Lemma run_blocks_frame : forall bl xor r c draws r' c' rest,
    run_blocks OP e1 e2 xor r c bl draws = Some (r', c', rest) -> same_frame r r' /\ same_cframe c c'.
  Proof.
    induction bl as [|[o s] bl IH]; intros xor r c draws r' c' rest H; cbn [run_blocks] in H.
    - injection H as <- <- _. split; [apply same_frame_refl|split; reflexivity].
    - destruct s as [|qm cm|cmask v|qm].
      + destruct (IH _ _ _ _ _ _ _ H) as [A B]. split; [|exact B].
        eapply same_frame_trans; [apply apply_frame|exact A].
      + destruct (take_draw (apply_block OP r o) qm draws) as [d draws'].
        destruct (reg_measure OP e1 e2 (apply_block OP r o) qm d) as [r2 res] eqn:Em.
        destruct (bits_iter_list qm) as [qs|]; [|discriminate]. destruct (bits_iter_list cm) as [cs|]; [|discriminate].
        destruct (IH _ _ _ _ _ _ _ H) as [A B]. split.
        * eapply same_frame_trans; [apply apply_frame|]. eapply same_frame_trans; [|exact A].
          replace r2 with (fst (reg_measure OP e1 e2 (apply_block OP r o) qm d)) by (rewrite Em; reflexivity).
          apply measure_frame.
        * destruct (copy_bits_frame xor qs cs c (creg_get res)) as [C1 C2]. destruct B as [B1 B2]. split; congruence.
      + destruct (creg_get_by_mask c cmask); [|discriminate].
        destruct (N.eqb _ v).
        * destruct (IH _ _ _ _ _ _ _ H) as [A B]. split; [|exact B]. eapply same_frame_trans; [apply apply_frame|exact A].
        * exact (IH _ _ _ _ _ _ _ H).
      + destruct (take_draw (apply_block OP r o) qm draws) as [d draws'].
        destruct (reg_measure OP e1 e2 (apply_block OP r o) qm d) as [r2 res] eqn:Em.
        destruct (IH _ _ _ _ _ _ _ H) as [A B]. split; [|exact B].
        eapply same_frame_trans; [apply apply_frame|]. eapply same_frame_trans; [|exact A].
        eapply same_frame_trans; [|apply apply_frame].
        replace r2 with (fst (reg_measure OP e1 e2 (apply_block OP r o) qm d)) by (rewrite Em; reflexivity).
        apply measure_frame.
  Qed.

  Lemma reset_of_frame r r' : same_frame r r' -> reg_reset OP r' 0 = reg_reset OP r 0.
  Proof. intros [A [B [C D]]]. unfold reg_reset. rewrite A, B, C, D. reflexivity. Qed.

  Lemma reset_new n : reg_reset OP (reg_new OP n) 0 = reg_new OP n.
  Proof.
    unfold reg_new, reg_with_state, reg_reset. cbn [q_th q_psi q_num q_mask]. rewrite one_at_length.
    rewrite N.land_0_l, N.land_0_r. reflexivity.
  Qed.

  Lemma creset_of_frame c c' : same_cframe c c' -> creg_reset c' 0 = creg_reset c 0.
  Proof. intros [A B]. unfold creg_reset. rewrite A, B. reflexivity. Qed.

  Lemma creset_new n : creg_reset (creg_new n) 0 = creg_new n.
  Proof. unfold creg_new, creg_with_state, creg_reset. cbn [c_num c_mask c_value]. reflexivity. Qed.

  Theorem reset_after_run (i : @int F) draws s1 :
    sym_finish OP e1 e2 (sym_new OP i) draws = Some s1 -> sym_reset OP s1 = sym_new OP i.
  Proof.
    unfold sym_finish. cbn [sym_new s_xor s_q s_c s_ops].
    destruct (run_blocks OP e1 e2 (i_xor i) (reg_new OP (lenN (i_qreg i))) (creg_new (lenN (i_creg i))) (blocks (i_ops i)) draws)
      as [[[r c] rest]|] eqn:E; [|discriminate].
    intro H. injection H as <-. destruct (run_blocks_frame _ _ _ _ _ _ _ _ E) as [A B].
    unfold sym_reset, sym_new. cbn [s_xor s_q s_c s_ops]. f_equal.
    - rewrite (reset_of_frame (reg_new OP (lenN (i_qreg i)))); [apply reset_new|].
      eapply same_frame_trans; [exact A|apply apply_frame].
    - rewrite (creset_of_frame _ _ B). apply creset_new.
  Qed.
End Rerun.

Definition C17_rerun_stmt : Prop :=
  forall (F : Type) (OP : ops F) (e1 e2 : F) (i : @int F) (draws1 draws2 : list N) (s1 : @sym F),
    sym_finish OP e1 e2 (sym_new OP i) draws1 = Some s1 ->
    sym_reset OP s1 = sym_new OP i /\
    sym_finish OP e1 e2 (sym_reset OP s1) draws2 = sym_finish OP e1 e2 (sym_new OP i) draws2.

Lemma C17_rerun_proof : C17_rerun_stmt.
Proof.
  intros F OP e1 e2 i draws1 draws2 s1 H.
  assert (E := reset_after_run OP e1 e2 i draws1 s1 H). split; [exact E|]. rewrite E. reflexivity.
Qed.
