(** * AdjointP: a linear, norm-preserving map on the index cube preserves inner products; hence the
    matrix of the dagger of a product of good elements is the conjugate transpose of its matrix. *)
From Coq Require Import Reals Lra Lia.
From QV Require Import Spec Reg ScalarR BitsP BitsIterP VecP OpP LocalP C01P C03P RotP C01M C03M C03T C03T2 RegP NormP Form2P ApplyP LinearP.
Open Scope R_scope.

Definition vnorm (n : nat) (psi : vecR) : R := csum n (fun i => n2 (psi i)).
Definition ipre (n : nat) (phi psi : vecR) : R := csum n (fun i => fst (phi i) * fst (psi i) + snd (phi i) * snd (psi i)).
Definition ipim (n : nat) (phi psi : vecR) : R := csum n (fun i => fst (phi i) * snd (psi i) - snd (phi i) * fst (psi i)).

Definition vadd (phi psi : vecR) : vecR := fun i => Cadd (Cmul one (phi i)) (psi i).
Definition vmi (psi : vecR) : vecR := fun i => Cadd (Cmul (0, -1) (psi i)) zero.     (* -i psi *)

Lemma csum_scal n : forall g c, csum n (fun i => c * g i) = c * csum n g.
Proof. induction n as [|k IH]; intros g c; cbn [csum]; [reflexivity|]. rewrite !IH. ring. Qed.

Lemma polar n phi psi : vnorm n (vadd phi psi) = vnorm n phi + vnorm n psi + 2 * ipre n phi psi.
Proof.
  unfold vnorm, ipre. rewrite <- csum_scal, <- !csum_add. apply csum_ext. intros i _.
  unfold vadd. destruct (phi i) as [a b], (psi i) as [c d]. unfold n2. cx. ring.
Qed.

Lemma ipim_as_ipre n phi psi : ipim n phi psi = ipre n phi (vmi psi).
Proof.
  unfold ipim, ipre. apply csum_ext. intros i _. unfold vmi. destruct (phi i) as [a b], (psi i) as [c d]. cx. ring.
Qed.

Section Unitary.
  Variable n : nat.
  Variable U : vecR -> vecR.
  Hypothesis HL : lin U.
  Hypothesis HN : normP n U.

  Lemma vnorm_ext phi psi : (forall i, phi i = psi i) -> vnorm n phi = vnorm n psi.
  Proof. intro H. unfold vnorm. apply csum_ext. intros i _. rewrite H. reflexivity. Qed.

  Lemma U_add phi psi i : U (vadd phi psi) i = vadd (U phi) (U psi) i.
  Proof. destruct HL as [L _]. unfold vadd. apply L. Qed.

  Lemma U_vmi psi i : U (vmi psi) i = vmi (U psi) i.
  Proof.
    destruct HL as [L E]. unfold vmi. rewrite (L (0, -1) psi (fun _ => zero) i).
    rewrite (lin_zero U HL i). reflexivity.
  Qed.

  Lemma ipre_pres phi psi : ipre n (U phi) (U psi) = ipre n phi psi.
  Proof.
    assert (P1 := polar n (U phi) (U psi)). assert (P2 := polar n phi psi).
    rewrite <- (vnorm_ext _ _ (U_add phi psi)) in P1.
    unfold vnorm in *. rewrite !HN in P1. lra.
  Qed.

  Lemma ipre_ext phi psi psi' : (forall i, psi i = psi' i) -> ipre n phi psi = ipre n phi psi'.
  Proof. intro H. unfold ipre. apply csum_ext. intros i _. rewrite H. reflexivity. Qed.

  Lemma ipim_pres phi psi : ipim n (U phi) (U psi) = ipim n phi psi.
  Proof.
    rewrite !ipim_as_ipre. rewrite <- (ipre_ext (U phi) _ _ (U_vmi psi)). apply ipre_pres.
  Qed.
End Unitary.

(** evaluating against a basis function picks one entry *)
Lemma csum_delta n : forall (g : N -> R) j, (j < p2 n)%N ->
  csum n (fun i => if N.eqb i j then g i else 0) = g j.
Proof.
  induction n as [|k IH]; intros g j Hj; cbn [csum].
  - unfold p2 in Hj. change (2 ^ N.of_nat 0)%N with 1%N in Hj. replace j with 0%N by lia. reflexivity.
  - rewrite p2_succ in Hj. destruct (N.lt_ge_cases j (p2 k)) as [L|G].
    + rewrite (IH g j L).
      rewrite (csum_ext k _ (fun _ => 0)).
      * assert (Z : forall m, csum m (fun _ : N => 0) = 0) by (induction m as [|m IHm]; cbn [csum]; [reflexivity|rewrite IHm; ring]).
        rewrite Z. ring.
      * intros i Hi. destruct (N.eqb_spec (N.lxor i (p2 k)) j) as [E|E]; [|reflexivity].
        exfalso. rewrite (lxor_p2_add i k Hi) in E. lia.
    + set (j' := (j - p2 k)%N). assert (L : (j' < p2 k)%N) by (unfold j'; lia).
      assert (E : j = N.lxor j' (p2 k)) by (rewrite (lxor_p2_add j' k L); unfold j'; lia).
      rewrite (csum_ext k (fun i => if N.eqb i j then g i else 0) (fun _ => 0)).
      * assert (Z : forall m, csum m (fun _ : N => 0) = 0) by (induction m as [|m IHm]; cbn [csum]; [reflexivity|rewrite IHm; ring]).
        rewrite Z, Rplus_0_l.
        rewrite (csum_ext k _ (fun i => if N.eqb i j' then g (N.lxor i (p2 k)) else 0)).
        -- rewrite (IH (fun i => g (N.lxor i (p2 k))) j' L). rewrite <- E. reflexivity.
        -- intros i Hi. destruct (N.eqb_spec (N.lxor i (p2 k)) j) as [E1|E1]; destruct (N.eqb_spec i j') as [E2|E2]; try reflexivity; exfalso.
           ++ apply E2. rewrite E in E1. rewrite (lxor_p2_add i k Hi), (lxor_p2_add j' k L) in E1. lia.
           ++ apply E1. rewrite E2, <- E. reflexivity.
      * intros i Hi. destruct (N.eqb_spec i j) as [E1|E1]; [lia|reflexivity].
Qed.

Lemma ipre_basis_l n j psi : (j < p2 n)%N -> ipre n (basis Rops j) psi = fst (psi j).
Proof.
  intro Hj. unfold ipre. rewrite <- (csum_delta n (fun i => fst (psi i)) j Hj). apply csum_ext. intros i _.
  unfold basis. destruct (N.eqb i j); cx; ring.
Qed.
Lemma ipim_basis_l n j psi : (j < p2 n)%N -> ipim n (basis Rops j) psi = snd (psi j).
Proof.
  intro Hj. unfold ipim. rewrite <- (csum_delta n (fun i => snd (psi i)) j Hj). apply csum_ext. intros i _.
  unfold basis. destruct (N.eqb i j); cx; ring.
Qed.
Lemma ipre_basis_r n j phi : (j < p2 n)%N -> ipre n phi (basis Rops j) = fst (phi j).
Proof.
  intro Hj. unfold ipre. rewrite <- (csum_delta n (fun i => fst (phi i)) j Hj). apply csum_ext. intros i _.
  unfold basis. destruct (N.eqb i j); cx; ring.
Qed.
Lemma ipim_basis_r n j phi : (j < p2 n)%N -> ipim n phi (basis Rops j) = - snd (phi j).
Proof.
  intro Hj. unfold ipim. replace (- snd (phi j)) with ((fun i => - snd (phi i)) j) by reflexivity.
  rewrite <- (csum_delta n (fun i => - snd (phi i)) j Hj). apply csum_ext. intros i _.
  unfold basis. destruct (N.eqb i j); cx; ring.
Qed.

(** products of good elements: norm preserving on the cube *)
Lemma multi_normP n (q : multi R) : Forall good_single q ->
  Forall (fun s => (single_act_on s < p2 n)%N) q -> normP n (multi_fn Rops q).
Proof.
  induction q as [|s q IH]; intros G B psi; [reflexivity|].
  inversion G; subst. inversion B; subst.
  transitivity (csum n (fun i => n2 (single_fn Rops s psi i))).
  - apply (IH ltac:(assumption) ltac:(assumption) (single_fn Rops s psi)).
  - apply good_single_normP; assumption.
Qed.

Theorem dagger_entries n (q : multi R) : Forall good_single q ->
  Forall (fun s => (single_act_on s < p2 n)%N) q ->
  forall i j, (i < p2 n)%N -> (j < p2 n)%N ->
    multi_fn Rops (multi_dgr Rops q) (basis Rops j) i = cconj Rops (multi_fn Rops q (basis Rops i) j).
Proof.
  intros G B i j Hi Hj.
  set (U := multi_fn Rops q). set (V := multi_fn Rops (multi_dgr Rops q)).
  assert (HL : lin U) by (apply good_multi_lin; exact G).
  assert (HN : normP n U) by (apply multi_normP; assumption).
  assert (UV : forall psi t, U (V psi) t = psi t).
  { intros psi t. unfold U, V. rewrite <- multi_fn_app. apply (C03_inverse_proof q G psi t). }
  assert (R1 : fst (V (basis Rops j) i) = fst (U (basis Rops i) j)).
  { rewrite <- (ipre_basis_l n i (V (basis Rops j)) Hi), <- (ipre_pres n U HL HN).
    rewrite (ipre_ext n _ _ _ (UV (basis Rops j))). apply ipre_basis_r. exact Hj. }
  assert (R2 : snd (V (basis Rops j) i) = - snd (U (basis Rops i) j)).
  { rewrite <- (ipim_basis_l n i (V (basis Rops j)) Hi), <- (ipim_pres n U HL HN).
    rewrite !ipim_as_ipre.
    rewrite (ipre_ext n _ (vmi (U (V (basis Rops j)))) (vmi (basis Rops j))) by (intro t; unfold vmi; rewrite UV; reflexivity).
    rewrite <- ipim_as_ipre. apply ipim_basis_r. exact Hj. }
  destruct (V (basis Rops j) i) as [x y], (U (basis Rops i) j) as [u v]. cbn [fst snd] in *. subst. unfold cconj, re, im. cbn [fst snd fneg Rops]. reflexivity.
Qed.
