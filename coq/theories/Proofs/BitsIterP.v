(** * BitsIterP: the bit-walking loops ([BitsIter], [h], [qft_swapped]) terminate for every
    machine word -- the top bit included -- and yield exactly the scan of the 64 bit positions. *)
From Coq Require Import Lia Sorted.
From QV Require Import Bits BitsP.
Open Scope N_scope.

(** the walking bit after [k] shifts: 2^k, and 0 once it has left the 64-bit word *)
Definition pos_of (k : N) : N := if N.ltb k 64 then 2 ^ k else 0.

Lemma wrap_mod x : wrap x = x mod 2 ^ 64.
Proof. unfold wrap, WORD. apply N.land_ones. Qed.

Lemma shl1_pos_of k : k < 64 -> shl1 (pos_of k) = pos_of (N.succ k).
Proof.
  intro H. unfold pos_of, shl1. rewrite (proj2 (N.ltb_lt k 64) H).
  rewrite wrap_mod, N.double_spec, <- N.pow_succ_r'.
  destruct (N.ltb_spec (N.succ k) 64) as [L|L].
  - apply N.mod_small. apply N.pow_lt_mono_r; lia.
  - assert (E : N.succ k = 64) by lia. rewrite E. apply N.mod_same. discriminate.
Qed.

Lemma testbit_lt_pow2 mask j k : mask < 2 ^ k -> k <= j -> N.testbit mask j = false.
Proof.
  intros H Hj. destruct (N.eq_dec mask 0) as [->|Hn]; [apply N.bits_0|].
  apply N.bits_above_log2. apply N.log2_lt_pow2; [lia|].
  eapply N.lt_le_trans; [exact H|]. apply N.pow_le_mono_r; lia.
Qed.

Lemma land_pow2_comm_eq0 k mask : N.eqb (N.land (2 ^ k) mask) 0 = negb (N.testbit mask k).
Proof. rewrite N.land_comm. apply land_pow2_eq0. Qed.

Lemma scan_nil_of_lt d : forall k mask, mask < 2 ^ k -> scan_bits d (2 ^ k) mask = [].
Proof.
  induction d as [|d IH]; intros k mask H; cbn [scan_bits]; [reflexivity|].
  rewrite land_pow2_comm_eq0, (testbit_lt_pow2 mask k k H) by lia. cbn [negb].
  rewrite N.double_spec, <- N.pow_succ_r'. apply IH.
  eapply N.lt_trans; [exact H|]. apply N.pow_lt_mono_r; lia.
Qed.

Lemma scan_step d k mask :
  scan_bits (S d) (2 ^ k) mask =
  if N.testbit mask k then 2 ^ k :: scan_bits d (2 ^ N.succ k) mask else scan_bits d (2 ^ N.succ k) mask.
Proof.
  cbn [scan_bits]. rewrite land_pow2_comm_eq0, negb_involutive, N.double_spec, <- N.pow_succ_r'.
  reflexivity.
Qed.

Section Loops.
  Variable mask : N.

  (** one call of [BitsIter::next] from walking-bit position [k] (with [d] positions left) *)
  Lemma next_spec d : forall k fuel,
    (N.to_nat k + d = 64)%nat -> (d < fuel)%nat ->
    bits_iter_next fuel {| bi_bits := mask; bi_pos := pos_of k |} =
    match scan_bits d (2 ^ k) mask with
    | [] => Done
    | v :: _ => Yield v {| bi_bits := mask; bi_pos := shl1 v |}
    end.
  Proof.
    induction d as [|d IH]; intros k fuel Hk Hf; (destruct fuel as [|fuel]; [lia|]).
    - assert (E : k = 64) by lia. subst k. reflexivity.
    - assert (Hlt : k < 64) by lia.
      assert (Hpk : pos_of k = 2 ^ k) by (unfold pos_of; rewrite (proj2 (N.ltb_lt k 64) Hlt); reflexivity).
      cbn [bits_iter_next bi_pos bi_bits]. rewrite scan_step, !Hpk.
      rewrite land_pow2_comm_eq0, negb_involutive.
      destruct (N.testbit mask k) eqn:Hb; [reflexivity|].
      assert (Hp : N.eqb (2 ^ k) 0 = false) by (apply N.eqb_neq, N.pow_nonzero; discriminate).
      rewrite Hp. cbn [orb].
      destruct (N.ltb_spec mask (2 ^ k)) as [L|L].
      + rewrite scan_nil_of_lt; [reflexivity|].
        eapply N.lt_trans; [exact L|]. apply N.pow_lt_mono_r; lia.
      + replace (shl1 (2 ^ k)) with (pos_of (N.succ k)).
        2:{ rewrite <- shl1_pos_of by exact Hlt. rewrite Hpk. reflexivity. }
        apply IH; lia.
  Qed.

  (** decomposition of a scan at its first hit *)
  Lemma scan_first d : forall k,
    scan_bits d (2 ^ k) mask = [] \/
    exists j e, (N.to_nat j + S e = N.to_nat k + d)%nat /\ k <= j /\
                scan_bits d (2 ^ k) mask = 2 ^ j :: scan_bits e (2 ^ N.succ j) mask.
  Proof.
    induction d as [|d IH]; intro k; [left; reflexivity|].
    rewrite scan_step. destruct (N.testbit mask k).
    - right. exists k, d. repeat split; lia.
    - destruct (IH (N.succ k)) as [E|[j [e [H1 [H2 H3]]]]]; [left; exact E|].
      right. exists j, e. repeat split; try lia. exact H3.
  Qed.

  Lemma collect_spec n : forall d k outer,
    (d <= n)%nat -> (N.to_nat k + d = 64)%nat -> (d < outer)%nat ->
    bits_iter_collect bits_iter_next outer FUEL {| bi_bits := mask; bi_pos := pos_of k |} =
    Some (scan_bits d (2 ^ k) mask).
  Proof.
    induction n as [|n IH]; intros d k outer Hn Hk Ho; (destruct outer as [|outer]; [lia|]).
    - assert (d = 0)%nat by lia. subst d. cbn [bits_iter_collect].
      rewrite (next_spec 0 k FUEL) by (unfold FUEL; lia). reflexivity.
    - cbn [bits_iter_collect]. rewrite (next_spec d k FUEL) by (unfold FUEL; lia).
      destruct (scan_first d k) as [E|[j [e [H1 [H2 H3]]]]].
      + rewrite E. reflexivity.
      + rewrite H3.
        assert (Hj : j < 64) by lia.
        replace (shl1 (2 ^ j)) with (pos_of (N.succ j)).
        2:{ rewrite <- shl1_pos_of by exact Hj. unfold pos_of. rewrite (proj2 (N.ltb_lt j 64) Hj). reflexivity. }
        rewrite (IH e (N.succ j) outer) by lia. reflexivity.
  Qed.

  Theorem bits_iter_list_spec : bits_iter_list mask = Some (scan64 mask).
  Proof.
    unfold bits_iter_list, bits_iter_from, scan64.
    assert (H := collect_spec 64 64 0 FUEL).
    change (pos_of 0) with 1 in H. change (2 ^ 0) with 1 in H.
    apply H; unfold FUEL; lia.
  Qed.

  (** the [while idx != 0 && idx <= mask] loops of [h] and [qft_swapped] *)
  Lemma walk_spec d : forall k fuel,
    (N.to_nat k + d = 64)%nat -> (d < fuel)%nat ->
    walk_bits fuel mask (pos_of k) = Some (scan_bits d (2 ^ k) mask).
  Proof.
    induction d as [|d IH]; intros k fuel Hk Hf; (destruct fuel as [|fuel]; [lia|]).
    - assert (E : k = 64) by lia. subst k. reflexivity.
    - assert (Hlt : k < 64) by lia.
      assert (Hpk : pos_of k = 2 ^ k) by (unfold pos_of; rewrite (proj2 (N.ltb_lt k 64) Hlt); reflexivity).
      cbn [walk_bits]. rewrite !Hpk.
      assert (Hp : N.eqb (2 ^ k) 0 = false) by (apply N.eqb_neq, N.pow_nonzero; discriminate).
      rewrite Hp. cbn [orb].
      destruct (N.ltb_spec mask (2 ^ k)) as [L|L].
      + rewrite scan_nil_of_lt by exact L. reflexivity.
      + replace (shl1 (2 ^ k)) with (pos_of (N.succ k)).
        2:{ rewrite <- shl1_pos_of by exact Hlt. rewrite Hpk. reflexivity. }
        rewrite (IH (N.succ k) fuel) by lia.
        rewrite scan_step, land_pow2_comm_eq0, negb_involutive. reflexivity.
  Qed.

  Theorem walk_bits_spec : walk_bits FUEL mask 1 = Some (scan64 mask).
  Proof.
    unfold scan64. assert (H := walk_spec 64 0 FUEL).
    change (pos_of 0) with 1 in H. change (2 ^ 0) with 1 in H.
    apply H; unfold FUEL; lia.
  Qed.
End Loops.

(** the pre-repair iterator: once the walking bit is 0 the state is a fixed point that never
    yields and never stops -- [VReg::from(1 << 63)] does not return *)
Lemma legacy_stuck mask fuel : mask <> 0 ->
  bits_iter_next_legacy fuel {| bi_bits := mask; bi_pos := 0 |} = OutOfFuel.
Proof.
  intro H. induction fuel as [|fuel IH]; [reflexivity|].
  cbn [bits_iter_next_legacy bi_pos bi_bits]. rewrite N.land_0_l. cbn [N.eqb negb].
  destruct (N.ltb_spec mask 0) as [L|L]; [lia|]. exact IH.
Qed.

(** the scan lists exactly the set bits among positions 0..63, ascending *)
Lemma scan_bits_in d : forall k mask w,
  In w (scan_bits d (2 ^ k) mask) <-> exists j, w = 2 ^ j /\ k <= j /\ (N.to_nat j < N.to_nat k + d)%nat /\ N.testbit mask j = true.
Proof.
  induction d as [|d IH]; intros k mask w.
  - cbn [scan_bits In]. split; [tauto|]. intros [j [_ [H1 [H2 _]]]]. lia.
  - rewrite scan_step. destruct (N.testbit mask k) eqn:Hb.
    + cbn [In]. rewrite IH. split.
      * intros [E|[j [E [H1 [H2 H3]]]]]; [exists k; repeat split; try lia; auto|exists j; repeat split; try lia; auto].
      * intros [j [E [H1 [H2 H3]]]]. destruct (N.eq_dec j k) as [->|Hne]; [left; auto|].
        right. exists j. repeat split; try lia; auto.
    + rewrite IH. split.
      * intros [j [E [H1 [H2 H3]]]]. exists j. repeat split; try lia; auto.
      * intros [j [E [H1 [H2 H3]]]]. destruct (N.eq_dec j k) as [->|Hne]; [congruence|].
        exists j. repeat split; try lia; auto.
Qed.

Lemma scan_sorted_lt d : forall k mask, StronglySorted N.lt (scan_bits d (2 ^ k) mask).
Proof.
  induction d as [|d IH]; intros k mask; [constructor|].
  rewrite scan_step. destruct (N.testbit mask k); [|apply IH].
  constructor; [apply IH|].
  apply Forall_forall. intros w Hw. apply scan_bits_in in Hw. destruct Hw as [j [-> [H1 _]]].
  apply N.pow_lt_mono_r; lia.
Qed.

(** the same facts about [scan64] (stated so that no proof has to unfold it in a hypothesis) *)
Lemma scan64_in mask w :
  In w (scan64 mask) <-> exists j, w = 2 ^ j /\ j < 64 /\ N.testbit mask j = true.
Proof.
  unfold scan64. assert (H := scan_bits_in 64 0 mask w). change (2 ^ 0) with 1 in H. rewrite H.
  split; intros [j Hj]; exists j; intuition lia.
Qed.

Lemma scan64_sorted mask : StronglySorted N.lt (scan64 mask).
Proof.
  unfold scan64. assert (H := scan_sorted_lt 64 0 mask). change (2 ^ 0) with 1 in H. exact H.
Qed.
