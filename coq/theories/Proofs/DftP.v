(** * DftP: the QFT ladder is the discrete Fourier transform (with the selected qubits reversed on
    the input side), for any number of selected qubits at any positions. *)
From Coq Require Import Reals Lra Lia Sorted.
From QV Require Import Spec Expr ScalarR BitsP BitsIterP VecP OpP LocalP WfP C01P C03P RotP C01M C03M C03T C03T2 NormP Form2P C15T.
Open Scope R_scope.

(** ** A. the elements the ladder consists of *)
Definition hgate (p : N) : single R := single_of (AH1 (2 ^ p)).
Definition cphase (p t : N) (lam : R) : single R :=
  {| s_act := (2 ^ t)%N; s_ctrl := (2 ^ p)%N;
     s_func := AU1 (2 ^ t) [c1 Rops; c0 Rops; c0 Rops; from_polar1 Rops lam] |}.

Fixpoint rots_elems (p : N) (rest : list N) (j : nat) : multi R :=
  match rest with
  | [] => []
  | t :: r => cphase p t (PI * half_pow Rops j) :: rots_elems p r (S j)
  end.

Fixpoint stages_elems (ps : list N) : multi R :=
  match ps with
  | [] => []
  | p :: rest => hgate p :: rots_elems p rest 1 ++ stages_elems rest
  end.

Lemma act_on_one (s : single R) : multi_act_on [s] = single_act_on s.
Proof. unfold multi_act_on. cbn [fold_left]. apply N.lor_0_l. Qed.

Lemma cphase_built p t lam : p <> t ->
  opt_c (op_phase_shift Rops lam (2 ^ t)) (2 ^ p) = Some [cphase p t lam].
Proof.
  intro H. rewrite op_phase_shift_onehot. unfold opt_c, multi_c. rewrite act_on_one.
  unfold single_act_on, single_of. cbn [s_act s_ctrl acts_on]. rewrite N.lor_0_r.
  rewrite (land_pow2_pow2 t p) by congruence. cbn [N.eqb negb map]. reflexivity.
Qed.

Lemma qft_rots_shape p rest : ~ In p rest -> forall j,
  qft_rots Rops (2 ^ p) (pows rest) j = Some (rots_elems p rest j).
Proof.
  induction rest as [|t r IH]; intros Hn j; [reflexivity|].
  cbn [pows map qft_rots rots_elems]. change (map (fun j0 : N => (2 ^ j0)%N) r) with (pows r).
  rewrite cphase_built by (intro E; apply Hn; left; congruence).
  rewrite IH by (intro E; apply Hn; right; exact E). reflexivity.
Qed.

Lemma stages_cons2 (b b2 : N) (bs : list N) :
  qft_stages Rops (b :: b2 :: bs) =
  opt_app (opt_app (op_h b) (qft_rots Rops b (b2 :: bs) 1)) (qft_stages Rops (b2 :: bs)).
Proof. reflexivity. Qed.

Lemma qft_stages_shape ps : NoDup ps -> exists q, qft_stages Rops (pows ps) = Some q /\
  forall psi idx, multi_fn Rops q psi idx = multi_fn Rops (stages_elems ps) psi idx.
Proof.
  induction 1 as [|p rest Hp Hnd IH].
  - exists []. split; reflexivity.
  - destruct IH as [q' [Hq' Hfn]]. destruct rest as [|p2 rest'].
    + exists [hgate p]. split; [cbn [pows map qft_stages]; apply op_h_onehot|]. intros psi idx. reflexivity.
    + exists ((hgate p :: rots_elems p (p2 :: rest') 1) ++ q'). split.
      * change (pows (p :: p2 :: rest')) with ((2 ^ p)%N :: (2 ^ p2)%N :: pows rest').
        rewrite stages_cons2. change ((2 ^ p2)%N :: pows rest') with (pows (p2 :: rest')).
        rewrite op_h_onehot, (qft_rots_shape p (p2 :: rest') Hp), Hq'. reflexivity.
      * intros psi idx. cbn [stages_elems]. rewrite app_comm_cons, !multi_fn_app. apply Hfn.
Qed.

(** ** B. what the elements do *)
Definition cisR (t : R) : CR := (cos t, sin t).

Lemma from_polar1_cis t : from_polar1 Rops t = cisR t.
Proof. unfold from_polar1, cisR. cbn [f1 fcos fsin fmul Rops]. f_equal; ring. Qed.

Lemma ctrl_ok_pow2 p idx : ctrl_ok (2 ^ p) idx = N.testbit idx p.
Proof.
  unfold ctrl_ok. destruct (N.testbit idx p) eqn:Hb.
  - apply N.eqb_eq. apply N.bits_inj. intro t. rewrite N.ldiff_spec, pow2_bits, N.bits_0.
    destruct (N.eqb_spec p t) as [<-|]; [rewrite Hb|]; reflexivity.
  - apply N.eqb_neq. intro E. assert (X := f_equal (fun x => N.testbit x p) E). cbn beta in X.
    rewrite N.ldiff_spec, pow2_bits, N.eqb_refl, Hb, N.bits_0 in X. discriminate.
Qed.

Lemma cphase_fn p t lam (psi : vecR) idx :
  single_fn Rops (cphase p t lam) psi idx =
  if (N.testbit idx p && N.testbit idx t)%bool then Cmul (cisR lam) (psi idx) else psi idx.
Proof.
  rewrite single_fn_ctrl. unfold cphase. cbn [s_ctrl s_func]. rewrite ctrl_ok_pow2.
  destruct (N.testbit idx p); cbn [andb]; [|reflexivity].
  rewrite (kernel_form2 (AU1 (2 ^ t) [c1 Rops; c0 Rops; c0 Rops; from_polar1 Rops lam])) by (exists t; reflexivity).
  cbn [support acts_on coefA coefB]. unfold mget. cbn [nth]. rewrite land_pow2_eq0, from_polar1_cis.
  destruct (N.testbit idx t); cbn [negb]; generalize (cisR lam); intros [c s];
    destruct (psi idx) as [x y], (psi (N.lxor idx (2 ^ t))) as [u v]; cxring.
Qed.

(** the accumulated angle (in units of pi) of the rotations controlled by one qubit *)
Fixpoint ang (y : bool) (xs : list bool) (j : nat) : R :=
  match xs with
  | [] => 0
  | x :: r => (if (y && x)%bool then half_pow Rops j else 0) + ang y r (S j)
  end.

Lemma cis_add a b z : Cmul (cisR a) (Cmul (cisR b) z) = Cmul (cisR (a + b)) z.
Proof. unfold cisR. rewrite cos_plus, sin_plus. destruct z as [x y]. cxring. Qed.

Lemma cis_0 z : Cmul (cisR 0) z = z.
Proof. unfold cisR. rewrite cos_0, sin_0. destruct z as [x y]. cxring. Qed.

Definition bits (ps : list N) (idx : N) : list bool := map (N.testbit idx) ps.

Lemma rots_fn p rest : forall j (psi : vecR) idx,
  multi_fn Rops (rots_elems p rest j) psi idx =
  Cmul (cisR (PI * ang (N.testbit idx p) (bits rest idx) j)) (psi idx).
Proof.
  induction rest as [|t r IH]; intros j psi idx; cbn [rots_elems bits map ang].
  - rewrite Rmult_0_r, cis_0. reflexivity.
  - rewrite multi_fn_cons, IH. change (map (N.testbit idx) r) with (bits r idx). rewrite cphase_fn.
    destruct (N.testbit idx p && N.testbit idx t)%bool.
    + rewrite cis_add. f_equal. f_equal. ring.
    + f_equal. f_equal. ring.
Qed.

(** ** C. bit strings, their values, and the exponent identity *)
Definition b2r (b : bool) : R := if b then 1 else 0.
Fixpoint val (l : list bool) : R := match l with [] => 0 | b :: t => b2r b + 2 * val t end.
Fixpoint nval (l : list bool) : nat := match l with [] => O | b :: t => ((if b then 1 else 0) + 2 * nval t)%nat end.

Lemma val_nval l : val l = INR (nval l).
Proof.
  induction l as [|b t IH]; [reflexivity|]. cbn [val nval]. rewrite plus_INR, mult_INR, <- IH.
  destruct b; cbn [b2r INR]; ring.
Qed.

Lemma val_app l x : val (l ++ [x]) = val l + b2r x * 2 ^ length l.
Proof. induction l as [|b t IH]; cbn [app val length pow]; [ring|]. rewrite IH. ring. Qed.

Lemma half_pow_R j : half_pow Rops j = / 2 ^ j.
Proof.
  induction j as [|j IH]; cbn [half_pow pow f1 fmul fhalf Rops]; [field|]. rewrite IH. field. apply pow_nonzero. lra.
Qed.

Lemma ang_shift y xs : forall j, ang y xs (S j) = ang y xs j / 2.
Proof.
  induction xs as [|x r IH]; intro j; cbn [ang]; [field|]. rewrite IH, !half_pow_R.
  destruct (y && x)%bool; cbn [pow]; field; apply pow_nonzero; lra.
Qed.

(** the rotation angles of one stage add up to the bit-reversed value of the remaining input bits *)
Lemma ang_val y xs : ang y xs 1 = b2r y * (val (rev xs) / 2 ^ length xs).
Proof.
  induction xs as [|x r IH]; cbn [ang rev length]; [cbn; field|].
  rewrite ang_shift, IH, val_app, rev_length, half_pow_R.
  assert (P : 2 ^ length r <> 0) by (apply pow_nonzero; lra).
  destruct y, x; cbn [andb b2r pow]; field; exact P.
Qed.

Lemma cis_period t (n : nat) : cisR (t + 2 * PI * INR n) = cisR t.
Proof.
  unfold cisR. replace (t + 2 * PI * INR n) with (t + 2 * INR n * PI) by ring.
  rewrite cos_period, sin_period. reflexivity.
Qed.

Lemma cis_pi_bit (y x : bool) : cisR (PI * (b2r y * b2r x)) = if (y && x)%bool then (-1, 0) else (1, 0).
Proof.
  unfold cisR. destruct y, x; cbn [b2r andb]; rewrite ?Rmult_0_l, ?Rmult_0_r, ?Rmult_1_r, ?cos_PI, ?sin_PI, ?cos_0, ?sin_0; reflexivity.
Qed.

(** the exponent of the transform: value of the output bits times bit-reversed value of the input bits *)
Definition expo (ys xs : list bool) : R := 2 * PI * (val ys * val (rev xs) / 2 ^ length xs).

Lemma expo_step y1 ys x1 xs :
  cisR (expo (y1 :: ys) (x1 :: xs)) =
  cisR (PI * (b2r y1 * b2r x1) + PI * ang y1 xs 1 + expo ys xs).
Proof.
  unfold expo. cbn [rev length val]. rewrite val_app, rev_length, ang_val. cbn [pow].
  assert (P : 2 ^ length xs <> 0) by (apply pow_nonzero; lra).
  (* the extra term is a whole number of turns: val ys * b2r x1 *)
  rewrite (val_nval ys).
  replace (2 * PI * ((b2r y1 + 2 * INR (nval ys)) * (val (rev xs) + b2r x1 * 2 ^ length xs) / (2 * 2 ^ length xs)))
    with (PI * (b2r y1 * b2r x1) + PI * (b2r y1 * (val (rev xs) / 2 ^ length xs)) +
          2 * PI * (INR (nval ys) * val (rev xs) / 2 ^ length xs) + 2 * PI * INR (nval ys * (if x1 then 1 else 0)))
    by (rewrite mult_INR; destruct x1; cbn [b2r INR]; field; exact P).
  apply cis_period.
Qed.

(** sums over all bit strings of length k (first bit outermost) *)
Fixpoint bsum (k : nat) (g : list bool -> CR) : CR :=
  match k with
  | O => g []
  | S k' => Cadd (bsum k' (fun xs => g (false :: xs))) (bsum k' (fun xs => g (true :: xs)))
  end.

Lemma bsum_ext k : forall g h, (forall xs, length xs = k -> g xs = h xs) -> bsum k g = bsum k h.
Proof.
  induction k as [|k IH]; intros g h H; cbn [bsum]; [apply H; reflexivity|].
  f_equal; apply IH; intros xs Hl; apply H; cbn [length]; lia.
Qed.

Lemma Cadd_assoc4 a b c d : Cadd (Cadd a b) (Cadd c d) = Cadd (Cadd a c) (Cadd b d).
Proof. destruct a, b, c, d. cxring. Qed.

Lemma bsum_add k : forall g h, bsum k (fun xs => Cadd (g xs) (h xs)) = Cadd (bsum k g) (bsum k h).
Proof.
  induction k as [|k IH]; intros g h; cbn [bsum]; [reflexivity|]. rewrite !IH. apply Cadd_assoc4.
Qed.

Lemma bsum_mul k : forall (c : CR) g, bsum k (fun xs => Cmul c (g xs)) = Cmul c (bsum k g).
Proof.
  induction k as [|k IH]; intros c g; cbn [bsum]; [reflexivity|]. rewrite !IH.
  destruct c, (bsum k (fun xs => g (false :: xs))), (bsum k (fun xs => g (true :: xs))). cxring.
Qed.

Definition Cscale (z : CR) (t : R) : CR := cscale Rops z t.

Lemma bsum_scale k : forall (t : R) g, bsum k (fun xs => Cscale (g xs) t) = Cscale (bsum k g) t.
Proof.
  induction k as [|k IH]; intros t g; cbn [bsum]; [reflexivity|]. rewrite !IH.
  destruct (bsum k (fun xs => g (false :: xs))), (bsum k (fun xs => g (true :: xs))). unfold Cscale. cxring.
Qed.

(** writing the bit string [xs] into the positions [ps] of an index *)
Definition setb (i p : N) (x : bool) : N := if x then N.setbit i p else N.clearbit i p.
Fixpoint dep (ps : list N) (xs : list bool) (idx : N) : N :=
  match ps, xs with
  | p :: ps', x :: xs' => setb (dep ps' xs' idx) p x
  | _, _ => idx
  end.

Lemma setb_bit i p x t : N.testbit (setb i p x) t = if N.eqb p t then x else N.testbit i t.
Proof.
  unfold setb. destruct x.
  - rewrite testbit_setbit. destruct (N.eqb p t); [apply orb_true_r|apply orb_false_r].
  - rewrite testbit_clearbit. destruct (N.eqb p t); [apply andb_false_r|apply andb_true_r].
Qed.

Lemma dep_other ps : forall xs idx t, ~ In t ps -> N.testbit (dep ps xs idx) t = N.testbit idx t.
Proof.
  induction ps as [|p ps IH]; intros xs idx t Hn; [reflexivity|].
  destruct xs as [|x xs]; [reflexivity|]. cbn [dep]. rewrite setb_bit.
  destruct (N.eqb_spec p t) as [->|_]; [exfalso; apply Hn; left; reflexivity|].
  apply IH. intro H. apply Hn. right. exact H.
Qed.

Lemma dep_bits ps : NoDup ps -> forall xs idx, length xs = length ps -> bits ps (dep ps xs idx) = xs.
Proof.
  induction 1 as [|p ps Hp Hnd IH]; intros xs idx Hl.
  - destruct xs; [reflexivity|discriminate].
  - destruct xs as [|x xs]; [discriminate|]. cbn [bits map dep]. rewrite setb_bit, N.eqb_refl. f_equal.
    change (map (N.testbit (setb (dep ps xs idx) p x)) ps) with (bits ps (setb (dep ps xs idx) p x)).
    rewrite <- (IH xs idx) at 2 by (cbn in Hl; lia). unfold bits. apply map_ext_in. intros t Ht.
    rewrite setb_bit. destruct (N.eqb_spec p t) as [->|_]; [contradiction|reflexivity].
Qed.

(** ** D. the ladder *)
Fixpoint hpow (k : nat) : R := match k with O => 1 | S j => / sqrt 2 * hpow j end.

(** the transform on the positions [ps]: (1/sqrt 2)^k  sum_x  e^{2 pi i y rev(x) / 2^k}  psi (idx with x at ps) *)
Definition dft_on (ps : list N) (psi : vecR) (idx : N) : CR :=
  Cscale (bsum (length ps) (fun xs => Cmul (cisR (expo (bits ps idx) xs)) (psi (dep ps xs idx)))) (hpow (length ps)).

Lemma hgate_fn p (psi : vecR) idx :
  single_fn Rops (hgate p) psi idx =
  Cscale (Cadd (Cmul (cisR (PI * (b2r (N.testbit idx p) * b2r false))) (psi (setb idx p false)))
               (Cmul (cisR (PI * (b2r (N.testbit idx p) * b2r true))) (psi (setb idx p true)))) (/ sqrt 2).
Proof.
  unfold hgate. rewrite single_fn_uncontrolled, k_h. unfold lift1, doc_h, m2_00, m2_01, m2_10, m2_11, setb.
  rewrite !cis_pi_bit. cbn [fst snd].
  destruct (N.testbit idx p); cbn [andb];
    destruct (psi (N.clearbit idx p)) as [x y], (psi (N.setbit idx p)) as [u v]; unfold Cscale; cxring.
Qed.

Lemma stage_fn p rest (psi : vecR) idx :
  multi_fn Rops (hgate p :: rots_elems p rest 1) psi idx =
  Cmul (cisR (PI * ang (N.testbit idx p) (bits rest idx) 1)) (single_fn Rops (hgate p) psi idx).
Proof. rewrite multi_fn_cons. apply rots_fn. Qed.

Lemma expo_nil : expo [] [] = 0.
Proof. unfold expo. cbn. field. Qed.

Lemma Cscale_mul z a b : Cscale (Cscale z a) b = Cscale z (a * b).
Proof. destruct z. unfold Cscale. cxring. Qed.
Lemma Cmul_scale c z t : Cmul c (Cscale z t) = Cscale (Cmul c z) t.
Proof. destruct c, z. unfold Cscale. cxring. Qed.
Lemma Cmul_add c a b : Cmul c (Cadd a b) = Cadd (Cmul c a) (Cmul c b).
Proof. destruct c, a, b. cxring. Qed.
Lemma Cmul_assoc a b c : Cmul a (Cmul b c) = Cmul (Cmul a b) c.
Proof. destruct a, b, c. cxring. Qed.
Lemma cis_mul a b : Cmul (cisR a) (cisR b) = cisR (a + b).
Proof. unfold cisR. rewrite cos_plus, sin_plus. cxring. Qed.
Lemma Cscale_add a b t : Cscale (Cadd a b) t = Cadd (Cscale a t) (Cscale b t).
Proof. destruct a, b. unfold Cscale. cxring. Qed.

Theorem stages_dft ps : NoDup ps -> forall (psi : vecR) idx,
  multi_fn Rops (stages_elems ps) psi idx = dft_on ps psi idx.
Proof.
  induction 1 as [|p rest Hp Hnd IH]; intros psi idx.
  - unfold dft_on. cbn [stages_elems multi_fn fold_left length bsum bits map dep hpow].
    rewrite expo_nil, cis_0. destruct (psi idx). unfold Cscale. cxring.
  - cbn [stages_elems]. rewrite app_comm_cons, multi_fn_app, IH. unfold dft_on. cbn [length hpow bsum].
    (* unfold the stage inside the sum over the remaining bits *)
    set (m := length rest). set (y1 := N.testbit idx p). set (ys := bits rest idx).
    assert (Hy : bits (p :: rest) idx = y1 :: ys) by reflexivity. rewrite Hy.
    rewrite <- (Cscale_mul _ (/ sqrt 2) (hpow m)). f_equal.
    rewrite <- bsum_add, <- bsum_scale. apply bsum_ext. intros xs Hl.
    rewrite stage_fn, hgate_fn.
    assert (B1 : N.testbit (dep rest xs idx) p = y1) by (apply dep_other; exact Hp).
    assert (B2 : bits rest (dep rest xs idx) = xs) by (apply dep_bits; [exact Hnd|exact Hl]).
    rewrite B1, B2. cbn [dep].
    rewrite Cmul_scale, Cmul_scale. f_equal.
    rewrite !Cmul_add, !Cmul_assoc, !cis_mul. f_equal; f_equal;
      rewrite expo_step; f_equal; ring.
Qed.

(** ** E. every mask *)
Lemma positions_sorted d : forall k mask, StronglySorted N.lt (positions d k mask).
Proof.
  induction d as [|d IH]; intros k mask; cbn [positions]; [constructor|].
  destruct (N.testbit mask k); [|apply IH]. constructor; [apply IH|].
  apply Forall_forall. intros j Hj. apply positions_in in Hj. lia.
Qed.

Lemma scan64_sorted_positions mask : exists ps, scan64 mask = pows ps /\ NoDup ps /\ StronglySorted N.lt ps /\
  forall j, In j ps <-> (j < 64)%N /\ N.testbit mask j = true.
Proof.
  exists (positions 64 0 mask). split; [|split; [|split]].
  - unfold scan64. assert (H := scan_positions 64 0 mask). change (2 ^ 0)%N with 1%N in H. exact H.
  - apply positions_nodup.
  - apply positions_sorted.
  - intro j. rewrite positions_in. split; intros Hh; intuition lia.
Qed.

Lemma dft_on_nil (psi : vecR) idx : dft_on [] psi idx = psi idx.
Proof.
  unfold dft_on. cbn [length bsum bits map dep hpow]. rewrite expo_nil, cis_0. destruct (psi idx). unfold Cscale. cxring.
Qed.
