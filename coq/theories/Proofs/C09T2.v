(** * C09T2: what the names do -- u3 / u2 are the OpenQASM U matrix up to one global phase; a
    c-prefixed one-qubit gate is that gate's documented matrix under the control. *)
From Coq Require Import Reals Lra Lia Nsatz String Ascii.
From QV Require Import Interp Spec Expr ScalarR BitsP OpP LocalP WfP C01P C03P C01M C03T Form2P C15T DftP C01T C02T C09T.
Open Scope R_scope.

(** 2x2 matrices over C *)
Definition mm (A B : @mat2 R) : @mat2 R :=
  ((Cadd (Cmul (m2_00 A) (m2_00 B)) (Cmul (m2_01 A) (m2_10 B)), Cadd (Cmul (m2_00 A) (m2_01 B)) (Cmul (m2_01 A) (m2_11 B))),
   (Cadd (Cmul (m2_10 A) (m2_00 B)) (Cmul (m2_11 A) (m2_10 B)), Cadd (Cmul (m2_10 A) (m2_01 B)) (Cmul (m2_11 A) (m2_11 B)))).
Definition msc (c : CR) (A : @mat2 R) : @mat2 R :=
  ((Cmul c (m2_00 A), Cmul c (m2_01 A)), (Cmul c (m2_10 A), Cmul c (m2_11 A))).

Lemma lift1_comp A B b (psi : vecR) idx :
  lift1 Rops A b (lift1 Rops B b psi) idx = lift1 Rops (mm A B) b psi idx.
Proof.
  unfold lift1. rewrite !N.clearbit_eq, !N.setbit_eq, clearbit_clearbit, setbit_clearbit, clearbit_setbit, setbit_setbit.
  destruct A as [[a00 a01] [a10 a11]], B as [[b00 b01] [b10 b11]]. unfold mm, m2_00, m2_01, m2_10, m2_11. cbn [fst snd].
  destruct (N.testbit idx b);
    destruct a00, a01, a10, a11, b00, b01, b10, b11, (psi (N.clearbit idx b)), (psi (N.setbit idx b)); cxring.
Qed.

Lemma lift1_scale c A b (psi : vecR) idx : lift1 Rops (msc c A) b psi idx = Cmul c (lift1 Rops A b psi idx).
Proof.
  unfold lift1, msc. destruct A as [[a00 a01] [a10 a11]]. unfold m2_00, m2_01, m2_10, m2_11. cbn [fst snd].
  destruct (N.testbit idx b); destruct c, a00, a01, a10, a11, (psi (N.clearbit idx b)), (psi (N.setbit idx b)); cxring.
Qed.

Lemma lift1_ext_mat A B b (psi : vecR) idx : A = B -> lift1 Rops A b psi idx = lift1 Rops B b psi idx.
Proof. intros ->. reflexivity. Qed.

(** the OpenQASM 2.0 one-qubit gate U(theta, phi, lambda) *)
Definition qelib_u (t p l : R) : @mat2 R :=
  (((cos (t / 2), 0), Cmul (-1, 0) (Cmul (cisR l) (sin (t / 2), 0))),
   (Cmul (cisR p) (sin (t / 2), 0), Cmul (cisR (p + l)) (cos (t / 2), 0))).

Lemma u3_matrix t p l :
  mm (mm (doc_rz Rops p) (doc_ry Rops t)) (doc_rz Rops l) = msc (cisR (- ((p + l) / 2))) (qelib_u t p l).
Proof.
  unfold mm, msc, qelib_u, doc_rz, doc_ry, cisR, m2_00, m2_01, m2_10, m2_11, cosh, sinh, rC, iC.
  cbn [fst snd fcos fsin fdiv f2 f0 fneg Rops].
  replace (- ((p + l) / 2)) with (- (p / 2) + - (l / 2)) by field.
  replace (p + l) with ((p / 2 + p / 2) + (l / 2 + l / 2)) by field.
  replace (cos l) with (cos (l / 2 + l / 2)) by (f_equal; field).
  replace (sin l) with (sin (l / 2 + l / 2)) by (f_equal; field).
  replace (cos p) with (cos (p / 2 + p / 2)) by (f_equal; field).
  replace (sin p) with (sin (p / 2 + p / 2)) by (f_equal; field).
  repeat (rewrite cos_plus || rewrite sin_plus). rewrite ?cos_neg, ?sin_neg.
  generalize (sin2_cos2 (p / 2)) (sin2_cos2 (l / 2)). unfold Rsqr.
  set (a := cos (p / 2)). set (b := sin (p / 2)). set (c := cos (l / 2)). set (d := sin (l / 2)).
  set (ct := cos (t / 2)). set (st := sin (t / 2)). intros Hp Hl.
  cx. repeat (apply pair_equal_spec; split); first [ring | nsatz].
Qed.

Definition C09_u3_stmt : Prop :=
  forall (t p l : R) (b : N) (psi : vecR) (idx : N),
    exists q, gates_process Rops "u3" [(2 ^ b)%N] [t; p; l] = IOk q /\
              gates_process Rops "U3" [(2 ^ b)%N] [t; p; l] = IOk q /\
              multi_fn Rops q psi idx = Cmul (cisR (- ((p + l) / 2))) (lift1 Rops (qelib_u t p l) b psi idx).

Lemma u3_built t p l b :
  op_u3 Rops t p l (2 ^ b) =
  Some [single_of (ARZ (2 ^ b) (half_phase Rops l)); single_of (ARY (2 ^ b) (half_phase Rops t));
        single_of (ARZ (2 ^ b) (half_phase Rops p))].
Proof.
  unfold op_u3, op_rz, op_ry. rewrite !lift_checked_some by apply valid1. reflexivity.
Qed.

Lemma C09_u3_proof : C09_u3_stmt.
Proof.
  intros t p l b psi idx. eexists. split; [|split].
  - unfold gates_process. cbn [all_finite forallb ffinite Rops andb negb String.length].
    unfold gates_process_from. cbn. unfold gate_u3. rewrite lor_all_1, popcount_pow2. cbn [N.eqb Pos.eqb negb].
    rewrite u3_built. reflexivity.
  - unfold gates_process. cbn [all_finite forallb ffinite Rops andb negb String.length].
    unfold gates_process_from. cbn. unfold gate_u3. rewrite lor_all_1, popcount_pow2. cbn [N.eqb Pos.eqb negb].
    rewrite u3_built. reflexivity.
  - cbn [multi_fn fold_left]. rewrite single_fn_uncontrolled, k_rz.
    rewrite (lift1_ext _ b _ (lift1 Rops (doc_ry Rops t) b (lift1 Rops (doc_rz Rops l) b psi))).
    2: { intro i. rewrite single_fn_uncontrolled, k_ry. apply lift1_ext. intro j. rewrite single_fn_uncontrolled. apply k_rz. }
    rewrite !lift1_comp, u3_matrix. apply lift1_scale.
Qed.

(** u2(phi, lambda) is u3(pi/2, phi, lambda); u1(lambda) is diag(1, e^{i lambda}) up to the phase e^{-i lambda/2} *)
Definition C09_u2_u1_stmt : Prop :=
  forall (p l : R) (b : N),
    gates_process Rops "u2" [(2 ^ b)%N] [p; l] = gates_process Rops "u3" [(2 ^ b)%N] [PI / 2; p; l] /\
    forall (psi : vecR) (idx : N),
      exists q, gates_process Rops "u1" [(2 ^ b)%N] [l] = IOk q /\
                multi_fn Rops q psi idx =
                Cmul (cisR (- (l / 2))) (lift1 Rops ((one, zero), (zero, cisR l)) b psi idx).

Lemma u1_matrix l : doc_rz Rops l = msc (cisR (- (l / 2))) ((one, zero), (zero, cisR l)).
Proof.
  unfold msc, doc_rz, cisR, m2_00, m2_01, m2_10, m2_11, cosh, sinh, one, zero, c0, c1.
  cbn [fst snd fcos fsin fdiv f2 f0 f1 fneg Rops].
  replace (cos l) with (cos (l / 2 + l / 2)) by (f_equal; field).
  replace (sin l) with (sin (l / 2 + l / 2)) by (f_equal; field).
  rewrite cos_plus, sin_plus, cos_neg, sin_neg.
  generalize (sin2_cos2 (l / 2)). unfold Rsqr. set (c := cos (l / 2)). set (d := sin (l / 2)). intro H.
  cx. repeat (apply pair_equal_spec; split); first [ring | nsatz].
Qed.

Lemma C09_u2_u1_proof : C09_u2_u1_stmt.
Proof.
  intros p l b. split.
  { unfold gates_process. cbn [all_finite forallb ffinite Rops andb negb String.length].
    unfold gates_process_from. cbn. unfold gate_u2, gate_u3. rewrite lor_all_1, popcount_pow2. cbn [N.eqb Pos.eqb negb].
    reflexivity. }
  intros psi idx. eexists. split.
  - unfold gates_process. cbn [all_finite forallb ffinite Rops andb negb String.length].
    unfold gates_process_from. cbn. unfold gate_r. rewrite lor_all_1, popcount_pow2. cbn [N.eqb Pos.eqb negb].
    unfold op_u1, op_rz. rewrite lift_checked_some by apply valid1. reflexivity.
  - rewrite multi_fn_one, k_rz, u1_matrix. apply lift1_scale.
Qed.

(** a c-prefixed one-qubit gate: the documented matrix on the target where the control qubit is 1 *)
Lemma controlled_one (stem : string) (c t : N) (g : atomic R) (U : @mat2 R) :
  c <> t -> is_name stem "u1" "U1" = false ->
  gates_process Rops stem [(2 ^ t)%N] [] = IOk (multi_of_single (single_of g)) ->
  (forall a b u, g <> AU2 a b u) -> acts_on g = (2 ^ t)%N ->
  (forall psi idx, K g psi idx = lift1 Rops U t psi idx) ->
  exists o', gates_process Rops (String "c"%char stem) [(2 ^ c)%N; (2 ^ t)%N] [] = IOk o' /\
    forall (psi : vecR) idx, multi_fn Rops o' psi idx = if N.testbit idx c then lift1 Rops U t psi idx else psi idx.
Proof.
  intros Hct Hu1 Hg Hnu Hact HK.
  assert (Hwf : Forall (@wf_single R) (multi_of_single (single_of g))) by (apply wf_one; exact Hnu).
  assert (Hd : N.land (multi_act_on (multi_of_single (single_of g))) (2 ^ c) = 0%N).
  { assert (E : multi_act_on (multi_of_single (single_of g)) = (2 ^ t)%N \/ multi_act_on (multi_of_single (single_of g)) = 0%N).
    { unfold multi_of_single. cbn [s_func single_of s_ctrl]. destruct g; cbn [N.eqb]; try (left; unfold multi_act_on; cbn [fold_left]; unfold single_act_on, single_of; cbn [s_act s_ctrl]; rewrite N.lor_0_l, N.lor_0_r; exact Hact).
      right. reflexivity. }
    destruct E as [-> | ->]; [apply land_pow2_pow2; congruence|reflexivity]. }
  destruct (C09_prefix_semantics_proof stem (2 ^ c)%N [(2 ^ t)%N] [] _ Hu1 Hg Hwf Hd) as [o' [Ho' Hfn]].
  exists o'. split; [exact Ho'|]. intros psi idx. rewrite Hfn, ctrl_ok_pow2.
  destruct (N.testbit idx c); [|reflexivity]. rewrite multi_fn_one. apply HK.
Qed.

Definition C09_controlled_stmt : Prop :=
  forall (c t : N), c <> t ->
    let ctl (name : string) (U : @mat2 R) :=
      exists o', gates_process Rops name [(2 ^ c)%N; (2 ^ t)%N] [] = IOk o' /\
        forall (psi : vecR) idx, multi_fn Rops o' psi idx = if N.testbit idx c then lift1 Rops U t psi idx else psi idx in
    ctl "cx" (doc_x Rops) /\ ctl "cy" (doc_y Rops) /\ ctl "cz" (doc_z Rops) /\ ctl "ch" (doc_h Rops) /\
    ctl "cs" (doc_s Rops) /\ ctl "ct" (doc_t Rops).


Lemma C09_controlled_proof : C09_controlled_stmt.
Proof.
  intros c t Hct ctl. subst ctl. cbv beta.
  assert (Hm : (2 ^ t)%N <> 0%N) by (apply N.pow_nonzero; discriminate).
  assert (E0 : N.eqb (2 ^ t) 0 = false) by (apply N.eqb_neq; exact Hm).
  assert (GP : forall stem o, gate_table Rops stem [(2 ^ t)%N] [] = IOk o -> starts_with_c stem = false ->
               gates_process Rops stem [(2 ^ t)%N] [] = IOk o).
  { intros stem o H Hs. unfold gates_process. cbn [all_finite forallb negb].
    destruct stem as [|a s']; [cbn in *; exact H|]. cbn [String.length]. rewrite gpf_step, Hs. exact H. }
  repeat split.
  - apply (controlled_one "x" c t (AX (2 ^ t)) (doc_x Rops) Hct eq_refl); [|intros ? ? ?; discriminate|reflexivity|apply k_x].
    apply GP; [|reflexivity]. cbn. unfold gate_any. rewrite lor_all_1, E0. reflexivity.
  - apply (controlled_one "y" c t (AY (2 ^ t)) (doc_y Rops) Hct eq_refl); [|intros ? ? ?; discriminate|reflexivity|apply k_y].
    apply GP; [|reflexivity]. cbn. unfold gate_any. rewrite lor_all_1, E0. reflexivity.
  - apply (controlled_one "z" c t (AZ (2 ^ t)) (doc_z Rops) Hct eq_refl); [|intros ? ? ?; discriminate|reflexivity|apply k_z].
    apply GP; [|reflexivity]. cbn. unfold gate_any. rewrite lor_all_1, E0. reflexivity.
  - apply (controlled_one "h" c t (AH1 (2 ^ t)) (doc_h Rops) Hct eq_refl); [|intros ? ? ?; discriminate|reflexivity|apply k_h].
    apply GP; [|reflexivity]. cbn. unfold gate_any. rewrite lor_all_1, E0. cbn [of_op]. rewrite (op_h_onehot t). reflexivity.
  - apply (controlled_one "s" c t (AS (2 ^ t) false) (doc_s Rops) Hct eq_refl); [|intros ? ? ?; discriminate|reflexivity|apply k_s].
    apply GP; [|reflexivity]. cbn. unfold gate_any. rewrite lor_all_1, E0. reflexivity.
  - apply (controlled_one "t" c t (AT (2 ^ t) false) (doc_t Rops) Hct eq_refl); [|intros ? ? ?; discriminate|reflexivity|apply k_t].
    apply GP; [|reflexivity]. cbn. unfold gate_any. rewrite lor_all_1, E0. reflexivity.
Qed.
