(** * C01T2: the register path and the reported matrix *)
From Coq Require Import Reals Lra Lia.
From QV Require Import Spec Reg Expr ScalarR BitsP BitsIterP VecP OpP LocalP C01P C03P RotP C01M C03M C03T C03T2 RegP NormP Form2P ApplyP LinearP C14T C05T.
Open Scope R_scope.

(** applying an operator to a register computes, in every cell of the (possibly padded) buffer, the
    function-level operator of C01 - C04 / C15 on the buffer read as a function *)
Definition C01_register_path_stmt : Prop :=
  forall (r : qreg R) (q : multi R),
    shaped r -> Forall good_single q -> inside (multi_act_on q) (q_mask r) ->
    forall i : N, get Rops (q_psi (reg_apply Rops r q)) i = multi_fn Rops q (get Rops (q_psi r)) i.

Lemma C01_register_path_proof : C01_register_path_stmt.
Proof.
  intros r q [Hl Hm] G Hin i. cbn [reg_apply q_psi]. rewrite Hm in Hin. unfold mask_n in Hin.
  apply (apply_is_fn (Nat.max (N.to_nat (q_num r)) 3) q G).
  - apply (inside_fold q _ 0%N) in Hin. destruct Hin as [_ Hin].
    eapply Forall_impl; [|exact Hin]. intros s Hs. cbv beta in Hs.
    apply (inside_ones_lt _ (q_num r)); [exact Hs|lia].
  - rewrite Hl. apply blen_pow2.
Qed.

(** the matrix an operator reports ([matrix n]: column j = the operator applied to basis state j,
    then transposed) is the linear map it performs on an n-qubit buffer *)
Lemma nth_map_lt {X Y} (g : X -> Y) l j d d' : (j < length l)%nat -> nth j (map g l) d = g (nth j l d').
Proof.
  revert j. induction l as [|x l IH]; intros j H; [cbn in H; lia|]. destruct j as [|j]; [reflexivity|].
  cbn [map nth]. apply IH. cbn in H. lia.
Qed.

Lemma nth_map_seq {Y} (f : nat -> Y) k i d : (i < k)%nat -> nth i (map f (seq 0 k)) d = f i.
Proof.
  intro H. rewrite (nth_map_lt f (seq 0 k) i d 0%nat) by (rewrite seq_length; exact H).
  rewrite seq_nth by exact H. reflexivity.
Qed.

Lemma matrix_entry (q : multi R) n i j : (i < Nat.pow 2 n)%nat -> (j < Nat.pow 2 n)%nat ->
  nth j (nth i (matrix Rops q n) []) (c0 Rops) = mat_entry q n (N.of_nat i) (N.of_nat j).
Proof.
  intros Hi Hj. unfold matrix, mat_entry. cbv zeta.
  rewrite (nth_map_seq _ (Nat.pow 2 n) i []) by exact Hi.
  rewrite (nth_map_lt (fun col => nth i col (c0 Rops)) _ j (c0 Rops) []) by (rewrite map_length, seq_length; exact Hj).
  rewrite nth_map_seq by exact Hj.
  unfold get. rewrite Nnat.Nat2N.id. reflexivity.
Qed.

Definition C01_matrix_stmt : Prop :=
  forall (n : nat) (q : multi R),
    Forall good_single q -> Forall (fun s => (single_act_on s < 2 ^ N.of_nat n)%N) q ->
    forall (v : bufR), length v = Nat.pow 2 n ->
    forall i : nat, (i < Nat.pow 2 n)%nat ->
      nth i (multi_apply Rops q v) (c0 Rops) =
      Csum (Nat.pow 2 n) 0 (fun j => Cmul (get Rops v j) (nth (N.to_nat j) (nth i (matrix Rops q n) []) (c0 Rops))).

Lemma C01_matrix_proof : C01_matrix_stmt.
Proof.
  intros n q G B v Hl i Hi.
  change (nth i (multi_apply Rops q v) (c0 Rops)) with (nth i (multi_apply Rops q v) (c0 Rops)).
  assert (E : nth i (multi_apply Rops q v) (c0 Rops) = get Rops (multi_apply Rops q v) (N.of_nat i))
    by (unfold get; rewrite Nnat.Nat2N.id; reflexivity).
  rewrite E, (matrix_is_map n q G B v Hl).
  assert (X : forall k start, (N.to_nat start + k <= Nat.pow 2 n)%nat ->
     Csum k start (fun j => Cmul (get Rops v j) (mat_entry q n (N.of_nat i) j)) =
     Csum k start (fun j => Cmul (get Rops v j) (nth (N.to_nat j) (nth i (matrix Rops q n) []) (c0 Rops)))).
  { induction k as [|k IH]; intros start Hs; cbn [Csum]; [reflexivity|].
    rewrite IH by lia. rewrite (matrix_entry q n i (N.to_nat start)) by lia. rewrite Nnat.N2Nat.id. reflexivity. }
  apply X. cbn. lia.
Qed.
