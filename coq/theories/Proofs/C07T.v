(** * C07T: Born rule -- the part that is logic.

    (a) the probabilities the register reports are |psi_i|^2 / sum |psi|^2;
    (b) the weighted sampler maps the uniform draw x in [0, total) to index i exactly when x lies
        in the i-th interval [C_{i-1}, C_i), whose length is the weight w_i -- so (for a uniform
        draw) index i has probability w_i / total, and a selected index has positive weight;
    (c) the histogram's pre-rounding cell is c p_i + sum_j A_ij g_j with A A^T = c (diag p - p p^T),
        i.e. mean c p_i and the multinomial covariance for independent standard normal g.
    Not exhibited by any model: that thread_rng is uniform and StandardNormal is Gaussian, and
    the effect of rounding and clamping -- hence "partial"; see the statistical support runs. *)
From Coq Require Import Reals Lra Lia.
From QV Require Import Sampler Reg ScalarR RegP C08T.
Open Scope R_scope.

(** ** (a) *)
Definition C07_probabilities_stmt : Prop :=
  forall (r : qreg R),
    reg_probabilities Rops r =
    map (fun z => n2 z / sumsq (q_psi r)) (firstn (qsize (q_num r)) (q_psi r)).

Lemma C07_probabilities_proof : C07_probabilities_stmt.
Proof.
  intro r. unfold reg_probabilities, reg_absolute. rewrite norm2_buf_sumsq. apply map_ext.
  intro z. cbn [fmul fdiv f1 Rops]. rewrite cnorm2_n2. unfold Rdiv. ring.
Qed.

(** ** (b) *)
Lemma cumulative_nonempty acc (w : list R) : w <> [] -> cumulative Rops acc w <> [].
Proof. destruct w; [congruence|discriminate]. Qed.

Lemma pp_spec (w : list R) : forall acc x,
  Forall (fun a => 0 <= a) w -> w <> [] ->
  acc <= x < acc + rsum w ->
  let i := partition_point Rops (removelast (cumulative Rops acc w)) x in
  (i < length w)%nat /\ acc + rsum (firstn i w) <= x < acc + rsum (firstn (S i) w).
Proof.
  induction w as [|a w IH]; intros acc x Hpos Hne Hx; [congruence|].
  destruct w as [|b t].
  - cbn. cbn in Hx. split; [lia|lra].
  - assert (E : removelast (cumulative Rops acc (a :: b :: t)) =
                (acc + a) :: removelast (cumulative Rops (acc + a) (b :: t))) by reflexivity.
    cbn zeta. rewrite E. cbn [partition_point fleb Rops]. unfold R_leb.
    inversion Hpos as [|a0 l0 Ha Hrest]; subst.
    destruct (Rle_dec (acc + a) x) as [L|L].
    + assert (Hx' : acc + a <= x < acc + a + rsum (b :: t)) by (cbn [rsum] in *; lra).
      destruct (IH (acc + a) x Hrest ltac:(discriminate) Hx') as [H1 H2]. split.
      * cbn [length] in *. lia.
      * cbn [firstn rsum] in *. lra.
    + cbn [length firstn rsum]. split; [lia|lra].
Qed.

Definition C07_sampler_interval_stmt : Prop :=
  forall (w : list R) (x : R),
    Forall (fun a => 0 <= a) w -> w <> [] -> 0 <= x < rsum w ->
    let i := sample Rops w x in
    (i < length w)%nat /\
    rsum (firstn i w) <= x < rsum (firstn (S i) w) /\
    (* the i-th interval has length w_i, and the selected index has positive weight *)
    rsum (firstn (S i) w) - rsum (firstn i w) = nth i w 0 /\
    0 < nth i w 0.

Lemma rsum_firstn_S (w : list R) : forall i, (i < length w)%nat ->
  rsum (firstn (S i) w) = rsum (firstn i w) + nth i w 0.
Proof.
  induction w as [|a w IH]; intros i Hi; [cbn in Hi; lia|].
  destruct i as [|i].
  - destruct w; cbn [firstn rsum nth]; ring.
  - cbn [length] in Hi.
    change (firstn (S (S i)) (a :: w)) with (a :: firstn (S i) w).
    change (firstn (S i) (a :: w)) with (a :: firstn i w).
    cbn [rsum nth]. rewrite (IH i) by lia. ring.
Qed.

Lemma C07_sampler_interval_proof : C07_sampler_interval_stmt.
Proof.
  intros w x Hpos Hne Hx i. subst i. unfold sample. cbn [f0 Rops].
  destruct (pp_spec w 0 x Hpos Hne ltac:(lra)) as [H1 H2]. cbn zeta in *.
  set (i := partition_point Rops (removelast (cumulative Rops 0 w)) x) in *.
  rewrite !Rplus_0_l in H2. repeat split; try lra; try exact H1.
  - rewrite (rsum_firstn_S w i H1). ring.
  - rewrite (rsum_firstn_S w i H1) in H2. lra.
Qed.

(** ** (c) finite sums over [0, n) *)
Fixpoint sumn (n : nat) (f : nat -> R) : R :=
  match n with O => 0 | S k => sumn k f + f k end.

Lemma sumn_ext n f g : (forall j, (j < n)%nat -> f j = g j) -> sumn n f = sumn n g.
Proof.
  induction n as [|n IH]; intro H; cbn [sumn]; [reflexivity|].
  rewrite IH by (intros; apply H; lia). rewrite (H n) by lia. reflexivity.
Qed.

Lemma sumn_plus n f g : sumn n (fun j => f j + g j) = sumn n f + sumn n g.
Proof. induction n as [|n IH]; cbn [sumn]; [ring|rewrite IH; ring]. Qed.

Lemma sumn_scale n a f : sumn n (fun j => a * f j) = a * sumn n f.
Proof. induction n as [|n IH]; cbn [sumn]; [ring|rewrite IH; ring]. Qed.

Definition delta (i j : nat) : R := if Nat.eqb i j then 1 else 0.

Lemma sumn_delta n i f : (i < n)%nat -> sumn n (fun j => delta i j * f j) = f i.
Proof.
  induction n as [|n IH]; intro Hi; [lia|]. cbn [sumn]. unfold delta at 2.
  destruct (Nat.eqb_spec i n) as [->|Hne].
  - rewrite (sumn_ext n _ (fun _ => 0)); [|intros j Hj; unfold delta; destruct (Nat.eqb_spec n j); [lia|ring]].
    assert (Z : forall m, sumn m (fun _ => 0) = 0) by (induction m; cbn [sumn]; lra). rewrite Z. ring.
  - rewrite IH by lia. ring.
Qed.

Section Histogram.
  Variable n : nat.
  Variable p : nat -> R.         (* probabilities *)
  Variable c : R.                (* number of shots *)
  Hypothesis p_nonneg : forall j, 0 <= p j.
  Hypothesis p_sum : sumn n p = 1.
  Hypothesis c_nonneg : 0 <= c.

  Let s (j : nat) : R := sqrt (p j).
  (** the linear map from the normal draws to the fluctuation of the cells *)
  Definition Amat (i j : nat) : R := sqrt c * (delta i j * s i - p i * s j).

  (** the model's pre-rounding cell value for draws [g] ([n_j = sqrt(p_j) g_j], [S = sum n_j]) *)
  Definition cell_value (g : nat -> R) (i : nat) : R :=
    c * p i + sqrt c * (s i * g i - sumn n (fun j => s j * g j) * p i).

  Lemma cell_linear g i : (i < n)%nat ->
    cell_value g i = c * p i + sumn n (fun j => Amat i j * g j).
  Proof.
    intro Hi. unfold cell_value, Amat. f_equal.
    rewrite (sumn_ext n (fun j => sqrt c * (delta i j * s i - p i * s j) * g j)
                        (fun j => sqrt c * (delta i j * (s i * g j)) + (- (sqrt c * p i)) * (s j * g j)))
      by (intros; cbv beta; ring).
    rewrite sumn_plus, !sumn_scale, (sumn_delta n i (fun j => s i * g j) Hi). ring.
  Qed.

  Lemma s_sq j : s j * s j = p j.
  Proof. unfold s. apply sqrt_sqrt. apply p_nonneg. Qed.

  Lemma cov_identity i k : (i < n)%nat -> (k < n)%nat ->
    sumn n (fun j => Amat i j * Amat k j) = c * (delta i k * p i - p i * p k).
  Proof.
    intros Hi Hk. unfold Amat.
    rewrite (sumn_ext n _ (fun j =>
               (c * s i * s k) * (delta i j * delta k j)
               + (- (c * s i * p k)) * (delta i j * s j)
               + (- (c * p i * s k)) * (delta k j * s j)
               + (c * p i * p k) * (s j * s j))).
    2:{ intros j _. assert (Hc := sqrt_sqrt c c_nonneg).
        replace (sqrt c * (delta i j * s i - p i * s j) * (sqrt c * (delta k j * s k - p k * s j)))
          with ((sqrt c * sqrt c) * ((delta i j * s i - p i * s j) * (delta k j * s k - p k * s j))) by ring.
        rewrite Hc. ring. }
    rewrite !sumn_plus, !sumn_scale.
    rewrite (sumn_delta n i (fun j => delta k j) Hi), (sumn_delta n i s Hi), (sumn_delta n k s Hk).
    rewrite (sumn_ext n (fun j => s j * s j) p) by (intros; apply s_sq). rewrite p_sum.
    unfold delta. rewrite (Nat.eqb_sym k i).
    destruct (Nat.eqb_spec i k) as [->|Hne].
    - generalize (s_sq k). intro Hs. nra.
    - generalize (s_sq i) (s_sq k). intros. nra.
  Qed.
End Histogram.

Definition C07_histogram_moments_stmt : Prop :=
  forall (n : nat) (p : nat -> R) (c : R),
    (forall j, 0 <= p j) -> sumn n p = 1 -> 0 <= c ->
    (* the pre-rounding cell value is affine in the draws: mean c p_i when E g = 0 ... *)
    (forall g i, (i < n)%nat -> cell_value n p c g i = c * p i + sumn n (fun j => Amat p c i j * g j)) /\
    (* ... and for independent standard normal draws its covariance A A^T is the multinomial one *)
    (forall i k, (i < n)%nat -> (k < n)%nat ->
       sumn n (fun j => Amat p c i j * Amat p c k j) = c * (delta i k * p i - p i * p k)).

Lemma C07_histogram_moments_proof : C07_histogram_moments_stmt.
Proof.
  intros n p c Hp Hs Hc. split.
  - intros g i Hi. apply cell_linear. exact Hi.
  - intros i k Hi Hk. apply cov_identity; assumption.
Qed.
