(** * C09T4: the documented one-qubit matrices are qelib1.inc's definitions in terms of
    U(theta, phi, lambda):  x = u3(pi,0,pi), y = u3(pi,pi/2,pi/2), z = u1(pi), h = u2(0,pi), s = u1(pi/2),
    sdg = u1(-pi/2), t = u1(pi/4), tdg = u1(-pi/4), rx(a) = u3(a,-pi/2,pi/2), ry(a) = u3(a,0,0),
    rz(a) = u1(a) up to the phase e^{-ia/2};  u2(phi,lambda) = U(pi/2,phi,lambda), u1(lambda) = U(0,0,lambda) *)
From Coq Require Import Reals Lra Lia Nsatz.
From QV Require Import Spec ScalarR Form2P DftP C09T2.
Open Scope R_scope.

Definition C09_qelib1_stmt : Prop :=
  doc_x Rops = qelib_u PI 0 PI /\
  doc_y Rops = qelib_u PI (PI / 2) (PI / 2) /\
  doc_z Rops = qelib_u 0 0 PI /\
  doc_h Rops = qelib_u (PI / 2) 0 PI /\
  doc_s Rops = qelib_u 0 0 (PI / 2) /\
  doc_sdg Rops = qelib_u 0 0 (- (PI / 2)) /\
  doc_t Rops = qelib_u 0 0 (PI / 4) /\
  doc_tdg Rops = qelib_u 0 0 (- (PI / 4)) /\
  (forall a, doc_rx Rops a = qelib_u a (- (PI / 2)) (PI / 2)) /\
  (forall a, doc_ry Rops a = qelib_u a 0 0) /\
  (forall a, doc_rz Rops a = msc (cisR (- (a / 2))) (qelib_u 0 0 a)).

Lemma half0 : 0 / 2 = 0. Proof. field. Qed.
Lemma add00 : 0 + 0 = 0. Proof. ring. Qed.
Lemma sqrt2_inv : / sqrt 2 = 1 / sqrt 2. Proof. unfold Rdiv. ring. Qed.

Ltac unq := unfold qelib_u, doc_x, doc_y, doc_z, doc_h, doc_s, doc_sdg, doc_t, doc_tdg, doc_rx, doc_ry, doc_rz,
  msc, m2_00, m2_01, m2_10, m2_11, cisR, cosh, sinh, rC, iC.
Ltac trig := rewrite ?half0, ?add00, ?Rplus_0_l, ?Rplus_0_r, ?cos_neg, ?sin_neg, ?cos_0, ?sin_0, ?cos_PI, ?sin_PI,
  ?cos_PI2, ?sin_PI2, ?cos_PI4, ?sin_PI4.
Ltac fin := cx; cbn [fcos fsin fdiv f2 f0 f1 fneg fisq2 Rops fst snd];
  repeat (apply pair_equal_spec; split); try ring; try (unfold Rdiv; ring).

Lemma C09_qelib1_proof : C09_qelib1_stmt.
Proof.
  assert (Q : PI / 2 / 2 = PI / 4) by field.
  assert (S2 : sqrt 2 <> 0) by (apply Rgt_not_eq, Rlt_gt, sqrt_lt_R0; lra).
  repeat split.
  - unq. trig. fin.
  - unq. replace (PI / 2 + PI / 2) with PI by field. trig. fin.
  - unq. trig. fin.
  - unq. rewrite Q. trig. fin; field; exact S2.
  - unq. trig. fin.
  - unq. trig. fin.
  - unq. trig. fin; field; exact S2.
  - unq. trig. fin; field; exact S2.
  - intro a. unq. replace (- (PI / 2) + PI / 2) with 0 by field. trig. fin.
  - intro a. unq. trig. fin.
  - intro a. unq. trig.
    replace (cos a) with (cos (a / 2 + a / 2)) by (f_equal; field).
    replace (sin a) with (sin (a / 2 + a / 2)) by (f_equal; field).
    rewrite cos_plus, sin_plus.
    generalize (sin2_cos2 (a / 2)). unfold Rsqr. set (c := cos (a / 2)). set (d := sin (a / 2)). intro H.
    cx. cbn [fcos fsin fdiv f2 f0 f1 fneg Rops fst snd]. fold c d.
    repeat (apply pair_equal_spec; split); first [ring | nsatz].
Qed.
