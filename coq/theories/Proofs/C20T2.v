(** * C20T2: views of a register with a past.

    [get_vreg_by] consults the register's cached mask, not its size.  Along every history of gate
    applications, measurements and resizes (growing, shrinking, any order) the cached mask is the
    mask of the current size, so a view by [mask] is refused exactly when the mask reaches a qubit
    the register does not have -- however the register came to its size. *)
From Coq Require Import Reals Lia List.
From QV Require Import Bits CVReg Reg ScalarR BitsIterP C14T C05T C20T.
Import ListNotations.
Open Scope N_scope.

Lemma ldiff_ones_zero (m n : N) : N.ldiff m (N.ones n) = 0 <-> m < 2 ^ n.
Proof.
  rewrite N.ldiff_ones_r, N.shiftl_eq_0_iff, N.shiftr_div_pow2.
  split; intro H.
  - apply N.div_small_iff in H; [exact H|]. apply N.pow_nonzero. lia.
  - apply N.div_small. exact H.
Qed.

Definition C20_views_history_stmt : Prop :=
  forall (acts : list act) (r : qreg R) (mask : N),
    Inv r -> admissible_u_all r acts -> mask < 2 ^ 64 ->
    let r' := fold_left step acts r in
    (* refused exactly when the mask has a bit at or above the register's current size *)
    (get_vreg_by (q_mask r') mask = None <-> 2 ^ q_num r' <= mask) /\
    (* and otherwise the view lists exactly the mask's bits, ascending *)
    (mask < 2 ^ q_num r' -> get_vreg_by (q_mask r') mask = Some (Some (scan64 mask))) /\
    (* the full view is the register's size worth of bits *)
    (q_num r' < 64 -> vreg_of_mask (q_mask r') = Some (scan64 (N.ones (q_num r')))).

Lemma C20_views_history_proof : C20_views_history_stmt.
Proof.
  intros acts r mask HI Ha Hm. cbv zeta.
  assert (HI' := C05_invariant_proof acts r HI Ha).
  destruct HI' as [[_ Hmask] _]. set (r' := fold_left step acts r) in *.
  assert (Hw : wrap mask = mask) by (rewrite wrap_mod; apply N.mod_small; exact Hm).
  unfold mask_n in Hmask.
  split; [|split].
  - destruct (C20_vreg_proof mask (q_mask r')) as [_ [_ [_ Hv]]]. rewrite Hv, Hw, Hmask.
    split; intro H.
    + apply N.le_ngt. intro L. apply H. apply ldiff_ones_zero. exact L.
    + intro E. apply ldiff_ones_zero in E. lia.
  - intro L. unfold get_vreg_by. rewrite Hw, Hmask.
    destruct (N.eqb_spec (N.ldiff mask (N.ones (q_num r'))) 0) as [E|E]; cbn [negb].
    + unfold vreg_of_mask. rewrite bits_iter_list_spec, Hw. reflexivity.
    + exfalso. apply E. apply ldiff_ones_zero. exact L.
  - intro L. rewrite Hmask. unfold vreg_of_mask. rewrite bits_iter_list_spec. f_equal. f_equal.
    rewrite wrap_mod. apply N.mod_small. rewrite N.ones_equiv.
    assert (2 ^ q_num r' < 2 ^ 64) by (apply N.pow_lt_mono_r; lia). lia.
Qed.
