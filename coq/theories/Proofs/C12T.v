(** * C12T: the interpreter is total -- it never runs out of fuel (name stripping, bit iteration,
    macro expansion incl. mutual recursion terminate) and never takes a panicking branch.

    The model starts at the AST: the external lexer / parser / expression parser are outside it. *)
From Coq Require Import Reals Lra Lia String Ascii ZArith.
From QV Require Import Interp InterpP Spec ScalarR BitsP BitsIterP OpP C15T C10T.
Open Scope N_scope.
Open Scope string_scope.
Open Scope list_scope.

Section Total.
  Context {F : Type} (OP : ops F).
  Local Notation multi := (multi F).

  (** a result that is not an out-of-fuel panic *)
  Definition fuel_ok {A} (r : ires A) : Prop := r <> IPanic 2.

  Lemma of_op_fuel_ok (o : option multi) : fuel_ok (of_op o).
  Proof. destruct o; discriminate. Qed.

  Lemma gate_any_fuel_ok name mk (regs : list N) (args : list F) :
    (forall r, fuel_ok (mk r)) -> fuel_ok (gate_any name mk regs args).
  Proof. intro H. unfold gate_any. destruct (N.eqb _ 0); [discriminate|]. destruct (negb _); [discriminate|apply H]. Qed.
  Lemma gate_2_fuel_ok name mk (regs : list N) (args : list F) :
    (forall r, fuel_ok (mk r)) -> fuel_ok (gate_2 name mk regs args).
  Proof. intro H. unfold gate_2. destruct (negb _); [discriminate|]. destruct (negb _); [discriminate|apply H]. Qed.
  Lemma gate_r_fuel_ok name k (mk : F -> N -> ires multi) (regs : list N) (args : list F) :
    (forall a r, fuel_ok (mk a r)) -> fuel_ok (gate_r name k mk regs args).
  Proof.
    intro H. unfold gate_r. destruct (negb _); [discriminate|].
    destruct args as [|a [|b t]]; try discriminate. apply H.
  Qed.

  Lemma gate_table_fuel_ok name regs args : fuel_ok (gate_table OP name regs args).
  Proof.
    unfold gate_table.
    repeat match goal with
           | |- fuel_ok (if ?c then _ else _) => destruct c
           end;
      try (apply gate_any_fuel_ok; intro; try discriminate; apply of_op_fuel_ok);
      try (apply gate_r_fuel_ok; intros; apply of_op_fuel_ok);
      try (apply gate_2_fuel_ok; intros; apply of_op_fuel_ok);
      try discriminate.
    - unfold gate_u2. destruct (negb _); [discriminate|]. destruct args as [|a [|b [|c t]]]; try discriminate. apply of_op_fuel_ok.
    - unfold gate_u3. destruct (negb _); [discriminate|]. destruct args as [|a [|b [|c [|d t]]]]; try discriminate. apply of_op_fuel_ok.
  Qed.

  (** stripping leading c's terminates: the fuel (name length + 1) is never exhausted *)
  Lemma gates_process_from_fuel_ok fuel : forall name regs args,
    (String.length name < fuel)%nat -> fuel_ok (gates_process_from OP fuel name regs args).
  Proof.
    induction fuel as [|fuel IH]; intros name regs args Hl; [lia|].
    cbn [gates_process_from]. destruct (starts_with_c name) eqn:Hc; [|apply gate_table_fuel_ok].
    destruct regs as [|ctrl rest]; [discriminate|].
    destruct name as [|a stem]; [discriminate|]. cbn [Interp.tail].
    destruct (is_name stem "u1" "U1");
      match goal with
      | |- fuel_ok (match ?x with _ => _ end) =>
          let Hi := fresh "Hi" in
          assert (Hi : fuel_ok x);
          [ first [ apply gate_r_fuel_ok; intros; apply of_op_fuel_ok
                  | apply IH; cbn [String.length] in Hl; lia ]
          | destruct x as [o|e|w];
            [destruct (multi_c o ctrl); discriminate|destruct e; discriminate|exact Hi] ]
      end.
  Qed.

  Lemma gates_process_fuel_ok name regs args : fuel_ok (gates_process OP name regs args).
  Proof. unfold gates_process. destruct (negb _); [discriminate|]. apply gates_process_from_fuel_ok. lia. Qed.

  Lemma ibind_fuel_ok {A B} (r : ires A) (k : A -> ires B) :
    fuel_ok r -> (forall a, fuel_ok (k a)) -> fuel_ok (ibind r k).
  Proof.
    intros Hr Hk. destruct r as [a|e|w]; cbn [ibind]; [apply Hk|discriminate|].
    unfold fuel_ok in *. intro H. apply Hr. injection H as ->. reflexivity.
  Qed.

  Lemma imap_fuel_ok {A B} (f : A -> ires B) l : (forall x, fuel_ok (f x)) -> fuel_ok (imap f l).
  Proof.
    intro H. induction l as [|x t IH]; cbn [imap]; [discriminate|].
    apply ibind_fuel_ok; [apply H|]. intro y. apply ibind_fuel_ok; [exact IH|]. intros; discriminate.
  Qed.

  (** macro expansion terminates, mutual recursion included: with the nesting-depth guard the
      fuel [length macros + 2] is never exhausted *)
  Lemma macro_process_fuel_ok macros fuel : forall depth m name regs args,
    (fuel + depth = S (S (length macros)))%nat -> (depth <= length macros)%nat ->
    fuel_ok (macro_process OP fuel macros depth m name regs args).
  Proof.
    induction fuel as [|fuel IH]; intros depth m name regs args Hf Hd; [lia|].
    cbn [macro_process].
    destruct (Nat.leb_spec (length macros) depth) as [L|L]; [discriminate|].
    destruct (negb _); [discriminate|]. destruct (negb _); [discriminate|].
    generalize (@nil (single F)) as acc. induction (m_body m) as [|[[name_i regs_i] args_i] rest IHb]; intro acc; [discriminate|].
    apply ibind_fuel_ok.
    { apply imap_fuel_ok. intro a. destruct (lookup _ _); discriminate. }
    intro regs_v. apply ibind_fuel_ok.
    { apply imap_fuel_ok. intro e. destruct (peval OP _ e); discriminate. }
    intro args_v. apply ibind_fuel_ok; [|intro o; apply IHb].
    destruct (lookup name_i macros) as [m'|]; [|apply gates_process_fuel_ok].
    destruct (String.eqb name name_i); [discriminate|]. apply IH; lia.
  Qed.

  Lemma resolve_fuel_ok regs a missing : fuel_ok (resolve regs a missing).
  Proof.
    destruct a as [alias idx|alias]; cbn [resolve]; destruct (N.eqb _ 0); try discriminate.
    rewrite nth_bit_spec. cbn [ibind]. destruct (nth_error _ _); discriminate.
  Qed.

  Lemma process_apply_fuel_ok base ch name regs args : fuel_ok (process_apply OP base ch name regs args).
  Proof.
    unfold process_apply. apply ibind_fuel_ok; [apply imap_fuel_ok; intro; apply resolve_fuel_ok|].
    intro rv. apply ibind_fuel_ok; [apply imap_fuel_ok; intro e; destruct (peval OP [] e); discriminate|].
    intro av. apply ibind_fuel_ok; [|intros; discriminate].
    destruct (lookup name _) as [m|]; [|apply gates_process_fuel_ok].
    apply macro_process_fuel_ok; unfold MACRO_FUEL; lia.
  Qed.

  Lemma check_fuel_ok : (forall a, fuel_ok (check_ident a)) /\ (forall a n, fuel_ok (check_reg_size a n)) /\
                        (forall (b c : @int F) a, fuel_ok (check_dup b c a)).
  Proof.
    repeat split.
    - intro a. unfold check_ident. destruct (N.leb _ _); discriminate.
    - intros a n. unfold check_reg_size. destruct (N.leb _ _); discriminate.
    - intros b c a. unfold check_dup. repeat (destruct (N.ltb _ _); [discriminate|]). discriminate.
  Qed.

  Lemma macro_new_fuel_ok regs params body : fuel_ok (macro_new OP regs params body).
  Proof.
    unfold macro_new. apply ibind_fuel_ok; [|intros; discriminate]. apply imap_fuel_ok.
    intro n. destruct n; try discriminate. cbn [macro_check_node].
    apply ibind_fuel_ok.
    { induction regs0 as [|[nm idx|nm] t IH]; try discriminate. destruct (mem nm regs); [exact IH|discriminate]. }
    intros _. apply ibind_fuel_ok; [|intros; discriminate].
    induction args as [|e t IH]; [discriminate|]. destruct (peval OP _ e) as [x|[v|f]]; [exact IH|discriminate|discriminate].
  Qed.

  Theorem process_node1_fuel_ok base ch n : fuel_ok (process_node1 OP base ch n).
  Proof.
    destruct check_fuel_ok as [H1 [H2 H3]].
    destruct n as [alias size|alias size|a|a|q c|name regs args| |name regs params body|lhs rhs body]; cbn [process_node1].
    - unfold process_qreg. repeat (apply ibind_fuel_ok; [auto|intro]). discriminate.
    - unfold process_creg. repeat (apply ibind_fuel_ok; [auto|intro]). discriminate.
    - discriminate.
    - apply ibind_fuel_ok; [apply resolve_fuel_ok|intros; discriminate].
    - apply ibind_fuel_ok; [apply resolve_fuel_ok|intro]. apply ibind_fuel_ok; [apply resolve_fuel_ok|intro].
      destruct (negb _); discriminate.
    - apply process_apply_fuel_ok.
    - discriminate.
    - unfold process_gate. apply ibind_fuel_ok; [apply macro_new_fuel_ok|intro m].
      destruct (_ || _)%bool; [discriminate|]. apply ibind_fuel_ok; [auto|intros; discriminate].
    - destruct body; try discriminate.
      apply ibind_fuel_ok; [apply resolve_fuel_ok|intro]. apply ibind_fuel_ok; [apply process_apply_fuel_ok|intros; discriminate].
  Qed.

  Theorem process_nodes_fuel_ok nodes : forall base ch, fuel_ok (process_nodes OP base ch nodes).
  Proof.
    induction nodes as [|n rest IH]; intros base ch; cbn [process_nodes]; [discriminate|].
    apply ibind_fuel_ok; [apply process_node1_fuel_ok|intro; apply IH].
  Qed.
End Total.

(** for every scalar instance, every AST (identifiers arbitrary strings -- empty stems, one-letter
    names, non-ASCII bytes), every interpreter state: interpreting never runs out of fuel, so stripping
    leading c's, walking bit masks and expanding (mutually) recursive gate definitions all terminate *)
Definition C12_terminates_stmt : Prop :=
  forall (F : Type) (OP : ops F) (base ch : @int F) (nodes : list (@node F)),
    process_nodes OP base ch nodes <> IPanic 2 /\
    (forall i, fst (add_ast OP i nodes) <> IPanic 2) /\
    (* mutual recursion is reported, not followed: a chain longer than the number of macros is refused *)
    (forall macros m name regs args depth, (length macros <= depth)%nat ->
       macro_process OP (MACRO_FUEL macros) macros depth m name regs args = IErr (RecursiveMacro name)).

Lemma C12_terminates_proof : C12_terminates_stmt.
Proof.
  intros F OP base ch nodes. repeat split.
  - apply process_nodes_fuel_ok.
  - intro i. unfold add_ast, ast_changes. generalize (process_nodes_fuel_ok OP nodes int_empty i).
    destruct (process_nodes OP int_empty i nodes); cbn [ibind fst]; intro H; try discriminate.
    intro E. apply H. injection E as ->. reflexivity.
  - intros macros m name regs args depth H. unfold MACRO_FUEL. cbn [macro_process].
    destruct (Nat.leb_spec (length macros) depth); [reflexivity|lia].
Qed.

(** the constructors never take their panicking branch once the interpreter's arity checks have
    passed (real instance): the documented [expect("Mask should contain k bit!")] is unreachable *)
Definition C12_no_constructor_panic_stmt : Prop :=
  forall (t p l : R) (m : N),
    (popcount m = 1%N ->
       op_rx Rops t m <> None /\ op_ry Rops t m <> None /\ op_rz Rops t m <> None /\ op_u1 Rops l m <> None /\
       op_u2 Rops p l m <> None /\ op_u3 Rops t p l m <> None /\ op_phase_shift Rops l m <> None) /\
    (popcount m = 2%N ->
       op_rxx Rops t m <> None /\ op_ryy Rops t m <> None /\ op_rzz Rops t m <> None /\ op_swap Rops m <> None /\
       op_sqrt_swap Rops m <> None /\ op_i_swap Rops m <> None /\ op_sqrt_i_swap Rops m <> None) /\
    op_h m <> (@None (multi R)).

Lemma lift_checked_not_none (g : atomic R) : is_valid Rops g = true -> lift (checked Rops g) <> None.
Proof. intro H. rewrite (lift_checked_some Rops g H). discriminate. Qed.

Lemma C12_no_constructor_panic_proof : C12_no_constructor_panic_stmt.
Proof.
  intros t p l m. split; [|split].
  - intro H. assert (V : forall g, is_valid Rops g = N.eqb (popcount m) 1 -> lift (checked Rops g) <> None)
      by (intros g Hg; apply lift_checked_not_none; rewrite Hg, H; reflexivity).
    assert (Hrz : forall x, op_rz Rops x m <> None) by (intro; apply V; reflexivity).
    assert (Hry : forall x, op_ry Rops x m <> None) by (intro; apply V; reflexivity).
    repeat split; try (apply V; reflexivity); try apply Hrz.
    + unfold op_u2. destruct (op_rz Rops l m) eqn:E1; [|exfalso; eapply Hrz; exact E1].
      destruct (op_ry Rops (fdiv Rops (fpi Rops) (f2 Rops)) m) eqn:E2; [|exfalso; eapply Hry; exact E2].
      destruct (op_rz Rops p m) eqn:E3; [|exfalso; eapply Hrz; exact E3]. discriminate.
    + unfold op_u3. destruct (op_rz Rops l m) eqn:E1; [|exfalso; eapply Hrz; exact E1].
      destruct (op_ry Rops t m) eqn:E2; [|exfalso; eapply Hry; exact E2].
      destruct (op_rz Rops p m) eqn:E3; [|exfalso; eapply Hrz; exact E3]. discriminate.
    + destruct (popcount1_onehot m H) as [i ->]. rewrite op_phase_shift_onehot. discriminate.
  - intro H. assert (V : forall g, is_valid Rops g = N.eqb (popcount m) 2 -> lift (checked Rops g) <> None)
      by (intros g Hg; apply lift_checked_not_none; rewrite Hg, H; reflexivity).
    repeat split; apply V; reflexivity.
  - unfold op_h. destruct (popcount m) as [|[q|q|]]; try discriminate; rewrite walk_bits_spec; discriminate.
Qed.
