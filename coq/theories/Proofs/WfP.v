(** * WfP: every operator that can be built from the public gate set is well formed
    (each element's recorded target mask is its kernel's support). *)
From Coq Require Import Lia.
From QV Require Import Spec Expr BitsP OpP LocalP.
Open Scope N_scope.

Section Wf.
  Context {F : Type} (OP : ops F).
  Local Notation wf_multi := (Forall (@wf_single F)).

  Lemma wf_single_of (g : atomic F) : (forall a b u, g <> AU2 a b u) -> wf_single (single_of g).
  Proof. intros H. unfold wf_single, single_of. cbn [s_act s_func]. destruct g; try reflexivity. exfalso. eapply H. reflexivity. Qed.

  Lemma wf_multi_of_single s : wf_single s -> wf_multi (multi_of_single s).
  Proof.
    intro H. unfold multi_of_single. destruct (s_func s); try (constructor; [exact H|constructor]).
    destruct (N.eqb (s_ctrl s) 0); constructor; [exact H|constructor].
  Qed.

  Lemma wf_one (g : atomic F) : (forall a b u, g <> AU2 a b u) -> wf_multi (multi_of_single (single_of g)).
  Proof. intro H. apply wf_multi_of_single, wf_single_of, H. Qed.

  Lemma wf_lift_checked (g : atomic F) q : (forall a b u, g <> AU2 a b u) ->
    lift (checked OP g) = Some q -> wf_multi q.
  Proof.
    intros Hg H. unfold lift, checked in H. destruct (is_valid OP g); [|discriminate].
    injection H as <-. apply wf_one, Hg.
  Qed.

  Lemma wf_app p q : wf_multi p -> wf_multi q -> wf_multi (p ++ q).
  Proof. intros. apply Forall_app. split; assumption. Qed.

  Lemma wf_opt_app a b q : opt_app a b = Some q ->
    (forall x, a = Some x -> wf_multi x) -> (forall y, b = Some y -> wf_multi y) -> wf_multi q.
  Proof.
    unfold opt_app. destruct a as [x|], b as [y|]; try discriminate. intros H Ha Hb.
    injection H as <-. apply wf_app; [apply Ha|apply Hb]; reflexivity.
  Qed.

  Lemma support_dgr g : support (atomic_dgr OP g) = support g.
  Proof. destruct g; reflexivity. Qed.

  Lemma wf_dgr q : wf_multi q -> wf_multi (multi_dgr OP q).
  Proof.
    intro H. unfold multi_dgr. apply Forall_rev. apply Forall_map.
    eapply Forall_impl; [|exact H]. intros s Hs. unfold wf_single, single_dgr in *. cbn [s_act s_func].
    rewrite support_dgr. exact Hs.
  Qed.

  Lemma wf_c q c q' : wf_multi q -> multi_c q c = Some q' -> wf_multi q'.
  Proof.
    intros H Hc. unfold multi_c in Hc. destruct (negb _); [discriminate|]. injection Hc as <-.
    apply Forall_map. eapply Forall_impl; [|exact H]. intros s Hs. exact Hs.
  Qed.

  Lemma wf_h_pairs l : wf_multi (h_pairs l).
  Proof.
    revert l. fix IH 1. intros [|a [|b l]]; cbn [h_pairs].
    - constructor.
    - constructor; [reflexivity|constructor].
    - constructor; [reflexivity|apply IH].
  Qed.

  Lemma wf_op_h m q : op_h m = Some q -> wf_multi q.
  Proof.
    unfold op_h. destruct (popcount m) as [|[p|p|]].
    - intro H. injection H as <-. constructor.
    - destruct (walk_bits FUEL m 1); [|discriminate]. intro H. injection H as <-. apply wf_h_pairs.
    - destruct (walk_bits FUEL m 1); [|discriminate]. intro H. injection H as <-. apply wf_h_pairs.
    - intro H. injection H as <-. apply wf_one. discriminate.
  Qed.

  Ltac not_u2 := let a := fresh in let b := fresh in let u := fresh in intros a b u; discriminate.

  Lemma wf_phase_shift l m q : op_phase_shift OP l m = Some q -> wf_multi q.
  Proof. apply wf_lift_checked. not_u2. Qed.

  Lemma wf_qft_rots c ts : forall j q, qft_rots OP c ts j = Some q -> wf_multi q.
  Proof.
    induction ts as [|t ts IH]; intros j q H; cbn [qft_rots] in H.
    - injection H as <-. constructor.
    - eapply wf_opt_app; [exact H| |].
      + intros x Hx. unfold opt_c in Hx. destruct (op_phase_shift OP _ t) eqn:E; [|discriminate].
        eapply wf_c; [|exact Hx]. eapply wf_phase_shift. exact E.
      + intros y Hy. eapply IH. exact Hy.
  Qed.

  Lemma wf_qft_stages bs : forall q, qft_stages OP bs = Some q -> wf_multi q.
  Proof.
    induction bs as [|b bs IH]; intros q H.
    - cbn in H. injection H as <-. constructor.
    - destruct bs as [|b2 bs].
      + cbn [qft_stages] in H. eapply wf_op_h. exact H.
      + change (qft_stages OP (b :: b2 :: bs)) with
          (opt_app (opt_app (op_h b) (qft_rots OP b (b2 :: bs) 1)) (qft_stages OP (b2 :: bs))) in H.
        eapply wf_opt_app; [exact H| |].
        * intros x Hx. eapply wf_opt_app; [exact Hx| |].
          -- intros y Hy. eapply wf_op_h. exact Hy.
          -- intros y Hy. eapply wf_qft_rots. exact Hy.
        * intros y Hy. apply IH. exact Hy.
  Qed.

  Lemma wf_op_qft m q : op_qft OP m = Some q -> wf_multi q.
  Proof.
    unfold op_qft. destruct (popcount m) as [|[p|p|]]; intro H.
    - injection H as <-. constructor.
    - eapply wf_qft_stages. exact H.
    - eapply wf_qft_stages. exact H.
    - eapply wf_op_h. exact H.
  Qed.

  Lemma wf_swap_pairs k : forall l q, swap_pairs OP l k = Some q -> wf_multi q.
  Proof.
    induction k as [|k IH]; intros l q H; cbn [swap_pairs] in H.
    - injection H as <-. constructor.
    - destruct l as [|a rest]; [injection H as <-; constructor|].
      destruct (rev rest) as [|z mid]; [injection H as <-; constructor|].
      eapply wf_opt_app; [exact H| |].
      + intros x Hx. unfold op_swap in Hx. eapply wf_lift_checked; [|exact Hx]. not_u2.
      + intros y Hy. eapply IH. exact Hy.
  Qed.

  Lemma wf_op_qft_swapped m q : op_qft_swapped OP m = Some q -> wf_multi q.
  Proof.
    unfold op_qft_swapped. destruct (walk_bits FUEL m 1); [|discriminate]. intro H.
    eapply wf_opt_app; [exact H| |].
    - intros x Hx. eapply wf_swap_pairs. exact Hx.
    - intros y Hy. eapply wf_op_qft. exact Hy.
  Qed.

  Lemma wf_of_opt k (o : option (multi F)) q : of_opt k o = ROk q -> o = Some q.
  Proof. unfold of_opt. destruct o; intro H; [injection H as <-; reflexivity|discriminate]. Qed.

  Lemma wf_u123 a b c q :
    opt_app (opt_app (lift (checked OP a)) (lift (checked OP b))) (lift (checked OP c)) = Some q ->
    (forall x y u, a <> AU2 x y u) -> (forall x y u, b <> AU2 x y u) -> (forall x y u, c <> AU2 x y u) ->
    wf_multi q.
  Proof.
    intros H Ha Hb Hc. eapply wf_opt_app; [exact H| |].
    - intros x Hx. eapply wf_opt_app; [exact Hx| |]; intros y Hy; eapply wf_lift_checked; try exact Hy; assumption.
    - intros y Hy. eapply wf_lift_checked; [|exact Hy]. assumption.
  Qed.

  Theorem eval_wf (e : opexpr F) : forall q, eval OP e = ROk q -> wf_multi q.
  Proof.
    induction e; intros q H; cbn [eval] in H;
      try (apply wf_of_opt in H).
    - injection H as <-. constructor.
    - injection H as <-. apply wf_one. not_u2.
    - injection H as <-. apply wf_one. not_u2.
    - injection H as <-. apply wf_one. not_u2.
    - injection H as <-. apply wf_one. not_u2.
    - injection H as <-. apply wf_one. not_u2.
    - eapply wf_op_h; exact H.
    - eapply wf_lift_checked; [|exact H]; not_u2.
    - eapply wf_lift_checked; [|exact H]; not_u2.
    - eapply wf_lift_checked; [|exact H]; not_u2.
    - eapply wf_lift_checked; [|exact H]; not_u2.
    - eapply wf_lift_checked; [|exact H]; not_u2.
    - eapply wf_lift_checked; [|exact H]; not_u2.
    - eapply wf_lift_checked; [|exact H]; not_u2.
    - eapply wf_lift_checked; [|exact H]; not_u2.
    - eapply wf_lift_checked; [|exact H]; not_u2.
    - eapply wf_lift_checked; [|exact H]; not_u2.
    - eapply wf_lift_checked; [|exact H]; not_u2.
    - eapply wf_u123; [exact H| | |]; not_u2.
    - eapply wf_u123; [exact H| | |]; not_u2.
    - eapply wf_op_qft; exact H.
    - eapply wf_op_qft_swapped; exact H.
    - destruct (eval OP e1) as [x| |]; try discriminate.
      destruct (eval OP e2) as [y| |]; try discriminate.
      injection H as <-. apply wf_app; [apply IHe1|apply IHe2]; reflexivity.
    - destruct (eval OP e) as [x| |]; try discriminate. injection H as <-. apply wf_dgr, IHe. reflexivity.
    - destruct (eval OP e) as [x| |]; try discriminate.
      destruct (multi_c x m) eqn:E; [|discriminate]. injection H as <-.
      eapply wf_c; [|exact E]. apply IHe. reflexivity.
  Qed.
End Wf.
