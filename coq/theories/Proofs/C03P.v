(** * C03P: kernel-level inverses: [kernel (dgr g) (kernel g psi) = psi] and the converse *)
From Coq Require Import Reals Lra Lia Nsatz.
From QV Require Import Spec ScalarR BitsP OpP LocalP C01P.
Open Scope R_scope.

Lemma lxor_twice idx m : N.lxor (N.lxor idx m) m = idx.
Proof. rewrite N.lxor_assoc, N.lxor_nilpotent. apply N.lxor_0_r. Qed.

Lemma testbit_lxor_pow2 idx b : N.testbit (N.lxor idx (2 ^ b)) b = negb (N.testbit idx b).
Proof. rewrite N.lxor_spec, pow2_bits, N.eqb_refl. apply xorb_true_r. Qed.

Lemma land_eq0_flip idx b :
  N.eqb (N.land (N.lxor idx (2 ^ b)) (2 ^ b)) 0 = negb (N.eqb (N.land idx (2 ^ b)) 0).
Proof. rewrite !land_pow2_eq0, testbit_lxor_pow2. reflexivity. Qed.

Lemma odd_flip1 idx b :
  odd_bits (N.land (N.lxor idx (2 ^ b)) (2 ^ b)) = negb (odd_bits (N.land idx (2 ^ b))).
Proof. rewrite !odd_bits_land_pow2, testbit_lxor_pow2. reflexivity. Qed.

Lemma odd_flip2 idx a b : a <> b ->
  let m := N.lor (2 ^ a) (2 ^ b) in
  odd_bits (N.land (N.lxor idx m) m) = odd_bits (N.land idx m).
Proof.
  intros H m. subst m. rewrite !odd_bits_land_pair by exact H.
  rewrite !lxor_pair_bits, !N.eqb_refl.
  assert (E1 : N.eqb b a = false) by (apply N.eqb_neq; congruence).
  assert (E2 : N.eqb a b = false) by (apply N.eqb_neq; congruence).
  rewrite E1, E2. cbn [orb].
  destruct (N.testbit idx a), (N.testbit idx b); reflexivity.
Qed.

(** a unit phasor (cos, sin of anything) *)
Definition unit_phase (ph : C R) : Prop := fst ph * fst ph + snd ph * snd ph = 1.

Lemma half_phase_unit t : unit_phase (half_phase Rops t).
Proof.
  unfold unit_phase, half_phase, cis. cbn [fst snd fcos fsin fdiv f2 Rops].
  generalize (sin2_cos2 (t / 2)). unfold Rsqr. lra.
Qed.
Lemma half_phase_mul_unit t : unit_phase (half_phase_mul Rops t).
Proof.
  unfold unit_phase, half_phase_mul, cis. cbn [fst snd fcos fsin fmul fhalf Rops].
  generalize (sin2_cos2 (t * / 2)). unfold Rsqr. lra.
Qed.
Lemma conj_unit ph : unit_phase ph -> unit_phase (cconj Rops ph).
Proof. unfold unit_phase, cconj, re, im. cbn [fst snd fneg Rops]. lra. Qed.

Lemma isq2_sq : / sqrt 2 * / sqrt 2 = / 2.
Proof.
  rewrite <- Rinv_mult. rewrite sqrt_sqrt by lra. reflexivity.
Qed.

Lemma isq2_sq2 : 2 * (/ sqrt 2 * / sqrt 2) = 1.
Proof. rewrite isq2_sq. lra. Qed.

(** abstract 1/sqrt 2 into an atom [h] with [2 h^2 = 1] (for [nsatz]) *)
Ltac with_h :=
  let Hq := fresh "Hq" in
  pose proof isq2_sq2 as Hq; set (h := / sqrt 2) in *; clearbody h.

Ltac unfK := unfold kernel; unf.

(** [inv g g'] : g' undoes g *)
Definition inv (g g' : atomic R) : Prop :=
  forall (psi : vecR) idx, K g' (K g psi) idx = psi idx.

Ltac fin2 psi := cbv iota; unf; destruct_psis psi; cbn [fst snd]; f_equal.

Section AnyMask.
  Variable m : N.

  Lemma inv_x : inv (AX m) (AX m).
  Proof. intros psi idx. cbn [kernel]. rewrite lxor_twice. reflexivity. Qed.

  Lemma inv_z : inv (AZ m) (AZ m).
  Proof.
    intros psi idx. cbn [kernel]. destruct (odd_bits (N.land idx m)); [|reflexivity].
    unf. destruct (psi idx); cbn [fst snd]; f_equal; ring.
  Qed.

  Lemma inv_rx ph : unit_phase ph -> inv (ARX m ph) (ARX m (cconj Rops ph)).
  Proof.
    intros U psi idx. unfold unit_phase in U. unfK. rewrite lxor_twice.
    destruct ph as [c s]. cbn [fst snd] in *.
    destruct (psi idx) as [x y], (psi (N.lxor idx m)) as [u v]. cbn [fst snd]. f_equal; nsatz.
  Qed.

  Lemma inv_rxx ph : unit_phase ph -> inv (ARXX m ph) (ARXX m (cconj Rops ph)).
  Proof. exact (inv_rx ph). Qed.

  Lemma inv_rz ph : unit_phase ph -> inv (ARZ m ph) (ARZ m (cconj Rops ph)).
  Proof.
    intros U psi idx. unfold unit_phase in U. unfK.
    destruct ph as [c s]. cbn [fst snd] in *.
    destruct (N.eqb (N.land idx m) 0); unf; destruct (psi idx) as [x y]; cbn [fst snd]; f_equal; nsatz.
  Qed.

  Lemma inv_rzz ph : unit_phase ph -> inv (ARZZ m ph) (ARZZ m (cconj Rops ph)).
  Proof.
    intros U psi idx. unfold unit_phase in U. unfK.
    destruct ph as [c s]. cbn [fst snd] in *.
    destruct (odd_bits (N.land idx m)); unf; destruct (psi idx) as [x y]; cbn [fst snd]; f_equal; nsatz.
  Qed.
End AnyMask.

Section OneHot.
  Variable b : N.
  Let m := (2 ^ b)%N.

  Lemma inv_h1 : inv (AH1 m) (AH1 m).
  Proof.
    intros psi idx. unfold kernel. unfold m. rewrite land_eq0_flip, lxor_twice.
    destruct (N.eqb (N.land idx (2 ^ b)) 0); cbn [negb]; unf;
      destruct (psi idx) as [x y], (psi (N.lxor idx (2 ^ b))) as [u v]; cbn [fst snd];
      f_equal; with_h; nsatz.
  Qed.

  Lemma inv_ry ph : unit_phase ph -> inv (ARY m ph) (ARY m (cconj Rops ph)).
  Proof.
    intros U psi idx. unfold unit_phase in U. unfold kernel. unfold m. rewrite land_eq0_flip, lxor_twice.
    destruct ph as [c s]. cbn [fst snd] in *.
    destruct (N.eqb (N.land idx (2 ^ b)) 0); cbn [negb]; unf;
      destruct (psi idx) as [x y], (psi (N.lxor idx (2 ^ b))) as [u v]; cbn [fst snd]; f_equal; nsatz.
  Qed.

  Lemma inv_y : inv (AY m) (AY m).
  Proof.
    intros psi idx. unfold kernel. unfold m. rewrite odd_flip1, lxor_twice, y_ipow_pow2.
    unfold rotate.
    destruct (odd_bits (N.land idx (2 ^ b))); cbn [negb].
    - change (N.testbit (N.lxor 2 (N.ones 32)) 1) with false.
      change (N.testbit (N.lxor 2 (N.ones 32)) 0) with true.
      change (N.testbit (N.lxor (N.lxor 2 (N.ones 32)) 2) 1) with true.
      change (N.testbit (N.lxor (N.lxor 2 (N.ones 32)) 2) 0) with true.
      cbv iota. unf. destruct (psi idx); cbn [fst snd]; f_equal; ring.
    - change (N.testbit (N.lxor 2 (N.ones 32)) 1) with false.
      change (N.testbit (N.lxor 2 (N.ones 32)) 0) with true.
      change (N.testbit (N.lxor (N.lxor 2 (N.ones 32)) 2) 1) with true.
      change (N.testbit (N.lxor (N.lxor 2 (N.ones 32)) 2) 0) with true.
      cbv iota. unf. destruct (psi idx); cbn [fst snd]; f_equal; ring.
  Qed.

  Lemma inv_s d : inv (AS m d) (AS m (negb d)).
  Proof.
    intros psi idx. unfold kernel. unfold m. rewrite !st_count_pow2. unfold rotate.
    destruct (N.testbit idx b), d; cbn [negb];
      try change (N.testbit (neg64 1) 1) with true; try change (N.testbit (neg64 1) 0) with true;
      cbn [N.testbit Pos.testbit]; cbv iota; unf; destruct (psi idx); cbn [fst snd]; f_equal; ring.
  Qed.

  Lemma inv_t d : inv (AT m d) (AT m (negb d)).
  Proof.
    intros psi idx. unfold kernel. unfold m. rewrite !st_count_pow2. unfold rotate.
    destruct (N.testbit idx b), d; cbn [negb];
      try change (N.testbit (neg64 1) 0) with true;
      try change (N.testbit (N.shiftr (neg64 1) 1) 1) with true;
      try change (N.testbit (N.shiftr (neg64 1) 1) 0) with true;
      try change (N.shiftr 1 1) with 0%N; try change (N.shiftr 0 1) with 0%N;
      cbn [N.testbit Pos.testbit]; cbv iota; unf; destruct (psi idx) as [x y]; cbn [fst snd];
      f_equal; with_h; nsatz.
  Qed.

  (** the phase-shift matrix gate diag(1, e^{i lam}) and its conjugate transpose *)
  Lemma inv_phase ph : unit_phase ph ->
    inv (AU1 m [c1 Rops; c0 Rops; c0 Rops; ph]) (AU1 m (m1_dagger Rops [c1 Rops; c0 Rops; c0 Rops; ph])).
  Proof.
    intros U psi idx. unfold unit_phase in U. destruct ph as [c s]. cbn [fst snd] in U.
    unfold kernel, m1_dagger, mget. cbn [nth]. unfold m.
    rewrite !ldiff_pow2, !lor_clear_pow2, !land_pow2_eq0.
    rewrite clearbit_clearbit, setbit_clearbit, clearbit_setbit, setbit_setbit, N.setbit_eq, N.clearbit_eq.
    destruct (N.testbit idx b) eqn:Hb; cbn [negb]; cbv iota.
    - rewrite (setbit_id idx b Hb).
      unf. destruct (psi idx) as [x y], (psi (N.clearbit idx b)) as [u v]; cbn [fst snd]; clear - U; f_equal; nsatz.
    - rewrite (clearbit_id idx b Hb).
      unf. destruct (psi idx) as [x y], (psi (N.setbit idx b)) as [u v]; cbn [fst snd]; f_equal; ring.
  Qed.
End OneHot.

Section PairMask.
  Variables a b : N.
  Hypothesis Hab : a <> b.
  Let m := N.lor (2 ^ a) (2 ^ b).

  Lemma odd_flip_m idx : odd_bits (N.land (N.lxor idx m) m) = odd_bits (N.land idx m).
  Proof. apply odd_flip2. exact Hab. Qed.

  Lemma inv_ryy ph : unit_phase ph -> inv (ARYY m ph) (ARYY m (cconj Rops ph)).
  Proof.
    intros U psi idx. unfold unit_phase in U. unfold kernel. rewrite odd_flip_m, lxor_twice.
    destruct ph as [c s]. cbn [fst snd] in *.
    destruct (odd_bits (N.land idx m)); unf;
      destruct (psi idx) as [x y], (psi (N.lxor idx m)) as [u v]; cbn [fst snd]; f_equal; nsatz.
  Qed.

  Lemma inv_swap : inv (ASwap m) (ASwap m).
  Proof.
    intros psi idx. unfold kernel. rewrite odd_flip_m, lxor_twice.
    destruct (odd_bits (N.land idx m)); reflexivity.
  Qed.

  Lemma inv_iswap d : inv (AISwap m d) (AISwap m (negb d)).
  Proof.
    intros psi idx. unfold kernel. rewrite odd_flip_m, lxor_twice.
    destruct (odd_bits (N.land idx m)); [|reflexivity].
    destruct d; cbn [negb]; unf; destruct (psi idx); cbn [fst snd]; f_equal; ring.
  Qed.

  Lemma inv_sqrt_swap d : inv (ASqrtSwap m d) (ASqrtSwap m (negb d)).
  Proof.
    intros psi idx. unfold kernel. rewrite odd_flip_m, lxor_twice.
    destruct (odd_bits (N.land idx m)); [|reflexivity].
    destruct d; cbn [negb]; unf;
      destruct (psi idx) as [x y], (psi (N.lxor idx m)) as [u v]; cbn [fst snd]; f_equal; lra.
  Qed.

  Lemma inv_sqrt_iswap d : inv (ASqrtISwap m d) (ASqrtISwap m (negb d)).
  Proof.
    intros psi idx. unfold kernel. rewrite odd_flip_m, lxor_twice.
    destruct (odd_bits (N.land idx m)); [|reflexivity].
    destruct d; cbn [negb]; unf;
      destruct (psi idx) as [x y], (psi (N.lxor idx m)) as [u v]; cbn [fst snd]; f_equal; with_h; nsatz.
  Qed.

  (** [H2] on two distinct bits (its dagger is itself) *)
  Lemma inv_h2 : inv (AH2 (2 ^ a) (2 ^ b)) (AH2 (2 ^ a) (2 ^ b)).
  Proof.
    intros psi idx. unfold kernel.
    assert (Eab : forall i, N.lxor i (N.lor (2 ^ a) (2 ^ b)) = N.lxor (N.lxor i (2 ^ a)) (2 ^ b)).
    { intro i. rewrite N.lxor_assoc. f_equal. symmetry. apply N.lxor_lor. apply land_pow2_pow2. exact Hab. }
    assert (Esw : forall i, N.lxor (N.lxor i (2 ^ b)) (2 ^ a) = N.lxor (N.lxor i (2 ^ a)) (2 ^ b)).
    { intro i. rewrite !N.lxor_assoc. f_equal. apply N.lxor_comm. }
    assert (Nab : N.eqb a b = false) by (apply N.eqb_neq; congruence).
    assert (Nba : N.eqb b a = false) by (apply N.eqb_neq; congruence).
    repeat (rewrite ?Eab, ?Esw, ?lxor_twice).
    rewrite !land_pow2_eq0. repeat rewrite N.lxor_spec. rewrite !pow2_bits, !N.eqb_refl, ?Nab, ?Nba.
    set (ia := N.lxor idx (2 ^ a)). set (ib := N.lxor idx (2 ^ b)). set (iab := N.lxor ia (2 ^ b)).
    destruct (N.testbit idx a), (N.testbit idx b); cbn [negb xorb]; unf;
      destruct (psi idx) as [x0 y0], (psi ia) as [x1 y1], (psi ib) as [x2 y2], (psi iab) as [x3 y3];
      cbn [fst snd]; f_equal; lra.
  Qed.
End PairMask.
