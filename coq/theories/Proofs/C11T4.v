(** * C11T4: a comparison value that does not fit the register never matches *)
From Coq Require Import Reals Lra Lia String Ascii ZArith.
From QV Require Import Interp InterpP Sym Reg ScalarR BitsP BitsIterP VecP C14T C20T RegP C06T CVReg C11T.
Open Scope N_scope.
Open Scope list_scope.

(** the bits gathered from [k] upwards stay below bit [k + number of gathered bits] *)
Lemma compact_from_lt ws : forall k value, compact_from ws k value < 2 ^ (k + N.of_nat (length ws)).
Proof.
  induction ws as [|w ws IH]; intros k value; cbn [compact_from length].
  - apply N.neq_0_lt_0, N.pow_nonzero. discriminate.
  - apply lt_pow2_bits. intros j Hj. rewrite N.lor_spec. apply Bool.orb_false_intro.
    + destruct (negb (N.land value w =? 0)); [|apply N.bits_0].
      rewrite N.shiftl_1_l. apply N.pow2_bits_false. lia.
    + specialize (IH (N.succ k) value). apply (proj1 (lt_pow2_bits _ _) IH). lia.
Qed.

(** the number a guarded statement compares with is built from the selected bits only: with [w] bits selected it is
    below [2 ^ w], wherever in the word the register sits *)
Definition selected (c : creg) (cmask : N) : list N := scan64 (N.land (wrap cmask) (c_mask c)).

Lemma get_by_mask_lt c cmask :
  exists got, creg_get_by_mask c cmask = Some got /\ got < 2 ^ N.of_nat (length (selected c cmask)).
Proof.
  unfold creg_get_by_mask, selected. rewrite bits_iter_list_spec.
  exists (compact_from (scan64 (N.land (wrap cmask) (c_mask c))) 0 (c_value c)). split; [reflexivity|].
  generalize (scan64 (N.land (wrap cmask) (c_mask c))). intro ws.
  assert (H := compact_from_lt ws 0 (c_value c)). rewrite N.add_0_l in H. exact H.
Qed.


(** so a comparison value of [2 ^ w] or more (one that the register cannot hold) never matches: the guarded block is
    skipped, in both measurement modes, at every register offset -- no part of the value is dropped or folded back *)
Definition C11_if_unfit_stmt : Prop :=
  forall xor (r : qreg R) (c : creg) o cmask v rest draws,
    2 ^ N.of_nat (length (selected c cmask)) <= v ->
    run xor r c ((o, SIfBranch cmask v) :: rest) draws = run xor r c rest draws.

Lemma C11_if_unfit_proof : C11_if_unfit_stmt.
Proof.
  intros xor r c o cmask v rest draws Hv.
  destruct (get_by_mask_lt c cmask) as [got [Hg Hlt]].
  destruct (C11_if_proof xor r c o cmask v rest draws got Hg) as [H _]. rewrite H.
  destruct (N.eqb_spec got v) as [E|E]; [lia|reflexivity].
Qed.

(** non-vacuity: a two-bit register at bits 60-61 holding 1, compared with 17 = 1 + 2^4 *)
Example C11_if_unfit_example :
  let c := creg_with_state 62 (2 ^ 60) in
  length (selected c (3 * 2 ^ 60)) = 2%nat /\ creg_get_by_mask c (3 * 2 ^ 60) = Some 1 /\ 2 ^ 2 <= 17.
Proof.
  cbv zeta. split; [vm_compute; reflexivity|]. split; [vm_compute; reflexivity|].
  vm_compute. discriminate.
Qed.
