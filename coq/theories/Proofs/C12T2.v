(** * C12T2: an accepted program can always be executed.  Every operator in the block queue of an
    accepted program addresses declared qubits only (so no amplitude index leaves the register's
    buffer), and the run of the simulator is total for every sequence of measurement outcomes. *)
From Coq Require Import Reals Lia String.
From QV Require Import Interp Sym Spec Reg ScalarR BitsP BitsIterP OpP C05T SupportP C05T3 RegP.
Open Scope N_scope.
Open Scope list_scope.

Section Total.
  Context {F : Type} (OP : ops F) (e1 e2 : F).

  Lemma run_blocks_total : forall bl xor r c draws, exists res, run_blocks OP e1 e2 xor r c bl draws = Some res.
  Proof.
    induction bl as [|[o s] bl IH]; intros xor r c draws; cbn [run_blocks].
    - eexists. reflexivity.
    - destruct s as [|qm cm|cmask v|qm].
      + apply IH.
      + destruct (take_draw (apply_block OP r o) qm draws) as [d draws'].
        destruct (reg_measure OP e1 e2 (apply_block OP r o) qm d) as [r2 res].
        rewrite !bits_iter_list_spec. apply IH.
      + unfold creg_get_by_mask. rewrite bits_iter_list_spec. apply IH.
      + destruct (take_draw (apply_block OP r o) qm draws) as [d draws'].
        destruct (reg_measure OP e1 e2 (apply_block OP r o) qm d) as [r2 res]. apply IH.
  Qed.

  Lemma sym_finish_total (s : sym) draws : exists s', sym_finish OP e1 e2 s draws = Some s'.
  Proof.
    unfold sym_finish. destruct (run_blocks_total (blocks (s_ops s)) (s_xor s) (s_q s) (s_c s) draws) as [[[r c] rest] E].
    rewrite E. eexists. reflexivity.
  Qed.
End Total.

Lemma int_new_session ast i : int_new Rops ast = IOk i -> session i.
Proof.
  unfold int_new. destruct (add_ast Rops int_empty ast) as [[u|e|w] i'] eqn:E; try discriminate.
  intro H. injection H as <-. destruct u. exact (S_add int_empty ast i' S_empty E).
Qed.

(** for every interpreter reachable through the public session interfaces ([Int::new], [add_ast],
    [ast_changes] + [append_int], [xor]) *)
Definition C12_accepted_runs_stmt : Prop :=
  (forall ast i, int_new Rops ast = IOk i -> session i) /\
  forall (i : @int R), session i ->
    let M := N.ones (lenN (i_qreg i)) in
    (forall b, In b (blocks (i_ops i)) -> inside (multi_act_on (fst b)) M) /\
    inside (multi_act_on (open (i_ops i))) M /\
    forall draws, exists s', sym_finish Rops E15 E9 (sym_new Rops i) draws = Some s'.

Lemma C12_accepted_runs_proof : C12_accepted_runs_stmt.
Proof.
  split; [exact int_new_session|].
  intros i Hi M. destruct (proj1 session_changes_ok i Hi) as [Hb Ho]. split; [|split].
  - intros b Hin. rewrite Forall_forall in Hb. apply sup_act_on. exact (proj2 (Hb b Hin)).
  - apply sup_act_on. exact (proj2 Ho).
  - intro draws. apply sym_finish_total.
Qed.

(** the run is total at every scalar instance, binary64 included *)
Definition C12_run_total_stmt : Prop :=
  forall (F : Type) (OP : ops F) (e1 e2 : F) (s : @sym F) (draws : list N),
    exists s', sym_finish OP e1 e2 s draws = Some s'.

Lemma C12_run_total_proof : C12_run_total_stmt.
Proof. intros F OP e1 e2 s draws. apply sym_finish_total. Qed.
